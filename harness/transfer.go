package main

// Family transfer (C15): src.Transfer(dst) over source/destination lengths,
// destination capacity, destination forms, LIFO/FIFO, nil elements; random
// cases add a push policy / the no-nesting option on the destination.

import (
	"encoding/json"
	"errors"
	"fmt"
	"reflect"
	"time"

	stk "github.com/JesseCoretta/go-stackage"
)

type TransferInput struct {
	SrcMutex bool   `json:"src_mutex,omitempty"`
	SrcErr   bool   `json:"src_err,omitempty"` // the source carries an error stored earlier (it must still be there afterwards)
	SrcFifo  bool   `json:"src_fifo"`
	Src      []int  `json:"src"`     // element codes as in hist.go
	Form     string `json:"form"`    // native alias ptr ronly zero int nil
	DstCap   int    `json:"dst_cap"` // 0 = none
	DstOpts  int    `json:"dst_opts"`
	DstPol   int    `json:"dst_pol"` // <0 none
	Dst      []int  `json:"dst"`
}

func cfgSnapshot(x any) map[string]any {
	d := stk.VerifDump(x)
	c, _ := d["cfg"].(map[string]any)
	out := map[string]any{}
	for k, v := range c {
		if k == "err" || k == "errset" || k == "ldr" {
			continue
		}
		out[k] = v
	}
	return out
}

func runTransfer(raw json.RawMessage) (res *Result, err error) {
	var in TransferInput
	if err = json.Unmarshal(raw, &in); err != nil {
		return nil, err
	}
	if in.Form == "self" {
		return runSelfTransfer(&in)
	}
	h := &histRun{nested: map[int]any{}}
	var dst stk.Stack
	if in.DstCap > 0 {
		dst = stk.And(in.DstCap)
	} else {
		dst = stk.And()
	}
	// element codes -900..-903: handles of the DESTINATION itself (native, alias,
	// pointer to alias, pointer to native) sitting in the source as ordinary elements
	for _, c := range in.Src {
		if c <= -900 && c >= -903 {
			dst.SetID("s900")
			al := aliasStack(dst)
			h.nested[-900], h.nested[-901], h.nested[-902], h.nested[-903] = dst, aliasStack(dst), &al, &dst
			break
		}
	}
	src := stk.And()
	if in.SrcFifo {
		src.SetFIFO(true)
	}
	var sv []any
	for _, c := range in.Src {
		sv = append(sv, h.val(c))
	}
	src.Push(sv...)
	if in.SrcMutex {
		src.SetMutex()
	}
	if in.SrcErr {
		src.SetErr(errors.New("stale error on the source"))
	}
	var dv []any
	for _, c := range in.Dst {
		dv = append(dv, h.val(c))
	}
	dst.Push(dv...)
	h.s = dst
	if in.DstPol >= 0 {
		dst.SetPushPolicy(h.policy(in.DstPol))
	}
	if in.DstOpts&256 != 0 {
		dst.SetNoNesting(true)
	}
	opts := in.DstOpts
	var dest any
	dstOK := true
	switch in.Form {
	case "native":
		dest = dst
	case "alias":
		dest = aliasStack(dst)
	case "ptr":
		a := aliasStack(dst)
		dest = &a
	case "nptr": // pointer to the native Stack
		dest = &dst
	case "kept": // another handle to the same instance was released with Free: this one stays good
		other := dst
		other.Free()
		dest = dst
	case "ronly":
		dst.SetReadOnly(true)
		opts |= 128
		dest = dst
	case "ronly-nptr", "ronly-alias", "ronly-ptr":
		dst.SetReadOnly(true)
		opts |= 128
		switch in.Form {
		case "ronly-nptr":
			dest = &dst
		case "ronly-alias":
			dest = aliasStack(dst)
		default:
			a := aliasStack(dst)
			dest = &a
		}
	case "zero":
		dest, dstOK = stk.Stack{}, false
	case "int":
		dest, dstOK = 42, false
	default:
		dest, dstOK = nil, false
	}
	before := cfgSnapshot(dst)
	srcBefore := stk.VerifDump(src)["cfg"]
	ok, panicked := false, false
	func() {
		defer func() {
			if r := recover(); r != nil {
				panicked = true
			}
		}()
		ok = src.Transfer(dest)
	}()
	after := cfgSnapshot(dst)
	same := reflect.DeepEqual(before, after)
	// the source's configuration, lock bookkeeping included, must be as it was,
	// and the source must still accept a mutator (watchdog: a lock left held blocks)
	if !reflect.DeepEqual(srcBefore, stk.VerifDump(src)["cfg"]) || stk.VerifMutexHeld(src) {
		same = false
	}
	if !panicked {
		done := make(chan bool, 1)
		go func() {
			defer func() { recover(); done <- true }()
			src.Reverse() // takes the source's lock; twice = content as before
			src.Reverse()
		}()
		select {
		case <-done:
		case <-time.After(10 * time.Second):
			same = false
			panicked = true // reported as "did not return normally"
		}
	}
	read := func(s stk.Stack) (codes []string, js []any) {
		d := stk.VerifDump(s)
		slots, _ := d["slots"].([]any)
		for _, v := range slots {
			t, j := h.code(v)
			// strip the "(SVal " wrapper: list el wants the element
			codes = append(codes, t[len("(SVal "):len(t)-1])
			js = append(js, j)
		}
		return
	}
	dAfter, dj := read(dst)
	sAfter, sj := read(src)
	var srcT, dstT []string
	for _, c := range in.Src {
		if c <= -900 && c >= -903 {
			c = -900 // read back by its ID, whatever the handle's form
		}
		srcT = append(srcT, codeTerm(c))
	}
	for _, c := range in.Dst {
		dstT = append(dstT, codeTerm(c))
	}
	capT := "None"
	if in.DstCap > 0 {
		capT = fmt.Sprintf("(Some %d)", in.DstCap)
	}
	polT := "None"
	if in.DstPol >= 0 {
		polT = fmt.Sprintf("(Some %d%%N)", in.DstPol)
	}
	coq := fmt.Sprintf("(MkT %s %s %s %d%%N %s %s %s %s %s %s %s %s)", coqBool(in.SrcFifo), coqList(srcT), coqBool(dstOK),
		opts, capT, polT, coqList(dstT), coqBool(ok), coqList(dAfter), coqList(sAfter), coqBool(same), coqBool(panicked))
	tags := []string{"form:" + in.Form, fmt.Sprintf("ok:%v", ok)}
	if in.DstCap > 0 {
		if in.DstCap-len(in.Dst) < len(in.Src) {
			tags = append(tags, "nofit")
		} else {
			tags = append(tags, "fits")
		}
	}
	if panicked {
		tags = append(tags, "panic")
	}
	return &Result{Coq: coq, Observed: map[string]any{"ok": ok, "panic": panicked, "dst_after": dj, "src_after": sj, "cfg_same": same},
		Tags: tags, Nontrivial: len(in.Src) > 0 && dstOK}, nil
}

// runSelfTransfer: a capped Stack named as its own destination.  No model of
// that (source and destination are one list); what is checked is the limit:
// the call returns, does not panic, and the Stack holds at most DstCap
// elements afterwards - and still refuses to grow past it.
func runSelfTransfer(in *TransferInput) (*Result, error) {
	h := &histRun{nested: map[int]any{}}
	s := stk.And(in.DstCap)
	if in.SrcFifo {
		s.SetFIFO(true)
	}
	var sv []any
	for _, c := range in.Src {
		sv = append(sv, h.val(c))
	}
	s.Push(sv...)
	invariant := ""
	done := make(chan string, 1)
	go func() {
		defer func() {
			if r := recover(); r != nil {
				done <- fmt.Sprintf("s.Transfer(s) panicked: %v", r)
			}
		}()
		s.Transfer(s)
		done <- ""
	}()
	select {
	case invariant = <-done:
	case <-time.After(10 * time.Second):
		invariant = "s.Transfer(s) on a Stack with a capacity did not return within 10s"
	}
	if invariant == "" {
		if s.Len() > in.DstCap {
			invariant = fmt.Sprintf("after s.Transfer(s) a Stack of capacity %d holds %d elements", in.DstCap, s.Len())
		} else {
			s.Push(1, 2, 3)
			if s.Len() > in.DstCap || s.Avail() < 0 {
				invariant = fmt.Sprintf("after s.Transfer(s) and one more Push a Stack of capacity %d holds %d elements (Avail %d)", in.DstCap, s.Len(), s.Avail())
			}
		}
	}
	return &Result{Coq: "", Observed: map[string]any{"len": s.Len(), "cap": in.DstCap}, Tags: []string{"form:self"}, Nontrivial: len(in.Src) > 0, Invariant: invariant}, nil
}

func genTransfer(ctx *Ctx, emit func(any, string)) {
	maxL := 3
	if !ctx.Quick() {
		maxL = 5
	}
	forms := []string{"native", "alias", "ptr", "ronly", "nptr", "kept", "ronly-nptr", "ronly-alias", "ronly-ptr", "zero", "int", "nil"}
	for sl := 0; sl <= maxL; sl++ {
		for dl := 0; dl <= maxL; dl++ {
			caps := []int{0}
			for c := dl; c <= dl+sl+1 && c <= 9; c++ {
				if c > 0 {
					caps = append(caps, c)
				}
			}
			for _, cp := range caps {
				for _, form := range forms {
					for fifo := 0; fifo < 2; fifo++ {
						for withNil := 0; withNil < 2; withNil++ {
							if withNil == 1 && sl < 2 {
								continue
							}
							if ctx.Quick() && fifo == 1 && form != "native" {
								continue
							}
							in := TransferInput{SrcFifo: fifo == 1, SrcMutex: (sl+dl+cp)%2 == 1, SrcErr: (sl+2*dl+cp)%3 == 1, Form: form, DstCap: cp, DstPol: -1}
							for i := 0; i < sl; i++ {
								v := 10 + i
								if withNil == 1 && i == 1 {
									v = 0
								}
								in.Src = append(in.Src, v)
							}
							for i := 0; i < dl; i++ {
								in.Dst = append(in.Dst, 1+i)
							}
							emit(in, "exhaustive")
						}
					}
				}
			}
		}
	}
	// a capped Stack as its own destination: every capacity 1..9 x every fill
	for cp := 1; cp <= 9; cp++ {
		for l := 0; l <= cp; l++ {
			in := TransferInput{Form: "self", DstPol: -1, DstCap: cp, SrcFifo: (cp+l)%2 == 1}
			for i := 0; i < l; i++ {
				in.Src = append(in.Src, 1+i)
			}
			emit(in, "exhaustive")
		}
	}
	// a nil pointer with a type among the elements: it arrives as what it is
	for _, form := range []string{"native", "alias", "ptr"} {
		emit(TransferInput{Form: form, DstPol: -1, Src: []int{10, typedNilCode, 0, 11}, Dst: []int{typedNilCode}}, "exhaustive")
	}
	// long sources: 1500 elements into a destination with exactly enough room, one slot short, no limit
	{
		src := make([]int, 1500)
		for i := range src {
			src[i] = 1 + i%9
		}
		for _, cp := range []int{0, 1502, 1501, 70000} {
			for _, form := range []string{"native", "ptr"} {
				emit(TransferInput{Form: form, DstPol: -1, Src: src, Dst: []int{3, 4}, DstCap: cp, SrcFifo: cp == 1502}, "exhaustive")
			}
		}
	}
	// the destination itself as an element of the source, in every handle form and position
	for self := -900; self >= -903; self-- {
		for pos := 0; pos < 3; pos++ {
			for _, form := range []string{"native", "alias", "ptr", "nptr"} {
				in := TransferInput{Form: form, DstPol: -1, Src: []int{10, 11, 12}, Dst: []int{1}}
				in.Src[pos] = self
				emit(in, "exhaustive")
			}
		}
	}
	n := ctx.N(300, 8000)
	for i := 0; i < n; i++ {
		r := ctx.Rng.Fork()
		in := TransferInput{SrcFifo: r.Bool(), SrcMutex: r.Pct(40), SrcErr: r.Pct(30), Form: forms[r.Intn(9)], DstPol: -1}
		if r.Pct(30) {
			in.Form = forms[r.Intn(len(forms))]
		}
		for k := r.Intn(6); k > 0; k-- {
			in.Src = append(in.Src, randVal(r, true))
		}
		for k := r.Intn(5); k > 0; k-- {
			in.Dst = append(in.Dst, randVal(r, true))
		}
		if r.Pct(8) && len(in.Src) > 0 {
			in.Src[r.Intn(len(in.Src))] = -900 - r.Intn(4) // the destination itself among the elements
		}
		if r.Pct(60) {
			in.DstCap = len(in.Dst) + r.Intn(7)
		}
		if r.Pct(30) {
			in.DstOpts |= 256
		}
		if r.Pct(35) {
			for b := 0; b < 2; b++ {
				in.DstPol |= 0
			}
			in.DstPol = 0
			for b := 0; b < 2; b++ {
				in.DstPol |= 1 << r.Intn(16)
			}
		}
		emit(in, "random")
	}
}

func init() {
	register(&Family{Name: "transfer", Gen: genTransfer, Run: runTransfer,
		Rule: "exhaustive: source length 0..3 (quick) / 0..5 x destination length x destination capacity {none, every k from dst length to dst+src+1} x destination form {native, alias, pointer to alias, pointer to native, a handle whose sibling handle was freed, read-only (native, pointer to native, alias, pointer to alias), zero Stack, int, nil} x source LIFO/FIFO x with/without a nil element; random: adds nested stacks, a table-driven push policy and the no-nesting option on the destination. Observed: return value, destination slots after, source slots after, destination configuration (VerifDump, all fields but err) unchanged. non-trivial = non-empty source and a destination that converts"})
}
