package main

// Family sched (C10): 2-3 goroutines each running 1-3 mutators on one shared
// mutex-enabled stack, under a cooperative scheduler that decides, through
// the verifPoint hook in lock(), which goroutine performs its next action:
//   action 1 = the unlocked part of the public wrapper (up to the lock request),
//   action 2 = acquire + critical section + release.
// All interleavings of these actions are enumerated for small programs.

import (
	"encoding/json"
	"fmt"
	"sync"
	"sync/atomic"
	"time"

	stk "github.com/JesseCoretta/go-stackage"
)

type SchedInput struct {
	Kind  string  `json:"kind"`
	Cap   int     `json:"cap"` // <=0 none
	Fifo  bool    `json:"fifo"`
	Init  []int   `json:"init"`
	Progs [][]HOp `json:"progs"`
	Sched []int   `json:"sched"`
	// Pol: an accept-everything push policy is installed (same content as
	// without one).  Its closure is a scheduling point, but only when it finds
	// the stack's lock NOT held - which never happens while Push runs the
	// policy inside its critical section.
	Pol bool `json:"pol,omitempty"`
}

var schedMu sync.Mutex // the hook is process-global: one scheduled case at a time

type gEvent struct {
	tid  int
	kind string // want | done | fin | panic
	msg  string
}

func runSched(raw json.RawMessage) (res *Result, err error) {
	var in SchedInput
	if err = json.Unmarshal(raw, &in); err != nil {
		return nil, err
	}
	schedMu.Lock()
	defer schedMu.Unlock()

	h := &histRun{nested: map[int]any{}}
	cp := -1
	if in.Cap > 0 {
		cp = in.Cap
	}
	s := newStack(in.Kind, cp)
	if in.Fifo {
		s.SetFIFO(true)
	}
	var iv []any
	for _, c := range in.Init {
		iv = append(iv, h.val(c))
	}
	s.Push(iv...)
	s.SetMutex()
	h.s = s
	// pre-build every value the programs use (no map writes from goroutines)
	for _, p := range in.Progs {
		for _, o := range p {
			for _, c := range o.Vs {
				h.val(c)
			}
		}
	}
	shared := stk.VerifID(s)
	n := len(in.Progs)
	grant := make([]chan struct{}, n)
	events := make(chan gEvent, 64)
	for i := range grant {
		grant[i] = make(chan struct{})
	}
	cur := make([]int, n) // goroutine id -> tid mapping is by closure; cur unused
	_ = cur
	// which goroutine is running right now (only one is ever released at a time)
	var running int = -1
	var lockHeld int32
	stk.VerifSetPoint(func(ev string, id uintptr) {
		if id == shared && ev == "lock.held" {
			atomic.StoreInt32(&lockHeld, 1)
		}
		if id == shared && ev == "lock.released" {
			atomic.StoreInt32(&lockHeld, 0)
		}
		if id != shared || ev != "lock.want" {
			return
		}
		tid := running
		if tid < 0 {
			return
		}
		events <- gEvent{tid: tid, kind: "want"}
		<-grant[tid]
	})
	defer stk.VerifSetPoint(nil)
	if in.Pol {
		s.SetPushPolicy(func(...any) error {
			if tid := running; tid >= 0 && atomic.LoadInt32(&lockHeld) == 0 {
				events <- gEvent{tid: tid, kind: "want"}
				<-grant[tid]
			}
			return nil
		})
	}

	results := make([][]string, n)
	recs := make([][]any, n)
	for t := 0; t < n; t++ {
		go func(t int) {
			defer func() {
				if r := recover(); r != nil {
					events <- gEvent{tid: t, kind: "panic", msg: fmt.Sprint(r)}
				}
			}()
			for _, o := range in.Progs[t] {
				<-grant[t]
				outT, rec := h.exec(o)
				results[t] = append(results[t], outT)
				recs[t] = append(recs[t], map[string]any{"op": o, "out": rec})
				events <- gEvent{tid: t, kind: "done"}
			}
			events <- gEvent{tid: t, kind: "fin"}
		}(t)
	}
	// goroutine states: 0 idle (waiting for a start grant), 1 parked at lock.want, 2 finished
	state := make([]int, n)
	remaining := make([]int, n)
	for t := range remaining {
		remaining[t] = len(in.Progs[t])
		if remaining[t] == 0 {
			state[t] = 2
		}
	}
	panicked, deadlock := "", false
	wait := func() (gEvent, bool) {
		select {
		case e := <-events:
			return e, true
		case <-time.After(15 * time.Second):
			return gEvent{}, false
		}
	}
	step := func(t int) bool {
		if t < 0 || t >= n || state[t] == 2 {
			return true // idle entry of the schedule
		}
		running = t
		grant[t] <- struct{}{}
		for {
			e, ok := wait()
			if !ok {
				deadlock = true
				return false
			}
			switch e.kind {
			case "want":
				state[t] = 1
				return true
			case "done":
				remaining[t]--
				state[t] = 0
				if remaining[t] == 0 {
					// wait for its "fin"
					continue
				}
				return true
			case "fin":
				state[t] = 2
				return true
			case "panic":
				panicked = e.msg
				state[t] = 2
				return false
			}
		}
	}
	for _, t := range in.Sched {
		if !step(t) {
			break
		}
	}
	// run whatever is left to completion, round-robin (the effective schedule is recorded)
	eff := append([]int{}, in.Sched...)
	for panicked == "" && !deadlock {
		progress := false
		for t := 0; t < n; t++ {
			if state[t] != 2 {
				eff = append(eff, t)
				if !step(t) {
					break
				}
				progress = true
			}
		}
		if !progress {
			break
		}
	}
	running = -1
	// final content
	var finalT []string
	var finalJ []any
	usable := true
	func() {
		defer func() {
			if r := recover(); r != nil {
				usable = false
				if panicked == "" {
					panicked = "after: " + fmt.Sprint(r)
				}
			}
		}()
		d := stk.VerifDump(s)
		if ok, _ := d["slot0cfg"].(bool); !ok {
			usable = false
		}
		slots, _ := d["slots"].([]any)
		for _, v := range slots {
			t, j := h.code(v)
			if len(t) > 7 && t[:6] == "(SVal " {
				finalT = append(finalT, t[len("(SVal "):len(t)-1])
			} else {
				finalT = append(finalT, "ENil")
				usable = false
			}
			finalJ = append(finalJ, j)
		}
		_ = s.IsInit()
		_ = s.Len()
	}()
	if !usable && panicked == "" {
		panicked = "configuration slot lost or leaked"
	}
	// Coq term
	var progT, resT []string
	for t := 0; t < n; t++ {
		var ops []string
		for _, o := range in.Progs[t] {
			ops = append(ops, mopTerm(o))
		}
		progT = append(progT, coqList(ops))
		resT = append(resT, coqList(results[t]))
	}
	var initT []string
	for _, c := range in.Init {
		initT = append(initT, codeTerm(c))
	}
	var schedT []string
	for _, t := range eff {
		schedT = append(schedT, fmt.Sprintf("%d%%nat", t))
	}
	capT := "None"
	if in.Cap > 0 {
		capT = fmt.Sprintf("(Some %d)", in.Cap)
	}
	coq := fmt.Sprintf("(MkSC %d%%N %s %s %s %s %s %s %s %s)", kindN[in.Kind], capT, coqBool(in.Fifo), coqList(initT),
		coqList(progT), coqList(schedT), coqList(resT), coqList(finalT), coqBool(panicked != "" || deadlock))
	tags := []string{fmt.Sprintf("threads:%d", n)}
	if in.Pol {
		tags = append(tags, "push-policy")
	}
	if panicked != "" {
		tags = append(tags, "panic")
	}
	if deadlock {
		tags = append(tags, "deadlock")
	}
	for _, p := range in.Progs {
		for _, o := range p {
			tags = append(tags, "op:"+o.Op)
		}
	}
	total := 0
	for _, p := range in.Progs {
		total += len(p)
	}
	return &Result{Coq: coq, Observed: map[string]any{"results": recs, "final": finalJ, "panic": panicked, "deadlock": deadlock, "schedule": eff},
		Tags: tags, Nontrivial: n >= 2 && total >= 2}, nil
}

func mopTerm(o HOp) string {
	v0 := "ENil"
	if len(o.Vs) > 0 {
		v0 = codeTerm(o.Vs[0])
	}
	switch o.Op {
	case "push":
		var ts []string
		for _, c := range o.Vs {
			ts = append(ts, codeTerm(c))
		}
		return "(MPush " + coqList(ts) + ")"
	case "pop":
		return "MPop"
	case "insert":
		return fmt.Sprintf("(MInsert %s %s)", v0, coqZ(o.I))
	case "remove":
		return fmt.Sprintf("(MRemove %s)", coqZ(o.I))
	case "replace":
		return fmt.Sprintf("(MReplace %s %s)", v0, coqZ(o.I))
	case "swap":
		return fmt.Sprintf("(MSwap %s %s)", coqZ(o.I), coqZ(o.J))
	case "reverse":
		return "MReverse"
	case "reset":
		return "MReset"
	}
	panic("sched: not a mutator: " + o.Op)
}

// all interleavings of sequences with the given multiplicities
func interleavings(counts []int, limit int) [][]int {
	var out [][]int
	var rec func(cur []int, left []int)
	rec = func(cur []int, left []int) {
		if limit > 0 && len(out) >= limit {
			return
		}
		done := true
		for t, c := range left {
			if c > 0 {
				done = false
				left[t]--
				rec(append(cur, t), left)
				left[t]++
			}
		}
		if done {
			out = append(out, append([]int{}, cur...))
		}
	}
	rec(nil, append([]int{}, counts...))
	return out
}

var schedAlphabet = []HOp{
	{Op: "pop"}, {Op: "push", Vs: []int{7}}, {Op: "push", Vs: []int{8, 9}}, {Op: "insert", Vs: []int{6}, I: 0},
	{Op: "insert", Vs: []int{6}, I: 1}, {Op: "remove", I: 0}, {Op: "remove", I: 1}, {Op: "replace", Vs: []int{5}, I: 0},
	{Op: "swap", I: 0, J: 1}, {Op: "reverse"}, {Op: "reset"},
}

func genSched(ctx *Ctx, emit func(any, string)) {
	// exhaustive: 2 goroutines x 1 op each, every pair of the alphabet, stacks
	// of length 0..3, LIFO/FIFO, capacity none / len+1; every interleaving of
	// the 2+2 actions
	for L := 0; L <= 3; L++ {
		var init []int
		for i := 1; i <= L; i++ {
			init = append(init, i)
		}
		for _, a := range schedAlphabet {
			for _, b := range schedAlphabet {
				for fifo := 0; fifo < 2; fifo++ {
					for _, cp := range []int{0, L + 1} {
						if ctx.Quick() && (fifo == 1 && cp != 0) {
							continue
						}
						for _, sch := range interleavings([]int{2, 2}, 0) {
							emit(SchedInput{Kind: "AND", Cap: cp, Fifo: fifo == 1, Init: init, Progs: [][]HOp{{a}, {b}}, Sched: sch}, "exhaustive")
							if a.Op == "push" && fifo == 0 {
								emit(SchedInput{Kind: "AND", Cap: cp, Init: init, Progs: [][]HOp{{a}, {b}}, Sched: sch, Pol: true}, "exhaustive")
							}
						}
					}
				}
			}
		}
	}
	// random: 2-3 goroutines x 1-3 ops, random complete schedules
	n := ctx.N(600, 30000)
	for i := 0; i < n; i++ {
		r := ctx.Rng.Fork()
		nt := r.Range(2, 3)
		L := r.Intn(4)
		var init []int
		for k := 1; k <= L; k++ {
			init = append(init, k)
		}
		in := SchedInput{Kind: kinds[r.Intn(5)], Fifo: r.Bool(), Init: init}
		if r.Pct(40) {
			in.Cap = L + r.Intn(3)
		}
		var counts []int
		for t := 0; t < nt; t++ {
			var p []HOp
			for k := r.Range(1, 3); k > 0; k-- {
				o := schedAlphabet[r.Intn(len(schedAlphabet))]
				if r.Pct(20) {
					o = HOp{Op: o.Op, Vs: o.Vs, I: r.Range(-1, L+1), J: r.Range(-1, L+1)}
					if len(o.Vs) == 0 && (o.Op == "insert" || o.Op == "replace") {
						o.Vs = []int{4}
					}
				}
				p = append(p, o)
			}
			in.Progs = append(in.Progs, p)
			counts = append(counts, 2*len(p))
		}
		// one random interleaving
		var sch []int
		left := append([]int{}, counts...)
		tot := 0
		for _, c := range left {
			tot += c
		}
		for tot > 0 {
			t := r.Intn(nt)
			if left[t] > 0 {
				left[t]--
				tot--
				sch = append(sch, t)
			}
		}
		in.Sched = sch
		in.Pol = r.Pct(30)
		emit(in, "random")
	}
}

func init() {
	register(&Family{Name: "sched", Gen: genSched, Run: runSched,
		Rule: "exhaustive: 2 goroutines x 1 mutator each (every ordered pair of an 11-call alphabet over Push/Pop/Insert/Remove/Replace/Swap/Reverse/Reset) x stacks of length 0..3 x LIFO/FIFO x capacity none/len+1 x ALL interleavings of the four actions (unlocked wrapper part, critical section); the pairs starting with a Push also with an accept-everything push policy installed, whose closure is a scheduling point exactly when it finds the stack lock not held; random: 2-3 goroutines x 1-3 mutators with random arguments and one random complete interleaving each (30% with that policy). The interleaving is enforced on the real package by a cooperative scheduler through the verifPoint hook in lock(). Observed: each goroutine's return values, the final slots, any panic, deadlock (watchdog), loss of the configuration slot. non-trivial = >=2 goroutines and >=2 calls"})
}
