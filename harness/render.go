package main

// Family render (property C02): String() of expression trees.
//
// An input is one tree description (desc.go Node).  Run builds the tree with
// the public API, then records String() of EVERY Stack / Condition node of
// the tree (root first, elements in stored order, a Condition's expression
// after the Condition) and fmt.Sprintf("%s", root).  Nothing else is
// observed.  The Coq case is (MkR <tree> [<strings>] <fmt> <panicked>).

import (
	"encoding/hex"
	"encoding/json"
	"fmt"
	"strconv"
	"strings"

	stk "github.com/JesseCoretta/go-stackage"
)

type RenderInput struct {
	Tree *Node `json:"tree"`
}

// extra leaf kinds of this family
type rStringer struct{ s string }

func (r rStringer) String() string { return r.s }

func init() {
	// a string leaf given as hex (JSON cannot carry invalid UTF-8)
	extraBuild["bstr"] = func(n *Node) any {
		b, err := hex.DecodeString(n.S)
		if err != nil {
			panic(err)
		}
		return string(b)
	}
	extraCoq["bstr"] = func(n *Node) string {
		b, _ := hex.DecodeString(n.S)
		return "(VLeaf (GStr " + coqBytes(string(b)) + "))"
	}
	// a foreign value with a String method (S must not be empty: a zero
	// struct has no usable stringer)
	extraBuild["rstringer"] = func(n *Node) any { return rStringer{n.S} }
	extraCoq["rstringer"] = func(n *Node) string { return "(VLeaf (GStringer 100%N " + coqBytes(n.S) + "))" }
	// a foreign value without one
	extraBuild["rother"] = func(n *Node) any { return []int{1, 2} }
	extraCoq["rother"] = func(n *Node) string { return "(VLeaf (GOther 101%N))" }
}

// observeTree walks the built value along the description.
func observeTree(n *Node, v any, outs *[]string) error {
	switch n.T {
	case "stack":
		s, ok := v.(stk.Stack)
		if !ok {
			return fmt.Errorf("stack node built as %T", v)
		}
		if s.Len() != len(n.Els) {
			return fmt.Errorf("stack holds %d elements, description has %d", s.Len(), len(n.Els))
		}
		*outs = append(*outs, s.String())
		for i, e := range n.Els {
			if e.T == "stack" || e.T == "cond" {
				x, _ := s.Index(i)
				if err := observeTree(e, x, outs); err != nil {
					return err
				}
			}
		}
	case "cond":
		c, ok := v.(stk.Condition)
		if !ok {
			return fmt.Errorf("cond node built as %T", v)
		}
		*outs = append(*outs, c.String())
		if n.Ex != nil && (n.Ex.T == "stack" || n.Ex.T == "cond") {
			return observeTree(n.Ex, c.Expression(), outs)
		}
	}
	return nil
}

type renderStats struct {
	nodes, stacks, conds, leaves, depth int
	tags                                map[string]bool
}

func (st *renderStats) walk(n *Node, d int) {
	if n == nil {
		return
	}
	st.nodes++
	if d > st.depth {
		st.depth = d
	}
	switch n.T {
	case "stack":
		st.stacks++
		st.tags["kind:"+n.Kind] = true
		for b, name := range map[int]string{1: "paren", 2: "fold", 4: "nopad", 8: "leadonce"} {
			if n.Opt&b != 0 {
				st.tags["opt:"+name] = true
			}
		}
		if n.Sym != "" && n.Kind != "LIST" {
			st.tags["symbol"] = true
		}
		if n.Delim != "" && n.Kind == "LIST" {
			st.tags["delimiter"] = true
		}
		if len(n.Enc) > 0 {
			st.tags[fmt.Sprintf("encap:%d", len(n.Enc))] = true
		}
		if len(n.Els) == 0 {
			st.tags["empty-stack"] = true
		}
		if d > 0 && n.Kind == "NOT" {
			st.tags["nested-not"] = true
		}
		if d > 0 && n.Kind == "BASIC" {
			st.tags["nested-basic"] = true
		}
		for _, e := range n.Els {
			st.walk(e, d+1)
		}
	case "cond":
		st.conds++
		st.tags["cond"] = true
		if n.Kw == "" || n.Op == nil || n.Ex == nil || n.Ex.T == "nil" || (!n.Op.User && (n.Op.Builtin < 1 || n.Op.Builtin > 6)) {
			st.tags["cond-invalid"] = true
		}
		if n.Ex != nil && n.Ex.T == "stack" {
			st.tags["cond-stack-value"] = true
		}
		if n.Ex != nil && n.Ex.T == "cond" {
			st.tags["cond-cond-value"] = true
		}
		if n.Ex != nil && n.Ex.T != "nil" {
			st.walk(n.Ex, d+1)
		}
	case "str", "bstr":
		st.leaves++
		s := n.S
		if n.T == "bstr" {
			b, _ := hex.DecodeString(n.S)
			s = string(b)
			st.tags["leaf:raw-bytes"] = true
		}
		switch {
		case s == "":
			st.tags["leaf:empty"] = true
		case strings.TrimSpace(s) == "":
			st.tags["leaf:all-blank"] = true
		}
		for _, c := range []byte(s) {
			if c >= 0x80 {
				st.tags["leaf:multibyte"] = true
			}
			if c == ' ' || c == '\t' {
				st.tags["leaf:blanks"] = true
			}
		}
	case "int", "bool", "float":
		st.leaves++
		st.tags["leaf:"+n.T] = true
	case "nil", "zstack", "zcond", "rstringer", "rother":
		st.leaves++
		st.tags["outside-domain:"+n.T] = true
	}
}

func runRender(raw json.RawMessage) (res *Result, err error) {
	var in RenderInput
	if err = json.Unmarshal(raw, &in); err != nil {
		return nil, err
	}
	if in.Tree == nil || in.Tree.T != "stack" {
		return nil, fmt.Errorf("render: the root must be a stack node")
	}
	var outs []string
	var fmtS string
	panicked := false
	var obsErr error
	func() {
		defer func() {
			if r := recover(); r != nil {
				panicked = true
			}
		}()
		root := in.Tree.Build()
		obsErr = observeTree(in.Tree, root, &outs)
		fmtS = fmt.Sprintf("%s", root)
	}()
	if obsErr != nil {
		return nil, obsErr
	}
	st := &renderStats{tags: map[string]bool{}}
	st.walk(in.Tree, 0)
	if panicked {
		st.tags["panic"] = true
	}
	st.tags[fmt.Sprintf("depth:%d", st.depth)] = true
	var ot, oq []string
	nonEmpty := 0
	for _, o := range outs {
		ot = append(ot, coqBytes(o))
		oq = append(oq, strconv.Quote(o))
		if o != "" {
			nonEmpty++
		}
	}
	coq := fmt.Sprintf("(MkR %s %s %s %s)", in.Tree.Coq(), coqList(ot), coqBytes(fmtS), coqBool(panicked))
	nt := len(outs) > 0 && outs[0] != "" && st.nodes >= 3 && (len(in.Tree.Els) >= 2 || st.depth >= 2)
	return &Result{Coq: coq, Observed: map[string]any{"strings": oq, "fmt": strconv.Quote(fmtS), "panic": panicked},
		Tags: joinTags(st.tags), Nontrivial: nt}, nil
}

// ---------------------------------------------------------------------------
// generators

// Texts for leaves, keywords: ASCII, multi-byte UTF-8, embedded / leading /
// trailing blanks and tabs, the empty string, an all-blank string, other
// white space inside.  No Unicode space (U+0085, U+00A0, U+2000.., U+3000)
// stands at the start or end of a text, because strings.TrimSpace would
// remove it from the end of a rendering and the model trims ASCII only;
// inside a text they are fine.
var renderStrings = []string{"a", "bc", "x y", "", "é", " pad ", "a\tb", "日本", "k", "cn", "uid",
	" ", "a  b", "\tq", "z ", "ä ö", "naïve café", "a b", "x　y", "l1\nl2", "𝛑r²", "AND", "(p)", "a,b", "1",
	"ou=People\\", "a\\ b", "\\", "x\\\\", "t\\\tu", "q\\  r", "\"q\"", "'s'", "<v>", "[w]", "((p))", "\"", "<<x>>"}

var renderSyms = []string{"", "", "&", "||", "é", "|", "!", "xor", "Nand", "ALSO", "ünd"}
var renderDelims = []string{"", "", ",", " ", ";;", ", "}

// the last two are stored but have no effect: a pair of empty strings, and a
// three-element slice (encapValue ignores it)
var renderEnc = [][]string{{"\""}, {"[", "]"}, {"<", ">"}, {"'"}, {"(", ")"}, {"«", "»"}, {" "}, {""}, {"{", "}", "x"}}

func renderTreeGen(r *Rng) *TreeGen {
	g := DefaultTreeGen(r)
	g.MaxDepth = 4
	g.MaxWidth = 4
	g.Strings = renderStrings
	g.Syms = renderSyms
	g.Delims = renderDelims
	g.EncPairs = renderEnc
	g.Leaves = []string{"str", "str", "str", "int", "bool", "float"}
	g.CondPct = 20
	g.StackPct = 30
	g.BadOpPct = 10
	// the index options have nothing to say about rendering: switched on at random
	g.Opts = []int{1, 2, 4, 8, 16, 32}
	return g
}

// fixTree makes the description say what the setters actually store: an
// empty string is not accepted as a Condition's expression; an Operator with
// an empty text or context is not accepted; and it sprinkles the shapes
// TreeGen does not produce (Condition valued Conditions, raw byte leaves,
// and -- when malformed is set -- values outside the property's domain).
func fixTree(r *Rng, n *Node, depth int, malformed bool) {
	switch n.T {
	case "stack":
		for i, e := range n.Els {
			if e.T == "str" && r.Pct(4) {
				n.Els[i] = &Node{T: "bstr", S: hex.EncodeToString([]byte([]string{"\xff\xfe", "a\x85", "\xc3", "ok\xa0x", "\xe6\x97"}[r.Intn(5)]))}
			}
			if malformed && r.Pct(20) {
				n.Els[i] = []*Node{{T: "nil"}, {T: "zstack"}, {T: "zcond"}, {T: "rstringer", S: "str ing"}, {T: "rother"}}[r.Intn(5)]
			}
			fixTree(r, n.Els[i], depth+1, malformed)
		}
	case "cond":
		if n.Ex != nil && n.Ex.T != "stack" && r.Pct(12) {
			g := renderTreeGen(r)
			g.MaxDepth = 1
			n.Ex = g.Cond(1)
		}
		if n.Ex != nil && n.Ex.T == "str" && n.Ex.S == "" {
			n.Ex = &Node{T: "nil"}
		}
		if n.Op != nil && n.Op.User && (n.Op.Text == "" || n.Op.Ctx == "") {
			n.Op = nil
		}
		if malformed && n.Ex != nil && r.Pct(20) {
			n.Ex = []*Node{{T: "zstack"}, {T: "zcond"}, {T: "rstringer", S: "str ing"}, {T: "rother"}}[r.Intn(4)]
		}
		if n.Ex != nil {
			fixTree(r, n.Ex, depth+1, malformed)
		}
	}
}

func leafOf(s string) *Node { return &Node{T: "str", S: s} }

func genRender(ctx *Ctx, emit func(any, string)) {
	// the shapes of the repaired and of the remaining defects, always
	for _, t := range []*Node{
		{T: "stack", Kind: "LIST", Opt: 4, Els: []*Node{leafOf("a"), leafOf("b")}},                                                                                        // D19 (stays)
		{T: "stack", Kind: "LIST", Els: []*Node{{T: "stack", Kind: "AND", Els: []*Node{leafOf("a"), leafOf("b")}}, {T: "stack", Kind: "AND", Els: []*Node{leafOf("c")}}}}, // D19, padded variant
		{T: "stack", Kind: "AND", Els: []*Node{leafOf("é x"), leafOf("b")}},                                                                                               // D18
		{T: "stack", Kind: "AND", Els: []*Node{leafOf("a"), {T: "stack", Kind: "NOT", Opt: 2, Els: []*Node{leafOf("z")}}}},                                                // D20
		{T: "stack", Kind: "AND", Els: []*Node{leafOf("a"), {T: "stack", Kind: "NOT"}, leafOf("b")}},                                                                      // D21
	} {
		emit(RenderInput{Tree: t}, "exhaustive")
	}
	// exhaustive small: 16 flag combinations x 5 kinds x {0,1,2} elements x
	// {leaf, nested stack, condition} x {plain, symbol / delimiter}
	elems := func(variant int) []*Node {
		switch variant {
		case 0:
			return []*Node{leafOf("a"), leafOf("b c")}
		case 1:
			return []*Node{{T: "stack", Kind: "OR", Els: []*Node{leafOf("p"), leafOf("q")}}, {T: "stack", Kind: "NOT", Opt: 2, Els: []*Node{leafOf("n")}}}
		}
		return []*Node{{T: "cond", Kw: "k", Op: &OpDesc{Builtin: 1}, Ex: leafOf("v")}, {T: "cond", Kw: "", Op: &OpDesc{Builtin: 2}, Ex: leafOf("w")}}
	}
	for _, kind := range kinds {
		for opt := 0; opt < 16; opt++ {
			for ne := 0; ne <= 2; ne++ {
				for variant := 0; variant < 3; variant++ {
					if ne == 0 && variant > 0 {
						continue
					}
					for deco := 0; deco < 2; deco++ {
						n := &Node{T: "stack", Kind: kind, Opt: opt, Els: elems(variant)[:ne]}
						if deco == 1 {
							if kind == "LIST" {
								n.Delim = ","
							} else {
								n.Sym = "&"
							}
							n.Enc = [][]string{{"[", "]"}, {"'"}}
						}
						emit(RenderInput{Tree: n}, "exhaustive")
					}
				}
			}
		}
	}
	// every text of the pool once as a single leaf, as first and as last leaf
	for _, s := range renderStrings {
		emit(RenderInput{Tree: &Node{T: "stack", Kind: "AND", Els: []*Node{leafOf(s)}}}, "exhaustive")
		emit(RenderInput{Tree: &Node{T: "stack", Kind: "OR", Opt: 1, Els: []*Node{leafOf(s), leafOf("m"), leafOf(s)}}}, "exhaustive")
		emit(RenderInput{Tree: &Node{T: "stack", Kind: "AND", Els: []*Node{leafOf("m"), {T: "stack", Kind: "LIST", Delim: ",", Opt: 4, Els: []*Node{leafOf(s), leafOf(s)}}}}}, "exhaustive")
	}
	// size is no limit: 600 leaves side by side, 70 levels of nesting, a text of 1800 bytes
	{
		nw, nd, nl := 600, 70, 200
		if !ctx.Quick() {
			nw, nd, nl = 1200, 150, 500
		}
		wide := &Node{T: "stack", Kind: "AND", Opt: 1}
		lst := &Node{T: "stack", Kind: "LIST", Delim: ",", Enc: [][]string{{"<", ">"}}}
		for i := 0; i < nw; i++ {
			wide.Els = append(wide.Els, leafOf(fmt.Sprintf("v%d", i%37)))
			lst.Els = append(lst.Els, leafOf(fmt.Sprintf("w %d", i%11)))
		}
		emit(RenderInput{Tree: wide}, "exhaustive")
		emit(RenderInput{Tree: &Node{T: "stack", Kind: "OR", Sym: "|", Opt: 8, Els: []*Node{leafOf("x"), lst}}}, "exhaustive")
		var deep *Node = &Node{T: "stack", Kind: "OR", Els: []*Node{leafOf("p"), leafOf("q")}}
		for d := 0; d < nd; d++ {
			if d%5 == 4 {
				deep = &Node{T: "stack", Kind: "AND", Opt: d % 2, Els: []*Node{{T: "cond", Kw: "k", Op: &OpDesc{Builtin: 1 + d%6}, Ex: deep}, leafOf("s")}}
			} else {
				deep = &Node{T: "stack", Kind: []string{"AND", "OR", "NOT"}[d%3], Opt: (d % 2) | (d%3)&2, Els: []*Node{leafOf("l"), deep}}
			}
		}
		emit(RenderInput{Tree: deep}, "exhaustive")
		long := strings.Repeat("ab  c\td ", nl)
		emit(RenderInput{Tree: &Node{T: "stack", Kind: "AND", Els: []*Node{leafOf(long), leafOf("z"), {T: "cond", Kw: "k", Op: &OpDesc{Builtin: 1}, Ex: leafOf(long)}}}}, "exhaustive")
	}
	// number leaves at the edges of their types
	for _, l := range []*Node{{T: "int", I: -7}, {T: "int", Ty: 4, I: -9223372036854775808}, {T: "int", Ty: 4, I: 9223372036854775807},
		{T: "int", Ty: 14, I: 9223372036854775807}, {T: "int", Ty: 1, I: -128}, {T: "float", Ty: 21, F: -0.5}, {T: "float", Ty: 20, F: 0.1}, {T: "float", Ty: 22, F: 0.1, F2: 0.2}, {T: "float", Ty: 22, F: -1.1}, {T: "float", Ty: 23, F: 0.1, F2: -0.3}, {T: "bool", Bv: true}} {
		emit(RenderInput{Tree: &Node{T: "stack", Kind: "OR", Enc: [][]string{{"<", ">"}}, Els: []*Node{l, leafOf("x")}}}, "exhaustive")
		// negative / forward index support must not show in String
		for _, io := range []int{16, 32, 48} {
			emit(RenderInput{Tree: &Node{T: "stack", Kind: "AND", Opt: io, Els: []*Node{l, leafOf("x"), leafOf("y")}}}, "exhaustive")
			emit(RenderInput{Tree: &Node{T: "stack", Kind: "LIST", Opt: io | 1, Delim: ",", Els: []*Node{leafOf("x"),
				{T: "stack", Kind: "OR", Opt: io, Els: []*Node{l, leafOf("z")}}}}}, "exhaustive")
		}
		// three and four one-character schemes installed by ONE SetEncap call, several leaves
		emit(RenderInput{Tree: &Node{T: "stack", Kind: "AND", Enc: [][]string{{"|"}, {"'"}, {"\""}}, Els: []*Node{l, leafOf("x"), leafOf("y")}}}, "exhaustive")
		emit(RenderInput{Tree: &Node{T: "stack", Kind: "LIST", Enc: [][]string{{"|"}, {"'"}, {"\""}, {"`"}}, Els: []*Node{leafOf("x"), l,
			{T: "cond", Kw: "k", Op: &OpDesc{Builtin: 1}, Enc: [][]string{{"<"}, {"'"}, {"~"}}, Ex: leafOf("v")}}}}, "exhaustive")
		emit(RenderInput{Tree: &Node{T: "stack", Kind: "AND", Els: []*Node{{T: "cond", Kw: "n", Op: &OpDesc{Builtin: 6}, Ex: l}}}}, "exhaustive")
	}
	// random trees
	n := ctx.N(700, 30000)
	for i := 0; i < n; i++ {
		r := ctx.Rng.Fork()
		g := renderTreeGen(r)
		if ctx.Bias != "" || r.Pct(25) {
			// bias towards LIST nodes and nesting (the known finding's neighbourhood)
			g.Kinds = []string{"LIST", "LIST", "AND", "NOT", "OR", "BASIC"}
			g.StackPct = 45
		}
		t := g.Stack(0)
		for t.Kind == "BASIC" && r.Pct(80) {
			t.Kind = g.pick([]string{"AND", "OR", "NOT", "LIST"})
			if t.Kind == "LIST" {
				t.Sym = ""
			} else {
				t.Delim = ""
			}
		}
		fixTree(r, t, 0, i%10 == 9)
		emit(RenderInput{Tree: t}, "random")
	}
}

func init() {
	register(&Family{Name: "render", Gen: genRender, Run: runRender,
		Rule: "exhaustive: 16 option combinations (paren/fold/no-padding/lead-once) x 5 kinds x 0..2 elements x {leaf, nested stack (incl. folded NOT), valid+invalid Condition} x {word, symbol/delimiter + 2 encapsulation pairs}; every text of the pool as only/first/last leaf; number leaves at the edges of their types; the five defect shapes D18-D21. random: trees of stack nesting depth<=4 (Conditions in between add levels, observed depth up to 10), width<=4 from TreeGen (independent option bits 30% each, symbols {&,||,e-acute,|,!}, delimiters {comma, blank, ;;, comma-blank}, 0-2 of 9 encapsulation pairs (incl. an empty-string pair and an ignored 3-element one), leaves ASCII / multi-byte UTF-8 / embedded, leading, trailing blanks and tabs / empty / all-blank / newline / NBSP inside / raw invalid UTF-8 bytes, ints, bools, floats; Conditions 20% with 10% missing or bogus operators, empty keywords, nil expressions, Stack and Condition valued expressions; 25% of trees biased to LIST and deep nesting); every 10th tree additionally carries values outside the property's domain (nil, zero Stack/Condition, foreign stringer, foreign non-stringer). Observed: String() of every Stack and Condition node and fmt %s of the root. No Unicode space stands at the end of a text (TrimSpace is modelled for ASCII white space only). distinct = distinct input hash; non-trivial = root renders non-empty, tree has >=3 nodes and (>=2 root elements or depth>=2)"})
}
