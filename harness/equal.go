package main

// Family equal (C05): IsEqual on pairs (tree, independently rebuilt copy)
// and (tree, copy with one point mutation), both directions.
//
// This file also adds the composite leaf kinds of coq/Values.v to the shared
// tree description (desc.go) through extraBuild/extraCoq:
//
//	ptr nilptr slice array map struct func chan nan
//
// over a fixed catalogue of Go types; a type tag is the number of the type in
// eqTypes.  A leaf is generated from its Go type, so description, Go value
// and Coq term always agree.

import (
	"encoding/json"
	"fmt"
	"math"
	"reflect"
	"sort"
	"unsafe"

	stk "github.com/JesseCoretta/go-stackage"
)

// ---------------------------------------------------------------------------
// the type catalogue

type eqS1 struct {
	A int
	B string
}
type eqS2 struct {
	A int
	b string
}
type eqS3 struct { // same fields as eqS1, another type
	A int
	B string
}
type eqP1 struct{ a int }
type eqP2 struct {
	a int
	b string
}
type EqEmb struct{ X int }
type eqWithEmb struct {
	EqEmb
	C string
}
type eqN struct {
	L []int
	M map[string]int
	P *int
	S eqS1
	F func(int) int
	q bool
	A [2]string
}
type eqCh struct {
	C chan int
	N int
}

// a field of interface type: what it holds is only known at run time
type eqAny struct {
	Name string
	Tags any
}

// three different struct types that all print as "main.Spec" (declared in
// three function scopes): whatever is remembered per type must not be
// remembered per type NAME
func eqLocal1() reflect.Type {
	type Spec struct{ Host string }
	return reflect.TypeOf(Spec{})
}
func eqLocal2() reflect.Type {
	type Spec struct {
		Host string
		Port int
	}
	return reflect.TypeOf(Spec{})
}
func eqLocal3() reflect.Type {
	type Spec struct {
		token string
		Host  string
	}
	return reflect.TypeOf(Spec{})
}

var eqTypes = map[int]reflect.Type{
	0: reflect.TypeOf(int(0)), 1: reflect.TypeOf(int8(0)), 4: reflect.TypeOf(int64(0)),
	11: reflect.TypeOf(uint8(0)), 14: reflect.TypeOf(uint64(0)),
	21: reflect.TypeOf(float64(0)), 30: reflect.TypeOf(""), 31: reflect.TypeOf(false),

	100: reflect.TypeOf([]int(nil)), 101: reflect.TypeOf([]string(nil)), 102: reflect.TypeOf([]*int(nil)),
	103: reflect.TypeOf([][]int(nil)), 104: reflect.TypeOf([]eqS1(nil)), 105: reflect.TypeOf([]map[string]int(nil)),
	106: reflect.TypeOf([]float64(nil)), 107: reflect.TypeOf([]**int(nil)), 108: reflect.TypeOf([]*eqS1(nil)),
	109: reflect.TypeOf([]func(int) int(nil)), 110: reflect.TypeOf([]int8(nil)), 111: reflect.TypeOf([]bool(nil)),
	112: reflect.TypeOf([]eqS2(nil)), 113: reflect.TypeOf([]uint8(nil)),

	120: reflect.TypeOf([3]int{}), 121: reflect.TypeOf([2]string{}), 122: reflect.TypeOf([2][]int{}),
	123: reflect.TypeOf([1]*int{}), 124: reflect.TypeOf([0]int{}), 125: reflect.TypeOf([2]int{}),
	126: reflect.TypeOf([3]uint8{}), 127: reflect.TypeOf([2]int8{}),

	140: reflect.TypeOf(map[string]int(nil)), 141: reflect.TypeOf(map[int]string(nil)), 142: reflect.TypeOf(map[string][]int(nil)),
	143: reflect.TypeOf(map[bool]*int(nil)), 144: reflect.TypeOf(map[string]eqS1(nil)), 145: reflect.TypeOf(map[string]int8(nil)),
	146: reflect.TypeOf(map[string]map[string]int(nil)),

	160: reflect.TypeOf(eqS1{}), 161: reflect.TypeOf(eqS2{}), 162: reflect.TypeOf(eqS3{}), 163: reflect.TypeOf(eqP1{}),
	164: reflect.TypeOf(eqN{}), 165: reflect.TypeOf(eqWithEmb{}), 166: reflect.TypeOf(struct{}{}), 167: reflect.TypeOf(eqP2{}),
	168: reflect.TypeOf(EqEmb{}), 169: reflect.TypeOf(eqCh{}),
	170: eqLocal1(), 171: eqLocal2(), 172: eqLocal3(), 173: reflect.TypeOf(eqAny{}),

	180: reflect.TypeOf((func(int) int)(nil)), 181: reflect.TypeOf((func(string) int)(nil)), 182: reflect.TypeOf((func())(nil)),
	190: reflect.TypeOf((chan int)(nil)), 191: reflect.TypeOf((chan string)(nil)),
}

var eqTagOf = map[reflect.Type]int{}
var eqTags []int

var eqFuncs = map[int][]any{
	180: {func(i int) int { return i }, func(i int) int { return i + 1 }, func(i int) int { return 7 }},
	181: {func(s string) int { return len(s) }, func(s string) int { return 0 }, func(s string) int { return 1 }},
	182: {func() {}, func() { _ = 1 }, func() { _ = 2 }},
}
var eqChans = map[int][]any{
	190: {make(chan int), make(chan int), make(chan int)},
	191: {make(chan string), make(chan string), make(chan string)},
}

func init() {
	for tag, t := range eqTypes {
		eqTagOf[t] = tag
		eqTags = append(eqTags, tag)
	}
	sort.Ints(eqTags)
	for _, k := range []string{"ptr", "nilptr", "slice", "array", "map", "struct", "func", "chan", "nan"} {
		extraBuild[k] = func(n *Node) any { return eqBuildAs(n, eqNodeType(n)).Interface() }
		extraCoq[k] = func(n *Node) string { return "(VLeaf " + eqGCoq(n) + ")" }
	}
}

func eqBase(t reflect.Type) reflect.Type {
	for t.Kind() == reflect.Ptr {
		t = t.Elem()
	}
	return t
}

// eqNodeType: the Go type of the value a leaf node describes.
func eqNodeType(n *Node) reflect.Type {
	switch n.T {
	case "str":
		return eqTypes[30]
	case "bool":
		return eqTypes[31]
	case "int":
		return eqTypes[n.Ty]
	case "float", "nan":
		return eqTypes[21]
	case "ptr":
		return reflect.PtrTo(eqNodeType(n.Ex))
	case "nilptr":
		t := eqTypes[n.Ty]
		for i := int64(0); i < n.I; i++ {
			t = reflect.PtrTo(t)
		}
		return t
	}
	t, ok := eqTypes[n.Ty]
	if !ok {
		panic(fmt.Sprintf("equal: no type for node %s/%d", n.T, n.Ty))
	}
	return t
}

// eqBuildAs builds the value a node describes as a value of type t.
func eqBuildAs(n *Node, t reflect.Type) reflect.Value {
	if t.Kind() == reflect.Interface {
		return eqBuildAs(n, eqNodeType(n)) // the dynamic type is the node's own
	}
	switch n.T {
	case "str", "bool", "int", "float":
		v := reflect.ValueOf(n.Build())
		if v.Type() != t {
			panic(fmt.Sprintf("equal: node %s/%d does not fit %s", n.T, n.Ty, t))
		}
		return v
	case "nan":
		return reflect.ValueOf(math.NaN())
	case "ptr":
		p := reflect.New(t.Elem())
		p.Elem().Set(eqBuildAs(n.Ex, t.Elem()))
		return p
	case "nilptr":
		return reflect.Zero(t)
	case "slice":
		c := n.Cap
		if c < len(n.Els) {
			c = len(n.Els)
		}
		s := reflect.MakeSlice(t, len(n.Els), c)
		for i, e := range n.Els {
			s.Index(i).Set(eqBuildAs(e, t.Elem()))
		}
		return s
	case "array":
		a := reflect.New(t).Elem()
		for i, e := range n.Els {
			a.Index(i).Set(eqBuildAs(e, t.Elem()))
		}
		return a
	case "map":
		m := reflect.MakeMap(t)
		for _, kv := range n.Els {
			m.SetMapIndex(eqBuildAs(kv.Els[0], t.Key()), eqBuildAs(kv.Els[1], t.Elem()))
		}
		return m
	case "struct":
		v := reflect.New(t).Elem()
		for i, e := range n.Els {
			f := v.Field(i)
			x := eqBuildAs(e, f.Type())
			if t.Field(i).IsExported() {
				f.Set(x)
			} else {
				reflect.NewAt(f.Type(), unsafe.Pointer(f.UnsafeAddr())).Elem().Set(x)
			}
		}
		return v
	case "func":
		return reflect.ValueOf(eqFuncs[n.Ty][n.I])
	case "chan":
		return reflect.ValueOf(eqChans[n.Ty][n.I])
	}
	panic("equal: cannot build leaf kind " + n.T)
}

// eqGCoq prints a leaf node as a term of type gval.
func eqGCoq(n *Node) string {
	switch n.T {
	case "str":
		return "(GStr " + coqBytes(n.S) + ")"
	case "int":
		return fmt.Sprintf("(GInt %d%%N %s)", n.Ty, coqZ64(n.I))
	case "bool":
		return "(GBool " + coqBool(n.Bv) + ")"
	case "float":
		return fmt.Sprintf("(GFloat 21%%N %s 0)", coqBytes(fmtFloat(n.F, 21)))
	case "nan":
		return "(GFloat 21%N (B \"NaN\") (-1))"
	case "ptr":
		return "(GPtr " + eqGCoq(n.Ex) + ")"
	case "nilptr":
		return fmt.Sprintf("(GNilPtr %d%%nat %d%%N)", n.I, n.Ty)
	case "slice":
		c := n.Cap
		if c < len(n.Els) {
			c = len(n.Els)
		}
		return fmt.Sprintf("(GSlice %d%%N %d %s)", n.Ty, c, eqGList(n.Els))
	case "array":
		return fmt.Sprintf("(GArray %d%%N %s)", n.Ty, eqGList(n.Els))
	case "map":
		var ps []string
		for _, kv := range n.Els {
			ps = append(ps, "("+eqGCoq(kv.Els[0])+", "+eqGCoq(kv.Els[1])+")")
		}
		return fmt.Sprintf("(GMap %d%%N %s)", n.Ty, coqList(ps))
	case "struct":
		t := eqTypes[n.Ty]
		var fs []string
		for i, e := range n.Els {
			f := t.Field(i)
			fs = append(fs, fmt.Sprintf("(%s, %s, %s)", coqBytes(f.Name), coqBool(f.IsExported()), eqGCoq(e)))
		}
		return fmt.Sprintf("(GStruct %d%%N %s)", n.Ty, coqList(fs))
	case "func":
		return fmt.Sprintf("(GFunc %d%%N %d%%N)", n.Ty, n.I)
	case "chan":
		return fmt.Sprintf("(GChan %d%%N %d%%N)", n.Ty, n.I)
	}
	panic("equal: cannot print leaf kind " + n.T)
}

func eqGList(els []*Node) string {
	var ps []string
	for _, e := range els {
		ps = append(ps, eqGCoq(e))
	}
	return coqList(ps)
}

// ---------------------------------------------------------------------------
// generation from types

type eqGen struct {
	r       *Rng
	nilPct  int // chance that a pointer is nil
	nanPct  int
	inMap   bool
	inSlice bool
}

var eqStrPool = []string{"a", "bc", "", "x y", "é", "k1", "uid", "Z"}
var eqFloatPool = []float64{1.5, 0, -2.25, 1e21, 3}

func (g *eqGen) prim(t reflect.Type) *Node {
	switch t.Kind() {
	case reflect.String:
		return &Node{T: "str", S: eqStrPool[g.r.Intn(len(eqStrPool))]}
	case reflect.Bool:
		return &Node{T: "bool", Bv: g.r.Bool()}
	case reflect.Float64:
		if g.r.Pct(g.nanPct) {
			return &Node{T: "nan", Ty: 21}
		}
		return &Node{T: "float", Ty: 21, F: eqFloatPool[g.r.Intn(len(eqFloatPool))]}
	}
	tag := eqTagOf[t]
	v := int64(g.r.Intn(100))
	if tag < 10 && g.r.Pct(20) {
		v = -v
	}
	return &Node{T: "int", Ty: tag, I: v}
}

func (g *eqGen) value(t reflect.Type) *Node {
	switch t.Kind() {
	case reflect.Interface:
		// an interface-typed field: holds a value of one of a few concrete types
		return g.value(eqTypes[[]int{0, 30, 101, 140, 100, 160}[g.r.Intn(6)]])
	case reflect.Ptr:
		// nil pointers: never below a map (map iteration order would make a
		// panic-or-error outcome order dependent)
		if !g.inMap && g.r.Pct(g.nilPct) {
			d := int64(1)
			b := t.Elem()
			for b.Kind() == reflect.Ptr {
				b = b.Elem()
				d++
			}
			if tag, ok := eqTagOf[b]; ok {
				return &Node{T: "nilptr", Ty: tag, I: d}
			}
		}
		return &Node{T: "ptr", Ex: g.value(t.Elem())}
	case reflect.Slice:
		k := g.r.Intn(4)
		n := &Node{T: "slice", Ty: eqTagOf[t], Cap: k}
		if g.r.Pct(30) {
			n.Cap = k + 1 + g.r.Intn(3)
		}
		for i := 0; i < k; i++ {
			n.Els = append(n.Els, g.value(t.Elem()))
		}
		return n
	case reflect.Array:
		n := &Node{T: "array", Ty: eqTagOf[t]}
		for i := 0; i < t.Len(); i++ {
			n.Els = append(n.Els, g.value(t.Elem()))
		}
		return n
	case reflect.Map:
		n := &Node{T: "map", Ty: eqTagOf[t]}
		k := g.r.Intn(4)
		was := g.inMap
		g.inMap = true
		for _, key := range g.keys(t.Key(), k) {
			n.Els = append(n.Els, &Node{T: "kv", Els: []*Node{key, g.value(t.Elem())}})
		}
		g.inMap = was
		return n
	case reflect.Struct:
		n := &Node{T: "struct", Ty: eqTagOf[t]}
		for i := 0; i < t.NumField(); i++ {
			n.Els = append(n.Els, g.value(t.Field(i).Type))
		}
		return n
	case reflect.Func:
		return &Node{T: "func", Ty: eqTagOf[t], I: int64(g.r.Intn(3))}
	case reflect.Chan:
		return &Node{T: "chan", Ty: eqTagOf[t], I: int64(g.r.Intn(3))}
	}
	return g.prim(t)
}

// keys: k distinct keys of type t
func (g *eqGen) keys(t reflect.Type, k int) []*Node {
	var out []*Node
	switch t.Kind() {
	case reflect.Bool:
		if k > 2 {
			k = 2
		}
		first := g.r.Bool()
		for i := 0; i < k; i++ {
			out = append(out, &Node{T: "bool", Bv: first != (i == 1)})
		}
	case reflect.String:
		p := g.r.Intn(len(eqStrPool))
		for i := 0; i < k; i++ {
			out = append(out, &Node{T: "str", S: eqStrPool[(p+i)%len(eqStrPool)]})
		}
	default:
		p := g.r.Intn(50)
		for i := 0; i < k; i++ {
			out = append(out, &Node{T: "int", Ty: eqTagOf[t], I: int64(p + 3*i)})
		}
	}
	return out
}

func eqFreshKey(t reflect.Type, used []*Node) *Node {
	switch t.Kind() {
	case reflect.Bool:
		for _, b := range []bool{false, true} {
			ok := true
			for _, u := range used {
				if u.Bv == b {
					ok = false
				}
			}
			if ok {
				return &Node{T: "bool", Bv: b}
			}
		}
		return nil
	case reflect.String:
		return &Node{T: "str", S: fmt.Sprintf("fresh%d", len(used))}
	}
	return &Node{T: "int", Ty: eqTagOf[t], I: int64(1000 + len(used))}
}

// ---------------------------------------------------------------------------
// deep copy + mutation sites

func eqClone(n *Node) *Node {
	if n == nil {
		return nil
	}
	b, _ := json.Marshal(n)
	var c Node
	json.Unmarshal(b, &c)
	return &c
}

type eqMutant struct {
	label string
	tree  *Node
}

// eqMutants: every one-point mutant of root (each built on a fresh clone).
// ctxType: the static Go type of the position a node sits in (nil = held in
// an interface: a Stack element or a Condition expression).
func eqMutants(root *Node, skipRoot bool) []eqMutant {
	var out []eqMutant
	// apply f to the node at path in a fresh clone of root
	emit := func(label string, path []int, f func(n *Node) bool) {
		if skipRoot && len(path) == 0 {
			return
		}
		c := eqClone(root)
		n := c
		for _, i := range path {
			n = eqChild(n, i)
		}
		if f(n) {
			out = append(out, eqMutant{label, c})
		}
	}
	var walk func(n *Node, path []int, ctx reflect.Type)
	walk = func(n *Node, path []int, ctx reflect.Type) {
		p := append([]int{}, path...)
		free := ctx == nil // held in an interface: the type may change
		switch n.T {
		case "str":
			emit("leaf-value", p, func(m *Node) bool { m.S += "~"; return true })
			if free {
				emit("leaf-type", p, func(m *Node) bool { *m = Node{T: "int", I: 7}; return true })
			}
		case "int":
			emit("leaf-value", p, func(m *Node) bool { m.I++; return true })
			if free {
				emit("leaf-type", p, func(m *Node) bool {
					if m.Ty == 0 {
						m.Ty = 4
					} else {
						m.Ty = 0
					}
					if m.I < 0 {
						m.I = -m.I
					}
					return true
				})
			}
		case "bool":
			emit("leaf-value", p, func(m *Node) bool { m.Bv = !m.Bv; return true })
		case "float":
			emit("leaf-value", p, func(m *Node) bool { m.F += 0.5; return true })
		case "ptr":
			if free {
				emit("ptr-depth+", p, func(m *Node) bool { c := *m; *m = Node{T: "ptr", Ex: &c}; return true })
				emit("ptr-depth-", p, func(m *Node) bool {
					if m.Ex.T == "str" && m.Ex.S == "" {
						// a pointer to "" is a value; the bare "" is no expression for a
						// Condition (SetExpression turns it down): not the same description
						return false
					}
					*m = *m.Ex
					return true
				})
			}
			var et reflect.Type
			if ctx != nil {
				et = ctx.Elem()
			} else {
				et = eqNodeType(n.Ex)
			}
			walk(n.Ex, append(p, -1), et)
			return
		case "slice":
			t := eqTypes[n.Ty]
			if len(n.Els) > 0 {
				emit("slice-fewer", p, func(m *Node) bool { m.Els = m.Els[:len(m.Els)-1]; return true })
				emit("slice-fewer-cap", p, func(m *Node) bool {
					m.Els = m.Els[:len(m.Els)-1]
					if m.Cap > len(m.Els) {
						m.Cap = len(m.Els)
					}
					return true
				})
			}
			emit("slice-more", p, func(m *Node) bool {
				g := &eqGen{r: &Rng{s: uint64(len(p)*977 + len(m.Els))}}
				m.Els = append(m.Els, g.value(t.Elem()))
				return true
			})
			emit("slice-cap", p, func(m *Node) bool {
				if m.Cap < len(m.Els) {
					m.Cap = len(m.Els)
				}
				m.Cap++
				return true
			})
			if len(n.Els) >= 2 {
				emit("slice-swap", p, func(m *Node) bool {
					m.Els[0], m.Els[len(m.Els)-1] = m.Els[len(m.Els)-1], m.Els[0]
					return true
				})
			}
			for i, e := range n.Els {
				walk(e, append(p, i), t.Elem())
			}
			return
		case "array":
			t := eqTypes[n.Ty]
			if n.Ty == 120 {
				emit("array-fewer", p, func(m *Node) bool { m.Ty = 125; m.Els = m.Els[:2]; return true })
				emit("array-as-slice", p, func(m *Node) bool { m.T = "slice"; m.Ty = 100; m.Cap = 3; return true })
				emit("array-as-slice-cap", p, func(m *Node) bool { m.T = "slice"; m.Ty = 100; m.Cap = 5; return true })
			}
			if len(n.Els) >= 2 {
				emit("array-swap", p, func(m *Node) bool {
					m.Els[0], m.Els[len(m.Els)-1] = m.Els[len(m.Els)-1], m.Els[0]
					return true
				})
			}
			for i, e := range n.Els {
				walk(e, append(p, i), t.Elem())
			}
			return
		case "map":
			t := eqTypes[n.Ty]
			if len(n.Els) > 0 {
				emit("map-fewer", p, func(m *Node) bool { m.Els = m.Els[1:]; return true })
				for i := range n.Els {
					i := i
					emit("map-key", p, func(m *Node) bool {
						var used []*Node
						for _, kv := range m.Els {
							used = append(used, kv.Els[0])
						}
						k := eqFreshKey(t.Key(), used)
						if k == nil {
							return false
						}
						m.Els[i].Els[0] = k
						return true
					})
				}
				if len(n.Els) >= 2 {
					emit("map-order", p, func(m *Node) bool { // same map, entries listed in another order: no difference
						m.Els[0], m.Els[len(m.Els)-1] = m.Els[len(m.Els)-1], m.Els[0]
						return true
					})
				}
			}
			emit("map-more", p, func(m *Node) bool {
				var used []*Node
				for _, kv := range m.Els {
					used = append(used, kv.Els[0])
				}
				k := eqFreshKey(t.Key(), used)
				if k == nil {
					return false
				}
				g := &eqGen{r: &Rng{s: uint64(len(p)*31 + len(m.Els))}, inMap: true}
				m.Els = append(m.Els, &Node{T: "kv", Els: []*Node{k, g.value(t.Elem())}})
				return true
			})
			if n.Ty == 140 {
				emit("map-type", p, func(m *Node) bool {
					if !free {
						return false
					}
					m.Ty = 145
					for _, kv := range m.Els {
						kv.Els[1].Ty = 1
					}
					return true
				})
			}
			for i, kv := range n.Els {
				walk(kv.Els[1], append(p, i, 1), t.Elem())
			}
			return
		case "struct":
			t := eqTypes[n.Ty]
			if free && n.Ty == 160 {
				emit("struct-type-samefields", p, func(m *Node) bool { m.Ty = 162; return true })
				emit("struct-type-privfield", p, func(m *Node) bool { m.Ty = 161; return true })
			}
			for i, e := range n.Els {
				walk(e, append(p, i), t.Field(i).Type)
			}
			return
		case "func":
			emit("func-id", p, func(m *Node) bool { m.I = (m.I + 1) % 3; return true })
			if free {
				emit("func-type", p, func(m *Node) bool { m.Ty = 180 + (m.Ty-180+1)%3; return true })
			}
		case "chan":
			emit("chan-id", p, func(m *Node) bool { m.I = (m.I + 1) % 3; return true })
		case "stack":
			emit("stack-kind", p, func(m *Node) bool {
				for i, k := range kinds {
					if k == m.Kind {
						m.Kind = kinds[(i+1)%len(kinds)]
						break
					}
				}
				if m.Kind == "LIST" {
					m.Sym = ""
				} else {
					m.Delim = ""
				}
				return true
			})
			emit("stack-cap", p, func(m *Node) bool {
				if m.Cap == 0 {
					m.Cap = len(m.Els) + 2
				} else {
					m.Cap++
				}
				return true
			})
			emit("stack-more", p, func(m *Node) bool {
				if m.Cap > 0 && len(m.Els) >= m.Cap {
					return false
				}
				m.Els = append(m.Els, &Node{T: "str", S: "extra"})
				return true
			})
			if len(n.Els) > 0 {
				emit("stack-fewer", p, func(m *Node) bool { m.Els = m.Els[:len(m.Els)-1]; return true })
				emit("elem-to-nil", append(p, 0), func(m *Node) bool {
					if m.T == "nil" {
						*m = Node{T: "int", I: 1}
					} else {
						*m = Node{T: "nil"}
					}
					return true
				})
				emit("elem-to-stack", append(p, len(n.Els)-1), func(m *Node) bool {
					if m.T == "stack" {
						*m = Node{T: "str", S: "was-stack"}
					} else {
						*m = Node{T: "stack", Kind: "BASIC"}
					}
					return true
				})
				emit("elem-to-cond", append(p, len(n.Els)/2), func(m *Node) bool {
					if m.T == "cond" {
						*m = Node{T: "str", S: "was-cond"}
					} else {
						*m = Node{T: "cond", Kw: "k", Op: &OpDesc{Builtin: 1}, Ex: &Node{T: "str", S: "v"}}
					}
					return true
				})
			}
			for i := 0; i+1 < len(n.Els); i++ {
				i := i
				emit("stack-swap", p, func(m *Node) bool { m.Els[i], m.Els[i+1] = m.Els[i+1], m.Els[i]; return true })
			}
			if len(n.Els) >= 3 {
				emit("stack-swap-ends", p, func(m *Node) bool {
					m.Els[0], m.Els[len(m.Els)-1] = m.Els[len(m.Els)-1], m.Els[0]
					return true
				})
			}
			// presentation only: no difference expected
			emit("stack-paren", p, func(m *Node) bool { m.Opt ^= 1; return true })
			emit("stack-nopad", p, func(m *Node) bool { m.Opt ^= 4; return true })
			emit("stack-id", p, func(m *Node) bool { m.ID += "x"; return true })
			emit("stack-fifo", p, func(m *Node) bool { m.Fifo = !m.Fifo; return true })
			emit("stack-fold", p, func(m *Node) bool { m.Opt ^= 2; return true }) // changes the reported kind word
			if len(p) > 0 {
				emit("stack-alias", p, func(m *Node) bool {
					al := []string{"", "aval", "aptr", "avalstr", "aptrstr"}
					for i, a := range al {
						if a == m.A {
							m.A = al[(i+1)%len(al)]
							break
						}
					}
					return true
				})
			}
			for i, e := range n.Els {
				walk(e, append(p, i), nil)
			}
			return
		case "cond":
			emit("cond-kw", p, func(m *Node) bool { m.Kw += "2"; return true })
			emit("cond-op", p, func(m *Node) bool {
				if m.Op == nil {
					m.Op = &OpDesc{Builtin: 1}
				} else if m.Op.User {
					m.Op = &OpDesc{Builtin: 2}
				} else {
					m.Op = &OpDesc{Builtin: m.Op.Builtin%6 + 1}
				}
				return true
			})
			emit("cond-op-nil", p, func(m *Node) bool {
				if m.Op == nil {
					return false
				}
				m.Op = nil
				return true
			})
			emit("cond-op-ctx", p, func(m *Node) bool {
				if m.Op == nil {
					return false
				}
				if m.Op.User {
					m.Op.Ctx += "x"
				} else {
					m.Op = &OpDesc{User: true, Text: opText(m.Op.Builtin), Ctx: "other"}
				}
				return true
			})
			emit("cond-op-same-text", p, func(m *Node) bool { // a user operator with the same text and context: no difference
				if m.Op == nil || m.Op.User {
					return false
				}
				m.Op = &OpDesc{User: true, Text: opText(m.Op.Builtin), Ctx: "comparison"}
				return true
			})
			emit("cond-paren", p, func(m *Node) bool { m.Opt ^= 1; return true })
			if len(p) > 0 {
				emit("cond-alias", p, func(m *Node) bool {
					if m.A == "" {
						m.A = "aptr"
					} else {
						m.A = ""
					}
					return true
				})
			}
			emit("expr-to-nil", append(p, -1), func(m *Node) bool {
				if m.T == "nil" {
					*m = Node{T: "int", I: 1}
				} else {
					*m = Node{T: "nil"}
				}
				return true
			})
			walk(n.Ex, append(p, -1), nil)
			return
		}
	}
	walk(root, nil, nil)
	return out
}

func opText(b int) string {
	switch b {
	case 1:
		return "="
	case 2:
		return "!="
	case 3:
		return "<"
	case 4:
		return ">"
	case 5:
		return "<="
	case 6:
		return ">="
	}
	return "<invalid_operator>"
}

// eqChild: child i of a node (-1 = the pointee / the expression; for a map
// entry node "kv" 0 = key, 1 = value).
func eqChild(n *Node, i int) *Node {
	if i < 0 {
		return n.Ex
	}
	return n.Els[i]
}

// ---------------------------------------------------------------------------
// running one case

type EqInput struct {
	A   *Node  `json:"a"`
	B   *Node  `json:"b"`
	Mut string `json:"mut"`
	// Share: slice leaves of B that are a prefix of the leaf at the same place
	// in A are re-slices of A's leaf (same backing array), as a shallow
	// "one element fewer" edit of a copy produces
	Share bool `json:"share,omitempty"`
}

// eqShare walks two built trees in parallel and replaces slice leaves of y
// (direct Stack elements and Condition expressions) by re-slices of x's leaf
// with y's own length and capacity.  Returns the number of leaves shared.
func eqShare(x, y any) (n int) {
	defer func() { recover() }()
	reslice := func(xv, yv any) (any, bool) {
		a, b := reflect.ValueOf(xv), reflect.ValueOf(yv)
		if !a.IsValid() || !b.IsValid() || a.Kind() != reflect.Slice || b.Kind() != reflect.Slice ||
			a.Type() != b.Type() || a.IsNil() || b.IsNil() || b.Len() > a.Len() || b.Cap() > a.Cap() || b.Cap() < b.Len() {
			return nil, false
		}
		for i := 0; i < b.Len(); i++ {
			if !reflect.DeepEqual(a.Index(i).Interface(), b.Index(i).Interface()) {
				return nil, false
			}
		}
		return a.Slice3(0, b.Len(), b.Cap()).Interface(), true
	}
	switch xs := x.(type) {
	case stk.Stack:
		ys, ok := y.(stk.Stack)
		if !ok || xs.Len() != ys.Len() {
			return 0
		}
		for i := 0; i < xs.Len(); i++ {
			xe, _ := xs.Index(i)
			ye, _ := ys.Index(i)
			if z, ok := reslice(xe, ye); ok {
				if ys.Replace(z, i) {
					n++
				}
				continue
			}
			n += eqShare(xe, ye)
		}
	case stk.Condition:
		ys, ok := y.(stk.Condition)
		if !ok {
			return 0
		}
		if z, ok := reslice(xs.Expression(), ys.Expression()); ok {
			ys.SetExpression(z)
			return 1
		}
		return eqShare(xs.Expression(), ys.Expression())
	}
	return n
}

func eqCall(x, y any) (code int, msg string) {
	defer func() {
		if r := recover(); r != nil {
			code, msg = 2, fmt.Sprint(r)
		}
	}()
	var err error
	switch r := x.(type) {
	case stk.Stack:
		err = r.IsEqual(y)
	case stk.Condition:
		err = r.IsEqual(y)
	default:
		return 1, "not a receiver"
	}
	if err != nil {
		return 1, ""
	}
	return 0, ""
}

func eqHasKind(n *Node, kinds map[string]bool) bool {
	if n == nil {
		return false
	}
	if kinds[n.T] {
		return true
	}
	for _, e := range n.Els {
		if eqHasKind(e, kinds) {
			return true
		}
	}
	return eqHasKind(n.Ex, kinds)
}

func runEqual(raw json.RawMessage) (*Result, error) {
	var in EqInput
	if err := json.Unmarshal(raw, &in); err != nil {
		return nil, err
	}
	if in.A == nil || in.B == nil {
		return nil, fmt.Errorf("equal: input needs a and b")
	}
	a, b := in.A.Build(), in.B.Build()
	shared := 0
	if in.Share {
		shared = eqShare(a, b)
	}
	ab, abm := eqCall(a, b)
	ba, bam := eqCall(b, a)
	// asking again must give the same verdicts (comparing keeps no memory)
	invariant := ""
	if ab2, _ := eqCall(a, b); ab2 != ab {
		invariant = fmt.Sprintf("a.IsEqual(b) gave verdict %d, then %d when asked again", ab, ab2)
	}
	if ba2, _ := eqCall(b, a); ba2 != ba && invariant == "" {
		invariant = fmt.Sprintf("b.IsEqual(a) gave verdict %d, then %d when asked again", ba, ba2)
	}
	tags := map[string]bool{"mut:" + in.Mut: true}
	tags[fmt.Sprintf("ab:%d", ab)] = true
	tags[fmt.Sprintf("ba:%d", ba)] = true
	if ab != ba {
		tags["asymmetric"] = true
	}
	tags["root:"+in.A.T] = true
	for _, k := range []string{"ptr", "nilptr", "slice", "array", "map", "struct", "func", "chan", "nan", "cond", "zstack", "zcond", "nil"} {
		if eqHasKind(in.A, map[string]bool{k: true}) {
			tags["has:"+k] = true
		}
	}
	if in.A.Depth() >= 2 {
		tags["nested"] = true
	}
	obs := map[string]any{"ab": ab, "ba": ba}
	if in.Share {
		obs["shared_leaves"] = shared
		tags[fmt.Sprintf("shared:%d", shared)] = true
	}
	if abm != "" {
		obs["ab_panic"] = abm
	}
	if bam != "" {
		obs["ba_panic"] = bam
	}
	coq := fmt.Sprintf("(MkEq %s %s %d%%N %d%%N)", in.A.Coq(), in.B.Coq(), ab, ba)
	nt := in.A.Count() >= 3 && (in.Mut != "copy" || in.A.Count() >= 5)
	return &Result{Coq: coq, Observed: obs, Tags: joinTags(tags), Nontrivial: nt, Invariant: invariant}, nil
}

// ---------------------------------------------------------------------------
// generators

// eqTree: a random tree whose leaves come from the catalogue.
type eqTreeGen struct {
	r        *Rng
	g        *eqGen
	maxDepth int
	zeroPct  int // zero Stack{} / Condition{} elements
	badOpPct int
}

func (t *eqTreeGen) leaf() *Node {
	if t.r.Pct(45) {
		switch t.r.Intn(5) {
		case 0:
			return &Node{T: "str", S: eqStrPool[t.r.Intn(len(eqStrPool))]}
		case 1:
			return &Node{T: "int", Ty: []int{0, 0, 1, 4, 11, 14}[t.r.Intn(6)], I: int64(t.r.Intn(100))}
		case 2:
			return &Node{T: "bool", Bv: t.r.Bool()}
		case 3:
			return t.g.prim(eqTypes[21])
		}
		return &Node{T: "nil"}
	}
	tag := eqTags[t.r.Intn(len(eqTags))]
	n := t.g.value(eqTypes[tag])
	for t.r.Pct(25) {
		n = &Node{T: "ptr", Ex: n}
	}
	// pointers to functions/channels are outside the modelled catalogue
	if n.T == "ptr" {
		b := n
		for b.T == "ptr" {
			b = b.Ex
		}
		if b.T == "func" || b.T == "chan" {
			return b
		}
	}
	return n
}

func (t *eqTreeGen) op() *OpDesc {
	if t.r.Pct(t.badOpPct) {
		if t.r.Bool() {
			return nil
		}
		return &OpDesc{Builtin: []int{0, 7, 200}[t.r.Intn(3)]}
	}
	if t.r.Pct(15) {
		return &OpDesc{User: true, Slice: t.r.Pct(30), Text: []string{"~=", "in", "="}[t.r.Intn(3)], Ctx: []string{"custom", "comparison"}[t.r.Intn(2)]}
	}
	return &OpDesc{Builtin: 1 + t.r.Intn(6)}
}

func (t *eqTreeGen) cond(depth int, nested bool) *Node {
	n := &Node{T: "cond", Kw: eqStrPool[t.r.Intn(len(eqStrPool))], Op: t.op()}
	if nested && t.r.Pct(25) {
		n.A = []string{"aval", "aptr", "avalstr", "aptrstr", "pp", "ppa"}[t.r.Intn(6)]
	}
	if t.r.Pct(30) {
		n.Opt |= 1
	}
	switch x := t.r.Intn(100); {
	case x < 25 && depth < t.maxDepth:
		n.Ex = t.stack(depth+1, true)
	case x < 30:
		n.Ex = &Node{T: "nil"}
	default:
		n.Ex = t.leaf()
		if n.Ex.T == "str" && n.Ex.S == "" { // SetExpression ignores the empty string
			n.Ex.S = "e"
		}
	}
	return n
}

func (t *eqTreeGen) stack(depth int, nested bool) *Node {
	n := &Node{T: "stack", Kind: kinds[t.r.Intn(len(kinds))]}
	if nested && t.r.Pct(30) {
		n.A = []string{"aval", "aptr", "avalstr", "aptrstr", "pp", "ppa"}[t.r.Intn(6)]
	}
	for _, o := range []int{1, 2, 4, 8} {
		if t.r.Pct(20) {
			n.Opt |= o
		}
	}
	if t.r.Pct(20) {
		n.Fifo = true
	}
	if t.r.Pct(20) {
		n.ID = "id" + eqStrPool[t.r.Intn(len(eqStrPool))]
	}
	w := t.r.Intn(5)
	if t.r.Pct(25) {
		n.Cap = w + t.r.Intn(3)
		if n.Cap == 0 {
			n.Cap = 1
		}
	}
	for i := 0; i < w; i++ {
		x := t.r.Intn(100)
		switch {
		case x < 22 && depth < t.maxDepth:
			n.Els = append(n.Els, t.stack(depth+1, true))
		case x < 40:
			n.Els = append(n.Els, t.cond(depth, true))
		case x < 40+t.zeroPct:
			n.Els = append(n.Els, &Node{T: []string{"zstack", "zcond"}[t.r.Intn(2)], A: []string{"", "aval", "aptr"}[t.r.Intn(3)]})
		default:
			n.Els = append(n.Els, t.leaf())
		}
	}
	return n
}

func eqWrap(leaf *Node) *Node {
	return &Node{T: "stack", Kind: "BASIC", Els: []*Node{leaf}}
}

func genEqual(ctx *Ctx, emit func(any, string)) {
	skipRoot := false
	pairs := func(root *Node, src string, maxMut int, r *Rng) {
		emit(EqInput{A: root, B: eqClone(root), Mut: "copy"}, src)
		ms := eqMutants(root, skipRoot)
		if maxMut > 0 && len(ms) > maxMut {
			// keep a random subset, at least one of every label where possible
			for i := len(ms) - 1; i > 0; i-- {
				j := r.Intn(i + 1)
				ms[i], ms[j] = ms[j], ms[i]
			}
			seen := map[string]bool{}
			var keep, rest []eqMutant
			for _, m := range ms {
				if !seen[m.label] {
					seen[m.label] = true
					keep = append(keep, m)
				} else {
					rest = append(rest, m)
				}
			}
			for len(keep) < maxMut && len(rest) > 0 {
				keep = append(keep, rest[0])
				rest = rest[1:]
			}
			if len(keep) > maxMut {
				keep = keep[:maxMut]
			}
			ms = keep
		}
		for _, m := range ms {
			emit(EqInput{A: root, B: m.tree, Mut: m.label}, src)
			if m.label == "slice-fewer" || m.label == "slice-fewer-cap" {
				emit(EqInput{A: root, B: m.tree, Mut: m.label + "-shared", Share: true}, src)
			}
		}
	}
	// ---- exhaustive: one deterministic sample of every catalogue type, as
	// a Stack element (plain and behind a pointer) and as a Condition
	// expression inside a nested Stack; every mutation site of it
	reps := 2
	if !ctx.Quick() {
		reps = 12
	}
	for rep := 0; rep < reps; rep++ {
		for _, tag := range eqTags {
			g := &eqGen{r: &Rng{s: uint64(tag*7919 + rep)}}
			leaf := g.value(eqTypes[tag])
			skipRoot = !(rep == 0 && (tag == 100 || tag == 160)) // the wrapper's own mutation sites once, not 110 times
			pairs(eqWrap(leaf), "exhaustive", 0, ctx.Rng)
			skipRoot = false
			if tag >= 100 && tag < 180 && (rep > 0 || tag%3 == 0) {
				pl := &Node{T: "ptr", Ex: eqClone(leaf)}
				tree := &Node{T: "stack", Kind: "AND", Els: []*Node{{T: "str", S: "x"},
					{T: "cond", Kw: "k", Op: &OpDesc{Builtin: 1}, Ex: pl}, {T: "stack", Kind: "OR", A: "aptr", Els: []*Node{eqClone(leaf)}}}}
				pairs(tree, "exhaustive", 10, ctx.Rng)
				// the same behind two pointer levels (**Stack, **alias, **Condition)
				tree2 := &Node{T: "stack", Kind: "AND", Els: []*Node{{T: "str", S: "x"},
					{T: "cond", A: "pp", Kw: "k", Op: &OpDesc{Builtin: 1}, Ex: eqClone(leaf)},
					{T: "stack", Kind: "OR", A: []string{"pp", "ppa"}[tag%2], Els: []*Node{eqClone(leaf), {T: "int", I: 3}}},
					{T: "cond", Kw: "c", Op: &OpDesc{Builtin: 2}, Ex: &Node{T: "stack", Kind: "LIST", A: "ppa", Els: []*Node{eqClone(leaf)}}}}}
				pairs(tree2, "exhaustive", 12, ctx.Rng)
			}
		}
	}
	// kinds against each other while BOTH stacks carry the same symbol, the
	// same case-fold flag or the same delimiter (what Kind() displays must not
	// stand in for the kind), at top level and nested
	for _, sym := range []string{"", "&", "||"} {
		for _, k1 := range kinds {
			for _, k2 := range kinds {
				for _, opt := range []int{0, 2} {
					mk := func(k string, nested bool) *Node {
						st := &Node{T: "stack", Kind: k, Sym: sym, Opt: opt, Els: []*Node{{T: "str", S: "a"}, {T: "int", I: 2}}}
						if k == "LIST" {
							st.Sym, st.Delim = "", sym
						}
						if nested {
							return &Node{T: "stack", Kind: "AND", Els: []*Node{{T: "str", S: "x"}, st}}
						}
						return st
					}
					for _, nested := range []bool{false, true} {
						emit(EqInput{A: mk(k1, nested), B: mk(k2, nested), Mut: "kind-same-symbol"}, "exhaustive")
					}
				}
			}
		}
	}
	// every ordered pair of catalogue kinds against each other (different
	// values at the same position: only "equal or not" matters)
	{
		var samples []*Node
		for _, tag := range []int{0, 1, 21, 30, 31, 100, 102, 103, 104, 120, 123, 140, 142, 144, 160, 161, 163, 164, 166, 167, 169, 170, 171, 172, 173, 180, 182, 190} {
			g := &eqGen{r: &Rng{s: uint64(tag*131 + 5)}}
			samples = append(samples, g.value(eqTypes[tag]))
		}
		samples = append(samples, &Node{T: "nil"}, &Node{T: "nilptr", I: 1}, &Node{T: "nan", Ty: 21},
			&Node{T: "ptr", Ex: &Node{T: "int", I: 3}}, &Node{T: "stack", Kind: "AND", Els: []*Node{{T: "int", I: 1}}},
			&Node{T: "stack", Kind: "AND", A: "aptr"}, &Node{T: "cond", Kw: "k", Op: &OpDesc{Builtin: 1}, Ex: &Node{T: "int", I: 1}},
			&Node{T: "zstack"}, &Node{T: "zcond", A: "aval"}, &Node{T: "zstack", A: "aptr"})
		for i, a := range samples {
			for j, b := range samples {
				if i == j || (ctx.Quick() && (i+2*j)%3 != 0) {
					continue
				}
				emit(EqInput{A: eqWrap(eqClone(a)), B: eqWrap(eqClone(b)), Mut: "cross"}, "exhaustive")
			}
		}
	}
	// pointer depth 0..3 on both sides, same and different pointee
	for _, tag := range []int{0, 30, 100, 120, 140, 160} {
		g := &eqGen{r: &Rng{s: uint64(tag*17 + 3)}}
		leaf := g.value(eqTypes[tag])
		var other []eqMutant
		for _, m := range eqMutants(eqWrap(leaf), true) {
			if k := m.tree.Els[0].T; k != "stack" && k != "cond" && k != "nil" {
				other = append(other, m)
			}
		}
		wrapN := func(n *Node, d int) *Node {
			n = eqClone(n)
			for ; d > 0; d-- {
				n = &Node{T: "ptr", Ex: n}
			}
			return n
		}
		for d := 0; d <= 3; d++ {
			for e := 0; e <= 3; e++ {
				emit(EqInput{A: eqWrap(wrapN(leaf, d)), B: eqWrap(wrapN(leaf, e)), Mut: "ptr-depth-pair"}, "exhaustive")
				if len(other) > 0 && (d+e)%2 == 1 {
					emit(EqInput{A: eqWrap(wrapN(leaf, d)), B: eqWrap(wrapN(other[(d+e)%len(other)].tree.Els[0], e)), Mut: "ptr-depth-pair-diff"}, "exhaustive")
				}
			}
		}
	}
	// length is no limit: a slice of 1500 ints and a map of 150 entries, equal and
	// differing in one late element; a Stack of 1300 leaves differing in the last
	{
		bigSlice := func(at int) *Node {
			n := &Node{T: "slice", Ty: 100, Cap: 1500}
			for i := 0; i < 1500; i++ {
				v := int64(i % 23)
				if i == at {
					v = 99
				}
				n.Els = append(n.Els, &Node{T: "int", I: v})
			}
			return n
		}
		bigMap := func(at int) *Node {
			n := &Node{T: "map", Ty: 140}
			for i := 0; i < 150; i++ {
				v := int64(i)
				if i == at {
					v = -1
				}
				n.Els = append(n.Els, &Node{T: "kv", Els: []*Node{{T: "str", S: fmt.Sprintf("key%03d", i)}, {T: "int", I: v}}})
			}
			return n
		}
		bigStack := func(last int64) *Node {
			n := &Node{T: "stack", Kind: "AND"}
			for i := 0; i < 1300; i++ {
				n.Els = append(n.Els, &Node{T: "int", I: int64(i % 7)})
			}
			n.Els[1299].I = last
			return n
		}
		emit(EqInput{A: eqWrap(bigSlice(-1)), B: eqWrap(bigSlice(-1)), Mut: "copy"}, "exhaustive")
		emit(EqInput{A: eqWrap(bigSlice(-1)), B: eqWrap(bigSlice(1400)), Mut: "late-element"}, "exhaustive")
		emit(EqInput{A: eqWrap(bigMap(-1)), B: eqWrap(bigMap(-1)), Mut: "copy"}, "exhaustive")
		emit(EqInput{A: eqWrap(bigMap(-1)), B: eqWrap(bigMap(140)), Mut: "late-entry"}, "exhaustive")
		emit(EqInput{A: bigStack(1), B: bigStack(1), Mut: "copy"}, "exhaustive")
		emit(EqInput{A: bigStack(1), B: bigStack(2), Mut: "last-element"}, "exhaustive")
	}
	// depth is no limit: chains of 300 / 520 / 700 nested Stacks (every fourth hop
	// through a Condition), equal and differing in the innermost leaf
	for _, depth := range []int{300, 520, 700} {
		chain := func(last int64) *Node {
			cur := &Node{T: "stack", Kind: "OR", Els: []*Node{{T: "str", S: "bottom"}, {T: "int", I: last}}}
			for d := 0; d < depth; d++ {
				if d%4 == 3 {
					cur = &Node{T: "stack", Kind: "AND", Els: []*Node{{T: "cond", Kw: "k", Op: &OpDesc{Builtin: 1}, Ex: cur}}}
				} else {
					cur = &Node{T: "stack", Kind: "AND", Els: []*Node{cur}}
				}
			}
			return cur
		}
		emit(EqInput{A: chain(1), B: chain(1), Mut: "copy"}, "exhaustive")
		emit(EqInput{A: chain(1), B: chain(2), Mut: "deep-leaf"}, "exhaustive")
	}
	// a Condition as the receiver
	for i := 0; i < 6; i++ {
		g := &eqGen{r: &Rng{s: uint64(4242 + i)}}
		c := &Node{T: "cond", Kw: "attr", Op: &OpDesc{Builtin: 1 + i}, Ex: g.value(eqTypes[[]int{0, 100, 140, 160, 164, 103}[i]])}
		pairs(c, "exhaustive", 0, ctx.Rng)
	}
	// ---- random trees
	n := ctx.N(70, 2500)
	for i := 0; i < n; i++ {
		r := ctx.Rng.Fork()
		t := &eqTreeGen{r: r, g: &eqGen{r: r}, maxDepth: 3, badOpPct: 8}
		var root *Node
		if r.Pct(15) {
			root = t.cond(0, false)
		} else {
			root = t.stack(0, false)
		}
		pairs(root, "random", 12, r)
	}
	// ---- malformed / corner stream: NaN, nil pointers, zero instances,
	// mismatched receivers
	m := ctx.N(40, 1200)
	for i := 0; i < m; i++ {
		r := ctx.Rng.Fork()
		t := &eqTreeGen{r: r, g: &eqGen{r: r, nilPct: 25, nanPct: 25}, maxDepth: 2, zeroPct: 12, badOpPct: 30}
		root := t.stack(0, false)
		pairs(root, "random", 6, r)
		switch r.Intn(6) {
		case 0: // a Condition asked about a Stack, and the reverse
			emit(EqInput{A: t.cond(0, false), B: root, Mut: "receiver-kind"}, "random")
		case 1:
			emit(EqInput{A: root, B: &Node{T: "zstack"}, Mut: "zero-arg"}, "random")
		case 2:
			emit(EqInput{A: &Node{T: "zstack"}, B: root, Mut: "zero-receiver"}, "random")
		case 3:
			emit(EqInput{A: t.cond(0, false), B: &Node{T: "zcond"}, Mut: "zero-arg"}, "random")
		case 4:
			emit(EqInput{A: root, B: t.leaf(), Mut: "leaf-arg"}, "random")
		case 5:
			emit(EqInput{A: root, B: &Node{T: "nil"}, Mut: "nil-arg"}, "random")
		}
	}
}

func init() {
	register(&Family{Name: "equal", Gen: genEqual, Run: runEqual,
		Rule: "pairs (tree, independently rebuilt copy) and (tree, copy with ONE point mutation), IsEqual observed in both directions as nil/error/panic. Leaves are generated from a catalogue of 55 Go types (primitives, pointers to any depth, slices, arrays, maps, structs with unexported and embedded fields, funcs, chans). exhaustive: one sample of every catalogue type as Stack element / behind a pointer in a Condition / in a nested alias Stack, with every mutation site (leaf value, leaf type, each slice/array/map element, more/fewer, capacity, key, swap, operator, keyword, kind, fold, alias kind, options, nil/Stack/Condition exchanged); random: trees of depth<=3, up to 12 mutants each; corner stream: NaN, nil pointers, zero Stack{}/Condition{}, invalid/missing operators, mismatched receiver kinds. non-trivial = tree of >=3 nodes (>=5 for an unmutated copy)"})
}

var _ = math.NaN
