// Command harness runs generated inputs, operation histories and schedules
// on the real go-stackage package (built from /repo's working tree with
// -tags verif) and writes, per case, the input together with the observables
// the properties name, both as JSON (for replay) and as a Coq term (for
// evaluation against the model and the specification inside Coq).
//
//	harness gen  -family F -tier quick|thorough -seed N -out DIR [-scale K] [-bias TAG]
//	harness replay -file replay.json
package main

import (
	"bufio"
	"crypto/sha256"
	"encoding/hex"
	"encoding/json"
	"flag"
	"fmt"
	"os"
	"path/filepath"
	"sort"
	"strings"
	"time"
)

// Rng is splitmix64: every random choice of a run derives from one state.
type Rng struct{ s uint64 }

func (r *Rng) Next() uint64 {
	r.s += 0x9e3779b97f4a7c15
	z := r.s
	z = (z ^ (z >> 30)) * 0xbf58476d1ce4e5b9
	z = (z ^ (z >> 27)) * 0x94d049bb133111eb
	return z ^ (z >> 31)
}
func (r *Rng) Intn(n int) int {
	if n <= 0 {
		return 0
	}
	return int(r.Next() % uint64(n))
}
func (r *Rng) Bool() bool         { return r.Next()&1 == 1 }
func (r *Rng) Pct(p int) bool     { return r.Intn(100) < p }
func (r *Rng) Range(a, b int) int { return a + r.Intn(b-a+1) }
func (r *Rng) Fork() *Rng         { return &Rng{s: r.Next()} }

// caseWatchdog: how long one case may take (the slowest legitimate ones take well under a second)
const caseWatchdog = 120 * time.Second

// Case is one executed case.
type Case struct {
	ID         int      `json:"id"`
	Family     string   `json:"family"`
	Input      any      `json:"input"`
	Observed   any      `json:"observed,omitempty"`
	Coq        string   `json:"coq"`
	Tags       []string `json:"tags,omitempty"`
	Nontrivial bool     `json:"nontrivial"`
	Source     string   `json:"source"` // corpus | exhaustive | random
	// Invariant: non-empty when the run broke something the harness checks by
	// itself, outside the model (e.g. the caller's argument slice was rewritten)
	Invariant string `json:"invariant,omitempty"`
	// InvariantKF: the class of the broken invariant when it is one a known
	// finding may describe (check.py decides; empty = always a violation)
	InvariantKF string `json:"invariant_kf,omitempty"`
}

// Family generates inputs and runs one input on the implementation.
type Family struct {
	Name string
	// Gen calls emit(input, source) for every input of the tier.
	Gen func(ctx *Ctx, emit func(input any, source string))
	// Run executes one input (freshly decoded from JSON) on the real package.
	Run func(raw json.RawMessage) (*Result, error)
	// Rule describes generation and the non-triviality rule.
	Rule string
}

// Result of running one input.
type Result struct {
	Coq         string
	Observed    any
	Tags        []string
	Nontrivial  bool
	Invariant   string
	InvariantKF string
}

type Ctx struct {
	Rng   *Rng
	Tier  string
	Scale int
	Bias  string
}

func (c *Ctx) Quick() bool { return c.Tier != "thorough" }

// N scales a case budget by the tier and the -scale factor.
func (c *Ctx) N(quick, thorough int) int {
	n := quick
	if !c.Quick() {
		n = thorough
	}
	return n * c.Scale
}

var families = map[string]*Family{}

func register(f *Family) { families[f.Name] = f }

func main() {
	if len(os.Args) < 2 {
		fmt.Fprintln(os.Stderr, "usage: harness gen|replay|list ...")
		os.Exit(2)
	}
	switch os.Args[1] {
	case "list":
		var names []string
		for n := range families {
			names = append(names, n)
		}
		sort.Strings(names)
		fmt.Println(strings.Join(names, "\n"))
	case "gen":
		fs := flag.NewFlagSet("gen", flag.ExitOnError)
		fam := fs.String("family", "", "family name")
		tier := fs.String("tier", "quick", "quick|thorough")
		seed := fs.Uint64("seed", 1, "PRNG seed")
		out := fs.String("out", "", "output directory")
		scale := fs.Int("scale", 1, "case budget multiplier")
		bias := fs.String("bias", "", "bias tag for the widened search")
		corpus := fs.String("corpus", "", "corpus directory (json inputs run first)")
		fs.Parse(os.Args[2:])
		f := families[*fam]
		if f == nil {
			fmt.Fprintf(os.Stderr, "unknown family %q\n", *fam)
			os.Exit(2)
		}
		if err := gen(f, *tier, *seed, *out, *scale, *bias, *corpus); err != nil {
			fmt.Fprintln(os.Stderr, "harness:", err)
			os.Exit(2)
		}
	case "run":
		fs := flag.NewFlagSet("run", flag.ExitOnError)
		fam := fs.String("family", "", "family name")
		inputs := fs.String("inputs", "", "jsonl file of inputs")
		out := fs.String("out", "", "output directory")
		fs.Parse(os.Args[2:])
		f := families[*fam]
		if f == nil {
			fmt.Fprintf(os.Stderr, "unknown family %q\n", *fam)
			os.Exit(2)
		}
		b, err := os.ReadFile(*inputs)
		if err != nil {
			fmt.Fprintln(os.Stderr, "harness:", err)
			os.Exit(2)
		}
		var list []json.RawMessage
		for _, l := range strings.Split(string(b), "\n") {
			if strings.TrimSpace(l) != "" {
				list = append(list, json.RawMessage(l))
			}
		}
		g := *f
		g.Gen = func(ctx *Ctx, emit func(any, string)) {
			for _, in := range list {
				emit(in, "given")
			}
		}
		if err := gen(&g, "quick", 0, *out, 1, "", ""); err != nil {
			fmt.Fprintln(os.Stderr, "harness:", err)
			os.Exit(2)
		}
	case "stress":
		stressMain(os.Args[2:])
	case "replay":
		fs := flag.NewFlagSet("replay", flag.ExitOnError)
		file := fs.String("file", "", "replay file")
		fs.Parse(os.Args[2:])
		if err := replay(*file); err != nil {
			fmt.Fprintln(os.Stderr, "harness:", err)
			os.Exit(2)
		}
	default:
		fmt.Fprintln(os.Stderr, "unknown command", os.Args[1])
		os.Exit(2)
	}
}

func gen(f *Family, tier string, seed uint64, out string, scale int, bias, corpus string) error {
	if err := os.MkdirAll(out, 0o755); err != nil {
		return err
	}
	w, err := os.Create(filepath.Join(out, "cases.jsonl"))
	if err != nil {
		return err
	}
	defer w.Close()
	bw := bufio.NewWriterSize(w, 1<<20)
	defer bw.Flush()
	ctx := &Ctx{Rng: &Rng{s: seed*0x9e3779b97f4a7c15 + 0x1234567}, Tier: tier, Scale: scale, Bias: bias}
	seen := map[string]bool{}
	tagCount := map[string]int{}
	srcCount := map[string]int{}
	n, distinctNT := 0, 0
	var samples []any
	enc := json.NewEncoder(bw)
	emit := func(input any, source string) {
		raw, err := json.Marshal(input)
		if err != nil {
			panic(err)
		}
		// every case runs under a watchdog: a call that never returns (a lock
		// taken twice, a lock left held) is a finding, not a hung check
		type runOut struct {
			res *Result
			err error
		}
		ch := make(chan runOut, 1)
		go func() {
			r, e := f.Run(raw)
			ch <- runOut{r, e}
		}()
		var res *Result
		select {
		case o := <-ch:
			res, err = o.res, o.err
		case <-time.After(caseWatchdog):
			res = &Result{Tags: []string{"watchdog"}, Nontrivial: true,
				Observed:  "the case did not return",
				Invariant: fmt.Sprintf("the case did not return within %v (a call blocked: deadlock?)", caseWatchdog)}
		}
		if err != nil {
			panic(fmt.Sprintf("family %s: run: %v (input %s)", f.Name, err, raw))
		}
		h := sha256.Sum256(raw)
		hs := hex.EncodeToString(h[:8])
		if !seen[hs] {
			seen[hs] = true
			if res.Nontrivial {
				distinctNT++
			}
		}
		for _, t := range res.Tags {
			tagCount[t]++
		}
		srcCount[source]++
		c := Case{ID: n, Family: f.Name, Input: json.RawMessage(raw), Observed: res.Observed, Coq: res.Coq,
			Tags: res.Tags, Nontrivial: res.Nontrivial, Source: source, Invariant: res.Invariant, InvariantKF: res.InvariantKF}
		if len(samples) < 3 && res.Nontrivial && (source == "random" || len(samples) < 1) {
			samples = append(samples, map[string]any{"input": json.RawMessage(raw), "observed": res.Observed})
		}
		enc.Encode(&c)
		n++
	}
	// corpus first
	if corpus != "" {
		files, _ := filepath.Glob(filepath.Join(corpus, f.Name, "*.json"))
		sort.Strings(files)
		for _, fn := range files {
			b, err := os.ReadFile(fn)
			if err != nil {
				return err
			}
			var rf struct {
				Input json.RawMessage `json:"input"`
			}
			if err := json.Unmarshal(b, &rf); err != nil || rf.Input == nil {
				return fmt.Errorf("corpus file %s: no input", fn)
			}
			var v any
			json.Unmarshal(rf.Input, &v)
			emit(json.RawMessage(rf.Input), "corpus")
		}
	}
	f.Gen(ctx, emit)
	sum := map[string]any{
		"family": f.Name, "tier": tier, "seed": seed, "evaluations": n, "distinct": len(seen),
		"distinct_nontrivial": distinctNT, "tags": tagCount, "sources": srcCount, "samples": samples, "rule": f.Rule,
		"methods": methodSets(),
	}
	b, _ := json.MarshalIndent(sum, "", " ")
	return os.WriteFile(filepath.Join(out, "summary.json"), b, 0o644)
}

func replay(file string) error {
	b, err := os.ReadFile(file)
	if err != nil {
		return err
	}
	var rf struct {
		Family string          `json:"family"`
		Input  json.RawMessage `json:"input"`
	}
	if err := json.Unmarshal(b, &rf); err != nil {
		return err
	}
	f := families[rf.Family]
	if f == nil {
		return fmt.Errorf("replay file names no known family (%q): it records a broken proof or tie, not an input", rf.Family)
	}
	res, err := f.Run(rf.Input)
	if err != nil {
		return err
	}
	o, _ := json.MarshalIndent(map[string]any{"family": rf.Family, "input": rf.Input, "observed_now": res.Observed, "coq": res.Coq}, "", " ")
	fmt.Println(string(o))
	return nil
}

// ---- helpers for printing Coq terms ----

func coqZ(i int) string {
	if i < 0 {
		return fmt.Sprintf("(%d)", i)
	}
	return fmt.Sprintf("%d", i)
}
func coqBool(b bool) string {
	if b {
		return "true"
	}
	return "false"
}
func coqBytes(s string) string {
	plain := true
	for _, c := range []byte(s) {
		if c < 32 || c > 126 || c == '"' {
			plain = false
			break
		}
	}
	if plain {
		return "(B \"" + s + "\")"
	}
	var parts []string
	for _, c := range []byte(s) {
		parts = append(parts, fmt.Sprintf("%d%%N", c))
	}
	return "(L [" + strings.Join(parts, ";") + "])"
}
func coqList(items []string) string { return "[" + strings.Join(items, "; ") + "]" }
func coqOpt(s string, some bool) string {
	if some {
		return "(Some " + s + ")"
	}
	return "None"
}
