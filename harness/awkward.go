package main

// Family awkward (C08, value part): every method taking `any` (or an
// interface) x a catalogue of awkward Go values x receiver states, followed
// by a fixed battery of observers.  Observed: does any call panic, and is the
// receiver still initialised and usable afterwards.

import (
	"encoding/json"
	"fmt"
	"math"
	"unsafe"

	stk "github.com/JesseCoretta/go-stackage"
)

type privStruct struct {
	a int
	B string
}
type embStruct struct {
	privStruct
	C int
}
type stringerT struct{ s string }

func (r stringerT) String() string { return r.s }

type AwkInput struct {
	Recv   string `json:"recv"`   // and list basic andcap ronly negfwd cond condinit condstack
	Method string `json:"method"` // see awkMethods
	Val    int    `json:"val"`    // index into awkValues
	Val2   int    `json:"val2"`   // second value (IsEqual comparand stored on the other side), -1 none
}

func awkValues() []any {
	var np *int
	var npp **int
	var nsp *stk.Stack
	var nap *aliasStack
	var napp **aliasStack
	var ncp *stk.Condition
	var nf func()
	var nch chan int
	var nm map[string]int
	var ns []any
	var nerr error
	freed := stk.And().Push("gone")
	freed.Free()
	pfreed := &freed
	pzs := &stk.Stack{}
	freedc := stk.Cond("k", stk.Eq, "v")
	freedc.Free()
	pfreedc := &freedc
	one := 1
	pone := &one
	ppone := &pone
	return []any{
		nil, np, npp, nsp, nap, napp, ncp, // 0-6 nils of every depth
		stk.Stack{}, stk.Condition{}, aliasStack{}, &aliasStack{}, aCond{}, &aCond{}, // 7-12 zero values
		func() {}, nf, make(chan int), nch, // 13-16
		map[string]int{"a": 1}, nm, map[string]int{"b": 1}, // 17-19
		privStruct{1, "x"}, &privStruct{2, "y"}, embStruct{}, struct{}{}, // 20-23
		math.NaN(), float32(1.5), complex(1, 2), uintptr(7), unsafe.Pointer(nil), // 24-28
		[]any{}, ns, []int{1, 2, 3}, [2]int{1, 2}, [0]int{}, []any{"AND", 1}, // 29-34
		nerr, fmt.Errorf("e"), stringerT{"str"}, stringerT{}, &stringerT{"p"}, // 35-39
		pone, ppone, "", "text", 0, true, rune('x'), []string{}, []string{"a", "b", "c"}, // 40-48
		stk.ComparisonOperator(0), stk.ComparisonOperator(9), userOp{"", ""}, // 49-51
		map[float64]int{math.NaN(): 1}, map[float64]string{math.NaN(): "x", 1: "y"}, // 52-53 NaN keys cannot be looked up
		[]any{map[float64]int{math.NaN(): 1}}, struct{ M map[float64]int }{map[float64]int{math.NaN(): 2}}, // 54-55
		sliceOp{"~", "custom"}, sliceOp{"", ""}, // 56-57 operators of an uncomparable Go type
		&stk.Stack{}, pfreed, &pzs, &stk.Condition{}, pfreedc, // 58-62 non-nil pointers to zero / freed instances
		struct{ fmt.Stringer }{stringerT{"e"}}, struct{ error }{fmt.Errorf("e")}, struct{ fmt.Stringer }{}, // 63-65 embedded interface fields, exported and not
		struct{ A, b int }{1, 2}, struct{ a, B int }{1, 2}, struct{ privStruct }{}, // 66-68 same shape, visibility swapped
		-1, math.MinInt, math.MaxInt, 3, 65536, int8(-1), int64(-5), uint(3), uint16(65535), -0.5, "stderr\\", "\\", // 69-80 numbers at the edges of what selectors / tables expect; backslashes
		localStackAliasB(stk.Or().Push("in")), localPlainB(), localCondAliasB(stk.Cond("k", stk.Eq, "v")), localPlainClauseB(), // 81-84 an alias type and a plain struct type that print the same name
		localPlainA(), localStackAliasA(stk.Or().Push("in")), localPlainRuleA(), localCondAliasA(stk.Cond("k", stk.Eq, "v")), // 85-88 the same, met in the other order
		oddStringer{"x"}, &oddStringer{"y"}, // 89-90 a method named String that takes an argument
	}
}

var awkMethods = []string{"push", "pushtwice", "insert", "replace", "isequal", "transfer", "setdelim", "setsymbol", "setencap",
	"setloglevel", "unsetloglevel", "setlogger", "marshal", "convstack", "convcond", "cond_kw", "cond_ex", "cond_op",
	"setkeyword", "setexpression", "setoperator", "cisequal", "csetencap", "evaluate", "setaux"}

func awkRecv(kind string) (stk.Stack, stk.Condition) {
	switch kind {
	case "list":
		return stk.List().Push("a", "b"), stk.Condition{}
	case "basic":
		return stk.Basic().Push(1, "b"), stk.Condition{}
	case "andcap":
		return stk.And(4).Push("a"), stk.Condition{}
	case "negfwd":
		return stk.Or().SetNegativeIndices(true).SetForwardIndices(true).Push("a", nil, "c"), stk.Condition{}
	case "enc":
		return stk.And().SetEncap(`"`).Push("a", "b"), stk.Condition{}
	case "cond":
		return stk.Stack{}, stk.Cond("k", stk.Eq, "v")
	case "condinit":
		var c stk.Condition
		c.Init()
		return stk.Stack{}, c
	case "condstack":
		return stk.Stack{}, stk.Cond("k", stk.Ne, stk.And().Push("x", "y"))
	}
	return stk.And().Push("a", "b", "c"), stk.Condition{}
}

func runAwkward(raw json.RawMessage) (res *Result, err error) {
	var in AwkInput
	if err = json.Unmarshal(raw, &in); err != nil {
		return nil, err
	}
	vals := awkValues()
	v := vals[in.Val]
	s, c := awkRecv(in.Recv)
	isCond := c.IsInit()
	step := "call"
	invariant := ""
	panicked := ""
	usable := false
	func() {
		defer func() {
			if r := recover(); r != nil {
				panicked = fmt.Sprintf("%s: %v", step, r)
			}
		}()
		op, _ := v.(stk.Operator)
		switch in.Method {
		case "push":
			s.Push(v, "after")
		case "pushtwice":
			s.Push(v, v) // two slots holding values of the same (possibly uncomparable) type
		case "isequalpair":
			// two stacks that differ in ONE slot: values of (possibly) different types, both directions
			w := vals[in.Val2]
			a, b := stk.And().Push("k", v, "z"), stk.And().Push("k", w, "z")
			_ = a.IsEqual(b)
			_ = b.IsEqual(a)
			ca, cb := stk.Cond("k", stk.Eq, v), stk.Cond("k", stk.Eq, w)
			_ = ca.IsEqual(cb)
			_ = cb.IsEqual(ca)
		case "insert":
			s.Insert(v, 1)
		case "replace":
			s.Replace(v, 0)
		case "isequal":
			_ = s.IsEqual(v)
		case "transfer":
			_ = s.Transfer(v)
		case "setdelim":
			s.SetDelimiter(v)
		case "setsymbol":
			s.SetSymbol(v)
		case "setencap":
			s.SetEncap(`[`, `]`)
			s.SetEncap(v)
		case "setloglevel":
			s.SetLogLevel(v)
			c.SetLogLevel(v)
		case "unsetloglevel":
			s.UnsetLogLevel(v)
			c.UnsetLogLevel(v)
		case "setlogger":
			s.SetLogger(v)
			c.SetLogger(v)
			// the package-level selectors take the same values
			stk.SetDefaultStackLogger(v)
			stk.SetDefaultConditionLogger(v)
			stk.SetDefaultStackLogger(nil)
			stk.SetDefaultConditionLogger(nil)
		case "marshal":
			var m stk.Stack
			_ = m.Marshal(v)
			if l, ok := v.([]any); ok {
				var m2 stk.Stack
				_ = m2.Marshal(l...)
			}
			_ = s.Marshal(v)
		case "convstack":
			if cs, ok := stk.ConvertStack(v); ok && !cs.IsInit() {
				invariant = fmt.Sprintf("ConvertStack(%T) reports success for an uninitialised instance", v)
			}
		case "convcond":
			if cc, ok := stk.ConvertCondition(v); ok && !cc.IsInit() {
				invariant = fmt.Sprintf("ConvertCondition(%T) reports success for an uninitialised instance", v)
			}
		case "cond_kw":
			c = stk.Cond(v, stk.Eq, "x")
			isCond = true
		case "cond_ex":
			c = stk.Cond("k", stk.Eq, v)
			isCond = true
		case "cond_op":
			c = stk.Cond("k", op, "x")
			isCond = true
		case "setkeyword":
			c.SetKeyword(v)
		case "setexpression":
			c.SetExpression(v)
		case "setoperator":
			c.SetOperator(op)
		case "cisequal":
			_ = c.IsEqual(v)
		case "csetencap":
			c.SetEncap(`<`, `>`)
			c.SetEncap(v)
		case "evaluate":
			_, _ = c.Evaluate(v)
		case "setaux":
			s.SetAuxiliary(nil)
			s.Auxiliary().Set("k", v)
			_, _ = s.Auxiliary().Get("k")
		}
		// the battery of observers
		if isCond {
			step = "cond.String"
			_ = c.String()
			step = "cond.Valid"
			_ = c.Valid()
			step = "cond.Unmarshal"
			_, _ = c.Unmarshal()
			step = "cond.IsEqual(self)"
			_ = c.IsEqual(c)
			step = "cond.IsEqual(rebuilt)"
			_ = c.IsEqual(stk.Cond(c.Keyword(), c.Operator(), c.Expression()))
			step = "cond.Len/IsNesting"
			_ = c.Len()
			_ = c.IsNesting()
			step = "stack-with-cond.String"
			outer := stk.And().Push(c, "z")
			_ = outer.String()
			_, _ = outer.Unmarshal()
			_, _ = outer.Traverse(0, 0)
			outer.Defrag()
			outer.Reveal()
			usable = c.IsInit()
		}
		if s.IsInit() {
			step = "String"
			_ = s.String()
			step = "Unmarshal"
			u, _ := s.Unmarshal()
			step = "Marshal(Unmarshal)"
			var m stk.Stack
			_ = m.Marshal(u)
			step = "IsEqual(self)"
			_ = s.IsEqual(s)
			step = "IsEqual(copy)"
			cp := stk.And()
			for i := 0; i < s.Len(); i++ {
				x, _ := s.Index(i)
				cp.Push(x)
			}
			_ = s.IsEqual(cp)
			_ = cp.IsEqual(s)
			step = "Traverse"
			for i := -1; i <= s.Len(); i++ {
				_, _ = s.Traverse(i)
				_, _ = s.Traverse(i, 0)
				_, _ = s.Traverse(i, 0, 0)
			}
			step = "IsNesting/Less/Front/Back"
			_ = s.IsNesting()
			for i := -1; i <= s.Len(); i++ {
				for j := -1; j <= s.Len(); j++ {
					_ = s.Less(i, j)
				}
			}
			_, _ = s.Front()
			_, _ = s.Back()
			step = "Defrag"
			s.Defrag()
			step = "Reveal"
			s.Reveal()
			step = "Push/Pop after"
			n := s.Len()
			s.Push("probe")
			if s.Len() == n+1 || s.IsFull() {
				usable = true
			}
			s.Pop()
			usable = usable && s.IsInit() && s.Kind() != "<invalid_stack>"
		}
	}()
	coq := fmt.Sprintf("(MkA %s %s)", coqBool(panicked != ""), coqBool(usable))
	tags := []string{"recv:" + in.Recv, "m:" + in.Method}
	if panicked != "" {
		tags = append(tags, "panic")
	}
	return &Result{Coq: coq, Observed: map[string]any{"panic": panicked, "usable": usable, "value": fmt.Sprintf("%T", v)},
		Tags: tags, Nontrivial: true, Invariant: invariant}, nil
}

func genAwkward(ctx *Ctx, emit func(any, string)) {
	n := len(awkValues())
	// every ordered pair of catalogue values opposite each other in IsEqual
	for v := 0; v < n; v++ {
		for w := 0; w < n; w++ {
			if ctx.Quick() && (v+w)%3 != 0 && !(v >= 63 && w >= 63) {
				continue
			}
			emit(AwkInput{Recv: "and", Method: "isequalpair", Val: v, Val2: w}, "exhaustive")
		}
	}
	stackRecvs := []string{"and", "list", "basic", "andcap", "negfwd", "enc"}
	condRecvs := []string{"cond", "condinit", "condstack"}
	for _, m := range awkMethods {
		recvs := stackRecvs
		switch m {
		case "setkeyword", "setexpression", "setoperator", "cisequal", "csetencap", "evaluate":
			recvs = condRecvs
		case "convstack", "convcond", "cond_kw", "cond_ex", "cond_op":
			recvs = []string{"and"}
		}
		if ctx.Quick() && len(recvs) > 3 {
			recvs = recvs[:3]
		}
		for _, r := range recvs {
			for v := 0; v < n; v++ {
				emit(AwkInput{Recv: r, Method: m, Val: v, Val2: -1}, "exhaustive")
			}
		}
	}
}

func init() {
	register(&Family{Name: "awkward", Gen: genAwkward, Run: runAwkward,
		Rule: "exhaustive: 25 methods taking `any`/interfaces (Push, Push of the same value twice, Insert, Replace, IsEqual, Transfer, SetDelimiter, SetSymbol, SetEncap, Set/UnsetLogLevel, SetLogger, Marshal, ConvertStack, ConvertCondition, Cond (each argument), SetKeyword, SetExpression, SetOperator, Condition.IsEqual/SetEncap/Evaluate, Auxiliary.Set) x a catalogue of 91 awkward Go values (typed nils of depth 1-2, zero Stack/Condition/aliases, funcs, chans, maps, private-field structs, NaN, complex, uintptr, unsafe pointer, empty/nil slices, arrays, errors, stringers, pointers to pointers, bogus operators, NaN-keyed maps, operators of an uncomparable type, non-nil pointers to zero and freed instances, structs with embedded interface fields and swapped field visibility); every ordered pair of catalogue values opposite each other in Stack.IsEqual / Condition.IsEqual (a third of the pairs in the quick tier) x receiver states; then a battery of observers (String, Unmarshal, Marshal of it, IsEqual self/copy both ways, Traverse, IsNesting, Less over every pair of positions, Front, Back, Defrag, Reveal, Push/Pop). Observed: any panic (with the step), receiver still initialised and usable. every case is non-trivial; distinct = input hash"})
}
