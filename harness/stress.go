package main

// Free-running parallel executions (supporting evidence for C10 and C11; not
// a theorem, not the correspondence check).  Built with -race by check.py:
//
//	harness stress -mode mutators|queries -rounds N -workers W
//
// mutators: W goroutines run the eight content mutators on one shared
// mutex-enabled stack; afterwards the tokens are accounted for (nothing lost,
// duplicated or fabricated; capacity respected; configuration intact).
// queries: W goroutines issue only queries on one shared tree (mutex-enabled
// and read-only nodes included) and compare every answer with the answer
// obtained in isolation.  Prints one JSON line with the outcome; the race
// detector writes its reports to the files named by GORACE=log_path=...

import (
	"encoding/json"
	"errors"
	"flag"
	"fmt"
	"os"
	"reflect"
	"runtime"
	"strings"
	"sync"
	"sync/atomic"
	"time"

	stk "github.com/JesseCoretta/go-stackage"
)

func stressMain(args []string) {
	fs := flag.NewFlagSet("stress", flag.ExitOnError)
	mode := fs.String("mode", "mutators", "mutators|queries")
	rounds := fs.Int("rounds", 200, "rounds")
	workers := fs.Int("workers", 8, "goroutines")
	seed := fs.Uint64("seed", 1, "seed")
	fs.Parse(args)
	out := map[string]any{"mode": *mode, "rounds": *rounds, "workers": *workers}
	switch *mode {
	case "mutators":
		out["problems"] = append(append(append(stressMutators(*rounds, *workers, *seed), stressResetWindow(*rounds/20+2)...), stressSetMutexWindow(*rounds/10+3)...), stressNeverEmpty(*rounds/10+3)...)
	case "queries":
		out["problems"] = append(stressQueries(*rounds, *workers, *seed), stressDeepEqual(*rounds/10+2, *workers)...)
	case "policy":
		out["problems"] = stressPolicySwap(*rounds)
	case "options":
		out["problems"] = stressOptions(*rounds, *workers, *seed)
	}
	b, _ := json.Marshal(out)
	fmt.Println(string(b))
	if p, _ := out["problems"].([]string); len(p) > 0 {
		os.Exit(1)
	}
}

func stressMutators(rounds, workers int, seed uint64) []string {
	var problems []string
	var pmu sync.Mutex
	report := func(s string) {
		pmu.Lock()
		if len(problems) < 20 {
			problems = append(problems, s)
		}
		pmu.Unlock()
	}
	for round := 0; round < rounds; round++ {
		capacity := 0
		var s stk.Stack
		if round%3 == 1 {
			capacity = 6
			s = stk.And(capacity)
		} else {
			s = stk.Or()
		}
		if round%2 == 1 {
			s.SetFIFO(true)
		}
		s.SetMutex()
		// every fourth round: a push policy that turns away every fifth token
		// (the rejection is recorded by Push while it holds the lock)
		rejecting := round%4 == 2
		if rejecting {
			s.SetPushPolicy(func(x ...any) error {
				if n, ok := x[0].(int); ok && n%5 == 0 {
					return fmt.Errorf("token %d turned away", n)
				}
				return nil
			})
		}
		var token int64
		var pushed, removed sync.Map
		// every fifth round starts from a long queue (40 elements): code paths that
		// depend on the length are exercised under contention too
		longQueue := round%5 == 3 && capacity == 0
		if longQueue {
			for k := 0; k < 40; k++ {
				n := int(atomic.AddInt64(&token, 1))
				if !(rejecting && n%5 == 0) {
					pushed.Store(n, true)
				}
				s.Push(n)
			}
		}
		var wg sync.WaitGroup
		for w := 0; w < workers; w++ {
			wg.Add(1)
			go func(w int) {
				defer wg.Done()
				defer func() {
					if r := recover(); r != nil {
						report(fmt.Sprintf("round %d: panic: %v", round, r))
					}
				}()
				r := &Rng{s: seed*1000003 + uint64(round)*131 + uint64(w)}
				take := func(v any, ok bool) {
					if !ok {
						return
					}
					if n, isInt := v.(int); isInt {
						if _, dup := removed.LoadOrStore(n, true); dup {
							report(fmt.Sprintf("round %d: element %d handed out twice", round, n))
						}
					} else {
						report(fmt.Sprintf("round %d: fabricated element %T", round, v))
					}
				}
				nops := 12
				if longQueue {
					nops = 3000 // a long, busy queue: one consumer, the others produce
				}
				for i := 0; i < nops; i++ {
					op := r.Intn(9)
					if longQueue {
						op = 0
						if w == 0 {
							op = 2
							if s.Len() < 14 {
								continue
							}
						}
					}
					switch op {
					case 0, 1:
						n := int(atomic.AddInt64(&token, 1))
						if !(rejecting && n%5 == 0) {
							pushed.Store(n, true)
						}
						s.Push(n)
					case 2:
						take(s.Pop())
					case 3:
						n := int(atomic.AddInt64(&token, 1))
						pushed.Store(n, true)
						if !s.Insert(n, r.Intn(4)) {
							pushed.Delete(n)
						}
					case 4:
						take(s.Remove(r.Intn(3)))
					case 5:
						s.Swap(r.Intn(3), r.Intn(3))
					case 6:
						s.Reverse()
					case 7:
						s.Swap(0, 1)
					case 8:
						if r.Pct(10) {
							s.Reverse()
						} else if r.Pct(40) {
							s.SetMutex() // the s.SetMutex().Push(x) idiom: asking again changes nothing
						}
					}
				}
			}(w)
		}
		finished := make(chan bool, 1)
		go func() { wg.Wait(); finished <- true }()
		select {
		case <-finished:
		case <-time.After(60 * time.Second):
			report(fmt.Sprintf("round %d: the workers did not finish within 60s (deadlock: a lock left held, or a call that never returns)", round))
			pmu.Lock()
			defer pmu.Unlock()
			return append([]string{}, problems...)
		}
		func() {
			defer func() {
				if r := recover(); r != nil {
					report(fmt.Sprintf("round %d: panic after the run: %v", round, r))
				}
			}()
			if !s.IsInit() {
				report(fmt.Sprintf("round %d: stack no longer initialised", round))
				return
			}
			if capacity > 0 && s.Len() > capacity {
				report(fmt.Sprintf("round %d: capacity %d exceeded: %d", round, capacity, s.Len()))
			}
			seen := map[int]bool{}
			for i := 0; i < s.Len(); i++ {
				v, _ := s.Index(i)
				n, ok := v.(int)
				if !ok {
					report(fmt.Sprintf("round %d: fabricated element %T in the final content", round, v))
					continue
				}
				if seen[n] {
					report(fmt.Sprintf("round %d: element %d duplicated", round, n))
				}
				seen[n] = true
				if _, was := pushed.Load(n); !was {
					report(fmt.Sprintf("round %d: element %d was never stored", round, n))
				}
				if _, gone := removed.Load(n); gone {
					report(fmt.Sprintf("round %d: element %d both handed out and still present", round, n))
				}
			}
			// with a capacity, pushes may be dropped, so "lost" can only be judged without one
			if capacity == 0 {
				pushed.Range(func(k, _ any) bool {
					n := k.(int)
					_, gone := removed.Load(n)
					if !gone && !seen[n] {
						report(fmt.Sprintf("round %d: element %d lost", round, n))
					}
					return true
				})
			}
		}()
	}
	return problems
}

// stressResetWindow: Reset of a very long stack (its critical section then
// lasts long enough for other goroutines to arrive in the middle of it)
// against a goroutine that notices the content is gone and then calls Pop,
// Insert and Push.  Those three calls come after the Reset in every
// sequential order, so: Pop finds nothing, Insert succeeds, and the stack
// ends as [b c]; nobody panics, the stack stays initialised.
func stressResetWindow(rounds int) []string {
	var problems []string
	const n = 1 << 18
	vals := make([]any, n)
	for i := range vals {
		vals[i] = i
	}
	for round := 0; round < rounds; round++ {
		s := stk.Basic()
		if round%2 == 1 {
			s.SetFIFO(true)
		}
		s.SetMutex()
		s.Push(vals...)
		if s.Len() != n {
			problems = append(problems, fmt.Sprintf("reset round %d: %d of %d elements stored", round, s.Len(), n))
			continue
		}
		var wg sync.WaitGroup
		var popOK, insOK, timedOut bool
		var popV any
		var panics []string
		var pmu sync.Mutex
		guard := func(who string) {
			if r := recover(); r != nil {
				pmu.Lock()
				panics = append(panics, fmt.Sprintf("%s: %v", who, r))
				pmu.Unlock()
			}
		}
		wg.Add(2)
		go func() {
			defer wg.Done()
			defer guard("Reset")
			s.Reset()
		}()
		go func() {
			defer wg.Done()
			defer guard("Pop/Insert/Push")
			deadline := time.Now().Add(30 * time.Second)
			for s.Len() == n {
				if time.Now().After(deadline) {
					timedOut = true
					return
				}
				runtime.Gosched()
			}
			popV, popOK = s.Pop()
			insOK = s.Insert("b", 0)
			s.Push("c")
		}()
		finished := make(chan bool, 1)
		go func() { wg.Wait(); finished <- true }()
		select {
		case <-finished:
		case <-time.After(90 * time.Second):
			return append(problems, fmt.Sprintf("reset round %d: Reset against Pop/Insert/Push did not finish within 90s (deadlock)", round))
		}
		for _, p := range panics {
			problems = append(problems, fmt.Sprintf("reset round %d: panic in %s", round, p))
		}
		if timedOut || len(panics) > 0 {
			if timedOut {
				problems = append(problems, fmt.Sprintf("reset round %d: the content never went away", round))
			}
			continue
		}
		func() {
			defer func() {
				if r := recover(); r != nil {
					problems = append(problems, fmt.Sprintf("reset round %d: panic after the run: %v", round, r))
				}
			}()
			if !s.IsInit() {
				problems = append(problems, fmt.Sprintf("reset round %d: stack no longer initialised", round))
				return
			}
			var got []string
			for i := 0; i < s.Len() && i < 6; i++ {
				v, _ := s.Index(i)
				got = append(got, fmt.Sprint(v))
			}
			if popOK || !insOK || s.Len() != 2 || strings.Join(got, " ") != "b c" {
				problems = append(problems, fmt.Sprintf("reset round %d: after the content was seen gone: Pop = (%v,%v), Insert(b,0) = %v, final content %v (len %d): no sequential order of Reset, Pop, Insert, Push gives that (want (nil,false), true, [b c])",
					round, popV, popOK, insOK, got, s.Len()))
			}
		}()
	}
	return problems
}

// stressSetMutexWindow: a push policy runs inside Push's critical section, so
// never twice at the same time - also while other goroutines keep asking for
// the mutex that is already there (SetMutex on a mutex-enabled stack is a
// no-op).  Four producers push 40 values each through a policy that dwells a
// little; two bystanders call SetMutex in a loop.
func stressSetMutexWindow(rounds int) []string {
	var problems []string
	for round := 0; round < rounds; round++ {
		s := stk.Basic()
		if round%2 == 1 {
			s.SetFIFO(true)
		}
		s.SetMutex()
		var inside, worst int32
		s.SetPushPolicy(func(...any) error {
			n := atomic.AddInt32(&inside, 1)
			for {
				w := atomic.LoadInt32(&worst)
				if n <= w || atomic.CompareAndSwapInt32(&worst, w, n) {
					break
				}
			}
			time.Sleep(300 * time.Microsecond)
			atomic.AddInt32(&inside, -1)
			return nil
		})
		var stop int32
		var wg, bw sync.WaitGroup
		var pmu sync.Mutex
		guard := func(who string) {
			if r := recover(); r != nil {
				pmu.Lock()
				problems = append(problems, fmt.Sprintf("setmutex round %d: panic in %s: %v", round, who, r))
				pmu.Unlock()
			}
		}
		for b := 0; b < 2; b++ {
			bw.Add(1)
			go func() {
				defer bw.Done()
				defer guard("SetMutex")
				for atomic.LoadInt32(&stop) == 0 {
					s.SetMutex()
					runtime.Gosched()
				}
			}()
		}
		const producers, each = 4, 40
		for w := 0; w < producers; w++ {
			wg.Add(1)
			go func(w int) {
				defer wg.Done()
				defer guard("Push")
				for i := 0; i < each; i++ {
					s.Push(w*1000 + i)
				}
			}(w)
		}
		finished := make(chan bool, 1)
		go func() { wg.Wait(); atomic.StoreInt32(&stop, 1); bw.Wait(); finished <- true }()
		select {
		case <-finished:
		case <-time.After(90 * time.Second):
			return append(problems, fmt.Sprintf("setmutex round %d: pushes against SetMutex did not finish within 90s (deadlock)", round))
		}
		if w := atomic.LoadInt32(&worst); w > 1 {
			problems = append(problems, fmt.Sprintf("setmutex round %d: %d pushes were inside the critical section at the same time", round, w))
		}
		if s.Len() != producers*each {
			problems = append(problems, fmt.Sprintf("setmutex round %d: %d of %d pushed values are there", round, s.Len(), producers*each))
		}
	}
	return problems
}

// linkT: a user struct that nests through an interface-typed field
type linkT struct {
	N    int
	Next any
}

// stressDeepEqual: many goroutines compare deep structures at the same time and
// dwell inside the comparison (the innermost Stack has an equality policy that
// takes a moment): each gets the answer it gets alone.  The depths add up to
// far more than any one comparison's depth, so anything that is counted or
// cached across calls in flight shows.
func stressDeepEqual(rounds, workers int) []string {
	var problems []string
	chain := func(depth int, slow bool, last any) stk.Stack {
		inner := stk.Or().Push("bottom", last)
		if slow {
			inner.SetEqualityPolicy(func(a, b any) error { time.Sleep(3 * time.Millisecond); return nil })
		}
		cur := inner
		for d := 0; d < depth; d++ {
			if d%4 == 3 {
				cur = stk.And().Push(d, stk.Cond("k", stk.Eq, cur))
			} else {
				cur = stk.And().Push(d, cur)
			}
		}
		return cur
	}
	for round := 0; round < rounds; round++ {
		depth := 60 + 10*(round%3)
		a, b := chain(depth, true, "x"), chain(depth, true, "x")
		small1, small2 := chain(4, false, "y"), chain(4, false, "y")
		diff1, diff2 := chain(depth, false, "p"), chain(depth, false, "q")
		// Unmarshal of a 1500-level chain whose innermost Condition answers slowly: every
		// caller dwells at full depth; alone it succeeds with a two-entry result
		um := stk.Or().Push("bottom", stk.Cond("slow", stk.Eq, "v").SetUnmarshaler(func(...any) ([]any, error) {
			time.Sleep(3 * time.Millisecond)
			return []any{"CONDITION", "slow", stk.Eq, "v"}, nil
		}))
		for d := 0; d < 1500; d++ {
			um = stk.And().Push(um)
		}
		if u, err := um.Unmarshal(); err != nil || len(u) != 2 {
			problems = append(problems, fmt.Sprintf("deep-equal round %d: Unmarshal of the deep chain alone: %d entries, err %v", round, len(u), err))
			continue
		}
		// a chain of 800 user structs ending in a Stack whose equality policy dwells
		deepStruct := func() stk.Stack {
			var v any = stk.Or().Push("end").SetEqualityPolicy(func(a, b any) error { time.Sleep(3 * time.Millisecond); return nil })
			for d := 0; d < 800; d++ {
				v = linkT{N: d, Next: v}
			}
			return stk.And().Push(v)
		}
		ds1, ds2 := deepStruct(), deepStruct()
		if ds1.IsEqual(ds2) != nil {
			problems = append(problems, fmt.Sprintf("deep-equal round %d: the deep struct chains do not compare equal alone", round))
			continue
		}
		alone := []bool{a.IsEqual(b) == nil, small1.IsEqual(small2) == nil, diff1.IsEqual(diff2) == nil}
		if !alone[0] || !alone[1] || alone[2] {
			problems = append(problems, fmt.Sprintf("deep-equal round %d: alone the answers are %v, want [true true false]", round, alone))
			continue
		}
		var wg sync.WaitGroup
		var pmu sync.Mutex
		for w := 0; w < workers+4; w++ {
			wg.Add(1)
			go func(w int) {
				defer wg.Done()
				defer func() {
					if r := recover(); r != nil {
						pmu.Lock()
						problems = append(problems, fmt.Sprintf("deep-equal round %d: panic: %v", round, r))
						pmu.Unlock()
					}
				}()
				if err := ds1.IsEqual(ds2); err != nil {
					pmu.Lock()
					if len(problems) < 10 {
						problems = append(problems, fmt.Sprintf("deep-equal round %d: 800 nested structs compared by %d goroutines at once: %v; alone they are equal", round, workers+4, err))
					}
					pmu.Unlock()
				}
				if u, err := um.Unmarshal(); err != nil || len(u) != 2 {
					pmu.Lock()
					if len(problems) < 10 {
						problems = append(problems, fmt.Sprintf("deep-equal round %d: Unmarshal of the deep chain among %d concurrent callers: %d entries, err %v; alone 2 entries, no error", round, workers+4, len(u), err))
					}
					pmu.Unlock()
				}
				for i := 0; i < 4; i++ {
					var got bool
					var which int
					switch (w + i) % 4 {
					case 0, 1:
						got, which = a.IsEqual(b) == nil, 0
					case 2:
						got, which = small1.IsEqual(small2) == nil, 1
					default:
						got, which = diff1.IsEqual(diff2) == nil, 2
					}
					if got != alone[which] {
						pmu.Lock()
						if len(problems) < 10 {
							problems = append(problems, fmt.Sprintf("deep-equal round %d: comparison %d answered %v among %d concurrent callers, %v alone", round, which, got, workers+4, alone[which]))
						}
						pmu.Unlock()
					}
				}
			}(w)
		}
		finished := make(chan bool, 1)
		go func() { wg.Wait(); finished <- true }()
		select {
		case <-finished:
		case <-time.After(90 * time.Second):
			return append(problems, fmt.Sprintf("deep-equal round %d: the comparisons did not finish within 90s", round))
		}
	}
	return problems
}

// stressPolicySwap: a Push that waits for the stack's lock is judged by the push
// policy that is installed when it gets to run.  A parks inside policy P1
// (holding the lock), B queues a Push behind it, P1 is replaced by P2 (rejects
// everything; SetPushPolicy does not wait for the lock), A is released: P2 is
// consulted for B's value, which is not stored, and Err() reports P2's error.
func stressPolicySwap(rounds int) []string {
	var problems []string
	for round := 0; round < rounds; round++ {
		s := newStack(kinds[round%len(kinds)], -1)
		s.SetMutex()
		entered, release := make(chan struct{}), make(chan struct{})
		var mu sync.Mutex
		var p2saw []any
		s.SetPushPolicy(func(x ...any) error {
			if v, _ := x[0].(string); v == "gate" {
				close(entered)
				<-release
			}
			return nil
		})
		var wg sync.WaitGroup
		wg.Add(1)
		go func() { defer wg.Done(); defer func() { recover() }(); s.Push("gate") }()
		select {
		case <-entered:
		case <-time.After(10 * time.Second):
			close(release)
			problems = append(problems, fmt.Sprintf("policy round %d: the first policy was never consulted", round))
			continue
		}
		wg.Add(1)
		go func() { defer wg.Done(); defer func() { recover() }(); s.Push("late") }()
		time.Sleep(30 * time.Millisecond) // B is now waiting for the lock (or about to)
		swapped := make(chan struct{})
		go func() {
			s.SetPushPolicy(func(x ...any) error {
				mu.Lock()
				p2saw = append(p2saw, x[0])
				mu.Unlock()
				return errors.New("denied by the second policy")
			})
			close(swapped)
		}()
		select {
		case <-swapped:
		case <-time.After(2 * time.Second):
			// the setter waits for the lock: the order of B and the swap is then open; nothing to judge
			close(release)
			wg.Wait()
			continue
		}
		close(release)
		finished := make(chan bool, 1)
		go func() { wg.Wait(); finished <- true }()
		select {
		case <-finished:
		case <-time.After(60 * time.Second):
			return append(problems, fmt.Sprintf("policy round %d: the pushes did not finish within 60s", round))
		}
		mu.Lock()
		saw := len(p2saw)
		mu.Unlock()
		stored := false
		for i := 0; i < s.Len(); i++ {
			if v, _ := s.Index(i); v == "late" {
				stored = true
			}
		}
		if saw != 1 || stored || s.Err() == nil {
			problems = append(problems, fmt.Sprintf("policy round %d: a Push that waited for the lock while the policy was replaced: the new policy was consulted %d time(s), the value is stored: %v, Err() = %v (want 1, false, the new policy's error)", round, saw, stored, s.Err()))
		}
	}
	return problems
}

// stressNeverEmpty: a mutex-enabled LIFO stack of 4000 elements loses 600 of them to
// Remove(0) and 600 to Pop from two goroutines: it is never empty, so every
// one of those calls finds an element.
func stressNeverEmpty(rounds int) []string {
	var problems []string
	for round := 0; round < rounds; round++ {
		s := stk.Basic() // LIFO: Remove and Pop then each publish their result with one store
		s.SetMutex()
		vals := make([]any, 4000)
		for i := range vals {
			vals[i] = i
		}
		s.Push(vals...)
		var wg sync.WaitGroup
		var missR, missP, revSkipped int32
		wg.Add(3)
		go func() {
			defer wg.Done()
			defer func() { recover() }()
			for i := 0; i < 600; i++ {
				if _, ok := s.Remove(0); !ok {
					atomic.AddInt32(&missR, 1)
				}
			}
		}()
		go func() {
			defer wg.Done()
			defer func() { recover() }()
			for i := 0; i < 600; i++ {
				if _, ok := s.Pop(); !ok {
					atomic.AddInt32(&missP, 1)
				}
			}
		}()
		go func() {
			defer wg.Done()
			defer func() { recover() }()
			for i := 0; i < 200; i++ {
				if s.IsEmpty() || s.Len() == 0 {
					atomic.AddInt32(&revSkipped, 1)
				}
				runtime.Gosched()
			}
		}()
		finished := make(chan bool, 1)
		go func() { wg.Wait(); finished <- true }()
		select {
		case <-finished:
		case <-time.After(90 * time.Second):
			return append(problems, fmt.Sprintf("never-empty round %d: Remove against Pop did not finish within 90s", round))
		}
		if missR+missP+revSkipped > 0 || s.Len() != 2800 {
			problems = append(problems, fmt.Sprintf("never-empty round %d: on a stack that never held fewer than 2800 elements %d Remove(0) and %d Pop calls found nothing, %d looks found it empty; %d elements are left (want 0, 0, 0, 2800)", round, missR, missP, revSkipped, s.Len()))
		}
	}
	return problems
}

// stressOptions: option setters from several goroutines on one mutex-enabled
// stack.  Setters of different options commute, and so do toggles of one
// option, so the final option word is determined whatever the interleaving:
// each goroutine but the last two owns one option and applies a random
// set/clear/toggle sequence to it; the last two (with worker 0) toggle the
// lead-once option a known number of times; the read-only option is switched
// on by its owner at the very end of its sequence half of the time.
func stressOptions(rounds, workers int, seed uint64) []string {
	var problems []string
	var pmu sync.Mutex
	report := func(s string) {
		pmu.Lock()
		if len(problems) < 20 {
			problems = append(problems, s)
		}
		pmu.Unlock()
	}
	type optSetter struct {
		name string
		bit  int
		set  func(s stk.Stack, b ...bool)
	}
	owned := []optSetter{
		{"paren", 1, func(s stk.Stack, b ...bool) { s.SetParen(b...) }},
		{"fold", 2, func(s stk.Stack, b ...bool) { s.SetFold(b...) }},
		{"nopad", 4, func(s stk.Stack, b ...bool) { s.SetNoPadding(b...) }},
		{"negidx", 16, func(s stk.Stack, b ...bool) { s.SetNegativeIndices(b...) }},
		{"fwdidx", 32, func(s stk.Stack, b ...bool) { s.SetForwardIndices(b...) }},
		{"nonest", 256, func(s stk.Stack, b ...bool) { s.SetNoNesting(b...) }},
	}
	for round := 0; round < rounds; round++ {
		s := stk.And().Push("a", "b")
		s.SetMutex()
		want := 0
		var toggles int64
		var wg sync.WaitGroup
		for w := 0; w < workers; w++ {
			wg.Add(1)
			r := &Rng{s: seed*2654435761 + uint64(round)*977 + uint64(w)}
			if w < len(owned) {
				o := owned[w]
				state := false
				var seq []int
				for k := 6 + r.Intn(10); k > 0; k-- {
					x := r.Intn(3)
					seq = append(seq, x)
					switch x {
					case 0:
						state = true
					case 1:
						state = false
					default:
						state = !state
					}
				}
				if state {
					want |= o.bit
				}
				go func() {
					defer wg.Done()
					for _, x := range seq {
						switch x {
						case 0:
							o.set(s, true)
						case 1:
							o.set(s, false)
						default:
							o.set(s)
						}
					}
				}()
				continue
			}
			n := 3 + r.Intn(8)
			atomic.AddInt64(&toggles, int64(n))
			go func() {
				defer wg.Done()
				for k := 0; k < n; k++ {
					s.SetLeadOnce()
				}
			}()
		}
		done := make(chan bool, 1)
		go func() { wg.Wait(); done <- true }()
		select {
		case <-done:
		case <-time.After(60 * time.Second):
			report(fmt.Sprintf("round %d: the option setters did not finish within 60s", round))
			return problems
		}
		if toggles%2 == 1 {
			want |= 8
		}
		cfg, _ := stk.VerifDump(s)["cfg"].(map[string]any)
		got, _ := cfg["opt"].(int)
		if got != want {
			report(fmt.Sprintf("round %d: option word %d after concurrent setters of different options and %d toggles of lead-once; every order gives %d", round, got, toggles, want))
		}
		if s.Len() != 2 {
			report(fmt.Sprintf("round %d: content changed by option setters", round))
		}
	}
	return problems
}

func stressQueries(rounds, workers int, seed uint64) []string {
	var problems []string
	var pmu sync.Mutex
	report := func(s string) {
		pmu.Lock()
		if len(problems) < 20 {
			problems = append(problems, s)
		}
		pmu.Unlock()
	}
	for round := 0; round < rounds; round++ {
		r := &Rng{s: seed*7919 + uint64(round)}
		g := DefaultTreeGen(r)
		g.MutexPct = 40
		t := g.Stack(0)
		if round%3 == 0 {
			t.Opt |= 128
		}
		s := t.BuildStack()
		if round%2 == 0 {
			s.SetMutex()
		}
		if round%4 < 2 {
			s.SetLessFunc() // the package's own ordering, chosen explicitly
		}
		type answer struct {
			str, kind   string
			less        string
			l, c, a     int
			valid, nest bool
			um          string
			idx         string
			tr          string
			eq          bool
		}
		ask := func() answer {
			var an answer
			an.str = s.String()
			an.kind = s.Kind()
			an.l, an.c, an.a = s.Len(), s.Cap(), s.Avail()
			an.valid = s.Valid() == nil
			an.nest = s.IsNesting()
			u, _ := s.Unmarshal()
			an.um = fmt.Sprintf("%v", u)
			for i := -1; i <= s.Len(); i++ {
				v, ok := s.Index(i)
				an.idx += fmt.Sprintf("%T:%v;", v, ok)
				w, ok2 := s.Traverse(i, 0)
				an.tr += fmt.Sprintf("%T:%v;", w, ok2)
			}
			_, _ = s.Front()
			_, _ = s.Back()
			an.eq = s.IsEqual(s) == nil
			for i := 0; i < s.Len() && i < 4; i++ {
				for j := 0; j < s.Len() && j < 4; j++ {
					an.less += fmt.Sprint(s.Less(i, j))
				}
			}
			_ = s.IsEmpty()
			_ = s.IsFIFO()
			_ = s.IsParen()
			_ = s.IsPadded()
			_ = s.IsReadOnly()
			_ = s.CanNest()
			_ = s.ID()
			return an
		}
		want := ask()
		// an independently rebuilt copy, compared in both directions from different goroutines
		cp := t.BuildStack()
		if round%2 == 0 {
			cp.SetMutex()
		}
		wantEq := s.IsEqual(cp) == nil
		// values of Go types that no query has looked at before (struct types
		// made at run time), first met by queries running concurrently: there
		// is no warm-up pass over these two stacks
		fresh, fresh2 := stk.And(), stk.And()
		inner, inner2 := stk.Or(), stk.Or()
		for i := 0; i < 16; i++ {
			st := reflect.StructOf([]reflect.StructField{{Name: fmt.Sprintf("F%d_%d", round, i), Type: reflect.TypeOf(0)}})
			v1, v2 := reflect.New(st).Elem(), reflect.New(st).Elem()
			v1.Field(0).SetInt(int64(i))
			v2.Field(0).SetInt(int64(i))
			if i%2 == 0 {
				fresh.Push(v1.Interface())
				fresh2.Push(v2.Interface())
			} else {
				inner.Push(v1.Addr().Interface())
				inner2.Push(v2.Addr().Interface())
			}
		}
		fresh.Push(inner, stk.Cond("k", stk.Eq, inner))
		fresh2.Push(inner2, stk.Cond("k", stk.Eq, inner2))
		// a deep tree (ten levels, Conditions in between): every concurrent caller
		// must get the rendering it gets in isolation
		deep := stk.And().Push("leaf", round)
		for lv := 0; lv < 10; lv++ {
			if lv%3 == 2 {
				deep = stk.Or().Push(fmt.Sprintf("l%d", lv), stk.Cond("k", stk.Ne, deep))
			} else {
				deep = stk.And().SetParen(true).Push(deep, fmt.Sprintf("l%d", lv))
			}
		}
		deepWant := deep.String()
		var wg sync.WaitGroup
		for w := 0; w < workers; w++ {
			wg.Add(1)
			go func(w int) {
				defer wg.Done()
				defer func() {
					if r := recover(); r != nil {
						report(fmt.Sprintf("round %d: panic: %v", round, r))
					}
				}()
				for i := 0; i < 3; i++ {
					if got := ask(); got != want {
						report(fmt.Sprintf("round %d: answers differ from the answers in isolation", round))
					}
					var e error
					if w%2 == 0 {
						e = s.IsEqual(cp)
					} else {
						e = cp.IsEqual(s)
					}
					if (e == nil) != wantEq {
						report(fmt.Sprintf("round %d: IsEqual verdict differs from the verdict in isolation", round))
					}
					for k := 0; k < 10; k++ {
						if got := deep.String(); got != deepWant {
							report(fmt.Sprintf("round %d: String of a deep tree under concurrency %q differs from its rendering in isolation %q", round, got, deepWant))
							break
						}
					}
					if i == 0 {
						_ = fresh.String()
						_ = fresh.IsNesting()
						_, _ = fresh.Unmarshal()
						_, _ = fresh.Traverse(8, 0)
						if w%2 == 0 {
							e = fresh.IsEqual(fresh2)
						} else {
							e = fresh2.IsEqual(fresh)
						}
						if e != nil {
							report(fmt.Sprintf("round %d: equal stacks of run-time struct values compared unequal under concurrency: %v", round, e))
						}
					}
				}
			}(w)
		}
		done := make(chan struct{})
		go func() { wg.Wait(); close(done) }()
		select {
		case <-done:
		case <-time.After(20 * time.Second):
			report(fmt.Sprintf("round %d: parallel queries did not finish (deadlock): queries must be lock-free", round))
			return problems
		}
	}
	return problems
}
