package main

// Family cond (C06, Condition part of C13): histories of Cond / Init /
// SetKeyword / SetOperator / SetExpression / SetErr / option setter calls on
// one Condition variable that starts as the zero Condition{}.  After every
// call the observables the property names are recorded: Keyword, Operator
// (nil, built-in value, or user text+context), Expression (mapped back to
// the description it was built from), Valid()==nil, Err()==nil, String(),
// CanNest, IsNesting, Len.  Coq side: coq/CondOps.v (case syntax),
// coq/CondCorr.v (model), coq/CondSpecCorr.v (specification).

import (
	"encoding/json"
	"fmt"
	"sort"
	"strings"

	stk "github.com/JesseCoretta/go-stackage"
)

// keyword argument: K = str | stringer | nil | int | zerostringer | bool | slice
type KwArg struct {
	K string `json:"k"`
	S string `json:"s,omitempty"`
}

// one variadic argument of SetEncap: K = str | slice | other
type EncArg struct {
	K string   `json:"k"`
	L []string `json:"l,omitempty"`
}

type COp struct {
	Op  string   `json:"op"` // cond init setkw setop setex seterr nonest nopad paren encap
	Kw  *KwArg   `json:"kw,omitempty"`
	Opr *OpDesc  `json:"opr,omitempty"` // absent = the nil Operator
	Ex  *Node    `json:"ex,omitempty"`  // absent = nil
	E   int      `json:"e,omitempty"`   // seterr: 0 = SetErr(nil), n = SetErr(error number n)
	T   int      `json:"t,omitempty"`   // option setters: 0 = no argument (toggle), 1 = true, 2 = false
	Enc []EncArg `json:"enc,omitempty"`
}

type CondInput struct {
	Ops []COp `json:"ops"`
	// LogAll: every log level is switched on (the logger stays the discarding
	// default) as soon as the Condition exists: logging has no say in behaviour
	LogAll bool `json:"logall,omitempty"`
}

// a foreign type with a String method; nz keeps a value non-zero even when
// its text is empty (getStringer ignores zero values)
type strer struct {
	s  string
	nz int
}

func (x strer) String() string { return x.s }

type plainStruct struct{ A int }

type numErr int

func (e numErr) Error() string { return fmt.Sprintf("error %d", int(e)) }

func init() {
	extraBuild["stringer"] = func(n *Node) any { return strer{n.S, 1} }
	extraCoq["stringer"] = func(n *Node) string { return "(VLeaf (GStringer 1%N " + coqBytes(n.S) + "))" }
	extraBuild["other"] = func(n *Node) any { return plainStruct{int(n.I)} }
	extraCoq["other"] = func(n *Node) string { return "(VLeaf (GOther 1%N))" }
	extraBuild["oper"] = func(n *Node) any { return n.Op.Build() }
	extraCoq["oper"] = func(n *Node) string {
		if n.Op.User {
			return fmt.Sprintf("(VLeaf (GOper (OpUser %s %s)))", coqBytes(n.Op.Text), coqBytes(n.Op.Ctx))
		}
		return fmt.Sprintf("(VLeaf (GOper (OpBuiltin %d%%N)))", n.Op.Builtin)
	}
	// pointers to zero aliases whose type declares String
	extraBuild["zstackS"] = func(n *Node) any { return &sStack{} }
	extraCoq["zstackS"] = func(n *Node) string { return "(VZeroStack AliasPtrStr)" }
	extraBuild["zcondS"] = func(n *Node) any { return &sCond{} }
	extraCoq["zcondS"] = func(n *Node) string { return "(VZeroCond AliasPtrStr)" }
}

func (k *KwArg) Build() any {
	switch k.K {
	case "str":
		return k.S
	case "stringer":
		return strer{k.S, 1}
	case "int":
		return 42
	case "zerostringer":
		return strer{}
	case "bool":
		return true
	case "slice":
		return []string{k.S}
	}
	return nil
}

func (k *KwArg) Coq() string {
	switch k.K {
	case "str":
		return "(KStr " + coqBytes(k.S) + ")"
	case "stringer":
		return "(KStringer " + coqBytes(k.S) + ")"
	}
	return "KOther"
}

func (e *EncArg) Build() any {
	switch e.K {
	case "str":
		if len(e.L) > 0 {
			return e.L[0]
		}
		return ""
	case "slice":
		return append([]string{}, e.L...)
	}
	return 7
}

func (e *EncArg) Coq() string {
	switch e.K {
	case "str":
		s := ""
		if len(e.L) > 0 {
			s = e.L[0]
		}
		return "(EStr " + coqBytes(s) + ")"
	case "slice":
		var bs []string
		for _, s := range e.L {
			bs = append(bs, coqBytes(s))
		}
		return "(ESlice " + coqList(bs) + ")"
	}
	return "EOther"
}

func coqTriB(t int) string { return coqTri(t) }

func (o *COp) Coq() string {
	switch o.Op {
	case "cond":
		return fmt.Sprintf("(OCond %s %s %s)", o.Kw.Coq(), o.Opr.Coq(), o.Ex.Coq())
	case "init":
		return "OInit"
	case "setkw":
		return "(OSetKeyword " + o.Kw.Coq() + ")"
	case "setop":
		return "(OSetOperator " + o.Opr.Coq() + ")"
	case "setex":
		return "(OSetExpression " + o.Ex.Coq() + ")"
	case "seterr":
		if o.E == 0 {
			return "(OSetErr None)"
		}
		return fmt.Sprintf("(OSetErr (Some %d%%N))", o.E)
	case "nonest":
		return "(OSetNoNesting " + coqTriB(o.T) + ")"
	case "nopad":
		return "(OSetNoPadding " + coqTriB(o.T) + ")"
	case "paren":
		return "(OSetParen " + coqTriB(o.T) + ")"
	case "encap":
		var xs []string
		for i := range o.Enc {
			xs = append(xs, o.Enc[i].Coq())
		}
		return "(OSetEncap " + coqList(xs) + ")"
	}
	panic("unknown cond op " + o.Op)
}

type condRun struct {
	logAll    bool
	invariant string
	c         stk.Condition
	nodes     map[string]*Node // ID -> description of every Stack / Condition built for this history
	nid       int
}

// register gives every Stack / Condition node below n a unique ID so that a
// value read back through Expression() can be mapped to its description
func (h *condRun) register(n *Node) {
	if n == nil {
		return
	}
	if n.T == "stack" || n.T == "cond" {
		h.nid++
		n.ID = fmt.Sprintf("n%d", h.nid)
		h.nodes[n.ID] = n
	}
	for _, e := range n.Els {
		h.register(e)
	}
	h.register(n.Ex)
}

const neverEqual = "(VLeaf (GOther 999%N))"

// descOf maps a value read back from the implementation to the Coq term of
// the description it was built from; the second result says whether it is a
// Stack / Condition (String() is then not compared in full)
func (h *condRun) descOf(v any) (string, bool, any) {
	if v == nil {
		return "VNil", false, nil
	}
	prim := func(n *Node) (string, bool, any) { return n.Coq(), false, fmt.Sprintf("%T:%v", v, v) }
	switch tv := v.(type) {
	case string:
		return prim(&Node{T: "str", S: tv})
	case int:
		return prim(&Node{T: "int", Ty: 0, I: int64(tv)})
	case int8:
		return prim(&Node{T: "int", Ty: 1, I: int64(tv)})
	case int64:
		return prim(&Node{T: "int", Ty: 4, I: tv})
	case uint8:
		return prim(&Node{T: "int", Ty: 11, I: int64(tv)})
	case uint64:
		return prim(&Node{T: "int", Ty: 14, I: int64(tv)})
	case bool:
		return prim(&Node{T: "bool", Bv: tv})
	case float64:
		return prim(&Node{T: "float", Ty: 21, F: tv})
	case float32:
		return prim(&Node{T: "float", Ty: 20, F: float64(tv)})
	case complex64:
		return prim(&Node{T: "float", Ty: 22, F: float64(real(tv)), F2: float64(imag(tv))})
	case complex128:
		return prim(&Node{T: "float", Ty: 23, F: real(tv), F2: imag(tv)})
	case strer:
		return prim(&Node{T: "stringer", S: tv.s})
	case plainStruct:
		return prim(&Node{T: "other"})
	case stk.ComparisonOperator:
		return prim(&Node{T: "oper", Op: &OpDesc{Builtin: int(tv)}})
	case userOp:
		return prim(&Node{T: "oper", Op: &OpDesc{User: true, Text: tv.text, Ctx: tv.ctx}})
	case sliceOp:
		return prim(&Node{T: "oper", Op: &OpDesc{User: true, Slice: true, Text: tv[0], Ctx: tv[1]}})
	}
	// Stacks, Conditions and their aliases: recover the akind from the Go
	// type and the description from the ID
	akind, isStack, isCond := "?", false, false
	var sv stk.Stack
	var cv stk.Condition
	switch tv := v.(type) {
	case stk.Stack:
		akind, isStack, sv = "", true, tv
	case aStack:
		akind, isStack, sv = "aval", true, stk.Stack(tv)
	case *aStack:
		akind, isStack, sv = "aptr", true, stk.Stack(*tv)
	case sStack:
		akind, isStack, sv = "avalstr", true, stk.Stack(tv)
	case *sStack:
		akind, isStack, sv = "aptrstr", true, stk.Stack(*tv)
	case stk.Condition:
		akind, isCond, cv = "", true, tv
	case aCond:
		akind, isCond, cv = "aval", true, stk.Condition(tv)
	case *aCond:
		akind, isCond, cv = "aptr", true, stk.Condition(*tv)
	case sCond:
		akind, isCond, cv = "avalstr", true, stk.Condition(tv)
	case *sCond:
		akind, isCond, cv = "aptrstr", true, stk.Condition(*tv)
	}
	switch {
	case isStack && sv.IsZero():
		return "(VZeroStack " + coqAkind(akind) + ")", true, "zero-stack:" + akind
	case isCond && cv.IsZero():
		return "(VZeroCond " + coqAkind(akind) + ")", true, "zero-cond:" + akind
	case isStack:
		if n := h.nodes[sv.ID()]; n != nil && n.T == "stack" && n.A == akind {
			return n.Coq(), true, "stack#" + n.ID
		}
	case isCond:
		if n := h.nodes[cv.ID()]; n != nil && n.T == "cond" && n.A == akind {
			return n.Coq(), true, "cond#" + n.ID
		}
	}
	return neverEqual, false, fmt.Sprintf("unexpected:%T", v)
}

func (h *condRun) exec(o *COp) {
	if h.logAll && (o.Op == "cond" || o.Op == "init") {
		defer func() { h.c.SetLogLevel(stk.AllLogLevels) }()
	}
	switch o.Op {
	case "cond":
		h.register(o.Ex)
		h.c = stk.Cond(o.Kw.Build(), o.Opr.Build(), o.Ex.Build())
	case "init":
		// Init gives THIS handle a fresh instance; whoever else holds the
		// former one (a copy, a Stack it was pushed into) keeps what was accepted
		held := h.c
		wasInit := held.IsInit()
		kw, s0 := held.Keyword(), ""
		if wasInit {
			s0 = held.String()
		}
		h.c.Init()
		if wasInit && h.invariant == "" && (held.Keyword() != kw || held.String() != s0 || !held.IsInit()) {
			h.invariant = fmt.Sprintf("Init() on one handle changed what another handle to the former instance shows: keyword %q -> %q, String %q -> %q",
				kw, held.Keyword(), s0, held.String())
		}
	case "setkw":
		h.c.SetKeyword(o.Kw.Build())
	case "setop":
		h.c.SetOperator(o.Opr.Build())
	case "setex":
		h.register(o.Ex)
		h.c.SetExpression(o.Ex.Build())
	case "seterr":
		if o.E == 0 {
			h.c.SetErr(nil)
		} else {
			h.c.SetErr(numErr(o.E))
		}
	case "nonest":
		h.c.SetNoNesting(triArgs(o.T)...)
	case "nopad":
		h.c.SetNoPadding(triArgs(o.T)...)
	case "paren":
		h.c.SetParen(triArgs(o.T)...)
	case "encap":
		var xs []any
		for i := range o.Enc {
			xs = append(xs, o.Enc[i].Build())
		}
		h.c.SetEncap(xs...)
	default:
		panic("unknown cond op " + o.Op)
	}
}

func (h *condRun) observe() (string, any) {
	c := h.c
	kw := c.Keyword()
	opT, opJ := "None", any(nil)
	switch tv := c.Operator().(type) {
	case nil:
	case stk.ComparisonOperator:
		opT, opJ = fmt.Sprintf("(Some (OpBuiltin %d%%N))", int(tv)), fmt.Sprintf("builtin:%d", int(tv))
	case userOp:
		opT, opJ = fmt.Sprintf("(Some (OpUser %s %s))", coqBytes(tv.text), coqBytes(tv.ctx)), "user:"+tv.text+"/"+tv.ctx
	case sliceOp:
		opT, opJ = fmt.Sprintf("(Some (OpUser %s %s))", coqBytes(tv[0]), coqBytes(tv[1])), "user(slice):"+tv[0]+"/"+tv[1]
	default:
		opT, opJ = "(Some (OpBuiltin 999%N))", fmt.Sprintf("unexpected:%T", tv)
	}
	exT, isNode, exJ := h.descOf(c.Expression())
	valid := c.Valid() == nil
	errnil := c.Err() == nil
	s := c.String()
	strT := "(SFull " + coqBytes(s) + ")"
	if isNode && s != "" {
		strT = "SNonEmpty"
	}
	cn, isn, ln := c.CanNest(), c.IsNesting(), c.Len()
	t := fmt.Sprintf("(MkObs %s %s %s %s %s %s %s %s %s)", coqBytes(kw), opT, exT, coqBool(valid), coqBool(errnil),
		strT, coqBool(cn), coqBool(isn), coqZ(ln))
	return t, map[string]any{"kw": kw, "op": opJ, "ex": exJ, "valid": valid, "errnil": errnil, "str": s,
		"cannest": cn, "isnesting": isn, "len": ln, "isnode": isNode}
}

var condSetters = map[string]bool{"cond": true, "setkw": true, "setop": true, "setex": true}

// ptrOp: a user-defined operator held by pointer - its owner may change its text
type ptrOp struct{ text, ctx string }

func (o *ptrOp) String() string  { return o.text }
func (o *ptrOp) Context() string { return o.ctx }

var condProbed bool

// liveOperatorProbe: String() renders the operator's text as it is when String()
// is called (what Operator().String() says), also after the operator's owner
// changed it; keyword and expression held by pointer-free values stay put.
func liveOperatorProbe() (problem string) {
	defer func() {
		if r := recover(); r != nil {
			problem = fmt.Sprintf("live-operator probe panicked: %v", r)
		}
	}()
	for _, via := range []string{"Cond", "SetOperator"} {
		op := &ptrOp{"~=", "custom"}
		var c stk.Condition
		if via == "Cond" {
			c = stk.Cond("person", op, "Jesse")
		} else {
			c.Init()
			c.SetKeyword("person")
			c.SetOperator(op)
			c.SetExpression("Jesse")
		}
		before := c.String()
		parent := stk.And().Push(c, "x")
		pbefore := parent.String()
		op.text = "=~"
		if got, want := c.String(), strings.Replace(before, "~=", "=~", 1); got != want || c.Operator().String() != "=~" {
			return fmt.Sprintf("operator accepted through %s, text then changed by its owner from ~= to =~: String() = %q (Operator().String() = %q), want %q", via, got, c.Operator().String(), want)
		}
		if got, want := parent.String(), strings.Replace(pbefore, "~=", "=~", 1); got != want {
			return fmt.Sprintf("operator accepted through %s, text then changed by its owner: the parent's String() = %q, want %q", via, got, want)
		}
	}
	// with no-nesting off a Stack is accepted whatever it holds - the Condition itself
	// included (only IsNesting / CanNest / Expression are asked: they do not walk the cycle)
	for _, form := range []string{"native", "alias", "ptr"} {
		c := stk.Cond("k", stk.Eq, "before")
		holder := stk.And().Push("x", stk.Or().Push(c))
		var ex any = holder
		switch form {
		case "alias":
			ex = aStack(holder)
		case "ptr":
			a := aStack(holder)
			ex = &a
		}
		can := c.CanNest()
		c.SetExpression(ex)
		_, isStr := c.Expression().(string)
		if !can || isStr || !c.IsNesting() {
			return fmt.Sprintf("no-nesting off, a Stack (%s) that holds the Condition offered as its expression: CanNest() said %v, the old expression was kept: %v, IsNesting() = %v (want true, false, true)", form, can, isStr, c.IsNesting())
		}
	}
	return ""
}

func runCond(raw json.RawMessage) (res *Result, err error) {
	var in CondInput
	if err = json.Unmarshal(raw, &in); err != nil {
		return nil, err
	}
	h := &condRun{nodes: map[string]*Node{}, logAll: in.LogAll}
	var opTs, obTs []string
	var recs []any
	tags := map[string]bool{}
	panicked := false
	nset, kinds := 0, map[string]bool{}
	sawValid, sawReject := false, false
	for i := range in.Ops {
		o := &in.Ops[i]
		tags["op:"+o.Op] = true
		// argument classes (for the distribution summary)
		before := map[string]any{}
		func() {
			defer func() { recover() }()
			before["cannest"] = h.c.CanNest()
			before["errnil"] = h.c.Err() == nil
			before["init"] = h.c.IsInit()
		}()
		if o.Op == "setkw" || o.Op == "cond" {
			if o.Kw.K != "str" && o.Kw.K != "stringer" {
				tags["rej:kw-other"], sawReject = true, true
			}
		}
		if o.Op == "setop" || o.Op == "cond" {
			switch {
			case o.Opr == nil:
				tags["rej:op-nil"], sawReject = true, true
			case o.Opr.User && (o.Opr.Text == "" || o.Opr.Ctx == ""):
				tags["rej:op-empty"], sawReject = true, true
			case o.Opr.User:
				tags["acc:op-user"] = true
			case o.Opr.Builtin < 1 || o.Opr.Builtin > 6:
				tags["acc:op-bogus"] = true
			}
		}
		if o.Op == "setex" || o.Op == "cond" {
			switch {
			case o.Ex == nil || o.Ex.T == "nil":
				tags["rej:ex-nil"], sawReject = true, true
			case o.Ex.T == "str" && o.Ex.S == "":
				tags["rej:ex-empty"], sawReject = true, true
			case o.Op == "setex" && before["init"] == true && before["errnil"] == false:
				tags["rej:ex-err"], sawReject = true, true
			case o.Ex.T == "stack" && o.Op == "setex" && before["init"] == true && before["cannest"] == false:
				tags["rej:ex-stack-nonest"], sawReject = true, true
			case o.Ex.T == "stack":
				tags["acc:ex-stack"] = true
			default:
				tags["acc:ex-"+o.Ex.T] = true
			}
		}
		opTs = append(opTs, o.Coq())
		ok := func() (ok bool) {
			defer func() {
				if r := recover(); r != nil {
					panicked, ok = true, false
					tags["panic"] = true
					recs = append(recs, map[string]any{"op": o.Op, "panic": fmt.Sprint(r)})
				}
			}()
			h.exec(o)
			t, j := h.observe()
			obTs = append(obTs, t)
			recs = append(recs, map[string]any{"op": o.Op, "obs": j})
			if m := j.(map[string]any); m["valid"] == true {
				sawValid = true
				if str, _ := m["str"].(string); str != "" && m["isnode"] != true {
					tags["str:full"] = true
					if h.c.IsParen() {
						tags["str:paren"] = true
					}
					if !h.c.IsPadded() {
						tags["str:nopad"] = true
					}
					if h.c.IsEncap() {
						tags["str:encap"] = true
					}
				}
			}
			return true
		}()
		if !ok {
			break
		}
		if condSetters[o.Op] {
			nset++
			kinds[o.Op] = true
		}
	}
	if sawValid {
		tags["valid-state"] = true
	}
	var tl []string
	for t := range tags {
		tl = append(tl, t)
	}
	sort.Strings(tl)
	coq := fmt.Sprintf("(MkCase %s %s %s)", coqList(opTs), coqList(obTs), coqBool(panicked))
	_ = sawReject
	if !condProbed && h.invariant == "" {
		condProbed = true
		h.invariant = liveOperatorProbe()
	}
	return &Result{Coq: coq, Observed: recs, Tags: tl, Nontrivial: nset >= 3 && len(kinds) >= 2, Invariant: h.invariant}, nil
}

// ---------------------------------------------------------------------------
// generators

var condKwPool = []string{"k", "cn", "uid", "x y", "", "é"}
var condTextPool = []string{"v", "val ue", "a\tb", "日本", "0", "(x)", "\"Jesse\"", "'s'", "<v>", "[w]", "\"", "''", "back\\", "\\"}

type condGen struct {
	r      *Rng
	nonest bool // tracked: is no-nesting on (known statically: it is false after cond/init)
	uniq   int
}

func (g *condGen) pick(l []string) string { return l[g.r.Intn(len(l))] }

func (g *condGen) kw(rejected bool) *KwArg {
	if rejected {
		return &KwArg{K: []string{"nil", "int", "zerostringer", "bool", "slice"}[g.r.Intn(5)], S: "q"}
	}
	if g.r.Pct(25) {
		return &KwArg{K: "stringer", S: g.pick(condKwPool)}
	}
	return &KwArg{K: "str", S: g.pick(condKwPool)}
}

func (g *condGen) op(rejected bool) *OpDesc {
	if rejected {
		switch g.r.Intn(6) {
		case 0:
			return &OpDesc{User: true, Text: "", Ctx: "custom"}
		case 1:
			return &OpDesc{User: true, Text: "~=", Ctx: ""}
		case 2:
			return &OpDesc{User: true}
		}
		return nil
	}
	switch x := g.r.Intn(100); {
	case x < 12:
		return &OpDesc{Builtin: []int{0, 7, 200, 255}[g.r.Intn(4)]}
	case x < 32:
		return &OpDesc{User: true, Slice: g.r.Pct(30), Text: g.pick([]string{"~=", "in", ":=", " "}), Ctx: g.pick([]string{"custom", "c"})}
	}
	return &OpDesc{Builtin: 1 + g.r.Intn(6)}
}

func (g *condGen) stack() *Node {
	g.uniq++
	n := &Node{T: "stack", Kind: kinds[g.r.Intn(5)], A: []string{"", "", "aval", "aptr", "avalstr", "aptrstr"}[g.r.Intn(6)]}
	w := g.r.Intn(4)
	for i := 0; i < w; i++ {
		n.Els = append(n.Els, &Node{T: "str", S: fmt.Sprintf("in%d_%d", g.uniq, i)})
	}
	if g.r.Pct(30) {
		n.Opt |= 1
	}
	if g.r.Pct(15) {
		n.PreErr = true // the Stack carries an error of its own: still a Stack
	}
	return n
}

func (g *condGen) leaf() *Node {
	switch x := g.r.Intn(100); {
	case x < 40:
		return &Node{T: "str", S: g.pick(condTextPool)}
	case x < 55:
		tys := []int{0, 0, 1, 4, 11, 14}
		ty := tys[g.r.Intn(len(tys))]
		i := int64(g.r.Intn(120))
		if ty == 0 && g.r.Pct(30) {
			i = -i * 1000003
		}
		return &Node{T: "int", Ty: ty, I: i}
	case x < 62:
		return &Node{T: "bool", Bv: g.r.Bool()}
	case x < 70:
		return numLeaf(g.r)
	case x < 85:
		return &Node{T: "stringer", S: g.pick(append([]string{""}, condTextPool...))}
	case x < 92:
		return &Node{T: "other"}
	}
	return &Node{T: "oper", Op: &OpDesc{Builtin: []int{0, 1, 3, 6, 9}[g.r.Intn(5)]}}
}

func (g *condGen) ex(rejected bool) *Node {
	if rejected {
		switch x := g.r.Intn(100); {
		case g.nonest && x < 50:
			return g.stack()
		case x < 75 && x%2 == 0:
			return &Node{T: "nil"}
		case x < 75:
			return &Node{T: "str", S: ""}
		}
		return nil
	}
	switch x := g.r.Intn(100); {
	case x < 22:
		return g.stack()
	case x < 26:
		return &Node{T: "zstack", A: []string{"", "aval", "aptr"}[g.r.Intn(3)]}
	case x < 28:
		return &Node{T: []string{"zstackS", "zcondS"}[g.r.Intn(2)]}
	case x < 31:
		return &Node{T: "zcond", A: []string{"", "aval", "aptr"}[g.r.Intn(3)]}
	case x < 38:
		// a nested Condition with a leaf expression
		g.uniq++
		n := &Node{T: "cond", Kw: fmt.Sprintf("nk%d", g.uniq), Op: g.op(false), Ex: g.leaf(),
			A: []string{"", "", "aval", "aptr", "avalstr", "aptrstr"}[g.r.Intn(6)]}
		return n
	}
	return g.leaf()
}

var condEncPool = [][]string{{"\""}, {"[", "]"}, {"<", ">"}, {"'"}, {"\"", "'"}, {}, {"(", ")", "x"}, {"<"}, {"{", "["}}

func (g *condGen) encap() COp {
	o := COp{Op: "encap"}
	k := g.r.Intn(3)
	if g.r.Pct(20) {
		k = 0
	}
	for i := 0; i < k; i++ {
		switch x := g.r.Intn(10); {
		case x < 4:
			o.Enc = append(o.Enc, EncArg{K: "str", L: []string{g.pick([]string{"\"", "'", "|", "<", ""})}})
		case x < 9:
			o.Enc = append(o.Enc, EncArg{K: "slice", L: condEncPool[g.r.Intn(len(condEncPool))]})
		default:
			o.Enc = append(o.Enc, EncArg{K: "other"})
		}
	}
	return o
}

func (g *condGen) option() COp {
	switch x := g.r.Intn(100); {
	case x < 35:
		t := g.r.Intn(3)
		switch t {
		case 0:
			g.nonest = !g.nonest
		case 1:
			g.nonest = true
		case 2:
			g.nonest = false
		}
		return COp{Op: "nonest", T: t}
	case x < 55:
		return COp{Op: "nopad", T: g.r.Intn(3)}
	case x < 75:
		return COp{Op: "paren", T: g.r.Intn(3)}
	}
	return g.encap()
}

func (g *condGen) history(rejPct int) CondInput {
	var in CondInput
	r := g.r
	rej := func() bool { return r.Pct(rejPct) }
	switch x := r.Intn(100); {
	case x < 45:
		in.Ops = append(in.Ops, COp{Op: "init"})
		if r.Pct(60) {
			// assemble piecemeal, in any order, mostly with accepted arguments
			three := []COp{{Op: "setkw", Kw: g.kw(r.Pct(10))}, {Op: "setop", Opr: g.op(r.Pct(10))}, {Op: "setex", Ex: g.ex(r.Pct(10))}}
			for k := 3; k > 0; k-- {
				j := r.Intn(k)
				in.Ops = append(in.Ops, three[j])
				three = append(three[:j], three[j+1:]...)
			}
		}
	case x < 90:
		// mostly a valid constructor call
		bad := r.Pct(25)
		in.Ops = append(in.Ops, COp{Op: "cond", Kw: g.kw(bad && r.Bool()), Opr: g.op(bad && r.Bool()), Ex: g.ex(bad && r.Bool())})
	}
	n := r.Range(1, 12)
	for i := 0; i < n; i++ {
		switch x := r.Intn(100); {
		case x < 20:
			in.Ops = append(in.Ops, COp{Op: "setkw", Kw: g.kw(rej())})
		case x < 42:
			in.Ops = append(in.Ops, COp{Op: "setop", Opr: g.op(rej())})
		case x < 68:
			in.Ops = append(in.Ops, COp{Op: "setex", Ex: g.ex(rej())})
		case x < 76:
			e := 0
			if r.Pct(60) {
				e = 1 + r.Intn(5)
			}
			in.Ops = append(in.Ops, COp{Op: "seterr", E: e})
		case x < 80:
			g.nonest = false
			if r.Bool() {
				in.Ops = append(in.Ops, COp{Op: "init"})
			} else {
				in.Ops = append(in.Ops, COp{Op: "cond", Kw: g.kw(rej()), Opr: g.op(rej()), Ex: g.ex(rej())})
			}
		default:
			in.Ops = append(in.Ops, g.option())
		}
	}
	return in
}

// the alphabet of the exhaustive enumeration
func condAlphabet() []COp {
	eq := &OpDesc{Builtin: 1}
	st := func() *Node {
		return &Node{T: "stack", Kind: "AND", Els: []*Node{{T: "str", S: "in"}}}
	}
	return []COp{
		{Op: "init"},
		{Op: "cond", Kw: &KwArg{K: "str", S: "k"}, Opr: eq, Ex: &Node{T: "str", S: "v"}},
		{Op: "cond", Kw: &KwArg{K: "str", S: ""}, Opr: nil, Ex: nil},
		{Op: "setkw", Kw: &KwArg{K: "str", S: "kw"}},
		{Op: "setkw", Kw: &KwArg{K: "int"}},
		{Op: "setop", Opr: &OpDesc{Builtin: 6}},
		{Op: "setop", Opr: nil},
		{Op: "setop", Opr: &OpDesc{User: true, Text: "", Ctx: "custom"}},
		{Op: "setex", Ex: &Node{T: "str", S: "val"}},
		{Op: "setex", Ex: &Node{T: "str", S: ""}},
		{Op: "setex", Ex: nil},
		{Op: "setex", Ex: st()},
		{Op: "nonest", T: 1},
		{Op: "seterr", E: 3},
		{Op: "seterr", E: 0},
		{Op: "paren", T: 0},
	}
}

func cloneOps(ops []COp) []COp {
	b, _ := json.Marshal(ops)
	var out []COp
	json.Unmarshal(b, &out)
	return out
}

func genCond(ctx *Ctx, emit func(any, string)) {
	alpha := condAlphabet()
	starts := [][]COp{{alpha[0]}, {alpha[1]}}
	// exhaustive: every history of length <= 3 over the alphabet after
	// Init() (and, thorough tier, after a valid Cond(...)); length <= 2 after
	// a valid Cond(...) in the quick tier
	var rec func(prefix []COp, d int, start []COp)
	rec = func(prefix []COp, d int, start []COp) {
		if len(prefix) > 0 {
			emit(CondInput{Ops: cloneOps(append(append([]COp{}, start...), prefix...))}, "exhaustive")
		}
		if d == 0 {
			return
		}
		for _, o := range alpha {
			rec(append(append([]COp{}, prefix...), o), d-1, start)
		}
	}
	rec(nil, 3, starts[0])
	if ctx.Quick() {
		rec(nil, 2, starts[1])
	} else {
		rec(nil, 3, starts[1])
	}
	// and every single call on the zero Condition{}
	for _, o := range alpha {
		emit(CondInput{Ops: cloneOps([]COp{o, alpha[3], alpha[5], alpha[8]})}, "exhaustive")
	}
	// every encapsulation scheme around texts that already begin and end with
	// its strings: each level is applied, whatever the text looks like
	for _, enc := range [][]EncArg{{{K: "str", L: []string{"\""}}}, {{K: "str", L: []string{"'"}}}, {{K: "slice", L: []string{"<", ">"}}},
		{{K: "slice", L: []string{"[", "]"}}}, {{K: "str", L: []string{"\""}}, {K: "slice", L: []string{"<", ">"}}}, {{K: "slice", L: []string{"'"}}}} {
		for _, text := range condTextPool {
			emit(CondInput{Ops: cloneOps([]COp{{Op: "cond", Kw: &KwArg{K: "str", S: "person"}, Opr: &OpDesc{Builtin: 1}, Ex: &Node{T: "str", S: text}},
				{Op: "encap", Enc: enc}, {Op: "paren", T: 1}})}, "exhaustive")
		}
	}
	// size is no limit: keyword and expression of 3000 bytes
	{
		long := strings.Repeat("key ", 750)
		emit(CondInput{Ops: cloneOps([]COp{{Op: "cond", Kw: &KwArg{K: "str", S: long}, Opr: &OpDesc{Builtin: 1}, Ex: &Node{T: "str", S: long}},
			{Op: "encap", Enc: []EncArg{{K: "str", L: []string{"\""}}}}, {Op: "setkw", Kw: &KwArg{K: "str", S: "k" + long}}, {Op: "nopad", T: 1}})}, "exhaustive")
	}
	// Stacks that carry an error (native, alias, pointer to alias) offered while no-nesting is on
	for _, a := range []string{"", "aval", "aptr", "avalstr", "aptrstr"} {
		for _, nn := range []int{1, 2} {
			errStack := &Node{T: "stack", Kind: "OR", A: a, PreErr: true, Els: []*Node{{T: "str", S: "held"}}}
			emit(CondInput{Ops: cloneOps([]COp{{Op: "cond", Kw: &KwArg{K: "str", S: "k"}, Opr: &OpDesc{Builtin: 1}, Ex: &Node{T: "str", S: "before"}},
				{Op: "nonest", T: nn}, {Op: "setex", Ex: errStack}, {Op: "nonest", T: 0}, {Op: "setex", Ex: errStack}})}, "exhaustive")
		}
	}
	n := ctx.N(1200, 40000)
	for i := 0; i < n; i++ {
		g := &condGen{r: ctx.Rng.Fork()}
		rej := 40
		if i%10 == 9 {
			rej = 75 // the malformed stream
		}
		hst := g.history(rej)
		hst.LogAll = i%4 == 1
		emit(hst, "random")
	}
	// the short histories again with every log level on (logger: the discarding default)
	var rec2 func(prefix []COp, d int, start []COp)
	rec2 = func(prefix []COp, d int, start []COp) {
		if len(prefix) > 0 {
			emit(CondInput{Ops: cloneOps(append(append([]COp{}, start...), prefix...)), LogAll: true}, "exhaustive")
		}
		if d == 0 {
			return
		}
		for _, o := range alpha {
			rec2(append(append([]COp{}, prefix...), o), d-1, start)
		}
	}
	rec2(nil, 2, starts[0])
	rec2(nil, 1, starts[1])
}

func init() {
	register(&Family{Name: "cond", Gen: genCond, Run: runCond,
		Rule: "exhaustive: all histories of length<=3 over a 16-call alphabet (Init, valid/invalid Cond, accepted/rejected SetKeyword/SetOperator/SetExpression incl. nil operator, empty user operator, \"\" and nil and Stack expressions, SetNoNesting, SetErr(e/nil), SetParen) after Init() (and after a valid Cond: length<=2 quick / <=3 thorough), plus each call first on the zero Condition{}; random: optional Init()/Cond(...) then 1-12 calls (20% SetKeyword, 22% SetOperator, 26% SetExpression, 8% SetErr, 4% re-Init/Cond, 20% option setters incl. SetEncap with 0-2 arguments), 40% rejected arguments (75% in every tenth history): keywords {string, stringer, nil, int, zero stringer, bool, slice}, operators {6 built-in, bogus built-in 0/7/200/255, user, nil, user with empty text/context}, expressions {string, \"\", nil, ints, bool, float, stringer, foreign struct, Operator value, native/alias/pointer-alias Stacks, zero Stacks/Conditions, nested Conditions}. After every call Keyword, Operator, Expression (mapped back to its description), Valid()==nil, Err()==nil, String() (only emptiness when the expression is a Stack/Condition), CanNest, IsNesting, Len are recorded. distinct = distinct input hash; non-trivial = >=3 calls among Cond/SetKeyword/SetOperator/SetExpression of >=2 kinds"})
}
