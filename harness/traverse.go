package main

// Family `traverse` (C07): Stack.Traverse(path) against stepwise Index
// descent.  One case = one tree + a list of paths ("ops", so that the
// driver's delta-debugger can drop paths).  Every node of the tree except the
// nil slots carries a unique label (Stack/Condition: SetID("n<k>"), string
// leaf: "n<k>", int leaf: k, where k is the node's pre-order number; at most
// one zero Stack and one zero Condition per tree), so the identity of the
// value a call returns can be read off the value itself.
//
// Observed per path, and nothing else:
//   - the outcome of top.Traverse(path...): (pre-order number of the value, ok)
//   - the outcome of the same descent done one step at a time in Go through
//     Stack.Valid, Stack.Index, ConvertStack, ConvertCondition and
//     Condition.Expression (the observation points the property names).
// Outcome code: k>=0 node k with ok; -1 (nil,false); -2-k node k with !ok;
// -1000000 panic; -1000001 (nil,true); -1000002 a value that is no node.

import (
	"encoding/json"
	"fmt"
	"math"
	"sort"
	"strings"

	stk "github.com/JesseCoretta/go-stackage"
)

type TravInput struct {
	Tree *Node          `json:"tree"`
	Vpf  map[string]int `json:"vpf,omitempty"` // node ID -> validity policy number (odd = returns an error)
	Ops  [][]int        `json:"ops"`           // the paths
}

func init() {
	register(&Family{Name: "traverse", Gen: genTraverse, Run: runTraverse,
		Rule: "one case = one labelled tree (depth<=4, width<=4; nil slots, string/int leaves, nested stacks with their own negative/forward index options, Conditions whose expression is a stack / leaf / nil / Condition, zero Stack/Condition, validity policies; aliases excluded) probed with a list of paths: ALL paths of length 0..depth+2 over [-1,width+1] when that enumeration has <= 1600 paths, otherwise all short ones plus random mostly-valid and mutated paths (incl. MinInt/MaxInt); fixed witnesses (D07, test-suite shapes) first, then exhaustive small shapes, then random trees. Observed per path: (pre-order number of the value returned by Traverse, ok) and the same for the descent done step by step through Valid/Index/Expression. Non-trivial = the tree nests at least one stack, some path of length >= 2 succeeds and some path of length >= 2 fails after its first index found an element."})
}

const (
	tvPanic   = -1000000
	tvNilTrue = -1000001
	tvUnknown = -1000002
)

// ---------------------------------------------------------------------------
// labelling

// travLabel assigns pre-order numbers (nil slots consume a number) and
// writes the labels into the nodes.
func travLabel(n *Node, k *int) {
	me := *k
	*k++
	if n == nil {
		return
	}
	switch n.T {
	case "str":
		n.S = fmt.Sprintf("n%d", me)
	case "int":
		n.I = int64(me)
		n.Ty = 0
	case "stack":
		n.ID = fmt.Sprintf("n%d", me)
		for _, e := range n.Els {
			travLabel(e, k)
		}
	case "cond":
		n.ID = fmt.Sprintf("n%d", me)
		travLabel(n.Ex, k)
	}
}

func travKey(n *Node) string {
	if n == nil {
		return ""
	}
	switch n.T {
	case "str":
		return "1:" + n.S
	case "int":
		return fmt.Sprintf("1:n%d", n.I)
	case "stack":
		return "2:" + n.ID
	case "cond":
		return "3:" + n.ID
	case "zstack":
		return "4:"
	case "zcond":
		return "5:"
	}
	return ""
}

// travTable maps the key of every non-nil node to its pre-order number; an
// error if two nodes share a key (the identity would be ambiguous).
func travTable(n *Node, k *int, tab map[string]int) error {
	me := *k
	*k++
	if n == nil || n.T == "nil" {
		return nil
	}
	key := travKey(n)
	if key == "" {
		return fmt.Errorf("traverse: node kind %q not supported", n.T)
	}
	if n.A != "" {
		return fmt.Errorf("traverse: alias nodes are not part of this family")
	}
	if _, dup := tab[key]; dup {
		return fmt.Errorf("traverse: duplicate node label %q", key)
	}
	tab[key] = me
	switch n.T {
	case "stack":
		for _, e := range n.Els {
			if err := travTable(e, k, tab); err != nil {
				return err
			}
		}
	case "cond":
		return travTable(n.Ex, k, tab)
	}
	return nil
}

func travValueKey(v any) string {
	switch tv := v.(type) {
	case string:
		return "1:" + tv
	case int:
		return fmt.Sprintf("1:n%d", tv)
	case stk.Stack:
		if tv.IsZero() {
			return "4:"
		}
		return "2:" + tv.ID()
	case stk.Condition:
		if tv.IsZero() {
			return "5:"
		}
		return "3:" + tv.ID()
	}
	return "?"
}

func travCode(tab map[string]int, v any, ok bool) int {
	if v == nil {
		if ok {
			return tvNilTrue
		}
		return -1
	}
	k, found := tab[travValueKey(v)]
	if !found {
		return tvUnknown
	}
	if ok {
		return k
	}
	return -2 - k
}

// ---------------------------------------------------------------------------
// Coq term of a labelled tree

func travCoq(n *Node, vpf map[string]int) string {
	if n == nil {
		return "VNil"
	}
	switch n.T {
	case "stack":
		var es []string
		for _, e := range n.Els {
			es = append(es, travCoq(e, vpf))
		}
		p := "None"
		if id, ok := vpf[n.ID]; ok {
			p = fmt.Sprintf("(Some %d%%N)", id)
		}
		return fmt.Sprintf("(VStack Native (tcfg %s %s %s) %s)", n.CoqCfg(), coqBytes(n.ID), p, coqList(es))
	case "cond":
		return fmt.Sprintf("(VCond Native (tcfg %s %s None) %s %s %s)", n.CoqCfg(), coqBytes(n.ID), coqBytes(n.Kw), n.Op.Coq(), travCoq(n.Ex, vpf))
	}
	return n.Coq()
}

func coqZList(l []int) string {
	var ts []string
	for _, i := range l {
		ts = append(ts, coqZ(i))
	}
	return coqList(ts)
}

// ---------------------------------------------------------------------------
// running one case

func travPolicy(p int) stk.ValidityPolicy {
	return func(...any) error {
		if p%2 != 0 {
			return fmt.Errorf("validity policy %d says no", p)
		}
		return nil
	}
}

// travInstall walks the built Go tree next to its description and installs
// the validity policies.
func travInstall(n *Node, s stk.Stack, vpf map[string]int) error {
	if p, ok := vpf[n.ID]; ok {
		s.SetValidityPolicy(travPolicy(p))
		if (s.Valid() != nil) != (p%2 != 0) {
			return fmt.Errorf("traverse: validity policy %d not effective on %s", p, n.ID)
		}
	}
	if s.Len() != len(n.Els) {
		return fmt.Errorf("traverse: built stack %s holds %d elements, description has %d", n.ID, s.Len(), len(n.Els))
	}
	for i, e := range n.Els {
		if e == nil {
			continue
		}
		var inner *Node
		switch e.T {
		case "stack":
			inner = e
		case "cond":
			if e.Ex != nil && e.Ex.T == "stack" {
				inner = e.Ex
			}
		}
		if inner == nil {
			continue
		}
		v, _ := s.Index(i)
		if e.T == "cond" {
			c, ok := stk.ConvertCondition(v)
			if !ok {
				return fmt.Errorf("traverse: element %d of %s is no Condition", i, n.ID)
			}
			v = c.Expression()
		}
		st, ok := stk.ConvertStack(v)
		if !ok || st.ID() != inner.ID {
			return fmt.Errorf("traverse: cannot reach nested stack %s", inner.ID)
		}
		if err := travInstall(inner, st, vpf); err != nil {
			return err
		}
	}
	return nil
}

// goStepwise is the descent done one public call at a time; why = where it
// stopped.
func goStepwise(top stk.Stack, path []int) (v any, ok bool, why string, viaCond bool) {
	if len(path) == 0 {
		return nil, false, "empty", false
	}
	cur := top
	for k, i := range path {
		if cur.Valid() != nil {
			return nil, false, "invalid-stack", viaCond
		}
		x, found := cur.Index(i)
		if !found {
			if k == 0 {
				return nil, false, "first-not-found", viaCond
			}
			return nil, false, "later-not-found", viaCond
		}
		if k == len(path)-1 {
			return x, true, "", viaCond
		}
		if st, is := stk.ConvertStack(x); is {
			cur = st
			continue
		}
		if c, is := stk.ConvertCondition(x); is {
			if st, is := stk.ConvertStack(c.Expression()); is {
				cur = st
				viaCond = true
				continue
			}
			return nil, false, "cond-without-stack", viaCond
		}
		return nil, false, "not-descendable", viaCond
	}
	return nil, false, "empty", viaCond
}

func runTraverse(raw json.RawMessage) (res *Result, err error) {
	var in TravInput
	if err = json.Unmarshal(raw, &in); err != nil {
		return nil, err
	}
	if in.Tree == nil || in.Tree.T != "stack" {
		return nil, fmt.Errorf("traverse: the root must be a stack")
	}
	tab := map[string]int{}
	k := 0
	if err = travTable(in.Tree, &k, tab); err != nil {
		return nil, err
	}
	top := in.Tree.BuildStack()
	if err = travInstall(in.Tree, top, in.Vpf); err != nil {
		return nil, err
	}
	tags := map[string]bool{}
	var probes []string
	var recs []any
	okDeep, failDeep := false, false
	for _, path := range in.Ops {
		tcode := tvPanic
		func() {
			defer func() {
				if r := recover(); r != nil {
					tcode = tvPanic
					tags["panic"] = true
				}
			}()
			v, ok := top.Traverse(path...)
			tcode = travCode(tab, v, ok)
		}()
		scode := tvPanic
		why := "panic"
		via := false
		func() {
			defer func() { recover() }()
			v, ok, w, vc := goStepwise(top, path)
			scode = travCode(tab, v, ok)
			why, via = w, vc
		}()
		probes = append(probes, fmt.Sprintf("(%s, %s, %s)", coqZList(path), coqZ(tcode), coqZ(scode)))
		recs = append(recs, []any{path, tcode, scode})
		if why != "" {
			tags["stop:"+why] = true
		}
		if via {
			tags["through-condition"] = true
		}
		for _, i := range path {
			if i < 0 {
				tags["negative-index"] = true
			}
			if i == math.MinInt || i == math.MaxInt {
				tags["extreme-index"] = true
			}
		}
		switch {
		case tcode >= 0 && len(path) >= 2:
			okDeep = true
			tags[fmt.Sprintf("ok-depth%d", len(path))] = true
		case tcode >= 0:
			tags["ok-depth1"] = true
		case tcode == -1 && len(path) >= 2 && why != "first-not-found" && why != "invalid-stack":
			failDeep = true
			tags["fail-after-first-step"] = true
		case tcode == -1:
			tags["fail-first-step"] = true
		default:
			tags["odd-outcome"] = true
		}
		if tcode != scode {
			tags["traverse!=stepwise"] = true
		}
	}
	if len(in.Vpf) > 0 {
		tags["validity-policy"] = true
	}
	d := tvStackDepth(in.Tree)
	tags[fmt.Sprintf("stack-depth%d", d)] = true
	var tl []string
	for t := range tags {
		tl = append(tl, t)
	}
	sort.Strings(tl)
	coq := fmt.Sprintf("(MkTC %s %s)", travCoq(in.Tree, in.Vpf), coqList(probes))
	return &Result{Coq: coq, Observed: recs, Tags: tl, Nontrivial: d >= 2 && okDeep && failDeep}, nil
}

// ---------------------------------------------------------------------------
// generators

func tvLeaf(r *Rng) *Node {
	if r != nil && r.Pct(30) {
		return &Node{T: "int"}
	}
	return &Node{T: "str"}
}

func tvStack(kind string, opt int, els ...*Node) *Node {
	return &Node{T: "stack", Kind: kind, Opt: opt, Els: els}
}

func tvCond(ex *Node) *Node {
	return &Node{T: "cond", Kw: "kw", Op: &OpDesc{Builtin: 1}, Ex: ex}
}

func tvNil() *Node { return &Node{T: "nil"} }

func tvWidth(n *Node) int {
	if n == nil {
		return 0
	}
	w := len(n.Els)
	for _, e := range n.Els {
		if x := tvWidth(e); x > w {
			w = x
		}
	}
	if x := tvWidth(n.Ex); x > w {
		w = x
	}
	return w
}

// tvStackDepth counts nested stack levels only (a Condition around a stack
// does not consume a path index).
func tvStackDepth(n *Node) int {
	if n == nil {
		return 0
	}
	d := 0
	for _, e := range n.Els {
		if x := tvStackDepth(e); x > d {
			d = x
		}
	}
	if x := tvStackDepth(n.Ex); x > d {
		d = x
	}
	if n.T == "stack" {
		return d + 1
	}
	return d
}

func tvClone(n *Node) *Node {
	if n == nil {
		return nil
	}
	c := *n
	c.Els = nil
	for _, e := range n.Els {
		c.Els = append(c.Els, tvClone(e))
	}
	c.Ex = tvClone(n.Ex)
	if n.Op != nil {
		o := *n.Op
		c.Op = &o
	}
	return &c
}

// allPaths appends every path of exactly length l over [lo,hi].
func allPaths(out [][]int, l, lo, hi int) [][]int {
	cur := make([]int, l)
	var rec func(k int)
	rec = func(k int) {
		if k == l {
			out = append(out, append([]int{}, cur...))
			return
		}
		for i := lo; i <= hi; i++ {
			cur[k] = i
			rec(k + 1)
		}
	}
	rec(0)
	return out
}

// a mostly-valid path: walk the description, choose elements (preferring
// ones that can be descended into), sometimes phrase the index negatively or
// past the end when the stack's options make that meaningful, then maybe
// mutate.
func tvRandPath(r *Rng, root *Node, maxLen, width int) []int {
	l := r.Range(1, maxLen)
	if r.Pct(3) {
		l = 0
	}
	var path []int
	cur := root
	for len(path) < l {
		if cur == nil || len(cur.Els) == 0 {
			path = append(path, r.Range(-1, width+1))
			cur = nil
			continue
		}
		var cand []int
		for i, e := range cur.Els {
			if e != nil && (e.T == "stack" || (e.T == "cond" && e.Ex != nil && e.Ex.T == "stack")) {
				cand = append(cand, i)
			}
		}
		var i int
		if len(cand) > 0 && r.Pct(75) && len(path) < l-1 {
			i = cand[r.Intn(len(cand))]
		} else {
			i = r.Intn(len(cur.Els))
		}
		e := cur.Els[i]
		idx := i
		if cur.Opt&16 != 0 && r.Pct(30) {
			idx = i - len(cur.Els)
		} else if cur.Opt&32 != 0 && i == len(cur.Els)-1 && r.Pct(30) {
			idx = len(cur.Els) + r.Intn(3)
		}
		path = append(path, idx)
		switch {
		case e != nil && e.T == "stack":
			cur = e
		case e != nil && e.T == "cond" && e.Ex != nil && e.Ex.T == "stack":
			cur = e.Ex
		default:
			cur = nil
		}
	}
	if len(path) > 0 && r.Pct(35) {
		k := r.Intn(len(path))
		switch x := r.Intn(100); {
		case x < 4:
			path[k] = math.MinInt
		case x < 8:
			path[k] = math.MaxInt
		case x < 12:
			path[k] = []int{math.MinInt + 1, math.MaxInt - 1, -width - 2, width + 7}[r.Intn(4)]
		default:
			path[k] = r.Range(-1, width+1)
		}
	}
	if r.Pct(8) {
		path = append(path, r.Range(-1, width+1))
	}
	return path
}

// tvPaths: all paths of length 0..depth+2 over [-1,width+1] if there are at
// most `limit` of them; otherwise all the short ones that fit, plus random.
func tvPaths(r *Rng, root *Node, limit, nrand int) (paths [][]int, full bool) {
	w := tvWidth(root)
	d := tvStackDepth(root)
	vals := w + 3
	total, pow := 0, 1
	maxFull := -1
	for l := 0; l <= d+2; l++ {
		total += pow
		if total <= limit {
			maxFull = l
		}
		pow *= vals
		if pow > 100*limit {
			pow = 100 * limit
		}
	}
	for l := 0; l <= maxFull; l++ {
		paths = allPaths(paths, l, -1, w+1)
	}
	if maxFull == d+2 {
		return paths, true
	}
	for i := 0; i < nrand; i++ {
		paths = append(paths, tvRandPath(r, root, d+2, w))
	}
	return paths, false
}

// random labelled tree
type tvGen struct {
	r        *Rng
	maxDepth int
	maxWidth int
	zs, zc   bool
	vpf      map[string]*Node
}

func (g *tvGen) stack(depth int) *Node {
	r := g.r
	n := &Node{T: "stack", Kind: kinds[r.Intn(5)]}
	if r.Pct(40) {
		n.Opt |= 16
	}
	if r.Pct(40) {
		n.Opt |= 32
	}
	for _, o := range []int{1, 2, 4, 8} {
		if r.Pct(15) {
			n.Opt |= o
		}
	}
	if r.Pct(8) {
		n.Opt |= 256
	}
	if r.Pct(25) {
		n.Fifo = true
	}
	w := r.Intn(g.maxWidth + 1)
	if depth == 0 && w == 0 && r.Pct(80) {
		w = 1 + r.Intn(g.maxWidth)
	}
	if r.Pct(10) {
		n.Cap = w + r.Intn(3)
		if n.Cap == 0 {
			n.Cap = 1
		}
	}
	for i := 0; i < w; i++ {
		n.Els = append(n.Els, g.elem(depth))
	}
	switch {
	case r.Pct(8):
		g.vpf[fmt.Sprintf("%p", n)] = n // marker; resolved after labelling
	case r.Pct(10):
		n.Opt |= 128
	}
	return n
}

func (g *tvGen) elem(depth int) *Node {
	r := g.r
	x := r.Intn(100)
	switch {
	case x < 12:
		return tvNil()
	case x < 40:
		return tvLeaf(r)
	case x < 72:
		if depth+1 < g.maxDepth {
			return g.stack(depth + 1)
		}
		return tvLeaf(r)
	case x < 95:
		c := &Node{T: "cond", Kw: "kw", Op: &OpDesc{Builtin: 1 + r.Intn(6)}}
		if r.Pct(10) {
			c.Op = nil
		}
		y := r.Intn(100)
		switch {
		case y < 45 && depth+1 < g.maxDepth:
			c.Ex = g.stack(depth + 1)
		case y < 75:
			c.Ex = tvLeaf(r)
		case y < 85:
			c.Ex = tvNil()
		default:
			inner := &Node{T: "cond", Kw: "in", Op: &OpDesc{Builtin: 1}}
			if depth+1 < g.maxDepth && r.Bool() {
				inner.Ex = g.stack(depth + 1)
			} else {
				inner.Ex = tvLeaf(r)
			}
			c.Ex = inner
		}
		return c
	case x < 97:
		if !g.zs {
			g.zs = true
			return &Node{T: "zstack"}
		}
		return tvLeaf(r)
	default:
		if !g.zc {
			g.zc = true
			return &Node{T: "zcond"}
		}
		return tvLeaf(r)
	}
}

func tvRandom(r *Rng, maxDepth, maxWidth int) TravInput {
	g := &tvGen{r: r, maxDepth: maxDepth, maxWidth: maxWidth, vpf: map[string]*Node{}}
	root := g.stack(0)
	k := 0
	travLabel(root, &k)
	in := TravInput{Tree: root}
	if len(g.vpf) > 0 {
		in.Vpf = map[string]int{}
		var ids []string
		for _, n := range g.vpf {
			ids = append(ids, n.ID)
		}
		sort.Strings(ids)
		for _, id := range ids {
			in.Vpf[id] = r.Intn(4)
		}
	}
	return in
}

const tvChunk = 200

// tvEmit labels the tree, draws its paths and emits them in cases of at most
// tvChunk paths each (the same tree every time).
func tvEmit(emit func(any, string), source string, r *Rng, root *Node, vpf map[string]int, limit, nrand int) {
	k := 0
	travLabel(root, &k)
	paths, _ := tvPaths(r, root, limit, nrand)
	for a := 0; a < len(paths); a += tvChunk {
		b := a + tvChunk
		if b > len(paths) {
			b = len(paths)
		}
		emit(TravInput{Tree: root, Vpf: vpf, Ops: paths[a:b]}, source)
	}
}

func genTraverse(ctx *Ctx, emit func(any, string)) {
	r := ctx.Rng.Fork()
	limit := 1600
	// fixed witnesses: D07 (DESIGN.md §7), the shapes the test suite walks,
	// a Condition in front of a nested stack, per-level index options
	fixed := []*Node{
		tvStack("AND", 0, tvLeaf(nil), tvStack("AND", 0, tvLeaf(nil), tvLeaf(nil))),
		tvStack("AND", 0, tvLeaf(nil), tvLeaf(nil), tvStack("OR", 0, tvLeaf(nil), tvCond(tvLeaf(nil)), tvStack("NOT", 0, tvLeaf(nil)))),
		tvStack("OR", 0, tvCond(tvLeaf(nil)), tvCond(tvStack("AND", 0, tvLeaf(nil), tvLeaf(nil))), tvStack("AND", 0, tvLeaf(nil))),
		tvStack("AND", 16, tvStack("OR", 32, tvLeaf(nil), tvStack("AND", 48, tvNil(), tvLeaf(nil))), tvNil(), tvStack("LIST", 0, tvLeaf(nil), tvLeaf(nil))),
		tvStack("BASIC", 0),
		tvStack("AND", 48, &Node{T: "zstack"}, &Node{T: "zcond"}, tvCond(tvCond(tvStack("AND", 0, tvLeaf(nil))))),
	}
	for _, t := range fixed {
		tvEmit(emit, "exhaustive", r, t, nil, limit, 300)
	}
	// a validity policy on the root / on a nested stack / behind a Condition
	for _, p := range []int{1, 2} {
		t := tvStack("AND", 0, tvLeaf(nil), tvStack("OR", 0, tvLeaf(nil), tvStack("AND", 0, tvLeaf(nil))), tvCond(tvStack("AND", 0, tvLeaf(nil))))
		for _, where := range []string{"n0", "n2", "n4", "n7"} {
			tvEmit(emit, "exhaustive", r, tvClone(t), map[string]int{where: p}, limit, 300)
		}
	}
	// exhaustive small shapes: every element list of length 0..2 (quick) or
	// 0..3 (thorough) over this alphabet; the receiver's index options rotate
	// (quick, and length 3) or take all four combinations
	alphabet := []func() *Node{
		tvNil,
		func() *Node { return tvLeaf(nil) },
		func() *Node { return tvStack("AND", 16, tvLeaf(nil), tvNil()) },
		func() *Node { return tvStack("OR", 32, tvStack("AND", 0, tvLeaf(nil)), tvLeaf(nil)) },
		func() *Node { return tvCond(tvLeaf(nil)) },
		func() *Node { return tvCond(tvStack("AND", 0, tvLeaf(nil), tvLeaf(nil))) },
		func() *Node { return tvCond(tvNil()) },
		func() *Node { return tvCond(tvCond(tvStack("AND", 0, tvLeaf(nil)))) },
		func() *Node { return tvStack("LIST", 0) },
	}
	maxLen := 2
	if !ctx.Quick() {
		maxLen = 3
	}
	cnt := 0
	var rec func(prefix []int)
	rec = func(prefix []int) {
		var els []*Node
		for _, a := range prefix {
			els = append(els, alphabet[a]())
		}
		opts := []int{0, 16, 32, 48}
		if ctx.Quick() || len(prefix) == 3 {
			opts = []int{opts[cnt%4]}
		}
		for _, o := range opts {
			var e2 []*Node
			for _, e := range els {
				e2 = append(e2, tvClone(e))
			}
			tvEmit(emit, "exhaustive", r, tvStack("AND", o, e2...), nil, limit, 300)
		}
		cnt++
		if len(prefix) == maxLen {
			return
		}
		for a := range alphabet {
			rec(append(append([]int{}, prefix...), a))
		}
	}
	rec(nil)
	// a path is as long as the tree is deep: chains of 31..45 index-consuming
	// levels (every third hop goes through a Condition, which consumes none),
	// walked with every prefix of the main descent, with the leaf beside each
	// level, and with paths that run off the end
	for _, depth := range []int{31, 32, 33, 34, 40, 45} {
		bottom := tvStack("OR", 0, tvLeaf(nil), tvLeaf(nil))
		cur := bottom
		for d := depth - 1; d >= 0; d-- {
			var next *Node = cur
			if d%3 == 2 {
				next = tvCond(cur)
			}
			cur = tvStack(kinds[d%len(kinds)], 0, tvLeaf(nil), next)
		}
		k := 0
		travLabel(cur, &k)
		var paths [][]int
		for l := 1; l <= depth+3; l++ {
			main := make([]int, l)
			for i := range main {
				main[i] = 1
			}
			paths = append(paths, main)
			leaf := append(append([]int{}, main[:l-1]...), 0)
			paths = append(paths, leaf, append(append([]int{}, leaf...), 0))
		}
		for a := 0; a < len(paths); a += tvChunk {
			b := a + tvChunk
			if b > len(paths) {
				b = len(paths)
			}
			emit(TravInput{Tree: cur, Ops: paths[a:b]}, "exhaustive")
		}
	}
	// random trees
	n := ctx.N(100, 2000)
	for i := 0; i < n; i++ {
		rr := ctx.Rng.Fork()
		md, mw := 2+rr.Intn(3), 1+rr.Intn(4)
		in := tvRandom(rr, md, mw)
		nr := 250
		if !ctx.Quick() {
			nr = 600
		}
		tvEmit(emit, "random", rr, in.Tree, in.Vpf, limit, nr)
	}
}

var _ = strings.Join
