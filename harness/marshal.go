package main

// Families over Marshal / Unmarshal (coq/Marshal.v, MarshalSpec.v):
//   marshalrt    C04  trees -> Unmarshal -> Marshal (both call forms) -> walk, second Unmarshal, IsEqual
//   marshaljunk  C16  arbitrary []any inputs on uninitialised / initialised receivers
// JNode is the description of one Go value of the universe of coq/JVal.v
// ([]any lists may hold Stacks and Conditions, so desc.go's Node/value is
// not enough); Build() makes the Go value, Coq() prints the jval term, and
// renderAny() turns an observed Go value back into a description using only
// Kind/Len/Index/Keyword/Operator/Expression.

import (
	"encoding/json"
	"fmt"
	"strings"
	"time"

	stk "github.com/JesseCoretta/go-stackage"
)

type JNode struct {
	T    string   `json:"t"` // nil str int bool float op tnil list stack cond zstack zcond other
	S    string   `json:"s,omitempty"`
	I    int64    `json:"i,omitempty"`
	Ty   int      `json:"ty,omitempty"`
	Bv   bool     `json:"bv,omitempty"`
	F    float64  `json:"f,omitempty"`
	F2   float64  `json:"f2,omitempty"`
	Op   *OpDesc  `json:"op,omitempty"` // the value of an "op" node; the operator of a "cond" node
	P    string   `json:"p,omitempty"`  // typed nil pointer: int str stack cond
	A    string   `json:"a,omitempty"`  // akind of a stack / cond node
	Kind string   `json:"kind,omitempty"`
	Opt  int      `json:"opt,omitempty"`
	Sym  string   `json:"sym,omitempty"`
	Cap  int      `json:"cap,omitempty"`
	Els  []*JNode `json:"els,omitempty"`
	// Sh > 0: every node of the tree with this number (identical subtrees) is
	// ONE instance: the first one builds it, the others hand it over again
	Sh int    `json:"sh,omitempty"`
	Kw string `json:"kw,omitempty"`
	Ex *JNode `json:"ex,omitempty"`
}

func (n *JNode) asNode() *Node { // leaves shared with desc.go
	return &Node{T: n.T, S: n.S, I: n.I, Ty: n.Ty, Bv: n.Bv, F: n.F, F2: n.F2}
}

func (n *JNode) buildStack() stk.Stack {
	var s stk.Stack
	if n.Cap > 0 {
		s = newStack(n.Kind, n.Cap)
	} else {
		s = newStack(n.Kind, -1)
	}
	if n.Sym != "" {
		s.SetSymbol(n.Sym)
	}
	var vals []any
	for _, e := range n.Els {
		vals = append(vals, e.Build())
	}
	s.Push(vals...)
	applyOpts(s, n.Opt)
	return s
}

func (n *JNode) buildCond() stk.Condition {
	var c stk.Condition
	c.Init()
	c.SetKeyword(n.Kw)
	if n.Op != nil {
		c.SetOperator(n.Op.Build())
	}
	if n.Ex != nil {
		c.SetExpression(n.Ex.Build())
	}
	if n.Opt&1 != 0 {
		c.SetParen(true)
	}
	if n.Opt&4 != 0 {
		c.SetNoPadding(true)
	}
	return c
}

// oddStringer has a method NAMED String whose signature is not func() string
type oddStringer struct{ s string }

func (o oddStringer) String(sep string) string { return o.s + sep }

// jShared: the instances built for nodes with a share number (stacks under
// the number, Conditions under its negative); cleared per tree
var jShared = map[int]any{}

func (n *JNode) Build() any {
	if n == nil {
		return nil
	}
	switch n.T {
	case "nil":
		return nil
	case "str", "int", "bool", "float":
		return n.asNode().Build()
	case "op":
		return n.Op.Build()
	case "tnil":
		switch n.P {
		case "str":
			return (*string)(nil)
		case "stack":
			return (*stk.Stack)(nil)
		case "cond":
			return (*stk.Condition)(nil)
		case "int2":
			return (**int)(nil)
		case "stack2":
			return (**stk.Stack)(nil)
		case "str3":
			return (***string)(nil)
		}
		return (*int)(nil)
	case "list":
		// spare capacity is fixed per list NODE (Cap0: length of the list it was
		// derived from, +1), so that a shortened copy has the same capacity
		c := len(n.Els) + 1
		if n.Cap > c {
			c = n.Cap
		}
		l := make([]any, 0, c)
		for _, e := range n.Els {
			l = append(l, e.Build())
		}
		return l
	case "stack":
		var s stk.Stack
		if prev, ok := jShared[n.Sh]; ok && n.Sh > 0 {
			s = prev.(stk.Stack)
		} else {
			s = n.buildStack()
			if n.Sh > 0 {
				jShared[n.Sh] = s
			}
		}
		switch n.A {
		case "aval":
			return aStack(s)
		case "aptr":
			a := aStack(s)
			return &a
		case "avalstr":
			return sStack(s)
		case "aptrstr":
			a := sStack(s)
			return &a
		}
		return s
	case "cond":
		var c stk.Condition
		if prev, ok := jShared[-n.Sh]; ok && n.Sh > 0 {
			c = prev.(stk.Condition)
		} else {
			c = n.buildCond()
			if n.Sh > 0 {
				jShared[-n.Sh] = c
			}
		}
		switch n.A {
		case "aval":
			return aCond(c)
		case "aptr":
			a := aCond(c)
			return &a
		case "avalstr":
			return sCond(c)
		case "aptrstr":
			a := sCond(c)
			return &a
		}
		return c
	case "zstack":
		return stk.Stack{}
	case "zcond":
		return stk.Condition{}
	case "other":
		// values of Go types the package has no idea about, each time a fresh one
		switch n.I % 6 {
		case 4:
			return oddStringer{"sep"} // a method named String that is no fmt.Stringer
		case 5:
			return &oddStringer{"ptr"}
		case 0:
			return []func(...any) bool{func(...any) bool { return true }, func(...any) bool { return false }}
		case 1:
			return [2]func() int{func() int { return 1 }, func() int { return 2 }}
		case 2:
			return map[string]func(){"f": func() {}}
		}
		return struct{ F []func() }{[]func(){func() {}}}
	}
	panic("JNode.Build: unknown kind " + n.T)
}

// jBytes prints a byte string; non-printable bytes as numbers of scope N
// (the shards are evaluated with Z_scope open).
func jBytes(s string) string {
	plain := true
	for _, c := range []byte(s) {
		if c < 32 || c > 126 || c == '"' {
			plain = false
			break
		}
	}
	if plain {
		return "(B \"" + s + "\")"
	}
	var parts []string
	for _, c := range []byte(s) {
		parts = append(parts, fmt.Sprintf("%d%%N", c))
	}
	return "(L [" + strings.Join(parts, ";") + "])"
}

var tnilTy = map[string]int{"int": 0, "str": 102, "stack": 100, "cond": 101, "int2": 0, "stack2": 100, "str3": 102}
var tnilDepth = map[string]int{"int2": 2, "stack2": 2, "str3": 3}

func jcoqList(l []*JNode) string {
	var es []string
	for _, e := range l {
		es = append(es, e.Coq())
	}
	return coqList(es)
}

func (n *JNode) coqCfg(typ int) string {
	cp := 0
	if n.Cap > 0 {
		cp = n.Cap + 1
	}
	sym := n.Sym
	if n.Kind == "LIST" {
		sym = ""
	}
	return fmt.Sprintf("(cfgS %d%%N %d%%N %s %s [] false %d)", typ, n.Opt, jBytes(sym), jBytes(""), cp)
}

// storedOp is the operator a Condition built from the description holds:
// setOperator refuses one whose text or context is empty.
func (n *JNode) storedOp() *OpDesc {
	if n.Op != nil && n.Op.User && (n.Op.Text == "" || n.Op.Ctx == "") {
		return nil
	}
	return n.Op
}

// Coq prints the jval term.
func (n *JNode) Coq() string {
	if n == nil {
		return "JNil"
	}
	switch n.T {
	case "nil":
		return "JNil"
	case "str":
		return "(JLeaf (GStr " + jBytes(n.S) + "))"
	case "int":
		return fmt.Sprintf("(JLeaf (GInt %d%%N %s))", n.Ty, coqZ64(n.I))
	case "bool":
		return "(JLeaf (GBool " + coqBool(n.Bv) + "))"
	case "float":
		ty := n.Ty
		if ty == 0 {
			ty = 21
		}
		return fmt.Sprintf("(JLeaf (GFloat %d%%N %s 0))", ty, jBytes(n.asNode().floatText(ty)))
	case "op":
		if n.Op.User {
			return fmt.Sprintf("(JLeaf (GOper (OpUser %s %s)))", jBytes(n.Op.Text), jBytes(n.Op.Ctx))
		}
		return fmt.Sprintf("(JLeaf (GOper (OpBuiltin %d%%N)))", n.Op.Builtin)
	case "tnil":
		d := 1
		if k, ok := tnilDepth[n.P]; ok {
			d = k
		}
		return fmt.Sprintf("(JLeaf (GNilPtr %d %d%%N))", d, tnilTy[n.P])
	case "other":
		return "(JLeaf (GOther 999%N))"
	case "list":
		return "(JList " + jcoqList(n.Els) + ")"
	case "stack":
		return fmt.Sprintf("(JStack %s %s %s)", coqAkind(n.A), n.coqCfg(kindN[n.Kind]), jcoqList(n.Els))
	case "cond":
		ex := "JNil"
		if n.Ex != nil && !(n.Ex.T == "str" && n.Ex.S == "") {
			ex = n.Ex.Coq()
		}
		return fmt.Sprintf("(JCond %s %s %s %s %s)", coqAkind(n.A), n.coqCfg(5), jBytes(n.Kw), n.storedOp().Coq(), ex)
	case "zstack":
		return "(JZeroStack Native)"
	case "zcond":
		return "(JZeroCond Native)"
	}
	panic("JNode.Coq: unknown kind " + n.T)
}

// ---------------------------------------------------------------------------
// observation: a Go value rendered through the public read accessors only

func kindOfLabel(k string) string {
	u := strings.ToUpper(k)
	if _, ok := kindN[u]; ok {
		return u
	}
	return "?"
}

func renderOp(o stk.Operator) *OpDesc {
	switch x := o.(type) {
	case nil:
		return nil
	case stk.ComparisonOperator:
		return &OpDesc{Builtin: int(x)}
	case userOp:
		return &OpDesc{User: true, Text: x.text, Ctx: x.ctx}
	case sliceOp:
		return &OpDesc{User: true, Slice: true, Text: x[0], Ctx: x[1]}
	}
	return &OpDesc{User: true, Text: o.String(), Ctx: o.Context()}
}

func renderStack(s stk.Stack, a string) *JNode {
	if !s.IsInit() {
		return &JNode{T: "zstack"}
	}
	n := &JNode{T: "stack", A: a, Kind: kindOfLabel(s.Kind())}
	for i, l := 0, s.Len(); i < l; i++ {
		e, _ := s.Index(i)
		n.Els = append(n.Els, renderAny(e))
	}
	return n
}

func renderCond(c stk.Condition, a string) *JNode {
	if !c.IsInit() {
		return &JNode{T: "zcond"}
	}
	return &JNode{T: "cond", A: a, Kw: c.Keyword(), Op: renderOp(c.Operator()), Ex: renderAny(c.Expression())}
}

func renderList(l []any) []*JNode {
	out := []*JNode{}
	for _, e := range l {
		out = append(out, renderAny(e))
	}
	return out
}

func renderAny(v any) *JNode {
	switch x := v.(type) {
	case nil:
		return &JNode{T: "nil"}
	case string:
		return &JNode{T: "str", S: x}
	case int:
		return &JNode{T: "int", Ty: 0, I: int64(x)}
	case int8:
		return &JNode{T: "int", Ty: 1, I: int64(x)}
	case int16:
		return &JNode{T: "int", Ty: 2, I: int64(x)}
	case int32:
		return &JNode{T: "int", Ty: 3, I: int64(x)}
	case int64:
		return &JNode{T: "int", Ty: 4, I: x}
	case uint:
		return &JNode{T: "int", Ty: 10, I: int64(x)}
	case uint8:
		return &JNode{T: "int", Ty: 11, I: int64(x)}
	case uint16:
		return &JNode{T: "int", Ty: 12, I: int64(x)}
	case uint32:
		return &JNode{T: "int", Ty: 13, I: int64(x)}
	case uint64:
		return &JNode{T: "int", Ty: 14, I: int64(x)}
	case bool:
		return &JNode{T: "bool", Bv: x}
	case float64:
		return &JNode{T: "float", Ty: 21, F: x}
	case float32:
		return &JNode{T: "float", Ty: 20, F: float64(x)}
	case complex64:
		return &JNode{T: "float", Ty: 22, F: float64(real(x)), F2: float64(imag(x))}
	case complex128:
		return &JNode{T: "float", Ty: 23, F: real(x), F2: imag(x)}
	case stk.ComparisonOperator:
		return &JNode{T: "op", Op: &OpDesc{Builtin: int(x)}}
	case userOp:
		return &JNode{T: "op", Op: &OpDesc{User: true, Text: x.text, Ctx: x.ctx}}
	case sliceOp:
		return &JNode{T: "op", Op: &OpDesc{User: true, Slice: true, Text: x[0], Ctx: x[1]}}
	case []any:
		return &JNode{T: "list", Els: renderList(x)}
	case stk.Stack:
		return renderStack(x, "")
	case stk.Condition:
		return renderCond(x, "")
	case aStack:
		return renderStack(stk.Stack(x), "aval")
	case *aStack:
		if x != nil {
			return renderStack(stk.Stack(*x), "aptr")
		}
	case sStack:
		return renderStack(stk.Stack(x), "avalstr")
	case *sStack:
		if x != nil {
			return renderStack(stk.Stack(*x), "aptrstr")
		}
	case aCond:
		return renderCond(stk.Condition(x), "aval")
	case *aCond:
		if x != nil {
			return renderCond(stk.Condition(*x), "aptr")
		}
	case sCond:
		return renderCond(stk.Condition(x), "avalstr")
	case *sCond:
		if x != nil {
			return renderCond(stk.Condition(*x), "aptrstr")
		}
	case *int:
		if x == nil {
			return &JNode{T: "tnil", P: "int"}
		}
	case *string:
		if x == nil {
			return &JNode{T: "tnil", P: "str"}
		}
	case *stk.Stack:
		if x == nil {
			return &JNode{T: "tnil", P: "stack"}
		}
	case *stk.Condition:
		if x == nil {
			return &JNode{T: "tnil", P: "cond"}
		}
	case **int:
		if x == nil {
			return &JNode{T: "tnil", P: "int2"}
		}
	case **stk.Stack:
		if x == nil {
			return &JNode{T: "tnil", P: "stack2"}
		}
	case ***string:
		if x == nil {
			return &JNode{T: "tnil", P: "str3"}
		}
	}
	return &JNode{T: "other", S: fmt.Sprintf("%T", v)}
}

// ---------------------------------------------------------------------------
// tree statistics

type jstats struct {
	nodes, depth, conds, stackEx, condEx, empties, nils, folds, caps, aliases, lists int
}

func (n *JNode) stat(d int, st *jstats) {
	if n == nil {
		return
	}
	st.nodes++
	switch n.T {
	case "nil":
		st.nils++
	case "list":
		st.lists++
		if d+1 > st.depth {
			st.depth = d + 1
		}
		for _, e := range n.Els {
			e.stat(d+1, st)
		}
	case "stack":
		if d+1 > st.depth {
			st.depth = d + 1
		}
		if len(n.Els) == 0 {
			st.empties++
		}
		if n.Opt&2 != 0 {
			st.folds++
		}
		if n.Cap > 0 {
			st.caps++
		}
		if n.A != "" {
			st.aliases++
		}
		for _, e := range n.Els {
			e.stat(d+1, st)
		}
	case "cond":
		st.conds++
		if n.A != "" {
			st.aliases++
		}
		if n.Ex != nil {
			switch n.Ex.T {
			case "stack":
				st.stackEx++
			case "cond":
				st.condEx++
			}
			n.Ex.stat(d+1, st)
		}
	}
}

// ---------------------------------------------------------------------------
// family marshalrt

type RTInput struct {
	Tree   *JNode `json:"tree"`
	Single bool   `json:"single"` // Marshal(u) instead of Marshal(u...)
}

func runMarshalRT(raw json.RawMessage) (*Result, error) {
	var in RTInput
	if err := json.Unmarshal(raw, &in); err != nil {
		return nil, err
	}
	if in.Tree == nil || in.Tree.T != "stack" || in.Tree.A != "" {
		return nil, fmt.Errorf("marshalrt: the tree must be a native stack")
	}
	jShared = map[int]any{}
	orig := in.Tree.Build().(stk.Stack)
	var (
		panicked   bool
		panicText  string
		u1, u2     = []*JNode{}, []*JNode{}
		merr       bool
		walk       = &JNode{T: "nil"}
		eqab, eqba bool
		step       string
	)
	func() {
		defer func() {
			if e := recover(); e != nil {
				panicked = true
				panicText = fmt.Sprint(e)
			}
		}()
		step = "Unmarshal"
		s1, _ := orig.Unmarshal()
		u1 = renderList(s1)
		var recon stk.Stack
		step = "Marshal"
		var err error
		if in.Single {
			err = recon.Marshal(s1)
		} else {
			err = recon.Marshal(s1...)
		}
		merr = err != nil
		step = "walk"
		walk = renderStack(recon, "")
		step = "Unmarshal2"
		s2, _ := recon.Unmarshal()
		u2 = renderList(s2)
		step = "IsEqual"
		eqab = orig.IsEqual(recon) == nil
		eqba = recon.IsEqual(orig) == nil
		step = ""
	}()
	coq := fmt.Sprintf("(MkRT %s %s %s %s %s %s %s %s %s)", in.Tree.Coq(), coqBool(in.Single), coqBool(panicked),
		jcoqList(u1), coqBool(merr), walk.Coq(), jcoqList(u2), coqBool(eqab), coqBool(eqba))
	var st jstats
	in.Tree.stat(0, &st)
	tags := map[string]bool{fmt.Sprintf("depth%d", st.depth): true}
	tag := func(c bool, t string) {
		if c {
			tags[t] = true
		}
	}
	tag(in.Single, "form-single")
	tag(!in.Single, "form-spread")
	tag(st.conds > 0, "cond")
	tag(st.stackEx > 0, "cond-stack-expr")
	tag(st.condEx > 0, "cond-cond-expr")
	tag(st.empties > 0, "empty-stack")
	tag(st.nils > 0, "nil-leaf")
	tag(st.folds > 0, "fold")
	tag(st.caps > 0, "capacity")
	tag(st.aliases > 0, "alias")
	tag(panicked, "panic")
	tag(merr, "marshal-error")
	tag(eqab && eqba, "isequal-ok")
	invariant := ""
	if !rtProbed {
		rtProbed = true
		invariant = ptrExprProbe()
	}
	obs := map[string]any{"panic": panicked, "u1": u1, "marshal_err": merr, "walk": walk, "u2": u2,
		"isequal_ab": eqab, "isequal_ba": eqba}
	if panicked {
		obs["panic_at"] = step
		obs["panic_text"] = panicText
	}
	return &Result{Coq: coq, Observed: obs, Tags: joinTags(tags), Invariant: invariant, Nontrivial: st.nodes >= 4 && (st.depth >= 2 || st.conds > 0)}, nil
}

// rtProbed: the pointer-expression probe runs with the first case of a run
var rtProbed bool

type rtGen struct {
	r        *Rng
	maxDepth int
}

var rtStrings = []string{"a", "bc", "x y", "", "é", "AND", "condition", "k", "cn", "日本", "Or"}
var rtKw = []string{"k", "cn", "uid", "", "objectClass", "é"}

func (g *rtGen) leaf(allowEmptyStr bool) *JNode {
	switch x := g.r.Intn(100); {
	case x < 40:
		s := rtStrings[g.r.Intn(len(rtStrings))]
		if s == "" && !allowEmptyStr {
			s = "v"
		}
		return &JNode{T: "str", S: s}
	case x < 65:
		tys := []int{0, 0, 1, 4, 11, 14}
		return &JNode{T: "int", Ty: tys[g.r.Intn(len(tys))], I: int64(g.r.Intn(120))}
	case x < 75:
		return &JNode{T: "bool", Bv: g.r.Bool()}
	case x < 85:
		nl := numLeaf(g.r)
		return &JNode{T: "float", Ty: nl.Ty, F: nl.F, F2: nl.F2}
	}
	return &JNode{T: "nil"}
}

func (g *rtGen) op() *OpDesc {
	switch x := g.r.Intn(100); {
	case x < 10:
		return nil
	case x < 20:
		return &OpDesc{Builtin: []int{0, 7, 200}[g.r.Intn(3)]}
	case x < 35:
		return &OpDesc{User: true, Slice: g.r.Pct(30), Text: []string{"~=", "in", ":="}[g.r.Intn(3)], Ctx: "custom"}
	case x < 40:
		// refused by setOperator: the Condition keeps no operator
		return &OpDesc{User: true, Text: "", Ctx: "custom"}
	}
	return &OpDesc{Builtin: 1 + g.r.Intn(6)}
}

// opaque: the node sits below a Condition that is passed through as a value,
// so it is observed through Kind(): no symbol there (Kind reports the symbol)
func (g *rtGen) cond(depth int, opaque bool) *JNode {
	n := &JNode{T: "cond", Kw: rtKw[g.r.Intn(len(rtKw))], Op: g.op()}
	if g.r.Pct(10) {
		n.A = []string{"aval", "aptr"}[g.r.Intn(2)]
	}
	if g.r.Pct(20) {
		n.Opt |= 1
	}
	switch x := g.r.Intn(100); {
	case x < 25 && depth < g.maxDepth:
		n.Ex = g.stack(depth+1, opaque)
	case x < 37 && depth < g.maxDepth:
		n.Ex = g.cond(depth+1, true)
	case x < 47:
		n.Ex = &JNode{T: "nil"}
	default:
		n.Ex = g.leaf(false)
	}
	return n
}

func (g *rtGen) stack(depth int, opaque bool) *JNode {
	n := &JNode{T: "stack", Kind: kinds[g.r.Intn(len(kinds))]}
	if depth > 0 && g.r.Pct(15) {
		n.A = []string{"aval", "aptr", "avalstr", "aptrstr"}[g.r.Intn(4)]
	}
	for _, o := range []int{1, 4, 8, 16, 32} {
		if g.r.Pct(15) {
			n.Opt |= o
		}
	}
	if g.r.Pct(20) {
		n.Opt |= 2 // fold
	}
	if g.r.Pct(15) {
		n.Opt |= 256 // no-nesting, switched on after the elements are in
	}
	if !opaque && n.Kind != "LIST" && g.r.Pct(20) {
		n.Sym = []string{"&", "||", "and"}[g.r.Intn(3)]
	}
	w := 0
	if !g.r.Pct(15) {
		w = 1 + g.r.Intn(4)
	}
	if g.r.Pct(12) {
		n.Cap = w + g.r.Intn(3)
		if n.Cap == 0 {
			n.Cap = 1
		}
	}
	for i := 0; i < w; i++ {
		x := g.r.Intn(100)
		switch {
		case x < 28 && depth < g.maxDepth:
			n.Els = append(n.Els, g.stack(depth+1, opaque))
		case x < 52:
			n.Els = append(n.Els, g.cond(depth, opaque))
		default:
			n.Els = append(n.Els, g.leaf(true))
		}
	}
	return n
}

// jClone copies a subtree.
func jClone(n *JNode) *JNode {
	if n == nil {
		return nil
	}
	c := *n
	c.Els = nil
	for _, e := range n.Els {
		c.Els = append(c.Els, jClone(e))
	}
	c.Ex = jClone(n.Ex)
	return &c
}

// share makes some nested Stack / Condition occur again, as the SAME instance:
// as a later sibling, or below a later sibling ("uncle" position), in a new
// node form.  Capacities grow with the elements added.
func (g *rtGen) share(n *JNode, next *int) {
	if n == nil {
		return
	}
	for _, e := range n.Els {
		g.share(e, next)
	}
	g.share(n.Ex, next)
	if n.T != "stack" {
		return
	}
	for i, e := range n.Els {
		if (e.T != "stack" && e.T != "cond") || e.Sh != 0 || !g.r.Pct(35) {
			continue
		}
		*next++
		e.Sh = *next
		twin := jClone(e)
		twin.A = []string{"", "", "aval", "aptr"}[g.r.Intn(4)]
		// a later sibling stack to put it under, if there is one
		var uncle *JNode
		for _, l := range n.Els[i+1:] {
			if l.T == "stack" && l.Opt&256 == 0 && g.r.Bool() {
				uncle = l
			}
		}
		host := n
		if uncle != nil {
			host = uncle
		}
		host.Els = append(host.Els, twin)
		if host.Cap > 0 {
			host.Cap++
		}
		break
	}
}

func genMarshalRT(ctx *Ctx, emit func(any, string)) {
	eq := &OpDesc{Builtin: 1}
	str := func(s string) *JNode { return &JNode{T: "str", S: s} }
	// exhaustive: every kind x fold x call form x one-element shapes
	for _, k := range kinds {
		for _, fold := range []int{0, 2} {
			shapes := [][]*JNode{
				nil,
				{str("a")},
				{{T: "nil"}},
				{{T: "int", I: 7}, {T: "nil"}, str("")},
				{{T: "stack", Kind: "OR"}},
				{{T: "stack", Kind: "NOT", Opt: 2, Els: []*JNode{str("x")}}},
				{{T: "cond", Kw: "k", Op: eq, Ex: str("v")}},
				{{T: "cond", Kw: "k", Op: nil, Ex: str("v")}},
				{{T: "cond", Kw: "", Op: &OpDesc{Builtin: 0}, Ex: &JNode{T: "nil"}}},
				{{T: "cond", Kw: "k", Op: &OpDesc{User: true, Text: "~=", Ctx: "custom"}, Ex: &JNode{T: "stack", Kind: "LIST", Els: []*JNode{str("p"), str("q")}}}},
				{{T: "cond", Kw: "k", Op: eq, Ex: &JNode{T: "cond", Kw: "j", Op: &OpDesc{Builtin: 2}, Ex: &JNode{T: "int", I: 3}}}},
				{{T: "cond", A: "aval", Kw: "k", Op: eq, Ex: &JNode{T: "stack", A: "aptr", Kind: "AND", Els: []*JNode{{T: "cond", Kw: "i", Op: eq, Ex: str("w")}}}}},
				{{T: "stack", A: "aval", Kind: "BASIC", Els: []*JNode{str("AND"), str("CONDITION")}}, str("list")},
			}
			for _, els := range shapes {
				for _, single := range []bool{false, true} {
					emit(&RTInput{Tree: &JNode{T: "stack", Kind: k, Opt: fold, Els: els}, Single: single}, "exhaustive")
					if !single {
						// no-nesting switched on AFTER the elements were stored (it never affects those)
						emit(&RTInput{Tree: &JNode{T: "stack", Kind: k, Opt: fold | 256, Els: els}, Single: single}, "exhaustive")
					}
				}
			}
		}
	}
	g := &rtGen{r: ctx.Rng.Fork(), maxDepth: 4}
	for i, n := 0, ctx.N(450, 30000); i < n; i++ {
		if i%5 == 0 {
			g.maxDepth = 2
		} else {
			g.maxDepth = 4
		}
		t := g.stack(0, false)
		if i%3 == 1 {
			next := 0
			g.share(t, &next)
		}
		emit(&RTInput{Tree: t, Single: g.r.Pct(40)}, "random")
	}
	// width is no limit: more than a thousand nested Stacks / Conditions in one
	// Stack, and a wide Stack late among many siblings
	{
		cnd := func(i int) *JNode {
			return &JNode{T: "cond", Kw: "k", Op: &OpDesc{Builtin: 1 + i%6}, Ex: &JNode{T: "int", I: int64(i % 90)}}
		}
		wide := &JNode{T: "stack", Kind: "AND"}
		for i := 0; i < 1100; i++ {
			if i%5 == 4 {
				wide.Els = append(wide.Els, &JNode{T: "stack", Kind: "OR", Els: []*JNode{str("m")}})
			} else {
				wide.Els = append(wide.Els, cnd(i))
			}
		}
		emit(&RTInput{Tree: wide}, "exhaustive")
		two := &JNode{T: "stack", Kind: "OR"}
		for i := 0; i < 700; i++ {
			two.Els = append(two.Els, &JNode{T: "stack", Kind: "NOT", Els: []*JNode{str("n")}})
		}
		last := &JNode{T: "stack", Kind: "AND"}
		for i := 0; i < 400; i++ {
			last.Els = append(last.Els, cnd(i))
		}
		two.Els = append(two.Els, last)
		emit(&RTInput{Tree: two, Single: true}, "exhaustive")
	}
	// the same instance twice: as siblings, below a later sibling, typed anew
	sub := func() *JNode { return &JNode{T: "stack", Kind: "OR", Sh: 1, Els: []*JNode{str("a"), str("b")}} }
	for _, k := range kinds {
		twin := sub()
		twin.A = "aptr"
		emit(&RTInput{Tree: &JNode{T: "stack", Kind: k, Els: []*JNode{sub(), sub()}}}, "exhaustive")
		emit(&RTInput{Tree: &JNode{T: "stack", Kind: k, Els: []*JNode{sub(), {T: "stack", Kind: "NOT", Els: []*JNode{sub()}}}}}, "exhaustive")
		emit(&RTInput{Tree: &JNode{T: "stack", Kind: k, Els: []*JNode{{T: "stack", Kind: "AND", Els: []*JNode{sub()}}, str("m"),
			{T: "stack", Kind: "NOT", Els: []*JNode{str("n"), twin}}}}, Single: true}, "exhaustive")
	}
}

// ---------------------------------------------------------------------------
// family marshaljunk

type JKInput struct {
	Recv    *JNode   `json:"recv,omitempty"`    // nil: uninitialised receiver
	Mutex   bool     `json:"mutex,omitempty"`   // initialised receiver with its mutex enabled
	Rebuilt bool     `json:"rebuilt,omitempty"` // the receiver's slice was rebuilt by an Insert at the front and a Remove (same content, tight array)
	VPol    bool     `json:"vpol,omitempty"`    // initialised receiver whose own validity policy is failing (it is initialised all the same)
	In      []*JNode `json:"in"`
}

func jkClass(in []*JNode) string {
	for len(in) == 1 && in[0].T == "list" {
		in = in[0].Els
	}
	if len(in) == 0 {
		return "class-empty"
	}
	if in[0].T != "str" {
		return "class-notstring"
	}
	u := strings.ToUpper(in[0].S)
	if u == "CONDITION" {
		return "class-condition"
	}
	if _, ok := kindN[u]; ok {
		return "class-label"
	}
	return "class-unknown"
}

// jShorten: a copy of the input in which the LAST non-empty nested list has lost
// its last element but keeps its capacity (a near miss of the same input)
func jShorten(in []*JNode) ([]*JNode, bool) {
	b, _ := json.Marshal(in)
	var cp []*JNode
	json.Unmarshal(b, &cp)
	var last *JNode
	var walk func(n *JNode)
	walk = func(n *JNode) {
		if n == nil {
			return
		}
		if n.T == "list" && len(n.Els) > 0 {
			last = n
		}
		for _, e := range n.Els {
			walk(e)
		}
		walk(n.Ex)
	}
	for _, n := range cp {
		walk(n)
	}
	if last == nil {
		return nil, false
	}
	last.Cap = len(last.Els) + 1
	last.Els = last.Els[:len(last.Els)-1]
	return cp, true
}

func runMarshalJunk(raw json.RawMessage) (*Result, error) {
	var in JKInput
	if err := json.Unmarshal(raw, &in); err != nil {
		return nil, err
	}
	var r stk.Stack
	if in.Recv != nil {
		if in.Recv.T != "stack" || in.Recv.A != "" {
			return nil, fmt.Errorf("marshaljunk: the receiver must be a native stack")
		}
		r = in.Recv.Build().(stk.Stack)
		if in.Mutex {
			r.SetMutex()
		}
		if in.Rebuilt {
			r.Insert("scratch", 0)
			r.Remove(0)
		}
		if in.VPol {
			r.SetValidityPolicy(func(...any) error { return fmt.Errorf("the receiver's validity policy fails") })
		}
	}
	args := []any{}
	for _, a := range in.In {
		args = append(args, a.Build())
	}
	var (
		panicked, merr     bool
		panicText          string
		init               bool
		kind               = "?"
		ln                 int
		strOK, unmOK, eqOK = true, true, true
		u                  = []*JNode{}
	)
	// under a watchdog: a receiver with a mutex must not block on itself
	type mres struct {
		err   bool
		panic string
		did   bool
	}
	mdone := make(chan mres, 1)
	go func() {
		var o mres
		defer func() {
			if e := recover(); e != nil {
				o.did, o.panic = true, fmt.Sprint(e)
			}
			mdone <- o
		}()
		o.err = r.Marshal(args...) != nil
	}()
	select {
	case o := <-mdone:
		merr, panicked, panicText = o.err, o.did, o.panic
	case <-time.After(20 * time.Second):
		panicked, panicText = true, "Marshal did not return (blocked on the receiver's own lock?)"
	}
	guard := func(ok *bool, f func()) {
		defer func() {
			if e := recover(); e != nil {
				*ok = false
				if panicText == "" {
					panicText = fmt.Sprint(e)
				}
			}
		}()
		f()
	}
	if !panicked {
		guard(&unmOK, func() {
			init = r.IsInit()
			kind = kindOfLabel(r.Kind())
			ln = r.Len()
		})
		guard(&strOK, func() { _ = r.String() })
		guard(&unmOK, func() {
			s, _ := r.Unmarshal()
			u = renderList(s)
		})
		guard(&eqOK, func() {
			_ = r.IsEqual(r)
			// and against an independent decoding of the same input
			var twin stk.Stack
			if in.Recv != nil {
				twin = in.Recv.Build().(stk.Stack)
			}
			a2 := []any{}
			for _, a := range in.In {
				a2 = append(a2, a.Build())
			}
			_ = twin.Marshal(a2...)
			_ = r.IsEqual(twin)
			_ = twin.IsEqual(r)
			// and against the decoding of a near miss (one nested row one element shorter, same capacity)
			if short, ok := jShorten(in.In); ok {
				var near stk.Stack
				if in.Recv != nil {
					near = in.Recv.Build().(stk.Stack)
				}
				a3 := []any{}
				for _, a := range short {
					a3 = append(a3, a.Build())
				}
				_ = near.Marshal(a3...)
				_ = r.IsEqual(near)
				_ = near.IsEqual(r)
			}
		})
		if !unmOK {
			u = []*JNode{}
		}
	}
	recv := "None"
	if in.Recv != nil {
		recv = "(Some " + in.Recv.Coq() + ")"
	}
	postOK := strOK && unmOK && eqOK
	coq := fmt.Sprintf("(MkJK %s %s %s %s %s %d%%N %s %s %s)", recv, jcoqList(in.In), coqBool(panicked), coqBool(merr),
		coqBool(init), kindN[kind], coqZ(ln), coqBool(postOK), jcoqList(u))
	var st jstats
	for _, a := range in.In {
		a.stat(0, &st)
	}
	tags := map[string]bool{jkClass(in.In): true, fmt.Sprintf("depth%d", st.depth): true}
	tag := func(c bool, t string) {
		if c {
			tags[t] = true
		}
	}
	tag(in.Recv != nil, "recv-init")
	tag(in.Recv == nil, "recv-zero")
	tag(in.Mutex, "recv-mutex")
	tag(in.VPol, "recv-failing-validity-policy")
	tag(panicked, "panic")
	tag(merr, "error")
	tag(!merr, "no-error")
	tag(init, "init-after")
	tag(!postOK, "post-panic")
	obs := map[string]any{"panic": panicked, "err": merr, "init": init, "kind": kind, "len": ln,
		"string_ok": strOK, "unmarshal_ok": unmOK, "isequal_ok": eqOK, "unmarshal": u}
	if panicText != "" {
		obs["panic_text"] = panicText
	}
	return &Result{Coq: coq, Observed: obs, Tags: joinTags(tags), Nontrivial: len(in.In) >= 2 || st.lists > 0}, nil
}

func jstr(s string) *JNode       { return &JNode{T: "str", S: s} }
func jnil() *JNode               { return &JNode{T: "nil"} }
func jtnil(p string) *JNode      { return &JNode{T: "tnil", P: p} }
func jint(i int64) *JNode        { return &JNode{T: "int", I: i} }
func jlist(els ...*JNode) *JNode { return &JNode{T: "list", Els: els} }
func jop(b int) *JNode           { return &JNode{T: "op", Op: &OpDesc{Builtin: b}} }
func jsop(text, ctx string) *JNode { // user operator of an uncomparable Go type
	return &JNode{T: "op", Op: &OpDesc{User: true, Slice: true, Text: text, Ctx: ctx}}
}
func juop(text, ctx string) *JNode {
	return &JNode{T: "op", Op: &OpDesc{User: true, Text: text, Ctx: ctx}}
}

type jkGen struct{ r *Rng }

func randCase(r *Rng, s string) string {
	b := []byte(s)
	for i := range b {
		if r.Bool() {
			b[i] = strings.ToLower(string(b[i]))[0]
		} else {
			b[i] = strings.ToUpper(string(b[i]))[0]
		}
	}
	return string(b)
}

// nearLabels: words that are NOT labels (a label is the bare word, in any case)
var nearLabels = []string{" and ", "list\t", "Not ", " CONDITION", "AND\n", "O R", "\tbasic", "or ", "ANDS", "condition "}

func (g *jkGen) label() string {
	if g.r.Pct(8) {
		return nearLabels[g.r.Intn(len(nearLabels))]
	}
	return randCase(g.r, []string{"AND", "OR", "NOT", "LIST", "BASIC"}[g.r.Intn(5)])
}

func (g *jkGen) readyStack(depth int) *JNode {
	n := &JNode{T: "stack", Kind: kinds[g.r.Intn(len(kinds))]}
	if g.r.Pct(20) {
		n.Opt |= 2
	}
	if g.r.Pct(20) {
		n.A = []string{"aval", "aptr"}[g.r.Intn(2)]
	}
	for i, w := 0, g.r.Intn(3); i < w; i++ {
		if depth < 2 && g.r.Pct(25) {
			n.Els = append(n.Els, g.any(depth+1, 4))
		} else {
			n.Els = append(n.Els, g.scalar())
		}
	}
	return n
}

func (g *jkGen) readyCond() *JNode {
	n := &JNode{T: "cond", Kw: []string{"k", "", "cn"}[g.r.Intn(3)]}
	switch g.r.Intn(4) {
	case 0:
		n.Op = nil
	case 1:
		n.Op = &OpDesc{Builtin: []int{0, 9}[g.r.Intn(2)]}
	default:
		n.Op = &OpDesc{Builtin: 1 + g.r.Intn(6)}
	}
	switch g.r.Intn(4) {
	case 0:
		n.Ex = &JNode{T: "nil"}
	case 1:
		n.Ex = &JNode{T: "stack", Kind: "OR", Els: []*JNode{jstr("s")}}
	default:
		n.Ex = jstr("v")
	}
	return n
}

func (g *jkGen) operator() *JNode {
	switch x := g.r.Intn(100); {
	case x < 50:
		return jop(1 + g.r.Intn(6))
	case x < 65:
		return jop([]int{0, 7, 255}[g.r.Intn(3)])
	case x < 78:
		return juop("~=", "custom")
	case x < 85:
		return jsop("~=", "custom")
	case x < 92:
		return juop("", "custom")
	}
	return juop("~=", "")
}

func (g *jkGen) scalar() *JNode {
	switch x := g.r.Intn(100); {
	case x < 25:
		return jstr([]string{"junk", "", "x y", "é", "k", "lıst", "ſ", "cond", "ou=People\\", "a\\ b", "\\", "x\\\\", "tab\\\t", "q\\  r"}[g.r.Intn(14)])
	case x < 40:
		return jstr(g.label())
	case x < 45:
		return jstr(randCase(g.r, "CONDITION"))
	case x < 60:
		return &JNode{T: "int", Ty: []int{0, 4, 11}[g.r.Intn(3)], I: int64(g.r.Intn(50))}
	case x < 65:
		return &JNode{T: "bool", Bv: g.r.Bool()}
	case x < 70:
		return &JNode{T: "float", Ty: 21, F: 1.5}
	case x < 80:
		return &JNode{T: "nil"}
	case x < 86:
		return &JNode{T: "tnil", P: []string{"int", "str", "stack", "cond", "int2", "stack2", "str3"}[g.r.Intn(7)]}
	case x < 89:
		return &JNode{T: "other", I: int64(g.r.Intn(6))}
	}
	return g.operator()
}

// any malformed-or-not entry
func (g *jkGen) any(depth, maxDepth int) *JNode {
	x := g.r.Intn(100)
	switch {
	case x < 38 && depth < maxDepth:
		if g.r.Pct(40) {
			return g.wellFormed(depth+1, maxDepth)
		}
		return g.junkList(depth+1, maxDepth)
	case x < 42:
		return jlist()
	case x < 49:
		return g.readyStack(depth)
	case x < 54:
		return g.readyCond()
	case x < 56:
		return &JNode{T: "zstack"}
	case x < 58:
		return &JNode{T: "zcond"}
	}
	return g.scalar()
}

func (g *jkGen) junkList(depth, maxDepth int) *JNode {
	n := jlist()
	switch x := g.r.Intn(100); {
	case x < 10: // envelope
		n.Els = append(n.Els, g.any(depth, maxDepth))
		return n
	case x < 35: // damaged CONDITION row
		row := []*JNode{jstr(randCase(g.r, "CONDITION")), jstr("k"), g.operator(), g.any(depth, maxDepth)}
		switch g.r.Intn(6) {
		case 0:
			row = row[:g.r.Intn(4)+0]
			if len(row) == 0 {
				row = []*JNode{jstr("CONDITION")}
			}
		case 1:
			row = append(row, g.scalar())
		case 2:
			row[2] = g.scalar()
		case 3:
			row[1] = g.scalar()
		case 4:
			row[3] = jlist()
		}
		n.Els = row
		return n
	}
	w := g.r.Intn(5)
	if g.r.Pct(50) {
		n.Els = append(n.Els, jstr(g.label()))
	}
	for i := 0; i < w; i++ {
		n.Els = append(n.Els, g.any(depth, maxDepth))
	}
	return n
}

// the kind of list Unmarshal produces
func (g *jkGen) wellFormed(depth, maxDepth int) *JNode {
	if g.r.Pct(25) {
		var ex *JNode
		switch {
		case depth < maxDepth && g.r.Pct(30):
			ex = g.wellFormed(depth+1, maxDepth)
		default:
			ex = []*JNode{jstr("v"), jint(3), {T: "nil"}}[g.r.Intn(3)]
		}
		op := jop(1 + g.r.Intn(6))
		if g.r.Pct(10) {
			op = &JNode{T: "nil"}
		}
		return jlist(jstr("CONDITION"), jstr("k"), op, ex)
	}
	n := jlist(jstr(g.label()))
	for i, w := 0, g.r.Intn(4); i < w; i++ {
		if depth < maxDepth && g.r.Pct(45) {
			n.Els = append(n.Els, g.wellFormed(depth+1, maxDepth))
		} else {
			n.Els = append(n.Els, []*JNode{jstr("a"), jint(int64(g.r.Intn(9))), {T: "nil"}, {T: "bool", Bv: true}}[g.r.Intn(4)])
		}
	}
	return n
}

func (g *jkGen) receiver() *JNode {
	if !g.r.Pct(20) {
		return nil
	}
	n := &JNode{T: "stack", Kind: kinds[g.r.Intn(len(kinds))]}
	if g.r.Pct(25) {
		n.Opt |= 2
	}
	w := g.r.Intn(3)
	for i := 0; i < w; i++ {
		n.Els = append(n.Els, []*JNode{jstr("old"), jint(1), {T: "nil"}}[g.r.Intn(3)])
	}
	if g.r.Pct(25) {
		n.Cap = w + 1 + g.r.Intn(2)
	}
	return n
}

func genMarshalJunk(ctx *Ctx, emit func(any, string)) {
	eq := jop(1)
	alphabet := func() []*JNode {
		return []*JNode{jstr("AND"), jstr("or"), jstr("CONDITION"), jstr("junk"), jint(5), {T: "nil"}, eq,
			jlist(), jlist(jstr("OR"), jint(1)), jlist(jstr("condition"), jstr("k"), eq, jstr("v"))}
	}
	// catalogue: the inputs named in the property and its anchors
	cat := [][]*JNode{
		{},
		{jlist()},
		{jlist(jlist())},
		{jlist(jlist(jlist(jstr("OR"), jint(1))))},
		{jstr("CONDITION"), jstr("k"), eq, jstr("v")},
		{jstr(" and "), jstr("a"), jstr("b")},
		{jstr("and"), {T: "other", I: 0}, jstr("b")},
		{jstr("and"), {T: "other", I: 4}, jstr("b"), jlist(jstr("CONDITION"), jstr("k"), eq, &JNode{T: "other", I: 4}), {T: "other", I: 5}},
		{jstr("or"), jlist(jstr("CONDITION"), jstr("k"), eq, &JNode{T: "other", I: 0}), {T: "other", I: 1}, {T: "other", I: 2}, {T: "other", I: 3}},
		{jstr("and"), jstr("cn=Jesse"), jstr("ou=People\\")},
		{jstr("or"), jstr("\\"), jlist(jstr("list"), jstr("a\\ "), jstr("b\\"))},
		{jstr("list\t"), jstr("a"), jstr("b")},
		{jstr("Not "), jstr("a")},
		{jstr(" CONDITION"), jstr("k"), eq, jstr("v")},
		{jstr("AND"), jlist(jstr("or "), jstr("a"), jstr("b")), jlist(jstr(" basic"), jint(1))},
		{jstr("condition"), jstr("k"), jint(5), jstr("v")},
		{jstr("CONDITION"), jstr("k"), eq},
		{jstr("CONDITION"), jstr("k"), eq, jstr("v"), jstr("surplus")},
		{jstr("CONDITION"), jint(5), eq, jstr("v")},
		{jstr("CONDITION"), jstr("k"), eq, jlist()},
		{jstr("CONDITION"), jstr("k"), eq, jlist(jstr("AND"), jint(1))},
		{jstr("CONDITION"), jstr("k"), eq, jlist(jint(1))},
		{jstr("AND"), jlist(jstr("CONDITION"), jstr("k"), jint(5), jstr("v"))},
		{jstr("AND"), jlist(jstr("CONDITION"), jstr("k"), jop(0), jstr("v"))},
		{jstr("AND"), jlist(jstr("CONDITION"), jstr("k"), juop("", "custom"), jstr("v"))},
		{jstr("AND"), jlist(jstr("CONDITION"), jstr("k"), juop("~=", "custom"), jstr(""))},
		{jstr("AND"), jlist(jstr("CONDITION"), jstr("k"), jsop("~=", "custom"), jstr("v"))},
		{jstr("CONDITION"), jstr("k"), jsop("in", "custom"), jlist(jstr("LIST"), jint(1))},
		{jstr("AND"), jlist(jstr("CONDITION"), jstr("k"), jnil(), jnil())},
		{jstr("AND"), jlist(jstr("CONDITION"), jstr("k"), jtnil("int"), jtnil("stack"))},
		// typed nils of pointer-to-pointer types, as elements and as a Condition's expression
		{jstr("AND"), jtnil("int2"), jtnil("stack2"), jtnil("str3")},
		{jstr("LIST"), jlist(jstr("CONDITION"), jstr("k"), eq, jtnil("stack2"))},
		{jstr("CONDITION"), jstr("k"), eq, jtnil("str3")},
		{jstr("AND"), jlist(jstr("CONDITION"), jstr("k"), eq, jlist(jstr("CONDITION"), jstr("j"), jop(2), jint(3)))},
		{jstr("AND"), jlist(jstr("CONDITION"), jstr("k"), eq, jlist(jstr("CONDITION"), jstr("j")))},
		// a well-formed outer row whose expression is a full-length row with a non-operator in the operator position
		{jstr("AND"), jlist(jstr("CONDITION"), jstr("k"), eq, jlist(jstr("CONDITION"), jstr("j"), jint(5), jstr("v")))},
		{jstr("OR"), jlist(jstr("CONDITION"), jstr("k"), eq, jlist(jstr("CONDITION"), jstr("j"), jnil(), jstr("v")))},
		{jstr("LIST"), jlist(jstr("CONDITION"), jstr("k"), eq, jlist(jstr("CONDITION"), jstr("j"), jstr("="), jint(1)))},
		{jstr("CONDITION"), jstr("k"), eq, jlist(jstr("CONDITION"), jstr("j"), jint(5), jstr("v"))},
		{jstr("NOT"), jlist(jstr("CONDITION"), jstr("k"), eq, jlist(jstr("CONDITION"), jstr("j"), jop(0), jstr("v")))},
		{jstr("and"), jlist(jint(5)), jlist(jstr("OR"), jint(1))},
		{jstr("and"), jlist(jstr("OR"), jint(1)), jlist(jint(5))},
		{jstr("AND"), jlist(jlist())},
		{jstr("lıst"), jint(1)},
		{jstr("liſt"), jint(1)},
		{jstr("LİST"), jint(1)},
		{jstr("BaSiC"), {T: "zstack"}, {T: "zcond"}, {T: "tnil", P: "stack"}, {T: "tnil", P: "cond"}},
		{{T: "stack", Kind: "AND", Els: []*JNode{jint(1)}}, jint(2)},
		{jstr("NOT"), {T: "stack", Kind: "AND", Els: []*JNode{jlist(jstr("OR"))}}, {T: "cond", Kw: "k", Op: &OpDesc{Builtin: 1}, Ex: jstr("v")}},
		{jstr("NOT"), {T: "cond", Kw: "k"}, {T: "cond", Kw: "k", Op: &OpDesc{Builtin: 1}, Ex: jlist(jstr("AND"))}},
	}
	// size is no limit: a row of 1500 scalars, 1100 nested rows, rows nested 150 deep,
	// an envelope 40 levels deep
	{
		wide := []*JNode{jstr("or")}
		rows := []*JNode{jstr("and")}
		for i := 0; i < 1500; i++ {
			wide = append(wide, jint(int64(i%50)))
		}
		for i := 0; i < 1100; i++ {
			if i%2 == 0 {
				rows = append(rows, jlist(jstr("CONDITION"), jstr("k"), eq, jint(int64(i%9))))
			} else {
				rows = append(rows, jlist(jstr("not"), jstr("x")))
			}
		}
		deep := jlist(jstr("list"), jstr("bottom"))
		for d := 0; d < 150; d++ {
			deep = jlist(jstr([]string{"and", "or", "NOT"}[d%3]), jint(int64(d)), deep)
		}
		env := jlist(jstr("AND"), jstr("a"))
		for d := 0; d < 40; d++ {
			env = jlist(env)
		}
		env2 := jlist(jstr("or"), jstr("b"), jlist(jstr("CONDITION"), jstr("k"), eq, jint(1)))
		for d := 0; d < 1100; d++ {
			env2 = jlist(env2)
		}
		inner := jlist(jstr("not"), jstr("c"))
		for d := 0; d < 1050; d++ {
			inner = jlist(inner)
		}
		cat = append(cat, wide, rows, []*JNode{jstr("and"), deep}, []*JNode{env}, []*JNode{env2}, []*JNode{jstr("and"), jstr("x"), inner})
	}
	for _, in := range cat {
		emit(&JKInput{In: in}, "exhaustive")
		emit(&JKInput{Recv: &JNode{T: "stack", Kind: "AND", Els: []*JNode{jstr("old")}}, In: in}, "exhaustive")
		emit(&JKInput{Recv: &JNode{T: "stack", Kind: "AND", Els: []*JNode{jstr("old")}}, Mutex: true, In: in}, "exhaustive")
		emit(&JKInput{Recv: &JNode{T: "stack", Kind: "OR", Cap: 2, Els: []*JNode{jstr("old")}}, VPol: true, In: in}, "exhaustive")
		emit(&JKInput{Recv: &JNode{T: "stack", Kind: "LIST", Cap: 4, Els: []*JNode{jstr("old"), jint(2)}}, Rebuilt: true, In: in}, "exhaustive")
	}
	// exhaustive: every list of length 1..3 over the 10-symbol alphabet
	// (three symbols are lists, so nesting depth 2), bare and for length <= 2
	// also in an envelope
	n := len(alphabet())
	for a := 0; a < n; a++ {
		emit(&JKInput{In: []*JNode{alphabet()[a]}}, "exhaustive")
		emit(&JKInput{In: []*JNode{jlist(alphabet()[a])}}, "exhaustive")
		for b := 0; b < n; b++ {
			emit(&JKInput{In: []*JNode{alphabet()[a], alphabet()[b]}}, "exhaustive")
			emit(&JKInput{In: []*JNode{jlist(alphabet()[a], alphabet()[b])}}, "exhaustive")
			for c := 0; c < n; c++ {
				emit(&JKInput{In: []*JNode{alphabet()[a], alphabet()[b], alphabet()[c]}}, "exhaustive")
			}
		}
	}
	g := &jkGen{r: ctx.Rng.Fork()}
	for i, cnt := 0, ctx.N(700, 40000); i < cnt; i++ {
		var top *JNode
		if g.r.Pct(30) {
			top = g.wellFormed(1, 5)
		} else {
			top = g.junkList(1, 5)
		}
		in := top.Els
		if g.r.Pct(15) {
			in = []*JNode{top} // Marshal(u) form
		}
		rc := g.receiver()
		emit(&JKInput{Recv: rc, Mutex: rc != nil && g.r.Pct(35), VPol: rc != nil && g.r.Pct(30), Rebuilt: rc != nil && g.r.Pct(40), In: in}, "random")
	}
}

func init() {
	register(&Family{Name: "marshalrt", Gen: genMarshalRT, Run: runMarshalRT,
		Rule: "exhaustive: 5 kinds x fold on/off x 13 one-level shapes (empty, leaves, nil, nested/empty stacks, Conditions with primitive/nil/Stack/Condition expressions, missing/invalid/user operators, aliases) x both call forms; random: trees of Stack nesting depth <= 4 (Conditions add levels), width <= 4 (15% empty stacks, nil leaves, 24% Conditions, aliases, option bits, symbols, capacities), 40% Marshal(u) / 60% Marshal(u...); non-trivial = at least 4 nodes and (depth >= 2 or a Condition)"})
	register(&Family{Name: "marshaljunk", Gen: genMarshalJunk, Run: runMarshalJunk,
		Rule: "catalogue of 30 named malformed inputs (empty/nested envelopes, CONDITION rows with missing/surplus/wrongly typed fields, non-operators and invalid/empty operators in the operator position, typed nils, zero Stack/Condition, non-ASCII label look-alikes) on an uninitialised and on an initialised receiver; exhaustive: all lists of length 1..3 over a 10-symbol alphabet (labels, CONDITION, junk, number, nil, operator, [], [OR 1], a CONDITION row), lists of length <= 2 also enveloped; random: []any trees of depth <= 5, 30% well-formed / 70% malformed, 20% initialised receivers (some with capacity, folding); non-trivial = at least 2 entries or a nested list"})
}
