package main

// Family alias (property C12): user-declared types derived from Stack and
// Condition behave as the native types.
//
// An input is one tree in 2..n instantiations that differ only in how each
// nested Stack / Condition is typed in Go (native, alias value, pointer to
// alias, with or without the alias declaring its own String method); the
// first instantiation is the all-native one.  For every instantiation Run
// records, inside recover(), exactly the observables the property names:
//
//	String / IsNesting / Len of every Stack and Condition node (pre-order)
//	root.IsEqual against a separately built native copy and against a
//	   native mutant, in both directions; against the copy handed over
//	   typed as an alias; every native Stack / Condition element against
//	   its counterpart of the instantiation
//	root.Unmarshal()
//	root.Traverse(path...) for the paths of the input (value read back, ok)
//	the no-nesting refusal: Basic().SetNoNesting(true).Push(elements...)
//	   read back, and per element Init()+SetNoNesting(b)+SetExpression(x)
//	a fresh copy after Defrag(args...), read back
//	root.Transfer(d) for the destinations of the instantiation (result and
//	   destination read back)
//	ConvertStack / ConvertCondition of every root element
//
// Values are read back with Go type switches and the public accessors only
// (Kind / Len / Index / Keyword / Operator / Expression), never with the
// converters under test.  The Coq case is
// (MkA paths dargs mutant [MkI tree dests argkind obs; ...]).

import (
	"encoding/json"
	"fmt"
	"reflect"
	"strconv"

	stk "github.com/JesseCoretta/go-stackage"
)

type AliasInst struct {
	Tree  *Node   `json:"tree"`
	Dests []*Node `json:"dests,omitempty"`
	Arg   string  `json:"arg,omitempty"` // how the argument of root.IsEqual(copy) is typed
}

type AliasInput struct {
	Paths [][]int `json:"paths,omitempty"`
	DArgs []int   `json:"dargs,omitempty"`
	Mut   *Node   `json:"mut,omitempty"`
	// the instantiations; named "ops" so that check.py's generic shrinker
	// (which drops elements of input["ops"]) reduces a failing case to one
	// instantiation.  If the first one is not all-native, Run derives the
	// native instantiation from it and puts it in front.
	Insts []AliasInst `json:"ops"`
}

// typed nil pointers of the stackage family: Ty = type tag of coq/Alias.v
// (100 Stack, 101 Condition, 110 aStack, 111 sStack, 112 aCond, 113 sCond,
// 0 int), S = form: nil1 (*T)(nil), nil2 (**T)(nil), ptrnil &(*T)(nil)
var aliasTagType = map[int]reflect.Type{
	0:   reflect.TypeOf(int(0)),
	100: reflect.TypeOf(stk.Stack{}),
	101: reflect.TypeOf(stk.Condition{}),
	110: reflect.TypeOf(aStack{}),
	111: reflect.TypeOf(sStack{}),
	112: reflect.TypeOf(aCond{}),
	113: reflect.TypeOf(sCond{}),
}

func aliasTypeTag(t reflect.Type) int {
	for k, v := range aliasTagType {
		if v == t {
			return k
		}
	}
	return 999
}

func init() {
	extraBuild["anil"] = func(n *Node) any {
		t := aliasTagType[n.Ty]
		switch n.S {
		case "nil2":
			return reflect.Zero(reflect.PointerTo(reflect.PointerTo(t))).Interface()
		case "ptrnil":
			return reflect.New(reflect.PointerTo(t)).Interface()
		}
		return reflect.Zero(reflect.PointerTo(t)).Interface()
	}
	extraCoq["anil"] = func(n *Node) string {
		switch n.S {
		case "nil2":
			return fmt.Sprintf("(VLeaf (GNilPtr 2 %d%%N))", n.Ty)
		case "ptrnil":
			return fmt.Sprintf("(VLeaf (GPtr (GNilPtr 1 %d%%N)))", n.Ty)
		}
		return fmt.Sprintf("(VLeaf (GNilPtr 1 %d%%N))", n.Ty)
	}
}

// ---------------------------------------------------------------------------
// reading values back

// aNative converts a value of one of the ten stackage-family Go types of the
// harness with plain Go conversions: kind 1 = Stack, 2 = Condition, 0 = other.
func aNative(v any) (s stk.Stack, c stk.Condition, a string, kind int) {
	if ls, lc, k := unlocal(v); k != 0 {
		return ls, lc, "alocal", k
	}
	if b, d := unchain(v); d >= 2 {
		form := "pp"
		if d >= 3 {
			form = fmt.Sprintf("p%d", d)
		}
		switch x := b.(type) {
		case stk.Stack:
			return x, c, form, 1
		case aStack:
			return stk.Stack(x), c, form + "a", 1
		case stk.Condition:
			return s, x, form, 2
		case aCond:
			return s, stk.Condition(x), form + "a", 2
		}
		return s, c, "", 0
	}
	switch x := v.(type) {
	case stk.Stack:
		return x, c, "", 1
	case aStack:
		return stk.Stack(x), c, "aval", 1
	case *aStack:
		if x != nil {
			return stk.Stack(*x), c, "aptr", 1
		}
	case sStack:
		return stk.Stack(x), c, "avalstr", 1
	case *sStack:
		if x != nil {
			return stk.Stack(*x), c, "aptrstr", 1
		}
	case stk.Condition:
		return s, x, "", 2
	case aCond:
		return s, stk.Condition(x), "aval", 2
	case *aCond:
		if x != nil {
			return s, stk.Condition(*x), "aptr", 2
		}
	case sCond:
		return s, stk.Condition(x), "avalstr", 2
	case *sCond:
		if x != nil {
			return s, stk.Condition(*x), "aptrstr", 2
		}
	}
	return s, c, "", 0
}

const aReadCfg = "(cfgS %d%%N 0%%N (B \"\") (B \"\") [] false 0)"

// aRead prints a Go value as a term of type jval.
func aRead(v any) string {
	if v == nil {
		return "JNil"
	}
	s, c, a, kind := aNative(v)
	switch kind {
	case 1:
		if !s.IsInit() {
			return "(JZeroStack " + coqAkind(a) + ")"
		}
		var es []string
		for i, l := 0, s.Len(); i < l; i++ {
			e, _ := s.Index(i)
			es = append(es, aRead(e))
		}
		// the kind constant comes from the hidden configuration (Kind()
		// answers with the symbol when one is set)
		typ := 0
		if cfg, ok := stk.VerifDump(s)["cfg"].(map[string]any); ok {
			typ, _ = cfg["typ"].(int)
		}
		return fmt.Sprintf("(JStack %s "+aReadCfg+" %s)", coqAkind(a), typ, coqList(es))
	case 2:
		if !c.IsInit() {
			return "(JZeroCond " + coqAkind(a) + ")"
		}
		return fmt.Sprintf("(JCond %s "+aReadCfg+" %s %s %s)", coqAkind(a), 5, coqBytes(c.Keyword()), renderOp(c.Operator()).Coq(), aRead(c.Expression()))
	}
	switch x := v.(type) {
	case []any:
		var es []string
		for _, e := range x {
			es = append(es, aRead(e))
		}
		return "(JList " + coqList(es) + ")"
	case strer:
		return "(JLeaf (GStringer 1%N " + coqBytes(x.s) + "))"
	case plainStruct:
		return "(JLeaf (GOther 1%N))"
	}
	rv := reflect.ValueOf(v)
	if rv.Kind() == reflect.Ptr {
		wraps := 0
		for rv.Kind() == reflect.Ptr && !rv.IsNil() {
			rv = rv.Elem()
			wraps++
		}
		if rv.Kind() == reflect.Ptr {
			d, t := 0, rv.Type()
			for t.Kind() == reflect.Ptr {
				t = t.Elem()
				d++
			}
			term := fmt.Sprintf("(GNilPtr %d %d%%N)", d, aliasTypeTag(t))
			for ; wraps > 0; wraps-- {
				term = "(GPtr " + term + ")"
			}
			return "(JLeaf " + term + ")"
		}
		return "(JLeaf (GOther 997%N))"
	}
	return renderAny(v).Coq()
}

// ---------------------------------------------------------------------------
// observation of one instantiation

type aliasObs struct {
	Panic  bool     `json:"panic"`
	Strs   []string `json:"strs"`
	Nest   []bool   `json:"nest"`
	Lens   []int    `json:"lens"`
	Eq     []bool   `json:"eq"`
	Unm    string   `json:"unm"`
	Trav   []string `json:"trav"`
	Push   string   `json:"push"`
	SetEx  []string `json:"setex"`
	Defrag string   `json:"defrag"`
	Xfer   []string `json:"xfer"`
	Conv   []string `json:"conv"`
}

// aWalk records String / IsNesting / Len of every Stack and Condition node,
// following the description (which also says how each node is typed).
func aWalk(n *Node, v any, o *aliasObs) error {
	s, c, a, kind := aNative(v)
	switch n.T {
	case "stack":
		if kind != 1 || a != n.A {
			return fmt.Errorf("stack node (%q) built as %T", n.A, v)
		}
		if s.Len() != len(n.Els) {
			return fmt.Errorf("stack holds %d elements, description has %d", s.Len(), len(n.Els))
		}
		o.Strs = append(o.Strs, s.String())
		o.Nest = append(o.Nest, s.IsNesting())
		o.Lens = append(o.Lens, s.Len())
		for i, e := range n.Els {
			if e.T == "stack" || e.T == "cond" {
				x, _ := s.Index(i)
				if err := aWalk(e, x, o); err != nil {
					return err
				}
			}
		}
	case "cond":
		if kind != 2 || a != n.A {
			return fmt.Errorf("cond node (%q) built as %T", n.A, v)
		}
		o.Strs = append(o.Strs, c.String())
		o.Nest = append(o.Nest, c.IsNesting())
		o.Lens = append(o.Lens, c.Len())
		if n.Ex != nil && (n.Ex.T == "stack" || n.Ex.T == "cond") {
			return aWalk(n.Ex, c.Expression(), o)
		}
	}
	return nil
}

// retype hands a native Stack over typed as n.A
func (n *Node) retype(s stk.Stack) any {
	switch n.A {
	case "aval":
		return aStack(s)
	case "aptr":
		a := aStack(s)
		return &a
	case "avalstr":
		return sStack(s)
	case "aptrstr":
		a := sStack(s)
		return &a
	}
	if d, al, ok := ptrKind(n.A); ok {
		if al {
			return ptrChain(aStack(s), d)
		}
		return ptrChain(s, d)
	}
	if n.A == "alocal" {
		return localStackAliasA(s)
	}
	return s
}

func aConvTerm(ok bool, zero bool, read func() string) string {
	switch {
	case ok:
		return "(Some " + read() + ")"
	case zero:
		return "None"
	}
	return "(Some (JLeaf (GOther 998%N)))" // (non-zero, false): never expected
}

func observeAlias(in *AliasInput, inst *AliasInst) (o aliasObs, err error) {
	defer func() {
		if r := recover(); r != nil {
			o.Panic = true
		}
	}()
	o.Unm, o.Push, o.Defrag = "[]", "JNil", "JNil"
	root := inst.Tree.BuildStack()
	if err = aWalk(inst.Tree, root, &o); err != nil {
		return
	}
	// separately built element values (typed as this instantiation says)
	var vals []any
	for _, e := range inst.Tree.Els {
		vals = append(vals, e.Build())
	}
	// IsEqual, both directions, against a native copy and a native mutant;
	// then with the copy handed over typed as inst.Arg; then every native
	// Stack / Condition element against its counterpart of this instantiation
	nat := in.Insts[0].Tree.BuildStack()
	o.Eq = append(o.Eq, root.IsEqual(nat) == nil, nat.IsEqual(root) == nil)
	if in.Mut != nil {
		m := in.Mut.BuildStack()
		o.Eq = append(o.Eq, root.IsEqual(m) == nil, m.IsEqual(root) == nil)
	}
	o.Eq = append(o.Eq, root.IsEqual((&Node{T: "stack", A: inst.Arg}).retype(nat)) == nil)
	for i, e := range in.Insts[0].Tree.Els {
		if (e.T == "stack" || e.T == "cond") && i < len(vals) {
			ns, nc, _, kind := aNative(e.Build())
			if kind == 1 {
				o.Eq = append(o.Eq, ns.IsEqual(vals[i]) == nil)
			} else {
				o.Eq = append(o.Eq, nc.IsEqual(vals[i]) == nil)
			}
		}
	}
	// Unmarshal
	u, _ := root.Unmarshal()
	var us []string
	for _, e := range u {
		us = append(us, aRead(e))
	}
	o.Unm = coqList(us)
	// Traverse
	for _, p := range in.Paths {
		v, ok := root.Traverse(p...)
		o.Trav = append(o.Trav, "("+aRead(v)+", "+coqBool(ok)+")")
	}
	// the no-nesting refusal, on the separately built element values
	p := stk.Basic().SetNoNesting(true)
	p.Push(vals...)
	o.Push = aRead(p)
	for _, x := range vals {
		var pair []string
		for _, nn := range []bool{true, false} {
			var c stk.Condition
			c.Init()
			c.SetNoNesting(nn)
			c.SetExpression(x)
			pair = append(pair, coqBool(c.Expression() != nil))
		}
		o.SetEx = append(o.SetEx, "("+pair[0]+", "+pair[1]+")")
	}
	// ConvertStack / ConvertCondition
	for _, x := range vals {
		s, ok := stk.ConvertStack(x)
		c, okc := stk.ConvertCondition(x)
		// "the underlying native instance": the same *stack / *condition
		xs, xc, _, kind := aNative(x)
		if ok && (kind != 1 || xs.Addr() != s.Addr()) {
			ok = false // printed as the never-expected (non-zero, false)
		}
		if okc && (kind != 2 || xc.Addr() != c.Addr()) {
			okc = false
		}
		o.Conv = append(o.Conv, "("+aConvTerm(ok, s.IsZero(), func() string { return aRead(s) })+", "+
			aConvTerm(okc, c.IsZero(), func() string { return aRead(c) })+")")
	}
	// Transfer
	for _, d := range inst.Dests {
		dv := d.Build()
		ok := root.Transfer(dv)
		o.Xfer = append(o.Xfer, "("+coqBool(ok)+", "+aRead(dv)+")")
	}
	// Defrag on a fresh copy (it works in place)
	fresh := inst.Tree.BuildStack()
	fresh.Defrag(in.DArgs...)
	o.Defrag = aRead(fresh)
	return
}

func (o *aliasObs) Coq() string {
	var strs, nest, lens, eq []string
	for _, s := range o.Strs {
		strs = append(strs, coqBytes(s))
	}
	for _, b := range o.Nest {
		nest = append(nest, coqBool(b))
	}
	for _, l := range o.Lens {
		lens = append(lens, coqZ(l))
	}
	for _, b := range o.Eq {
		eq = append(eq, coqBool(b))
	}
	return fmt.Sprintf("(MkO %s %s %s %s %s %s %s %s %s %s %s %s)", coqBool(o.Panic), coqList(strs), coqList(nest), coqList(lens),
		coqList(eq), o.Unm, coqList(o.Trav), o.Push, coqList(o.SetEx), o.Defrag, coqList(o.Xfer), coqList(o.Conv))
}

// ---------------------------------------------------------------------------

type aliasStats struct {
	nodes, nested, aliased, depth int
	tags                          map[string]bool
}

func (st *aliasStats) walk(n *Node, d int, root bool) {
	if n == nil {
		return
	}
	st.nodes++
	if d > st.depth {
		st.depth = d
	}
	switch n.T {
	case "stack", "cond":
		if !root {
			st.nested++
			if n.A != "" {
				st.aliased++
				st.tags["akind:"+n.A] = true
				st.tags[n.T+"-alias"] = true
			}
		}
		if n.T == "cond" && n.Ex != nil {
			switch n.Ex.T {
			case "stack":
				st.tags["cond-holds-stack"] = true
				if n.Ex.A != "" {
					st.tags["cond-holds-alias-stack"] = true
				}
			case "cond":
				st.tags["cond-holds-cond"] = true
				if n.Ex.A == "aval" || n.Ex.A == "aptr" {
					st.tags["cond-holds-plain-alias-cond"] = true
				}
			}
		}
		if n.Opt&256 != 0 {
			st.tags["nonest-node"] = true
		}
		if n.Opt&128 != 0 {
			st.tags["readonly-node"] = true
		}
		for _, e := range n.Els {
			st.walk(e, d+1, false)
		}
		if n.Ex != nil {
			st.walk(n.Ex, d+1, false)
		}
	case "nil":
		st.tags["nil-element"] = true
	case "zstack", "zcond", "zstackS", "zcondS":
		st.tags["zero:"+n.T+":"+n.A] = true
	case "anil":
		st.tags["nil-pointer:"+n.S] = true
	case "stringer", "other":
		st.tags["foreign:"+n.T] = true
	}
}

func runAlias(raw json.RawMessage) (*Result, error) {
	var in AliasInput
	if err := json.Unmarshal(raw, &in); err != nil {
		return nil, err
	}
	if len(in.Insts) == 0 || in.Insts[0].Tree == nil || in.Insts[0].Tree.T != "stack" {
		return nil, fmt.Errorf("alias: at least one instantiation with a stack root is needed")
	}
	if nat, changed := aEraseInst(in.Insts[0]); changed {
		in.Insts = append([]AliasInst{nat}, in.Insts...)
	}
	var pathTs []string
	for _, p := range in.Paths {
		pathTs = append(pathTs, coqZList(p))
	}
	var dargs []string
	for _, a := range in.DArgs {
		dargs = append(dargs, coqZ(a))
	}
	mut := "VNil"
	if in.Mut != nil {
		mut = in.Mut.Coq()
	}
	st := &aliasStats{tags: map[string]bool{}}
	var instTs []string
	var obsJ []any
	anyDiff := false
	for k := range in.Insts {
		inst := &in.Insts[k]
		if inst.Tree == nil || inst.Tree.T != "stack" || inst.Tree.A != "" {
			return nil, fmt.Errorf("alias: the root of every instantiation must be a native stack")
		}
		o, err := observeAlias(&in, inst)
		if err != nil {
			return nil, err
		}
		if o.Panic {
			st.tags["panic"] = true
		}
		var ds []string
		for _, d := range inst.Dests {
			ds = append(ds, d.Coq())
			if (d.T == "stack" || d.T == "cond") && d.A != "" {
				st.tags["dest-alias"] = true
			}
		}
		if inst.Arg != "" {
			st.tags["isequal-arg-alias"] = true
		}
		instTs = append(instTs, fmt.Sprintf("(MkI %s %s %s %s)", inst.Tree.Coq(), coqList(ds), coqAkind(inst.Arg), o.Coq()))
		obsJ = append(obsJ, o)
		before := st.aliased
		st.walk(inst.Tree, 0, true)
		if st.aliased > before {
			anyDiff = true
		}
	}
	st.tags[fmt.Sprintf("insts:%d", minInt(len(in.Insts), 5))] = true
	st.tags[fmt.Sprintf("depth:%d", minInt(st.depth, 6))] = true
	if len(in.Paths) > 0 {
		st.tags["paths"] = true
	}
	if len(in.DArgs) > 0 {
		st.tags["defrag-args"] = true
	}
	coq := fmt.Sprintf("(MkA %s %s %s %s)", coqList(pathTs), coqList(dargs), mut, coqList(instTs))
	nt := len(in.Insts) >= 2 && anyDiff && in.Insts[0].Tree.Count() >= 3
	inv := aliasPolicyProbe(&in)
	if inv == "" {
		inv = aliasRepointProbe()
	}
	if inv == "" {
		inv = aliasTransferProbe()
	}
	return &Result{Coq: coq, Observed: obsJ, Tags: joinTags(st.tags), Nontrivial: nt, Invariant: inv}, nil
}

// aliasTransferProbe: Transfer of a source holding a nested Stack into
// destinations with every small capacity, with and without the no-nesting
// option: the verdict and the destination afterwards are the same whether the
// nested Stack is native, an alias value or a pointer to an alias.
func aliasTransferProbe() (problem string) {
	defer func() {
		if r := recover(); r != nil {
			problem = fmt.Sprintf("transfer probe panicked: %v", r)
		}
	}()
	forms := []func(stk.Stack) any{
		func(s stk.Stack) any { return s },
		func(s stk.Stack) any { return aStack(s) },
		func(s stk.Stack) any { a := aStack(s); return &a },
		func(s stk.Stack) any { a := sStack(s); return &a },
	}
	for _, nn := range []bool{false, true} {
		for cp := 0; cp <= 6; cp++ {
			var first string
			for fi, form := range forms {
				src := stk.And().Push("a", form(stk.Or().Push("n1", "n2")), "b", form(stk.Or().Push("m")))
				var dst stk.Stack
				if cp > 0 {
					dst = stk.And(cp)
				} else {
					dst = stk.And()
				}
				dst.Push("x")
				if nn {
					dst.SetNoNesting(true)
				}
				ok := src.Transfer(dst)
				got := fmt.Sprintf("%v len=%d %q", ok, dst.Len(), dst.String())
				if fi == 0 {
					first = got
				} else if got != first {
					return fmt.Sprintf("Transfer into capacity %d (no-nesting %v): native nested stacks give %s, form %d gives %s", cp, nn, first, fi, got)
				}
			}
		}
	}
	return ""
}

// aliasRepointProbe: a Condition whose expression is a POINTER to a Stack (or
// alias) shows whatever the pointer leads to NOW: after the owner re-points,
// refills or frees the pointee, Traverse through the Condition must agree with
// the stepwise descent Index -> Expression -> ConvertStack -> Index, and so
// must Len and IsNesting.
func aliasRepointProbe() (problem string) {
	defer func() {
		if r := recover(); r != nil {
			problem = fmt.Sprintf("re-point probe panicked: %v", r)
		}
	}()
	check := func(what string, parent stk.Stack, c stk.Condition, idx int) string {
		var want any
		wantOK := false
		if s, ok := stk.ConvertStack(c.Expression()); ok {
			want, wantOK = s.Index(idx)
		}
		got, gotOK := parent.Traverse(0, idx)
		if gotOK != wantOK || fmt.Sprint(got) != fmt.Sprint(want) {
			return fmt.Sprintf("%s: Traverse(0,%d) = (%v,%v), stepwise descent = (%v,%v)", what, idx, got, gotOK, want, wantOK)
		}
		wantLen := 1
		if s, ok := stk.ConvertStack(c.Expression()); ok {
			wantLen = s.Len()
		}
		if c.Len() != wantLen {
			return fmt.Sprintf("%s: Condition.Len() = %d, the stack it leads to holds %d", what, c.Len(), wantLen)
		}
		return ""
	}
	// pointer to alias, re-pointed
	held := aStack(stk.And().Push("x", "y"))
	c := stk.Cond("k", stk.Eq, &held)
	parent := stk.And().Push(c, "z")
	if p := check("before", parent, c, 1); p != "" {
		return p
	}
	held = aStack(stk.Or().Push("p", "q", "r"))
	if p := check("pointee replaced", parent, c, 2); p != "" {
		return p
	}
	// pointer to native Stack, filled late
	var late stk.Stack
	c2 := stk.Cond("k2", stk.Ne, &late)
	parent2 := stk.And().Push(c2)
	late = stk.And().Push("only")
	if p := check("pointee filled in later", parent2, c2, 0); p != "" {
		return p
	}
	return ""
}

// nativeOf: the native Stack handle behind a nested Stack however it is typed
// (type switches over the harness' own alias types: not the converters under test)
func nativeOf(v any) (stk.Stack, bool) {
	if ls, _, k := unlocal(v); k == 1 {
		return ls, ls.IsInit()
	}
	if b, d := unchain(v); d >= 2 {
		v = b
	}
	switch x := v.(type) {
	case stk.Stack:
		return x, x.IsInit()
	case aStack:
		return stk.Stack(x), stk.Stack(x).IsInit()
	case sStack:
		return stk.Stack(x), stk.Stack(x).IsInit()
	case *aStack:
		if x != nil {
			return stk.Stack(*x), stk.Stack(*x).IsInit()
		}
	case *sStack:
		if x != nil {
			return stk.Stack(*x), stk.Stack(*x).IsInit()
		}
	}
	return stk.Stack{}, false
}

// aliasPolicyProbe: a nested Stack child that carries a policy of its OWN - an
// equality policy that always objects, a validity policy that always fails -
// must make the parent answer the same whether that child is held natively or
// through an alias.
func aliasPolicyProbe(in *AliasInput) (problem string) {
	defer func() {
		if r := recover(); r != nil {
			problem = fmt.Sprintf("policy probe panicked: %v", r)
		}
	}()
	installers := []struct {
		name   string
		fn     func(stk.Stack)
		onCond func(stk.Condition) // installed on the first Condition of the tree instead (depth first)
	}{
		{"equality policy", func(c stk.Stack) {
			c.SetEqualityPolicy(func(any, any) error { return fmt.Errorf("the child's own policy objects") })
		}, nil},
		{"validity policy", func(c stk.Stack) {
			c.SetValidityPolicy(func(...any) error { return fmt.Errorf("the child's own policy fails") })
		}, nil},
		{"failing unmarshaler", func(c stk.Stack) {
			c.SetUnmarshaler(func(...any) ([]any, error) { return nil, fmt.Errorf("the child's own unmarshaler fails") })
		}, nil},
		{"unmarshaler handing back one marker", func(c stk.Stack) {
			c.SetUnmarshaler(func(...any) ([]any, error) { return []any{"MARK"}, nil })
		}, nil},
		{"Condition with a failing unmarshaler", nil, func(c stk.Condition) {
			c.SetUnmarshaler(func(...any) ([]any, error) { return nil, fmt.Errorf("the Condition's own unmarshaler fails") })
		}},
		{"Condition with a failing validity policy", nil, func(c stk.Condition) {
			c.SetValidityPolicy(func(...any) error { return fmt.Errorf("the Condition's own policy fails") })
		}},
	}
	for _, ins := range installers {
		answers := func(inst *AliasInst) (string, bool) {
			root, ok := inst.Tree.Build().(stk.Stack)
			other, ok2 := in.Insts[0].Tree.Build().(stk.Stack)
			if !ok || !ok2 {
				return "", false
			}
			found := false
			if ins.onCond != nil {
				var walk func(v any, depth int)
				walk = func(v any, depth int) {
					if found || depth > 12 {
						return
					}
					if c, ok := nativeCondOf(v); ok {
						ins.onCond(c)
						found = true
						return
					}
					if st, ok := nativeOf(v); ok {
						for i := 0; i < st.Len(); i++ {
							e, _ := st.Index(i)
							walk(e, depth+1)
						}
					}
				}
				walk(root, 0)
			}
			for i := 0; ins.fn != nil && i < root.Len() && !found; i++ {
				v, _ := root.Index(i)
				if child, isStack := nativeOf(v); isStack {
					ins.fn(child)
					found = true
				}
			}
			if !found {
				return "", false
			}
			u, ue := root.Unmarshal()
			nb := stk.Basic().SetNoNesting(true)
			for i := 0; i < root.Len(); i++ {
				v, _ := root.Index(i)
				nb.Push(v)
			}
			return fmt.Sprintf("isequal:%v/%v string:%q nesting:%v unmarshal-len:%d/%v/%d refused-by-no-nesting:%d",
				root.IsEqual(other) == nil, other.IsEqual(root) == nil, root.String(), root.IsNesting(), len(u), ue != nil, deepLen(u, 0), root.Len()-nb.Len()), true
		}
		v0, ok := answers(&in.Insts[0])
		if !ok {
			return ""
		}
		for k := 1; k < len(in.Insts); k++ {
			if vk, ok := answers(&in.Insts[k]); ok && vk != v0 {
				return fmt.Sprintf("a nested Stack with its own %s: the parent answers %s with native children, %s in instantiation %d", ins.name, v0, vk, k)
			}
		}
	}
	return ""
}

// deepLen: the number of entries of an Unmarshal result, nested rows included
func deepLen(u []any, depth int) int {
	n := len(u)
	if depth > 40 {
		return n
	}
	for _, e := range u {
		if l, ok := e.([]any); ok {
			n += deepLen(l, depth+1)
		}
	}
	return n
}

// ptrExprProbe: a Condition whose expression is a POINTER to a Stack variable sees
// what the variable holds when it is asked, not what it held when the pointer
// was handed over: the variable is initialised late, re-assigned, freed, revived.
// Each time a Condition given the same pointer after the fact must answer alike.
func ptrExprProbe() (problem string) {
	defer func() {
		if r := recover(); r != nil {
			problem = fmt.Sprintf("pointer-expression probe panicked: %v", r)
		}
	}()
	answers := func(c stk.Condition) string {
		u, ue := c.Unmarshal()
		pu, pe := stk.Or().Push("head", c).Unmarshal()
		return fmt.Sprintf("nesting:%v len:%d fifo:%v string:%q unmarshal:%v/%v parent:%v/%v valid:%v",
			c.IsNesting(), c.Len(), c.IsFIFO(), c.String(), u, ue != nil, pu, pe != nil, c.Valid() == nil)
	}
	var st stk.Stack
	// one Condition per step: each was handed the pointer when the variable held something else
	held := []stk.Condition{stk.Cond("k", stk.Eq, &st)}
	check := func(step string) bool {
		late := stk.Cond("k", stk.Eq, &st)
		for i, c := range held {
			if a, b := answers(c), answers(late); a != b {
				problem = fmt.Sprintf("a Condition holding a pointer to a Stack variable (handed over at step %d), after %s: %s; a Condition given the same pointer now: %s", i, step, a, b)
				return false
			}
		}
		held = append(held, late)
		return true
	}
	st = stk.And().Push("a", "b")
	if !check("the variable was initialised") {
		return
	}
	st = stk.Or().SetFIFO(true).Push("x")
	if !check("the variable was re-assigned") {
		return
	}
	st.Push("y", stk.And().Push("z"))
	if !check("the Stack grew") {
		return
	}
	st.Free()
	if !check("the variable was freed") {
		return
	}
	st.Marshal([]any{"AND", "r", "s", "t"})
	if !check("the variable was revived by Marshal") {
		return
	}
	// a Condition held by a Condition keeps being held - through Unmarshal and Marshal too -
	// whatever its own validity policy says later on (it is asked when Valid() is called)
	inner := stk.Cond("inner", stk.Eq, "v")
	tree := stk.And().Push("lead", stk.Cond("outer", stk.Ne, inner))
	inner.SetValidityPolicy(func(...any) error { return fmt.Errorf("the inner Condition's own policy fails now") })
	u, _ := tree.Unmarshal()
	var rebuilt stk.Stack
	rebuilt.Marshal(u...)
	got := "no Condition at slot 1"
	if e, ok := rebuilt.Index(1); ok {
		if oc, isCond := stk.ConvertCondition(e); isCond {
			_, holds := stk.ConvertCondition(oc.Expression())
			got = fmt.Sprintf("outer holds a Condition: %v", holds)
		}
	}
	if got != "outer holds a Condition: true" {
		problem = fmt.Sprintf("a Condition holding a Condition whose validity policy began to fail after it was accepted: after Unmarshal + Marshal, %s", got)
	}
	return
}

func minInt(a, b int) int {
	if a < b {
		return a
	}
	return b
}

// ---------------------------------------------------------------------------
// generators

var aliasKinds = []string{"", "aval", "aptr", "avalstr", "aptrstr"}

// randAliasKind: the five basic typings, sometimes a chain of 3..6 pointers
func randAliasKind(r *Rng) string {
	if r.Pct(12) {
		return []string{"p3a", "p4a", "p5a", "p6a", "p5", "p6"}[r.Intn(6)]
	}
	if r.Pct(10) {
		return "alocal" // an alias type that shares its printed name with a plain struct type
	}
	return aliasKinds[r.Intn(len(aliasKinds))]
}

func aClone(n *Node) *Node {
	if n == nil {
		return nil
	}
	c := *n
	c.Els = nil
	for _, e := range n.Els {
		c.Els = append(c.Els, aClone(e))
	}
	c.Ex = aClone(n.Ex)
	if n.Op != nil {
		op := *n.Op
		c.Op = &op
	}
	return &c
}

// nested Stack / Condition nodes of a tree in pre-order (the root excluded)
func aNested(n *Node, root bool, out *[]*Node) {
	if n == nil {
		return
	}
	if (n.T == "stack" || n.T == "cond") && !root {
		*out = append(*out, n)
	}
	for _, e := range n.Els {
		aNested(e, false, out)
	}
	aNested(n.Ex, false, out)
}

// aEraseInst retypes every Stack / Condition node natively (the root, the
// nested nodes and the destinations); changed = something was an alias.
func aEraseInst(i AliasInst) (AliasInst, bool) {
	changed := false
	var erase func(n *Node)
	erase = func(n *Node) {
		if n == nil {
			return
		}
		if (n.T == "stack" || n.T == "cond") && n.A != "" {
			n.A = ""
			changed = true
		}
		for _, e := range n.Els {
			erase(e)
		}
		erase(n.Ex)
	}
	out := AliasInst{Tree: aClone(i.Tree)}
	if i.Arg != "" {
		changed = true
	}
	erase(out.Tree)
	for _, d := range i.Dests {
		dd := aClone(d)
		erase(dd)
		out.Dests = append(out.Dests, dd)
	}
	return out, changed
}

// aInstantiate returns a copy of the native skeleton typed by [pick]
func aInstantiate(skel *Node, pick func(i int, n *Node) string) *Node {
	c := aClone(skel)
	var ns []*Node
	aNested(c, true, &ns)
	for i, n := range ns {
		n.A = pick(i, n)
	}
	return c
}

func aliasTreeGen(r *Rng) *TreeGen {
	g := DefaultTreeGen(r)
	g.MaxDepth = 3
	g.MaxWidth = 4
	g.Opts = []int{1, 2, 4, 8, 16, 32}
	g.Leaves = []string{"str", "str", "int", "bool", "float", "nil"}
	g.Strings = []string{"a", "bc", "x y", "", "é", " pad ", "日本", "k", "cn", "uid", "v"}
	g.CondPct = 25
	g.StackPct = 35
	return g
}

// aFix makes the description say what the setters store, and sprinkles
// Condition-valued Conditions, no-nesting / read-only bits and (malformed)
// values that convert to nothing.
func aFix(r *Rng, n *Node, depth int, malformed bool) {
	switch n.T {
	case "stack":
		if depth > 0 && r.Pct(8) {
			n.Opt |= 256
		}
		if depth > 0 && r.Pct(5) {
			n.Opt |= 128
		}
		for i := range n.Els {
			if malformed && r.Pct(25) {
				n.Els[i] = aMalformed(r)
			}
			aFix(r, n.Els[i], depth+1, malformed)
		}
	case "cond":
		if n.Ex != nil && n.Ex.T != "stack" && r.Pct(25) {
			g := aliasTreeGen(r)
			g.MaxDepth = 1
			n.Ex = g.Cond(1)
		}
		if n.Ex != nil && n.Ex.T == "str" && n.Ex.S == "" {
			n.Ex = &Node{T: "nil"}
		}
		if n.Op != nil && n.Op.User && (n.Op.Text == "" || n.Op.Ctx == "") {
			n.Op = nil
		}
		if malformed && n.Ex != nil && r.Pct(25) {
			n.Ex = aMalformed(r)
		}
		if n.Ex != nil {
			aFix(r, n.Ex, depth+1, malformed)
		}
	}
}

func aMalformed(r *Rng) *Node {
	tags := []int{0, 100, 101, 110, 111, 112, 113}
	forms := []string{"nil1", "nil2", "ptrnil"}
	switch r.Intn(9) {
	case 0:
		return &Node{T: "zstack", A: []string{"", "aval", "aptr"}[r.Intn(3)]}
	case 1:
		return &Node{T: "zcond", A: []string{"", "aval", "aptr"}[r.Intn(3)]}
	case 2:
		return &Node{T: "zstackS"}
	case 3:
		return &Node{T: "zcondS"}
	case 4:
		return &Node{T: "stringer", S: []string{"str ing", "", "s"}[r.Intn(3)]}
	case 5:
		return &Node{T: "other", I: 3}
	}
	return &Node{T: "anil", Ty: tags[r.Intn(len(tags))], S: forms[r.Intn(len(forms))]}
}

// destinations of Transfer (native descriptions; instantiations retype them)
func aDests(r *Rng) []*Node {
	var ds []*Node
	n := 1 + r.Intn(2)
	for i := 0; i < n; i++ {
		d := &Node{T: "stack", Kind: kinds[r.Intn(len(kinds))]}
		switch r.Intn(10) {
		case 0:
			d.Cap = 1 + r.Intn(3)
		case 1:
			d.Cap = 4 + r.Intn(6)
		case 2:
			d.Opt |= 128
		case 3:
			d.Opt |= 256
		}
		for k := r.Intn(3); k > 0 && (d.Cap == 0 || len(d.Els) < d.Cap); k-- {
			d.Els = append(d.Els, &Node{T: "int", I: int64(100 + r.Intn(50))})
		}
		ds = append(ds, d)
	}
	if r.Pct(25) {
		ds = append(ds, []*Node{{T: "nil"}, {T: "zstack", A: "aval"}, {T: "zstack"}, {T: "int", I: 7},
			{T: "anil", Ty: 110, S: "nil1"}, {T: "anil", Ty: 100, S: "nil2"}, {T: "cond", Kw: "k", Op: &OpDesc{Builtin: 1}, Ex: &Node{T: "str", S: "v"}}}[r.Intn(7)])
	}
	return ds
}

// a native mutant of the skeleton: one leaf, keyword or kind changed, or an
// element more
func aMutant(r *Rng, skel *Node) *Node {
	m := aClone(skel)
	var all []*Node
	var collect func(n *Node)
	collect = func(n *Node) {
		if n == nil {
			return
		}
		all = append(all, n)
		for _, e := range n.Els {
			collect(e)
		}
		collect(n.Ex)
	}
	collect(m)
	for try := 0; try < 8; try++ {
		n := all[r.Intn(len(all))]
		switch n.T {
		case "str":
			n.S += "~"
			return m
		case "int":
			n.I++
			return m
		case "bool":
			n.Bv = !n.Bv
			return m
		case "cond":
			n.Kw += "x"
			return m
		case "stack":
			if n.Cap == 0 && r.Bool() {
				n.Els = append(n.Els, &Node{T: "str", S: "extra"})
				return m
			}
		}
	}
	m.Els = append(m.Els, &Node{T: "str", S: "extra"})
	return m
}

func aPaths(r *Rng, skel *Node, n int) [][]int {
	var ps [][]int
	for i := 0; i < n; i++ {
		ps = append(ps, tvRandPath(r, skel, 4, 4))
	}
	ps = append(ps, []int{0}, []int{})
	return ps
}

func aliasCase(r *Rng, skel *Node, insts []*Node) AliasInput {
	in := AliasInput{Mut: aMutant(r, skel), Paths: aPaths(r, skel, 6)}
	if r.Pct(40) {
		in.DArgs = []int{[]int{1, 2, 3, 5, 60}[r.Intn(5)]}
	}
	dests := aDests(r)
	for k, t := range insts {
		ai := AliasInst{Tree: t}
		if k > 0 {
			ai.Arg = randAliasKind(r)
		}
		for _, d := range dests {
			dd := aClone(d)
			if k > 0 && (dd.T == "stack" || dd.T == "cond") {
				dd.A = randAliasKind(r)
			}
			ai.Dests = append(ai.Dests, dd)
		}
		in.Insts = append(in.Insts, ai)
	}
	return in
}

func leafS(s string) *Node { return &Node{T: "str", S: s} }

func genAlias(ctx *Ctx, emit func(any, string)) {
	r0 := ctx.Rng.Fork()
	cnd := func(kw string, ex *Node) *Node { return &Node{T: "cond", Kw: kw, Op: &OpDesc{Builtin: 1}, Ex: ex} }
	stack := func(kind string, opt int, els ...*Node) *Node {
		return &Node{T: "stack", Kind: kind, Opt: opt, Els: els}
	}
	// exhaustive: small skeletons with every typing of their nested nodes
	// (5^k for k <= 2 nested nodes, {native, value, pointer}^3 for k = 3)
	skels := []*Node{
		stack("AND", 0, leafS("a"), stack("OR", 0, leafS("b"), leafS("c"))),
		stack("AND", 0, stack("NOT", 0, leafS("z")), leafS("w")),
		stack("AND", 0, leafS("a"), stack("NOT", 2, leafS("z"))),
		stack("OR", 1, cnd("k", leafS("v")), leafS("w")),
		stack("AND", 0, cnd("k", stack("OR", 0, leafS("x"), leafS("y")))),
		stack("AND", 0, cnd("k", cnd("k2", leafS("v")))),
		stack("LIST", 0, stack("AND", 0, leafS("a")), stack("OR", 4, leafS("b"), &Node{T: "nil"}, leafS("c"))),
		stack("AND", 0, stack("OR", 0, &Node{T: "nil"}, leafS("p"), &Node{T: "nil"}, leafS("q")), cnd("k", stack("LIST", 0, &Node{T: "nil"}, leafS("r")))),
		stack("BASIC", 0, stack("BASIC", 0, leafS("a")), cnd("", leafS("v"))),
		stack("AND", 0, stack("OR", 0, stack("NOT", 0, leafS("deep")))),
		stack("AND", 0, stack("OR", 0), cnd("k", stack("AND", 0))),
		stack("AND", 0, cnd("k", stack("OR", 0, cnd("k2", leafS("v")))), leafS("t")),
	}
	for _, sk := range skels {
		var ns []*Node
		aNested(sk, true, &ns)
		k := len(ns)
		base := 5
		if k >= 3 {
			base = 3
		}
		total := 1
		for i := 0; i < k; i++ {
			total *= base
		}
		// code 0 is the native typing: it opens every case
		native := func() *Node { return aInstantiate(sk, func(int, *Node) string { return "" }) }
		insts := []*Node{native()}
		for code := 1; code < total; code++ {
			c := code
			digits := make([]int, k)
			for i := 0; i < k; i++ {
				digits[i] = c % base
				c /= base
			}
			insts = append(insts, aInstantiate(sk, func(i int, n *Node) string { return aliasKinds[digits[i]] }))
			if len(insts) == 9 || code == total-1 {
				emit(aliasCase(r0.Fork(), sk, insts), "exhaustive")
				insts = []*Node{native()}
			}
		}
	}
	// values that convert to nothing: every one of them as an element and as
	// a Condition's expression, same in both instantiations
	var odd []*Node
	for _, a := range []string{"", "aval", "aptr"} {
		odd = append(odd, &Node{T: "zstack", A: a}, &Node{T: "zcond", A: a})
	}
	odd = append(odd, &Node{T: "zstackS"}, &Node{T: "zcondS"}, &Node{T: "stringer", S: "s t"}, &Node{T: "other", I: 1}, &Node{T: "nil"})
	for _, tag := range []int{0, 100, 101, 110, 111, 112, 113} {
		for _, form := range []string{"nil1", "nil2", "ptrnil"} {
			odd = append(odd, &Node{T: "anil", Ty: tag, S: form})
		}
	}
	for _, x := range odd {
		sk := stack("AND", 0, leafS("a"), aClone(x), stack("OR", 0, leafS("b")), cnd("k", aClone(x)))
		insts := []*Node{aInstantiate(sk, func(int, *Node) string { return "" }),
			aInstantiate(sk, func(i int, n *Node) string { return aliasKinds[1+i%4] })}
		emit(aliasCase(r0.Fork(), sk, insts), "exhaustive")
	}
	// random trees, 2..4 instantiations each
	n := ctx.N(260, 12000)
	for i := 0; i < n; i++ {
		r := ctx.Rng.Fork()
		g := aliasTreeGen(r)
		sk := g.Stack(0)
		if sk.Kind == "BASIC" && r.Pct(80) {
			sk.Kind = "AND"
		}
		sk.Opt &^= 128
		aFix(r, sk, 0, i%8 == 7)
		k := 2 + r.Intn(3)
		insts := []*Node{aInstantiate(sk, func(int, *Node) string { return "" })}
		for j := 1; j < k; j++ {
			insts = append(insts, aInstantiate(sk, func(int, *Node) string { return randAliasKind(r) }))
		}
		emit(aliasCase(r, sk, insts), "random")
	}
}

func init() {
	register(&Family{Name: "alias", Gen: genAlias, Run: runAlias,
		Rule: "exhaustive: 12 small skeletons (Stack in Stack, NOT / folded NOT in AND, Condition in Stack, Stack in Condition, Condition in Condition, nil elements, empty stacks, three levels) x EVERY typing of their nested nodes over {native, alias value, pointer to alias, alias with String, pointer to alias with String} (k <= 2 nested nodes) or {native, value, pointer}^3; 32 values that convert to nothing (zero Stack / Condition native, alias and pointer-to-alias, pointer to zero alias with String, nil / nil-nil / pointer-to-nil pointers of 7 types, foreign stringer, foreign struct, nil) each as element and as Condition expression. random: trees from TreeGen (depth <= 3 stacks with Conditions in between, width <= 4, option bits paren/fold/nopad/leadonce/negidx/fwdidx 30% each, nil elements, no-nesting and read-only nested nodes, Condition-valued Conditions; every 8th tree with values that convert to nothing) in 2-4 instantiations with a random akind per nested node, 1-3 Transfer destinations per tree (capacity, read-only, no-nesting; retyped per instantiation; 25% a value that is no Stack), 8 Traverse paths, Defrag limit default or 1..60, one native mutant for IsEqual. One PRNG (ctx.Rng.Fork()). Observed per instantiation: String/IsNesting/Len of every node; IsEqual against a native copy and a native mutant in both directions, with the copy handed over typed as an alias, and every native Stack/Condition element against its counterpart; Unmarshal; Traverse (value read back with its dynamic type, ok); no-nesting Push and SetExpression; Defrag; Transfer (result, destination read back); ConvertStack/ConvertCondition of every root element (ok, same underlying instance by Addr(), content). A failing case shrinks to one instantiation (the native one is derived). distinct = distinct input hash; non-trivial = at least two instantiations, at least one nested node typed as an alias, tree of >= 3 nodes"})
}

var _ = strconv.Itoa
