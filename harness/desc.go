package main

// Tree descriptions shared by the tree-level families.  A Node is built from
// one generator; Build() makes the Go value, Coq() prints the matching term
// of coq/Values.v (type [value]).  The description is the single source of
// both sides, so a case never depends on reading hidden state back.

import (
	"errors"
	"fmt"
	"reflect"
	"strconv"
	"strings"

	stk "github.com/JesseCoretta/go-stackage"
)

type OpDesc struct {
	Builtin int    `json:"b,omitempty"` // ComparisonOperator value (1..6 defined); used when User is false
	User    bool   `json:"u,omitempty"`
	Slice   bool   `json:"sl,omitempty"` // user operator of an uncomparable Go type (a slice)
	Text    string `json:"text,omitempty"`
	Ctx     string `json:"ctx,omitempty"`
}

// userOp is a user-defined Operator.
type userOp struct{ text, ctx string }

func (o userOp) String() string  { return o.text }
func (o userOp) Context() string { return o.ctx }

// sliceOp is a user-defined Operator whose Go type cannot be compared with ==.
type sliceOp []string

func (o sliceOp) String() string  { return o[0] }
func (o sliceOp) Context() string { return o[1] }

func (o *OpDesc) Build() stk.Operator {
	if o == nil {
		return nil
	}
	if o.User && o.Slice {
		return sliceOp{o.Text, o.Ctx}
	}
	if o.User {
		return userOp{o.Text, o.Ctx}
	}
	return stk.ComparisonOperator(o.Builtin)
}

func (o *OpDesc) Coq() string {
	if o == nil {
		return "None"
	}
	if o.User {
		return fmt.Sprintf("(Some (OpUser %s %s))", coqBytes(o.Text), coqBytes(o.Ctx))
	}
	return fmt.Sprintf("(Some (OpBuiltin %d%%N))", o.Builtin)
}

// Node kinds (field T): nil str int bool float stack cond zstack zcond
type Node struct {
	T string `json:"t"`
	// leaves
	S  string  `json:"s,omitempty"`
	I  int64   `json:"i,omitempty"`
	Ty int     `json:"ty,omitempty"` // Go number type tag (Values.v ty_*)
	Bv bool    `json:"bv,omitempty"`
	F  float64 `json:"f,omitempty"`
	F2 float64 `json:"f2,omitempty"` // imaginary part (Ty 22 complex64, 23 complex128)
	// stack / cond configuration
	A      string     `json:"a,omitempty"` // akind: "", "aval", "aptr", "avalstr", "aptrstr"
	Kind   string     `json:"kind,omitempty"`
	Opt    int        `json:"opt,omitempty"`
	Sym    string     `json:"sym,omitempty"`
	Delim  string     `json:"delim,omitempty"`
	Enc    [][]string `json:"enc,omitempty"`
	Fifo   bool       `json:"fifo,omitempty"`
	Cap    int        `json:"cap,omitempty"` // 0 = none
	Mutex  bool       `json:"mutex,omitempty"`
	Vfail  bool       `json:"vfail,omitempty"`  // the Stack carries a validity policy that fails (Valid() is not what Defrag / Reveal / Transfer ask)
	PreErr bool       `json:"preerr,omitempty"` // an error was stored (SetErr) before the operation under test
	ID     string     `json:"id,omitempty"`
	Els    []*Node    `json:"els,omitempty"`
	// cond
	Kw string  `json:"kw,omitempty"`
	Op *OpDesc `json:"op,omitempty"`
	Ex *Node   `json:"ex,omitempty"`
}

// alias types of the harness
type (
	aStack stk.Stack     // alias without its own String
	sStack stk.Stack     // alias with its own String
	aCond  stk.Condition // alias without String
	sCond  stk.Condition
)

func (r sStack) String() string { return stk.Stack(r).String() }
func (r sCond) String() string  { return stk.Condition(r).String() }

// encArgs: the arguments of ONE SetEncap call installing every scheme of enc
func encArgs(enc [][]string) []any {
	var args []any
	for _, e := range enc {
		if len(e) == 1 {
			args = append(args, e[0])
		} else {
			args = append(args, e)
		}
	}
	return args
}

func applyOpts(s stk.Stack, opt int) {
	if opt&1 != 0 {
		s.SetParen(true)
	}
	if opt&2 != 0 {
		s.SetFold(true)
	}
	if opt&4 != 0 {
		s.SetNoPadding(true)
	}
	if opt&8 != 0 {
		s.SetLeadOnce(true)
	}
	if opt&16 != 0 {
		s.SetNegativeIndices(true)
	}
	if opt&32 != 0 {
		s.SetForwardIndices(true)
	}
	if opt&256 != 0 {
		s.SetNoNesting(true)
	}
}

// BuildStack builds the native Stack of a "stack" node (options that would
// hinder construction -- read-only, no-nesting -- are applied last).
func (n *Node) BuildStack() stk.Stack {
	var s stk.Stack
	if n.Cap > 0 {
		s = newStack(n.Kind, n.Cap)
	} else {
		s = newStack(n.Kind, -1)
	}
	if n.Fifo {
		s.SetFIFO(true)
	}
	if n.Sym != "" {
		s.SetSymbol(n.Sym)
	}
	if n.Delim != "" {
		s.SetDelimiter(n.Delim)
	}
	if len(n.Enc) >= 3 {
		// one call with all schemes (bare strings for one-character schemes)
		s.SetEncap(encArgs(n.Enc)...)
	} else {
		for _, e := range n.Enc {
			if len(e) == 1 {
				s.SetEncap(e[0])
			} else {
				s.SetEncap(e)
			}
		}
	}
	if n.ID != "" {
		s.SetID(n.ID)
	}
	if n.Vfail {
		s.SetValidityPolicy(func(...any) error { return errors.New("this stack's own validity policy fails") })
	}
	if n.Mutex {
		s.SetMutex()
	}
	var vals []any
	for _, e := range n.Els {
		vals = append(vals, e.Build())
	}
	s.Push(vals...)
	applyOpts(s, n.Opt)
	if n.Opt&128 != 0 {
		s.SetReadOnly(true)
	}
	if n.PreErr {
		s.SetErr(errors.New("stale error"))
	}
	return s
}

func (n *Node) BuildCond() stk.Condition {
	var c stk.Condition
	c.Init()
	c.SetKeyword(n.Kw)
	if n.Op != nil {
		c.SetOperator(n.Op.Build())
	}
	if n.Ex != nil {
		c.SetExpression(n.Ex.Build())
	}
	if len(n.Enc) >= 3 {
		c.SetEncap(encArgs(n.Enc)...)
	} else {
		for _, e := range n.Enc {
			if len(e) == 1 {
				c.SetEncap(e[0])
			} else {
				c.SetEncap(e)
			}
		}
	}
	if n.ID != "" {
		c.SetID(n.ID)
	}
	if n.Opt&1 != 0 {
		c.SetParen(true)
	}
	if n.Opt&4 != 0 {
		c.SetNoPadding(true)
	}
	if n.Opt&256 != 0 {
		c.SetNoNesting(true)
	}
	if n.Opt&128 != 0 {
		c.SetReadOnly(true)
	}
	return c
}

// Build makes the Go value.
func (n *Node) Build() any {
	if n == nil {
		return nil
	}
	switch n.T {
	case "nil":
		return nil
	case "str":
		return n.S
	case "int":
		switch n.Ty {
		case 1:
			return int8(n.I)
		case 2:
			return int16(n.I)
		case 3:
			return int32(n.I)
		case 4:
			return int64(n.I)
		case 10:
			return uint(n.I)
		case 11:
			return uint8(n.I)
		case 12:
			return uint16(n.I)
		case 13:
			return uint32(n.I)
		case 14:
			return uint64(n.I)
		}
		return int(n.I)
	case "bool":
		return n.Bv
	case "float":
		switch n.Ty {
		case 20:
			return float32(n.F)
		case 22:
			return complex64(complex(n.F, n.F2))
		case 23:
			return complex(n.F, n.F2)
		}
		return n.F
	case "stack":
		s := n.BuildStack()
		switch n.A {
		case "aval":
			return aStack(s)
		case "aptr":
			a := aStack(s)
			return &a
		case "avalstr":
			return sStack(s)
		case "aptrstr":
			a := sStack(s)
			return &a
		case "pp": // **Stack
			ps := &s
			return &ps
		case "ppa": // **alias
			a := aStack(s)
			pa := &a
			return &pa
		}
		if d, al, ok := ptrKind(n.A); ok {
			if al {
				return ptrChain(aStack(s), d)
			}
			return ptrChain(s, d)
		}
		if n.A == "alocal" {
			return localStackAliasA(s)
		}
		return s
	case "cond":
		c := n.BuildCond()
		switch n.A {
		case "aval":
			return aCond(c)
		case "aptr":
			a := aCond(c)
			return &a
		case "avalstr":
			return sCond(c)
		case "aptrstr":
			a := sCond(c)
			return &a
		case "pp": // **Condition
			pc := &c
			return &pc
		case "ppa":
			a := aCond(c)
			pa := &a
			return &pa
		}
		if d, al, ok := ptrKind(n.A); ok {
			if al {
				return ptrChain(aCond(c), d)
			}
			return ptrChain(c, d)
		}
		if n.A == "alocal" {
			return localCondAliasA(c)
		}
		return c
	case "zstack":
		switch n.A {
		case "aval":
			return aStack{}
		case "aptr":
			return &aStack{}
		}
		return stk.Stack{}
	case "zcond":
		switch n.A {
		case "aval":
			return aCond{}
		case "aptr":
			return &aCond{}
		}
		return stk.Condition{}
	}
	if b, ok := extraBuild[n.T]; ok {
		return b(n)
	}
	panic("Node.Build: unknown kind " + n.T)
}

// families may register further leaf kinds
var extraBuild = map[string]func(*Node) any{}
var extraCoq = map[string]func(*Node) string{}

// Types declared in function scopes share their printed name ("main.Filter") with
// other types of other scopes.  Pair A: a plain struct that the converters meet
// FIRST (at start-up), then a Stack / Condition alias of the same name (node form
// "alocal").  Pair B: the alias first, the plain struct later (awkward catalogue).
func localStackAliasA(s stk.Stack) any { type Filter stk.Stack; return Filter(s) }
func localPlainA() any                 { type Filter struct{ A int }; return Filter{1} }
func localCondAliasA(c stk.Condition) any {
	type Rule stk.Condition
	return Rule(c)
}
func localPlainRuleA() any             { type Rule struct{ B string }; return Rule{"x"} }
func localStackAliasB(s stk.Stack) any { type Selector stk.Stack; return Selector(s) }
func localPlainB() any                 { type Selector struct{ A int }; return Selector{2} }
func localCondAliasB(c stk.Condition) any {
	type Clause stk.Condition
	return Clause(c)
}
func localPlainClauseB() any { type Clause struct{ B string }; return Clause{"y"} }

func init() {
	stk.ConvertStack(localPlainA())
	stk.ConvertCondition(localPlainA())
	stk.ConvertStack(localPlainRuleA())
	stk.ConvertCondition(localPlainRuleA())
	stk.ConvertStack(localStackAliasB(stk.And().Push("b")))
	stk.ConvertCondition(localCondAliasB(stk.Cond("k", stk.Eq, "v")))
}

var stackT, condT = reflect.TypeOf(stk.Stack{}), reflect.TypeOf(stk.Condition{})

// unlocal converts a value of one of the function-local alias types back
func unlocal(v any) (s stk.Stack, c stk.Condition, kind int) {
	if v == nil {
		return
	}
	rv := reflect.ValueOf(v)
	if rv.Kind() != reflect.Struct {
		return
	}
	switch rv.Type().Name() {
	case "Filter", "Selector":
		if rv.Type().ConvertibleTo(stackT) {
			return rv.Convert(stackT).Interface().(stk.Stack), c, 1
		}
	case "Rule", "Clause":
		if rv.Type().ConvertibleTo(condT) {
			return s, rv.Convert(condT).Interface().(stk.Condition), 2
		}
	}
	return
}

// ptrKind reads the node forms "pN" / "pNa": a chain of N (3..9) non-nil
// pointers ending in the native instance / in the plain alias of it.
func ptrKind(a string) (depth int, alias bool, ok bool) {
	if len(a) < 2 || a[0] != 'p' || a[1] < '3' || a[1] > '9' {
		return 0, false, false
	}
	switch a[2:] {
	case "":
		return int(a[1] - '0'), false, true
	case "a":
		return int(a[1] - '0'), true, true
	}
	return 0, false, false
}

// ptrChain wraps v in depth pointers.
func ptrChain(v any, depth int) any {
	rv := reflect.ValueOf(v)
	for i := 0; i < depth; i++ {
		p := reflect.New(rv.Type())
		p.Elem().Set(rv)
		rv = p
	}
	return rv.Interface()
}

// unchain strips the pointers of a chain of two or more down to the value
// at its end; (v, 0) for anything else (nil links included).
func unchain(v any) (any, int) {
	rv := reflect.ValueOf(v)
	d := 0
	for rv.IsValid() && rv.Kind() == reflect.Ptr && !rv.IsNil() {
		rv = rv.Elem()
		d++
	}
	if d < 2 || !rv.IsValid() || rv.Kind() == reflect.Ptr || !rv.CanInterface() {
		return v, 0
	}
	return rv.Interface(), d
}

func coqAkind(a string) string {
	if _, _, ok := ptrKind(a); ok {
		return "AliasPtr" // the models do not tell pointer depths apart
	}
	switch a {
	case "aval", "alocal":
		return "AliasVal"
	case "aptr", "pp", "ppa": // the models do not tell pointer depths apart
		return "AliasPtr"
	case "avalstr":
		return "AliasValStr"
	case "aptrstr":
		return "AliasPtrStr"
	}
	return "Native"
}

func coqEnc(enc [][]string) string {
	var ps []string
	for _, e := range enc {
		var bs []string
		for _, s := range e {
			bs = append(bs, coqBytes(s))
		}
		ps = append(ps, coqList(bs))
	}
	return coqList(ps)
}

// CoqCfg prints the node configuration as a cfgS term.  c_cap follows the
// implementation's convention (0 = none, else capacity + 1).
func (n *Node) CoqCfg() string {
	typ := kindN[n.Kind]
	delim := n.Delim
	sym := n.Sym
	if n.T == "cond" {
		typ = 5
	}
	if n.Kind == "LIST" {
		sym = "" // setSymbol is ignored by LIST stacks
	} else {
		delim = "" // setListDelimiter is ignored by the others
	}
	cp := 0
	if n.Cap > 0 {
		cp = n.Cap + 1
	}
	cfg := fmt.Sprintf("(cfgS %d%%N %d%%N %s %s %s %s %d)", typ, n.Opt, coqBytes(sym), coqBytes(delim), coqEnc(n.Enc), coqBool(n.Fifo), cp)
	if n.PreErr && n.T == "stack" {
		cfg = "(set_c_err " + cfg + " (Some 77%N))"
	}
	return cfg
}

// floatText is the text Go itself gives the number at its own precision.
func (n *Node) floatText(ty int) string {
	switch ty {
	case 22:
		return strconv.FormatComplex(complex128(complex64(complex(n.F, n.F2))), 'g', -1, 64)
	case 23:
		return strconv.FormatComplex(complex(n.F, n.F2), 'g', -1, 128)
	}
	return fmtFloat(n.F, ty)
}

// numLeaf: float and complex leaves of every width, most with parts that are
// not exactly representable in binary (the text then depends on the width)
func numLeaf(r *Rng) *Node {
	switch x := r.Intn(10); {
	case x < 5:
		return &Node{T: "float", Ty: 21, F: []float64{1.5, 0, -2.25, 1e21, 3, 0.1}[r.Intn(6)]}
	case x < 7:
		return &Node{T: "float", Ty: 20, F: []float64{0.1, 1.5, -0.3, 16777216}[r.Intn(4)]}
	case x < 9:
		return &Node{T: "float", Ty: 22, F: []float64{0.1, 1.1, 1, -0.3}[r.Intn(4)], F2: []float64{0.2, 2, 0, -1.1}[r.Intn(4)]}
	}
	return &Node{T: "float", Ty: 23, F: []float64{0.1, 2}[r.Intn(2)], F2: []float64{0.2, 3}[r.Intn(2)]}
}

func fmtFloat(f float64, ty int) string {
	if ty == 20 {
		return strconv.FormatFloat(float64(float32(f)), 'g', -1, 32)
	}
	return strconv.FormatFloat(f, 'g', -1, 64)
}

// Coq prints the node as a term of type value.
func (n *Node) Coq() string {
	if n == nil {
		return "VNil"
	}
	switch n.T {
	case "nil":
		return "VNil"
	case "str":
		return "(VLeaf (GStr " + coqBytes(n.S) + "))"
	case "int":
		return fmt.Sprintf("(VLeaf (GInt %d%%N %s))", n.Ty, coqZ64(n.I))
	case "bool":
		return "(VLeaf (GBool " + coqBool(n.Bv) + "))"
	case "float":
		ty := n.Ty
		if ty == 0 {
			ty = 21
		}
		return fmt.Sprintf("(VLeaf (GFloat %d%%N %s 0))", ty, coqBytes(n.floatText(ty)))
	case "stack":
		var es []string
		for _, e := range n.Els {
			es = append(es, e.Coq())
		}
		return fmt.Sprintf("(VStack %s %s %s)", coqAkind(n.A), n.CoqCfg(), coqList(es))
	case "cond":
		return fmt.Sprintf("(VCond %s %s %s %s %s)", coqAkind(n.A), n.CoqCfg(), coqBytes(n.Kw), n.Op.Coq(), n.Ex.Coq())
	case "zstack":
		return "(VZeroStack " + coqAkind(n.A) + ")"
	case "zcond":
		return "(VZeroCond " + coqAkind(n.A) + ")"
	}
	if c, ok := extraCoq[n.T]; ok {
		return c(n)
	}
	panic("Node.Coq: unknown kind " + n.T)
}

func coqZ64(i int64) string {
	if i < 0 {
		return fmt.Sprintf("(%d)", i)
	}
	return fmt.Sprintf("%d", i)
}

// ---------------------------------------------------------------------------
// random trees

type TreeGen struct {
	R         *Rng
	MaxDepth  int
	MaxWidth  int
	Kinds     []string // stack kinds to draw from
	Opts      []int    // option bits that may be set on stacks (each independently)
	Syms      []string
	Delims    []string
	EncPairs  [][]string
	Leaves    []string // leaf kinds to draw from: str int bool float nil
	Strings   []string // pool of leaf / keyword texts
	CondPct   int      // chance that an element is a Condition
	StackPct  int      // chance that an element is a nested stack (at depth < MaxDepth)
	Aliases   []string // akinds to draw from for nested nodes ("" = native)
	CapPct    int
	MutexPct  int
	BadOpPct  int // chance that a Condition has no / an invalid operator
	UserOpPct int
}

func DefaultTreeGen(r *Rng) *TreeGen {
	return &TreeGen{R: r, MaxDepth: 3, MaxWidth: 4,
		Kinds: []string{"AND", "OR", "NOT", "LIST", "BASIC"}, Opts: []int{1, 2, 4, 8},
		Syms: []string{"", "", "&", "||", "xor", "Nand"}, Delims: []string{"", ",", " ", ";;"},
		EncPairs: [][]string{{"\""}, {"[", "]"}, {"<", ">"}, {"'"}},
		Leaves:   []string{"str", "str", "int", "bool", "float"},
		Strings:  []string{"a", "bc", "x y", "", "é", " pad ", "a\tb", "日本", "k", "cn", "uid"},
		CondPct:  20, StackPct: 30, Aliases: []string{""}, CapPct: 0, MutexPct: 15, BadOpPct: 10, UserOpPct: 15}
}

func (g *TreeGen) pick(l []string) string { return l[g.R.Intn(len(l))] }

func (g *TreeGen) Leaf() *Node {
	switch g.pick(g.Leaves) {
	case "int":
		tys := []int{0, 0, 1, 4, 11, 14}
		return &Node{T: "int", Ty: tys[g.R.Intn(len(tys))], I: int64(g.R.Intn(120))}
	case "bool":
		return &Node{T: "bool", Bv: g.R.Bool()}
	case "float":
		return numLeaf(g.R)
	case "nil":
		return &Node{T: "nil"}
	}
	return &Node{T: "str", S: g.pick(g.Strings)}
}

func (g *TreeGen) Op() *OpDesc {
	if g.R.Pct(g.BadOpPct) {
		if g.R.Bool() {
			return nil
		}
		return &OpDesc{Builtin: []int{0, 7, 200}[g.R.Intn(3)]}
	}
	if g.R.Pct(g.UserOpPct) {
		return &OpDesc{User: true, Slice: g.R.Pct(30), Text: g.pick([]string{"~=", "in", ":="}), Ctx: "custom"}
	}
	return &OpDesc{Builtin: 1 + g.R.Intn(6)}
}

func (g *TreeGen) Cond(depth int) *Node {
	n := &Node{T: "cond", Kw: g.pick(g.Strings), Op: g.Op(), A: g.pick(g.Aliases)}
	if g.R.Pct(30) {
		n.Opt |= 1
	}
	if g.R.Pct(20) {
		n.Opt |= 4
	}
	if g.R.Pct(25) {
		n.Enc = append(n.Enc, g.EncPairs[g.R.Intn(len(g.EncPairs))])
	}
	switch x := g.R.Intn(100); {
	case x < 20 && depth < g.MaxDepth:
		n.Ex = g.Stack(depth + 1)
	case x < 25:
		n.Ex = &Node{T: "nil"}
	default:
		n.Ex = g.Leaf()
	}
	return n
}

func (g *TreeGen) Stack(depth int) *Node {
	n := &Node{T: "stack", Kind: g.pick(g.Kinds), A: g.pick(g.Aliases)}
	if depth == 0 {
		n.A = ""
	}
	for _, o := range g.Opts {
		if g.R.Pct(30) {
			n.Opt |= o
		}
	}
	if n.Kind == "LIST" {
		n.Delim = g.pick(g.Delims)
	} else {
		n.Sym = g.pick(g.Syms)
	}
	used := map[string]bool{}
	for k := g.R.Intn(5); k > 0; k-- {
		p := g.EncPairs[g.R.Intn(len(g.EncPairs))]
		clash := false
		for _, s := range p {
			if used[s] {
				clash = true
			}
		}
		if clash {
			continue
		}
		for _, s := range p {
			used[s] = true
		}
		n.Enc = append(n.Enc, p)
	}
	if g.R.Pct(g.CapPct) {
		n.Cap = g.R.Range(4, 8)
	}
	if g.R.Pct(g.MutexPct) {
		n.Mutex = true
	}
	w := g.R.Intn(g.MaxWidth + 1)
	for i := 0; i < w; i++ {
		if n.Cap > 0 && i >= n.Cap {
			break
		}
		x := g.R.Intn(100)
		switch {
		case x < g.StackPct && depth < g.MaxDepth:
			n.Els = append(n.Els, g.Stack(depth+1))
		case x < g.StackPct+g.CondPct:
			n.Els = append(n.Els, g.Cond(depth))
		default:
			n.Els = append(n.Els, g.Leaf())
		}
	}
	return n
}

func (n *Node) Depth() int {
	d := 0
	for _, e := range n.Els {
		if x := e.Depth(); x > d {
			d = x
		}
	}
	if n.Ex != nil {
		if x := n.Ex.Depth(); x > d {
			d = x
		}
	}
	if n.T == "stack" || n.T == "cond" {
		return d + 1
	}
	return d
}

func (n *Node) Count() int {
	c := 1
	for _, e := range n.Els {
		c += e.Count()
	}
	if n.Ex != nil {
		c += n.Ex.Count()
	}
	return c
}

func joinTags(m map[string]bool) []string {
	var tl []string
	for t := range m {
		tl = append(tl, t)
	}
	return tl
}

var _ = strings.Join
