module verif/harness

go 1.20

require github.com/JesseCoretta/go-stackage v0.0.0

replace github.com/JesseCoretta/go-stackage => /repo
