package main

// Family closures (C14, the five closures besides the push policy, plus the
// Condition evaluator): install/remove sequences of table-driven closures on
// Stacks of every kind and on Conditions; after each call the outcome CLASS
// is recorded: which closure answered (its marker) or the built-in.

import (
	"encoding/json"
	"errors"
	"fmt"
	"strings"

	stk "github.com/JesseCoretta/go-stackage"
)

type ClCall struct {
	Op   string `json:"op"`             // valid string isequal unmarshal marshal evaluate errset set
	Slot int    `json:"slot,omitempty"` // 1 vpf 2 rpf 3 eqf 4 umf 5 maf 6 evl
	F    int    `json:"f,omitempty"`    // closure id; <0 = remove (nil)
}

type ClInput struct {
	Cond  bool     `json:"cond"`
	Kind  string   `json:"kind"`
	Opts  int      `json:"opts,omitempty"` // presentation options set on the receiver: 1 paren, 2 case folding (Stacks), 4 no-padding, 64 an encapsulation pair
	Calls []ClCall `json:"calls"`
}

func marker(f int) string { return fmt.Sprintf("MARK%d", f) }

// presText: what presentation closure f returns - with white space at both ends,
// a TAB, a line break and runs of blanks inside (a pretty-printer's output)
func presText(f int) string { return fmt.Sprintf("  MARK%d\t x  y\n  z ", f) }

func runClosures(raw json.RawMessage) (res *Result, err error) {
	var in ClInput
	if err = json.Unmarshal(raw, &in); err != nil {
		return nil, err
	}
	var s stk.Stack
	var c stk.Condition
	var other any
	var mafOn bool
	var mafCalls, mafArgs int
	var mafProblem string
	if in.Cond {
		c = stk.Cond("kw", stk.Eq, "val")
		other = c // the comparand is the instance itself: only WHO decides is observed
	} else {
		s = newStack(in.Kind, -1).Push("a", "b")
		other = s
	}
	if in.Opts&1 != 0 {
		if in.Cond {
			c.SetParen(true)
		} else {
			s.SetParen(true)
		}
	}
	if in.Opts&2 != 0 && !in.Cond {
		s.SetFold(true) // changes what the kind word looks like, never which kind it is
	}
	if in.Opts&4 != 0 {
		if in.Cond {
			c.SetNoPadding(true)
		} else {
			s.SetNoPadding(true)
		}
	}
	if in.Opts&64 != 0 {
		if in.Cond {
			c.SetEncap(`"`)
		} else {
			s.SetEncap(`"`)
		}
	}
	oddErr := func(f int) error {
		if f%2 != 0 {
			return errors.New(marker(f))
		}
		return nil
	}
	// closures with an identity >= 1000 change their own slot while they run (once):
	// identities = 0,1 mod 4 remove themselves, the others install closure (f-1000) mod 8
	// in their place.  The call in progress is answered by the closure that was
	// installed when it began; the slot then holds what the closure put there -
	// recorded for the model as a PSet right after the call.
	var pending []string
	var install func(slot, f int)
	fired := map[int]bool{}
	frozen := false // set for the closing probes: the closures then only answer
	selfmod := func(slot, f int) {
		if f < 1000 || fired[f] || frozen {
			return
		}
		fired[f] = true
		nf := -1
		ft := "None"
		if f%4 >= 2 {
			nf = (f - 1000) % 8
			ft = fmt.Sprintf("(Some %d%%N)", nf)
		}
		install(slot, nf)
		pending = append(pending, fmt.Sprintf("(PSet %d%%N %s)", slot, ft))
	}
	install = func(slot, f int) {
		switch slot {
		case 1:
			var fn stk.ValidityPolicy
			if f >= 0 {
				fn = func(...any) error { return oddErr(f) }
			}
			if in.Cond {
				c.SetValidityPolicy(fn)
			} else {
				s.SetValidityPolicy(fn)
			}
		case 2:
			var fn stk.PresentationPolicy
			if f >= 0 {
				fn = func(...any) string { return presText(f) }
			}
			if in.Cond {
				c.SetPresentationPolicy(fn)
			} else {
				s.SetPresentationPolicy(fn)
			}
		case 3:
			if f >= 0 {
				fn := stk.EqualityPolicy(func(any, any) error { return oddErr(f) })
				if in.Cond {
					c.SetEqualityPolicy(fn)
				} else {
					s.SetEqualityPolicy(fn)
				}
			} else if in.Cond {
				c.SetEqualityPolicy()
			} else {
				s.SetEqualityPolicy()
			}
		case 4:
			if f >= 0 {
				fn := stk.Unmarshaler(func(...any) ([]any, error) { selfmod(4, f); return []any{marker(f)}, oddErr(f) })
				if in.Cond {
					c.SetUnmarshaler(fn)
				} else {
					s.SetUnmarshaler(fn)
				}
			} else if in.Cond {
				c.SetUnmarshaler()
			} else {
				s.SetUnmarshaler()
			}
		case 5:
			if f >= 0 {
				s.SetMarshaler(stk.Marshaler(func(a ...any) error { mafCalls++; mafArgs = len(a); selfmod(5, f); return oddErr(f) }))
			} else {
				s.SetMarshaler()
			}
			mafOn = f >= 0
		case 6:
			var fn stk.Evaluator
			if f >= 0 {
				fn = func(...any) (any, error) { return marker(f), oddErr(f) }
			}
			c.SetEvaluator(fn)
		}
	}
	var callT, obsT []string
	var recs []any
	panicked := false
	for _, cl := range in.Calls {
		ob, rec := "", any(nil)
		func() {
			defer func() {
				if r := recover(); r != nil {
					panicked = true
					ob = "OUnit"
					rec = "panic: " + fmt.Sprint(r)
				}
			}()
			f := cl.F
			switch cl.Op {
			case "set":
				ft := "None"
				if f >= 0 {
					ft = fmt.Sprintf("(Some %d%%N)", f)
				}
				callT = append(callT, fmt.Sprintf("(PSet %d%%N %s)", cl.Slot, ft))
				ob = "OUnit"
				install(cl.Slot, f)
			case "valid":
				callT = append(callT, "PValid")
				var e error
				if in.Cond {
					e = c.Valid()
				} else {
					e = s.Valid()
				}
				ob, rec = "(OErr "+coqBool(e != nil)+")", e != nil
			case "string":
				callT = append(callT, "PString")
				var str string
				if in.Cond {
					str = c.String()
				} else {
					str = s.String()
				}
				var m int
				switch {
				case str == "":
					ob = "OEmpty"
				case func() bool {
					_, err := fmt.Sscanf(strings.TrimSpace(str), "MARK%d", &m)
					if err == nil && str != presText(m) && mafProblem == "" {
						// the closure's text is the result: nothing is trimmed, condensed or re-padded
						mafProblem = fmt.Sprintf("String() with a presentation closure installed returned %q, the closure returned %q", str, presText(m))
					}
					return err == nil && str == presText(m)
				}():
					ob = fmt.Sprintf("(OMark %d%%N false)", m)
				default:
					ob = "OBuiltin"
				}
				rec = str
			case "isequal":
				callT = append(callT, "PIsEqual")
				var e error
				if in.Cond {
					e = c.IsEqual(other)
				} else {
					e = s.IsEqual(other)
				}
				ob, rec = "(OErr "+coqBool(e != nil)+")", e != nil
			case "unmarshal":
				callT = append(callT, "PUnmarshal")
				var u []any
				var e error
				if in.Cond {
					u, e = c.Unmarshal()
				} else {
					u, e = s.Unmarshal()
				}
				var m int
				if len(u) == 1 {
					if str, ok := u[0].(string); ok {
						if _, err := fmt.Sscanf(str, "MARK%d", &m); err == nil {
							ob = fmt.Sprintf("(OMark %d%%N %s)", m, coqBool(e != nil))
						}
					}
				}
				if ob == "" {
					ob = "OBuiltin"
				}
				rec = fmt.Sprintf("%v %v", u, e)
			case "marshal":
				callT = append(callT, "PMarshal")
				// whatever the arguments are (as long as there is one), an installed
				// closure is asked, once, with those arguments
				args := []any{"AND", "x"}
				if mafOn {
					args = [][]any{{"AND", "x"}, {[]any{}}, {[]any{[]any{}}}, {nil}, {[]any(nil)}, {[]any{[]any{[]any{}}}}, {stk.Stack{}}, {7}}[cl.F%8]
				}
				before := mafCalls
				e := s.Marshal(args...)
				if mafOn && (mafCalls != before+1 || mafArgs != len(args)) && mafProblem == "" {
					mafProblem = fmt.Sprintf("Marshal(%#v) with a Marshaler installed: the closure was asked %d time(s), last with %d argument(s)", args, mafCalls-before, mafArgs)
				}
				ob, rec = "(OErr "+coqBool(e != nil)+")", e != nil
			case "evaluate":
				callT = append(callT, "PEvaluate")
				v, e := c.Evaluate(1)
				var m int
				if str, ok := v.(string); ok {
					if _, err := fmt.Sscanf(str, "MARK%d", &m); err == nil {
						ob = fmt.Sprintf("(OMark %d%%N %s)", m, coqBool(e != nil))
					}
				}
				if ob == "" {
					ob = "(OErr " + coqBool(e != nil) + ")"
				}
				rec = fmt.Sprintf("%v %v", v, e)
			case "errset":
				callT = append(callT, "PErrSet")
				var e error
				if in.Cond {
					e = c.Err()
				} else {
					e = s.Err()
				}
				ob, rec = "(OErr "+coqBool(e != nil)+")", e != nil
			}
		}()
		obsT = append(obsT, ob)
		recs = append(recs, map[string]any{"call": cl, "out": rec})
		for _, ps := range pending {
			callT = append(callT, ps)
			obsT = append(obsT, "OUnit")
		}
		pending = nil
		if panicked {
			break
		}
	}
	coq := fmt.Sprintf("(MkP %s %d%%N %s %s)", coqBool(in.Cond), kindN[in.Kind], coqList(callT), coqList(obsT))
	tags := []string{"kind:" + in.Kind}
	if in.Cond {
		tags = append(tags, "cond")
	}
	if panicked {
		tags = append(tags, "panic")
	}
	nset := 0
	for _, cl := range in.Calls {
		if cl.Op == "set" {
			nset++
		}
	}
	// read-only is about what a call may CHANGE, never about who answers: with
	// the flag set every installed closure must still be the one that decides
	invariant := mafProblem
	if !panicked {
		func() {
			defer func() {
				if r := recover(); r != nil {
					invariant = fmt.Sprintf("read-only probe panicked: %v", r)
				}
			}()
			answers := func() string {
				if in.Cond {
					u, ue := c.Unmarshal()
					ev, ee := c.Evaluate()
					return fmt.Sprintf("valid:%v string:%q isequal:%v unmarshal:%v/%v evaluate:%v/%v", c.Valid() != nil, c.String(), c.IsEqual(other) != nil, u, ue != nil, ev, ee != nil)
				}
				u, ue := s.Unmarshal()
				out := fmt.Sprintf("valid:%v string:%q isequal:%v unmarshal:%v/%v", s.Valid() != nil, s.String(), s.IsEqual(other) != nil, u, ue != nil)
				if cfg, _ := stk.VerifDump(s)["cfg"].(map[string]any); cfg != nil {
					if id, _ := cfg["maf"].(uintptr); id != 0 {
						out += fmt.Sprintf(" marshal:%v", s.Marshal("probe") != nil)
					}
				}
				return out
			}
			frozen = true
			a1 := answers()
			if in.Cond {
				c.SetReadOnly(true)
			} else {
				s.SetReadOnly(true)
			}
			a2 := answers()
			if in.Cond {
				c.SetReadOnly(false)
			} else {
				s.SetReadOnly(false)
			}
			if a1 != a2 {
				invariant = fmt.Sprintf("with the read-only flag set the closures no longer decide: %s / read-only: %s", a1, a2)
			}
			// an installed validity closure is the ONLY judge, also of an instance the
			// built-in rules would turn down (a Condition without operator, an empty Stack)
			if in.Cond && invariant == "" {
				var bare stk.Condition
				bare.Init()
				bare.SetKeyword("kw")
				bare.SetValidityPolicy(func(...any) error { return nil })
				if e := bare.Valid(); e != nil {
					invariant = fmt.Sprintf("an accepting validity closure on a Condition without operator: Valid() = %v", e)
				}
				bare.SetValidityPolicy(func(...any) error { return errors.New("no") })
				if bare.Valid() == nil && invariant == "" {
					invariant = "a rejecting validity closure on a Condition without operator: Valid() = nil"
				}
			}
		}()
	}
	return &Result{Coq: coq, Observed: recs, Tags: tags, Nontrivial: nset >= 2, Invariant: invariant}, nil
}

func genClosures(ctx *Ctx, emit func(any, string)) {
	observers := func(cond bool) []ClCall {
		if cond {
			return []ClCall{{Op: "valid"}, {Op: "string"}, {Op: "isequal"}, {Op: "unmarshal"}, {Op: "evaluate"}}
		}
		return []ClCall{{Op: "valid"}, {Op: "string"}, {Op: "isequal"}, {Op: "unmarshal"}, {Op: "errset"}}
	}
	// closures that remove or replace themselves from inside the call: the call is
	// answered by the closure, the next one by whatever it left in the slot
	for _, kind := range append([]string{"COND"}, kinds...) {
		cond := kind == "COND"
		k := kind
		if cond {
			k = ""
		}
		for f := 1000; f < 1008; f++ {
			calls := []ClCall{{Op: "set", Slot: 4, F: f}, {Op: "unmarshal"}, {Op: "unmarshal"}, {Op: "unmarshal"}, {Op: "set", Slot: 4, F: -1}, {Op: "unmarshal"}}
			emit(ClInput{Cond: cond, Kind: k, Calls: calls}, "exhaustive")
			if !cond {
				calls = []ClCall{{Op: "set", Slot: 5, F: f}, {Op: "marshal", F: 0}, {Op: "marshal", F: 1}, {Op: "marshal", F: 0}, {Op: "unmarshal"}}
				emit(ClInput{Cond: cond, Kind: k, Calls: calls}, "exhaustive")
			}
		}
	}
	// exhaustive: every single closure slot x {accepting, rejecting} installed then removed, on every kind
	for _, kind := range append([]string{"COND"}, kinds...) {
		cond := kind == "COND"
		k := kind
		if cond {
			k = ""
		}
		slots := []int{1, 2, 3, 4, 5}
		if cond {
			slots = []int{1, 2, 3, 4, 6}
		}
		for _, sl := range slots {
			for _, f := range []int{2, 3} {
				calls := append([]ClCall{}, observers(cond)...)
				calls = append(calls, ClCall{Op: "set", Slot: sl, F: f})
				calls = append(calls, observers(cond)...)
				if !cond && sl == 5 {
					for form := 0; form < 8; form++ {
						calls = append(calls, ClCall{Op: "marshal", F: form})
					}
				}
				calls = append(calls, ClCall{Op: "set", Slot: sl, F: -1})
				calls = append(calls, observers(cond)...)
				for _, opts := range []int{0, 1, 2, 5, 64} {
					emit(ClInput{Cond: cond, Kind: k, Opts: opts, Calls: calls}, "exhaustive")
				}
			}
		}
	}
	n := ctx.N(300, 8000)
	for i := 0; i < n; i++ {
		r := ctx.Rng.Fork()
		cond := r.Pct(35)
		in := ClInput{Cond: cond, Opts: []int{0, 0, 1, 2, 4, 5, 64, 65, 66}[r.Intn(9)]}
		if !cond {
			in.Kind = kinds[r.Intn(5)]
		}
		for k := r.Range(3, 12); k > 0; k-- {
			if r.Pct(45) {
				sl := 1 + r.Intn(5)
				if cond && sl == 5 {
					sl = 6
				}
				f := r.Intn(8)
				if r.Pct(25) {
					f = -1
				} else if (sl == 4 || sl == 5) && r.Pct(25) {
					f = 1000 + r.Intn(8) // a closure that removes / replaces itself while it runs
				}
				in.Calls = append(in.Calls, ClCall{Op: "set", Slot: sl, F: f})
			} else {
				obs := observers(cond)
				if !cond && r.Pct(15) {
					in.Calls = append(in.Calls, ClCall{Op: "marshal", F: r.Intn(8)})
				} else {
					in.Calls = append(in.Calls, obs[r.Intn(len(obs))])
				}
			}
		}
		emit(in, "random")
	}
}

func init() {
	register(&Family{Name: "closures", Gen: genClosures, Run: runClosures,
		Rule: "exhaustive: each closure slot (validity, presentation, equality, unmarshal, marshal; evaluator on Conditions) x {accepting, rejecting closure} installed and removed again, on all five stack kinds and on a Condition, with every observer before, between and after; random: 3-12 install/remove/observe steps. Closures are table-driven (odd identity = reports an error; results carry the identity as a marker). Observed per call: error yes/no, the marker that came back, or built-in / empty. non-trivial = >=2 install/remove steps"})
}
