package main

// Family defrag (C19): Stack.Defrag on nil/non-nil patterns -- flat, and
// nested inside Stacks and inside Condition expressions -- under scan limits
// and negative/forward index options.  Observed after the call, on every
// node reachable from the root: Len, Index(i) for every 0 <= i < Len, and
// whether Err() is nil.  Nothing else is looked at.

import (
	"encoding/json"
	"fmt"
	"math"
	"reflect"

	stk "github.com/JesseCoretta/go-stackage"
)

type DefragInput struct {
	Args []int `json:"args"` // Defrag(args...)
	Root *Node `json:"root"` // "stack" or "zstack"
}

// observeDefrag renders what Len/Index/Err (and Expression for Conditions)
// show of v as a term of type obs (coq/DefragSpec.v) and as JSON.
func observeDefrag(v any, depth int) (string, any) {
	if v == nil {
		return "ONil", nil
	}
	if depth > 400 {
		return "OOther", "too-deep"
	}
	switch tv := v.(type) {
	case string:
		return "(OLeaf (GStr " + coqBytes(tv) + "))", tv
	case int:
		return fmt.Sprintf("(OLeaf (GInt 0%%N %s))", coqZ(tv)), tv
	case bool:
		return "(OLeaf (GBool " + coqBool(tv) + "))", tv
	}
	var s stk.Stack
	var c stk.Condition
	isS, isC := true, false
	switch tv := v.(type) {
	case stk.Stack:
		s = tv
	case aStack:
		s = stk.Stack(tv)
	case *aStack:
		s = stk.Stack(*tv)
	case sStack:
		s = stk.Stack(tv)
	case *sStack:
		s = stk.Stack(*tv)
	default:
		isS = false
	}
	if !isS {
		isC = true
		switch tv := v.(type) {
		case stk.Condition:
			c = tv
		case aCond:
			c = stk.Condition(tv)
		case *aCond:
			c = stk.Condition(*tv)
		case sCond:
			c = stk.Condition(tv)
		case *sCond:
			c = stk.Condition(*tv)
		default:
			isC = false
		}
	}
	switch {
	case isS:
		if s.IsZero() {
			return "OZeroStack", "zero-stack"
		}
		n := s.Len()
		terms := make([]string, 0, n)
		recs := make([]any, 0, n)
		for i := 0; i < n; i++ {
			e, _ := s.Index(i)
			t, r := observeDefrag(e, depth+1)
			terms = append(terms, t)
			recs = append(recs, r)
		}
		errnil := s.Err() == nil
		if zs, ok := dfCompactObs(recs); ok {
			// short-hand of DefragSpecCorr.v: only nils and non-zero ints were seen
			return fmt.Sprintf("(oS %s %s)", coqBool(errnil), coqList(zs)),
				map[string]any{"len": n, "errnil": errnil, "els": recs}
		}
		return fmt.Sprintf("(OStack %s %s)", coqBool(errnil), coqList(terms)),
			map[string]any{"len": n, "errnil": errnil, "els": recs}
	case isC:
		if c.IsZero() {
			return "OZeroCond", "zero-cond"
		}
		t, r := observeDefrag(c.Expression(), depth+1)
		return "(OCond " + t + ")", map[string]any{"cond": r}
	}
	return "OOther", fmt.Sprintf("unexpected:%T", v)
}

// dfCompactObs: the observed elements as numbers (0 = nil) when only nils and
// non-zero ints were seen.
func dfCompactObs(recs []any) ([]string, bool) {
	zs := make([]string, 0, len(recs))
	for _, r := range recs {
		switch tv := r.(type) {
		case nil:
			zs = append(zs, "0")
		case int:
			if tv == 0 {
				return nil, false
			}
			zs = append(zs, coqZ(tv))
		default:
			return nil, false
		}
	}
	return zs, true
}

// dfCoq prints the input tree as a term of type value; flat native stacks of
// int leaves with a default configuration use the short-hand fS of
// DefragSpecCorr.v (same value, far fewer tokens), everything else is
// Node.Coq()'s rendering with the children printed by dfCoq.
func dfCoq(n *Node) string {
	if n == nil {
		return "VNil"
	}
	switch n.T {
	case "stack":
		if n.A == "" && n.Sym == "" && n.Delim == "" && len(n.Enc) == 0 && !n.Fifo && n.Cap == 0 && !n.PreErr {
			zs := make([]string, 0, len(n.Els))
			ok := true
			for _, e := range n.Els {
				switch {
				case e == nil || e.T == "nil":
					zs = append(zs, "0")
				case e.T == "int" && e.Ty == 0 && e.I != 0:
					zs = append(zs, coqZ64(e.I))
				default:
					ok = false
				}
				if !ok {
					break
				}
			}
			if ok {
				return fmt.Sprintf("(fS %d%%N %d%%N %s)", kindN[n.Kind], n.Opt, coqList(zs))
			}
		}
		es := make([]string, 0, len(n.Els))
		for _, e := range n.Els {
			es = append(es, dfCoq(e))
		}
		return fmt.Sprintf("(VStack %s %s %s)", coqAkind(n.A), n.CoqCfg(), coqList(es))
	case "cond":
		return fmt.Sprintf("(VCond %s %s %s %s %s)", coqAkind(n.A), n.CoqCfg(), coqBytes(n.Kw), n.Op.Coq(), dfCoq(n.Ex))
	}
	return n.Coq()
}

// shape statistics of an input tree
type dfStats struct {
	nodes, nilNodes, moveNodes, conds, depth int
	alias, ronly, mutex, zero                bool
}

func (st *dfStats) walk(n *Node, d int) {
	if n == nil {
		return
	}
	switch n.T {
	case "stack":
		st.nodes++
		if d > st.depth {
			st.depth = d
		}
		if n.A != "" {
			st.alias = true
		}
		if n.Opt&128 != 0 {
			st.ronly = true
		}
		if n.Mutex {
			st.mutex = true
		}
		seenNil, hasNil, moves := false, false, false
		for _, e := range n.Els {
			if e == nil || e.T == "nil" {
				seenNil, hasNil = true, true
			} else if seenNil {
				moves = true
			}
		}
		if hasNil {
			st.nilNodes++
		}
		if moves {
			st.moveNodes++
		}
		for _, e := range n.Els {
			st.walk(e, d+1)
		}
	case "cond":
		st.conds++
		if n.A != "" {
			st.alias = true
		}
		st.walk(n.Ex, d)
	case "zstack", "zcond":
		st.zero = true
	}
}

// nativeCondOf: the native Condition behind a value however it is typed
func nativeCondOf(v any) (stk.Condition, bool) {
	if _, lc, k := unlocal(v); k == 2 {
		return lc, lc.IsInit()
	}
	if b, d := unchain(v); d >= 2 {
		v = b
	}
	switch x := v.(type) {
	case stk.Condition:
		return x, x.IsInit()
	case aCond:
		return stk.Condition(x), stk.Condition(x).IsInit()
	case sCond:
		return stk.Condition(x), stk.Condition(x).IsInit()
	case *aCond:
		if x != nil {
			return stk.Condition(*x), stk.Condition(*x).IsInit()
		}
	case *sCond:
		if x != nil {
			return stk.Condition(*x), stk.Condition(*x).IsInit()
		}
	}
	return stk.Condition{}, false
}

// collectReadOnly: handles of every read-only Stack reachable from v
func collectReadOnly(v any, depth int, acc *[]stk.Stack) {
	if depth > 12 {
		return
	}
	if s, ok := nativeOf(v); ok {
		if s.IsReadOnly() {
			*acc = append(*acc, s)
		}
		for i := 0; i < s.Len(); i++ {
			e, _ := s.Index(i)
			collectReadOnly(e, depth+1, acc)
		}
		return
	}
	if c, ok := nativeCondOf(v); ok {
		collectReadOnly(c.Expression(), depth+1, acc)
	}
}

func runDefrag(raw json.RawMessage) (*Result, error) {
	var in DefragInput
	if err := json.Unmarshal(raw, &in); err != nil {
		return nil, err
	}
	if in.Root == nil || (in.Root.T != "stack" && in.Root.T != "zstack") {
		return nil, fmt.Errorf("defrag: root must be a stack")
	}
	var obsT string
	var obsJ any
	invariant := ""
	panicked := false
	func() {
		defer func() {
			if r := recover(); r != nil {
				panicked = true
				obsT, obsJ = "OOther", fmt.Sprintf("panic: %v", r)
			}
		}()
		var root stk.Stack
		if in.Root.T == "stack" {
			root = in.Root.BuildStack()
		}
		// read-only Stacks anywhere below a writable root: no ancestor's Defrag may touch them
		var ros []stk.Stack
		collectReadOnly(root, 0, &ros)
		var before []any
		for _, s := range ros {
			before = append(before, deepDump(s, 0))
		}
		root.Defrag(in.Args...)
		for i, s := range ros {
			if !reflect.DeepEqual(before[i], deepDump(s, 0)) && invariant == "" {
				bj, _ := json.Marshal(before[i])
				aj, _ := json.Marshal(deepDump(s, 0))
				invariant = fmt.Sprintf("Defrag changed a read-only Stack: before=%s after=%s", trunc(string(bj), 300), trunc(string(aj), 300))
			}
		}
		obsT, obsJ = observeDefrag(root, 0)
	}()
	var st dfStats
	st.walk(in.Root, 1)
	tags := map[string]bool{}
	if st.depth <= 1 && st.conds == 0 {
		tags["flat"] = true
	} else {
		tags["nested"] = true
	}
	if st.conds > 0 {
		tags["has-cond"] = true
	}
	switch {
	case len(in.Args) == 0:
		tags["limit-default"] = true
	case in.Args[0] <= 0:
		tags["limit-nonpositive"] = true
	default:
		tags[fmt.Sprintf("limit-%s", limClass(in.Args[0]))] = true
	}
	if in.Root.Opt&16 != 0 {
		tags["root-negidx"] = true
	}
	if in.Root.Opt&32 != 0 {
		tags["root-fwdidx"] = true
	}
	if st.alias {
		tags["alias"] = true
	}
	if st.ronly {
		tags["read-only-node"] = true
	}
	if st.mutex {
		tags["mutex-node"] = true
	}
	if st.zero {
		tags["zero-node"] = true
	}
	if st.nilNodes == 0 {
		tags["no-nil"] = true
	}
	if st.moveNodes > 0 {
		tags["moves"] = true
	}
	if panicked {
		tags["panicked"] = true
	}
	var args []string
	for _, a := range in.Args {
		args = append(args, coqZ(a))
	}
	coq := fmt.Sprintf("(MkCase %s %s %s %s)", coqList(args), dfCoq(in.Root), obsT, coqBool(panicked))
	return &Result{Coq: coq, Observed: obsJ, Tags: joinTags(tags), Nontrivial: st.moveNodes > 0, Invariant: invariant}, nil
}

func limClass(m int) string {
	switch {
	case m <= 9:
		return fmt.Sprintf("%d", m)
	case m < 50:
		return "10..49"
	case m == 50:
		return "50"
	}
	return ">50"
}

// ---- generators ----

var dfKinds = []string{"BASIC", "AND", "OR", "NOT", "LIST"}

func dfLeaf(id int) *Node { return &Node{T: "int", I: int64(id)} }

// dfFlat builds a stack node from a pattern (true = non-nil); leaves are the
// 1-based positions, so order and identity are visible afterwards.
func dfFlat(p []bool, kind string, opt int) *Node {
	n := &Node{T: "stack", Kind: kind, Opt: opt}
	for i, b := range p {
		if b {
			n.Els = append(n.Els, dfLeaf(i+1))
		} else {
			n.Els = append(n.Els, &Node{T: "nil"})
		}
	}
	return n
}

func dfBits(n, bits int) []bool {
	p := make([]bool, n)
	for i := 0; i < n; i++ {
		p[i] = bits>>i&1 == 1
	}
	return p
}

// random pattern with a chosen texture
func dfRandPattern(r *Rng, n int) []bool {
	p := make([]bool, n)
	switch r.Intn(5) {
	case 0: // sparse nils
		for i := range p {
			p[i] = !r.Pct(12)
		}
	case 1: // dense nils
		for i := range p {
			p[i] = r.Pct(35)
		}
	case 2: // blocks
		v := r.Bool()
		for i := 0; i < n; {
			l := 1 + r.Intn(6)
			for k := 0; k < l && i < n; k++ {
				p[i] = v
				i++
			}
			v = !v
		}
	case 3: // a non-nil prefix, then nil runs of bounded length
		k := r.Intn(n + 1)
		for i := 0; i < k; i++ {
			p[i] = true
		}
		run := 1 + r.Intn(5)
		for i := k; i < n; {
			l := r.Intn(run + 1)
			for j := 0; j < l && i < n; j++ {
				p[i] = false
				i++
			}
			if i < n {
				p[i] = true
				i++
			}
		}
	default: // no nil at all, or one nil
		for i := range p {
			p[i] = true
		}
		if n > 0 && r.Bool() {
			p[r.Intn(n)] = false
		}
	}
	return p
}

var dfAliases = []string{"", "", "", "aval", "aptr", "avalstr", "aptrstr"}

type dfGen struct {
	r      *Rng
	nextID int
}

func (g *dfGen) leaf() *Node {
	g.nextID++
	if g.r.Pct(15) {
		return &Node{T: "str", S: fmt.Sprintf("s%d", g.nextID)}
	}
	return dfLeaf(g.nextID)
}

// tree builds a stack node: nil elements, leaves, nested stacks, conditions
// (leaf, nil or stack expression), rarely zero instances.
func (g *dfGen) tree(depth, maxDepth, maxWidth int, malformed bool) *Node {
	r := g.r
	n := &Node{T: "stack", Kind: dfKinds[r.Intn(len(dfKinds))]}
	if depth > 0 {
		n.A = dfAliases[r.Intn(len(dfAliases))]
	}
	if r.Pct(15) {
		n.Opt |= 16
	}
	if r.Pct(15) {
		n.Opt |= 32
	}
	if r.Pct(4) {
		n.Opt |= 128
	}
	if r.Pct(12) {
		n.Vfail = true // Defrag asks whether the instance is initialised, not whether its policy is content
	}
	if r.Pct(10) {
		n.Mutex = true
	}
	w := r.Intn(maxWidth + 1)
	if r.Pct(8) {
		n.Cap = w + r.Intn(3)
		if n.Cap == 0 {
			n.Cap = 1
		}
	}
	nilPct := []int{0, 10, 30, 50}[r.Intn(4)]
	for i := 0; i < w; i++ {
		x := r.Intn(100)
		switch {
		case r.Pct(nilPct):
			n.Els = append(n.Els, &Node{T: "nil"})
		case x < 22 && depth < maxDepth:
			n.Els = append(n.Els, g.tree(depth+1, maxDepth, maxWidth, malformed))
		case x < 40:
			n.Els = append(n.Els, g.cond(depth, maxDepth, maxWidth, malformed))
		case x < 43 && malformed:
			n.Els = append(n.Els, &Node{T: "zstack", A: []string{"", "aval", "aptr"}[r.Intn(3)]})
		case x < 45 && malformed:
			n.Els = append(n.Els, &Node{T: "zcond", A: []string{"", "aval", "aptr"}[r.Intn(3)]})
		default:
			n.Els = append(n.Els, g.leaf())
		}
	}
	return n
}

func (g *dfGen) cond(depth, maxDepth, maxWidth int, malformed bool) *Node {
	r := g.r
	c := &Node{T: "cond", Kw: "k", Op: &OpDesc{Builtin: 1 + r.Intn(6)}, A: dfAliases[r.Intn(len(dfAliases))]}
	x := r.Intn(100)
	switch {
	case x < 55 && depth < maxDepth:
		c.Ex = g.tree(depth+1, maxDepth, maxWidth, malformed)
	case x < 62:
		c.Ex = &Node{T: "nil"}
	case x < 68 && malformed && depth < maxDepth:
		// a Condition inside a Condition (not descended into by Defrag)
		c.Ex = &Node{T: "cond", Kw: "in", Op: &OpDesc{Builtin: 1}, Ex: g.tree(depth+1, maxDepth, maxWidth, malformed)}
	default:
		c.Ex = g.leaf()
	}
	return c
}

func dfCondOf(ex *Node, a string) *Node {
	return &Node{T: "cond", Kw: "k", Op: &OpDesc{Builtin: 1}, A: a, Ex: ex}
}

func dfRandArgs(r *Rng) []int {
	switch r.Intn(12) {
	case 0, 1, 2:
		return nil
	case 3:
		return []int{-1}
	case 4:
		return []int{0}
	case 5:
		return []int{1 + r.Intn(8), 1 + r.Intn(8)} // only the first is read
	case 6:
		return []int{math.MaxInt}
	case 7:
		return []int{math.MinInt}
	case 8:
		return []int{40 + r.Intn(30)}
	}
	return []int{1 + r.Intn(12)}
}

// dfPreErr marks Stack nodes that hold at least one nil element (so Defrag has
// work to do there) and are not read-only as carrying a stale error.
func dfPreErr(n *Node, r *Rng, pct int) {
	if n == nil {
		return
	}
	if n.T == "stack" {
		hasNil := false
		for _, e := range n.Els {
			if e == nil || e.T == "nil" {
				hasNil = true
			}
			dfPreErr(e, r, pct)
		}
		if hasNil && n.Opt&128 == 0 && r.Pct(pct) {
			n.PreErr = true
		}
	}
	if n.T == "cond" {
		dfPreErr(n.Ex, r, pct)
	}
}

func dfHasRO(n *Node, root bool) bool {
	if n == nil {
		return false
	}
	if !root && n.T == "stack" && n.Opt&128 != 0 {
		return true
	}
	for _, e := range n.Els {
		if dfHasRO(e, false) {
			return true
		}
	}
	return dfHasRO(n.Ex, false)
}

// genDefragRO: the inputs of the defrag family that hold a read-only Stack below the root
func genDefragRO(ctx *Ctx, emit func(any, string)) {
	genDefrag(ctx, func(in any, src string) {
		if di, ok := in.(DefragInput); ok && di.Root != nil && di.Root.Opt&128 == 0 && dfHasRO(di.Root, true) {
			emit(in, src)
		}
	})
}

func genDefrag(ctx *Ctx, emit func(any, string)) {
	r := ctx.Rng.Fork()
	mk := func(args []int, root *Node) DefragInput { return DefragInput{Args: args, Root: root} }
	ints := func(vs ...int) *Node { // 0 = nil
		n := &Node{T: "stack", Kind: "BASIC"}
		for _, v := range vs {
			if v == 0 {
				n.Els = append(n.Els, &Node{T: "nil"})
			} else {
				n.Els = append(n.Els, dfLeaf(v))
			}
		}
		return n
	}
	// -- the witnesses of the _refuted theorems and of the known findings
	emit(mk(nil, ints(1, 2, 3, 0, 5)), "witness")
	emit(mk(nil, ints(1, 0, 2)), "witness")
	emit(mk(nil, ints(1, 0, 2, 3, 0, 0, 0, 4)), "witness")
	emit(mk([]int{3}, ints(0, 7, 0, 0, 8)), "witness")
	emit(mk([]int{6}, ints(1, 2, 3, 4, 5, 6, 0, 0, 0, 0, 0, 12)), "witness")
	emit(mk([]int{7}, ints(1, 2, 3, 4, 5, 6, 0, 0, 0, 0, 0, 12)), "witness")
	emit(mk(nil, ints(0, 0, 0, 0, 0, 9)), "witness")
	// explicit scan limits above the default of fifty, with nil runs between fifty and the limit
	for _, w := range [][3]int{{60, 55, 80}, {52, 50, 60}, {70, 3, 100}, {51, 51, 52}} {
		var vs []int
		vs = append(vs, 1)
		for k := 0; k < w[0]; k++ {
			vs = append(vs, 0)
		}
		vs = append(vs, 2)
		for k := 0; k < w[1]; k++ {
			vs = append(vs, 0)
		}
		emit(mk([]int{w[2]}, ints(vs...)), "witness")
		emit(mk([]int{w[2]}, &Node{T: "stack", Kind: "AND", Els: []*Node{ints(vs...), dfLeaf(5)}}), "witness")
	}
	{
		n := ints(0, 0, 0, 0, 0, 9)
		n.Opt = 32
		emit(mk(nil, n), "witness")
		root := &Node{T: "stack", Kind: "BASIC", Els: []*Node{dfCondOf(ints(0, 0, 0, 0, 0, 9), "")}}
		emit(mk(nil, root), "witness")
		root2 := &Node{T: "stack", Kind: "BASIC", Els: []*Node{dfCondOf(ints(0, 0, 0, 0, 0, 9), ""), ints(1)}}
		emit(mk(nil, root2), "witness")
	}
	// -- a validity policy that fails (because of the gaps, say) on the receiver, on a
	// nested Stack, on a Stack held by a Condition: Defrag compacts all the same
	{
		frag := func(v bool) *Node {
			n := ints(1, 0, 0, 2, 0, 0, 0, 3)
			n.Vfail = v
			return n
		}
		emit(mk(nil, frag(true)), "witness")
		emit(mk(nil, &Node{T: "stack", Kind: "AND", Els: []*Node{frag(true), dfLeaf(5), frag(false)}}), "witness")
		emit(mk(nil, &Node{T: "stack", Kind: "AND", Vfail: true, Els: []*Node{dfCondOf(frag(true), ""), frag(true)}}), "witness")
	}
	// -- length is no limit: five single gaps in 4300 / 6000 elements (layouts on which
	// the truncation formula is right: last element non-nil)
	for _, total := range []int{4300, 6000} {
		if total > 5000 && ctx.Quick() {
			continue
		}
		vs := make([]int, total)
		for i := range vs {
			vs[i] = 1 + i%9
		}
		for g := 0; g < 5; g++ {
			vs[5+10*g] = 0 // the first gap lies before the scan limit
		}
		emit(mk(nil, ints(vs...)), "witness")
	}
	// -- depth is no limit: a fragmented Stack at the bottom of chains of 49..80 nested Stacks
	for _, depth := range []int{49, 50, 51, 52, 60, 80} {
		n := ints(1, 0, 0, 2, 0, 0, 0, 3)
		for d := 0; d < depth; d++ {
			n = &Node{T: "stack", Kind: dfKinds[d%len(dfKinds)], Els: []*Node{dfLeaf(4 + d%5), n}}
		}
		emit(mk(nil, n), "witness")
	}
	// -- exhaustive: every pattern up to the tier's length x limits x index options
	maxLen := 9
	if !ctx.Quick() {
		maxLen = 12
	}
	limits := [][]int{nil, {2}, {5}}
	k := 0
	for n := 0; n <= maxLen; n++ {
		for bits := 0; bits < 1<<n; bits++ {
			p := dfBits(n, bits)
			for _, lim := range limits {
				for _, opt := range []int{0, 16, 32, 48} {
					k++
					kind := "BASIC"
					if k%7 == 0 {
						kind = dfKinds[(k/7)%len(dfKinds)]
					}
					fl := dfFlat(p, kind, opt)
					fl.Fifo = k%5 == 0 // the ordering mode is about Pop only
					emit(mk(lim, fl), "exhaustive")
				}
			}
		}
	}
	// -- a stale error stored before Defrag: every pattern up to length 6
	for n := 1; n <= 6; n++ {
		for bits := 0; bits < 1<<n; bits++ {
			root := dfFlat(dfBits(n, bits), "BASIC", 0)
			dfPreErr(root, r, 100)
			if root.PreErr {
				emit(mk(nil, root), "exhaustive")
			}
		}
	}
	// -- random longer patterns
	for i := ctx.N(600, 12000); i > 0; i-- {
		n := 13 + r.Intn(50)
		if r.Pct(10) {
			n = 60 + r.Intn(60)
		}
		opt := 0
		if r.Pct(25) {
			opt |= 16
		}
		if r.Pct(25) {
			opt |= 32
		}
		root := dfFlat(dfRandPattern(r, n), dfKinds[r.Intn(len(dfKinds))], opt)
		if r.Pct(10) {
			root.Mutex = true
		}
		root.Fifo = r.Pct(25)
		emit(mk(dfRandArgs(r), root), "random")
	}
	// -- nesting, structured: a pattern placed inside a Stack, inside a
	//    Condition, next to a sibling Stack, and two levels deep
	for i := ctx.N(400, 6000); i > 0; i-- {
		n := r.Intn(9)
		p := dfRandPattern(r, n)
		if r.Bool() {
			p = dfBits(n, r.Intn(1<<n))
		}
		opt := []int{0, 0, 16, 32, 48}[r.Intn(5)]
		inner := dfFlat(p, dfKinds[r.Intn(len(dfKinds))], opt)
		inner.A = dfAliases[r.Intn(len(dfAliases))]
		inner.Fifo = r.Pct(25)
		if r.Pct(15) {
			inner.Opt |= 128 // read-only: no ancestor's Defrag may touch it, however it is reached
		}
		a := dfAliases[r.Intn(len(dfAliases))]
		root := &Node{T: "stack", Kind: dfKinds[r.Intn(len(dfKinds))], Opt: []int{0, 0, 16, 32}[r.Intn(4)]}
		q := dfRandPattern(r, r.Intn(7))
		sib := dfFlat(q, "BASIC", 0)
		for j := range sib.Els {
			if sib.Els[j].T == "int" {
				sib.Els[j].I += 100
			}
		}
		switch r.Intn(7) {
		case 0:
			root.Els = []*Node{inner}
		case 1:
			root.Els = []*Node{dfCondOf(inner, a)}
		case 2:
			root.Els = []*Node{dfCondOf(inner, a), sib}
		case 3:
			root.Els = []*Node{dfLeaf(900), {T: "nil"}, inner, {T: "nil"}, dfCondOf(sib, a), dfLeaf(901)}
		case 4: // the inner pattern hosts a nested stack at each third non-nil place
			for j, e := range inner.Els {
				if e.T == "int" && j%3 == 0 {
					inner.Els[j] = sib
				}
			}
			root.Els = []*Node{{T: "nil"}, inner}
		case 5:
			mid := &Node{T: "stack", Kind: "AND", Els: []*Node{{T: "nil"}, dfCondOf(inner, a), {T: "nil"}, sib}}
			root.Els = []*Node{mid, {T: "nil"}, dfLeaf(902)}
		default:
			root.Els = []*Node{{T: "nil"}, dfLeaf(903), dfCondOf(inner, a)}
		}
		if r.Pct(30) {
			dfPreErr(root, r, 60)
		}
		if r.Pct(20) {
			// no-nesting switched on after the nested values are in: it governs
			// later pushes only, Defrag must still descend
			root.Opt |= 256
			if len(root.Els) > 0 && root.Els[0] != nil && root.Els[0].T == "stack" && r.Bool() {
				root.Els[0].Opt |= 256
			}
		}
		emit(mk(dfRandArgs(r), root), "random")
	}
	// -- nesting, random trees (mostly valid) and a malformed stream
	for i := ctx.N(500, 8000); i > 0; i-- {
		g := &dfGen{r: r}
		malformed := r.Pct(15)
		root := g.tree(0, 1+r.Intn(3), 2+r.Intn(6), malformed)
		in := mk(dfRandArgs(r), root)
		src := "random"
		if malformed {
			src = "malformed"
			if r.Pct(10) {
				in.Root = &Node{T: "zstack"}
			}
		}
		emit(in, src)
	}
}

func init() {
	register(&Family{Name: "defragro", Gen: genDefragRO, Run: runDefrag,
		Rule: "the nesting part of the defrag family (structured and random trees with read-only nodes, 15% of the inner stacks read-only, held directly or as a Condition's expression) run for its harness invariant only: every read-only Stack reachable from the root is dumped (whole hidden state) through its own handle before and after root.Defrag and must be identical. non-trivial = some node has to move"})
	register(&Family{Name: "defrag", Gen: genDefrag, Run: runDefrag,
		Rule: "witnesses of the refuted theorems; ALL nil/non-nil patterns of length 0..9 (quick) / 0..12 (thorough) x limit {default,2,5} x {none,negative,forward,both} index options; random patterns of length 13..120 (5 textures) x random limits (default, <=0, 1..12, 40..69, MaxInt, MinInt, two arguments); patterns nested in Stacks / Condition expressions / aliases (7 shapes); random trees depth<=4 with nil elements, read-only, mutex, capacity, alias nodes, plus a malformed stream (zero Stack/Condition elements, Condition in Condition, zero root). Non-trivial = some Stack node holds a non-nil element after a nil one (a relocation must happen)."})
}
