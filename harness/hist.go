package main

// Families over the list core (StackImpl.v / StackSpec.v):
//   hist        C01/C03  random + exhaustive operation histories
//   indexsweep  C08      every int-taking method x boundary index values
//   nesting     C13      push batches mixing stacks/aliases with no-nesting switching
//   policy      C14      push policies (table driven, call log recorded)
// They share one input type, one runner and one Coq case shape.

import (
	"encoding/json"
	"errors"
	"fmt"
	"math"
	"reflect"
	"strings"

	stk "github.com/JesseCoretta/go-stackage"
)

// element codes: 0 = nil, n>0 = int n, n<0 = the nested stack number -n
// (native for odd n, alias value for -n%4==2, pointer to alias for -n%4==0)

type HOp struct {
	Op string `json:"op"`
	Vs []int  `json:"vs,omitempty"`
	I  int    `json:"i,omitempty"`
	J  int    `json:"j,omitempty"`
	T  int    `json:"t,omitempty"` // tri-state for setopt: 0 toggle, 1 true, 2 false
}

type HistInput struct {
	Kind string `json:"kind"`
	Cap  int    `json:"cap"` // <0: constructor called without capacity
	Ops  []HOp  `json:"ops"`
	Obs  bool   `json:"obs"` // observe everything after every mutator
	// Noise: settings that have nothing to say about the list behaviour, applied
	// right after construction: 1 mutex, 2 id+category, 4 symbol+delimiter,
	// 8 encapsulation, 16 log levels, 32 a validity policy that fails, 64 one that
	// fails while the length is odd
	Noise int `json:"noise,omitempty"`
}

func applyNoise(s stk.Stack, noise int) {
	if noise&1 != 0 {
		s.SetMutex()
	}
	if noise&2 != 0 {
		s.SetID("noise").SetCategory("cat")
	}
	if noise&4 != 0 {
		s.SetSymbol("&&").SetDelimiter(";")
	}
	if noise&8 != 0 {
		s.SetEncap("'").SetEncap([]string{"[", "]"})
	}
	if noise&16 != 0 {
		s.SetLogLevel("DEBUG", 4)
	}
	if noise&32 != 0 {
		s.SetValidityPolicy(func(...any) error { return errors.New("noise: not valid") })
	} else if noise&64 != 0 {
		s.SetValidityPolicy(func(...any) error {
			if s.Len()%2 == 1 {
				return errors.New("noise: odd length")
			}
			return nil
		})
	}
}

type aliasStack stk.Stack

var kindN = map[string]int{"AND": 1, "OR": 2, "NOT": 3, "LIST": 4, "BASIC": 6}
var kinds = []string{"AND", "OR", "NOT", "LIST", "BASIC"}

func newStack(kind string, capacity int) stk.Stack {
	var c []int
	if capacity >= 0 {
		c = []int{capacity}
	}
	switch kind {
	case "AND":
		return stk.And(c...)
	case "OR":
		return stk.Or(c...)
	case "NOT":
		return stk.Not(c...)
	case "LIST":
		return stk.List(c...)
	}
	return stk.Basic(c...)
}

var optFlag = map[string]int{"paren": 1, "fold": 2, "nopad": 4, "leadonce": 8, "neg": 16, "fwd": 32, "ronly": 128, "nonest": 256}

type histRun struct {
	s         stk.Stack
	nested    map[int]any
	plog      []int
	lastRej   string // the error the push policy returned during the current Push, if any
	invariant string
}

// sameValue: identity for the values a history hands to Push (ints, nil,
// strings, Stack handles and pointers to aliases)
func sameValue(a, b any) bool {
	if a == nil || b == nil {
		return a == nil && b == nil
	}
	ra, rb := reflect.ValueOf(a), reflect.ValueOf(b)
	if ra.Type() != rb.Type() {
		return false
	}
	switch ra.Kind() {
	case reflect.Ptr:
		return ra.Pointer() == rb.Pointer()
	case reflect.Struct:
		return reflect.DeepEqual(a, b)
	}
	return a == b
}

func (h *histRun) val(code int) any {
	switch {
	case code == 0:
		return nil
	case code >= condCodeBase:
		// a Condition whose expression is a Stack: an ordinary value for the list
		// (it is not a Stack, whatever it holds)
		if v, ok := h.nested[code]; ok {
			return v
		}
		v := stk.Cond("k", stk.Eq, stk.Basic().Push("held")).SetID(fmt.Sprintf("c%d", code))
		h.nested[code] = v
		return v
	case code == typedNilCode:
		return (*int)(nil) // a nil pointer with a type: a value like any other, not the nil slice
	case code == deepPtrCode:
		if v, ok := h.nested[code]; ok {
			return v
		}
		v := ptrChain(7, 9) // nine pointer levels in front of an int: no Stack, however deep
		h.nested[code] = v
		return v
	case code > 0:
		return code
	}
	if v, ok := h.nested[code]; ok {
		return v
	}
	inner := stk.Basic().SetID(fmt.Sprintf("s%d", -code)).Push(fmt.Sprintf("in%d", -code))
	var v any = inner
	switch (-code) % 4 {
	case 2:
		v = aliasStack(inner)
	case 0:
		a := aliasStack(inner)
		v = &a
	}
	h.nested[code] = v
	return v
}

func (h *histRun) code(v any) (string, any) {
	if v == nil {
		return "(SVal ENil)", nil
	}
	if c, ok := v.(stk.Condition); ok {
		var n int
		fmt.Sscanf(c.ID(), "c%d", &n)
		return fmt.Sprintf("(SVal (EV %s))", coqZ(n)), fmt.Sprintf("cond#%d", n)
	}
	switch tv := v.(type) {
	case int:
		return fmt.Sprintf("(SVal (EV %s))", coqZ(tv)), tv
	case *int:
		if tv == nil {
			return fmt.Sprintf("(SVal (EV %d))", typedNilCode), "(*int)(nil)"
		}
	}
	if b, d := unchain(v); d == 9 {
		if _, isInt := b.(int); isInt {
			return fmt.Sprintf("(SVal (EV %d))", deepPtrCode), "*********int"
		}
	}
	if s, ok := stk.ConvertStack(v); ok {
		var n int
		fmt.Sscanf(s.ID(), "s%d", &n)
		return fmt.Sprintf("(SVal (ES %d))", n), fmt.Sprintf("stack#%d", n)
	}
	t := fmt.Sprintf("%T", v)
	if strings.Contains(t, "nodeConfig") {
		return "(SCfg leak_cfg)", "CONFIG-RECORD-LEAKED"
	}
	return "(SVal (EV (-999)))", "unexpected:" + t
}

func triArgs(t int) []bool {
	switch t {
	case 1:
		return []bool{true}
	case 2:
		return []bool{false}
	}
	return nil
}

func coqTri(t int) string {
	switch t {
	case 1:
		return "(Some true)"
	case 2:
		return "(Some false)"
	}
	return "None"
}

// value codes >= condCodeBase stand for Conditions holding a Stack
const condCodeBase = 5000

func codeTerm(c int) string {
	switch {
	case c == 0:
		return "ENil"
	case c > 0:
		return fmt.Sprintf("(EV %d)", c)
	}
	return fmt.Sprintf("(ES %d)", -c)
}

// policy p (a bit mask): rejects int n iff bit n%16 is set, nil iff bit 0,
// stacks iff bit 15; the error text carries the rejected code
func (h *histRun) policy(p int) stk.PushPolicy {
	return func(x ...any) error {
		// the argument list is the policy's own: whatever it does with it (here: it is
		// overwritten on the way out) is nobody else's business
		defer func() {
			for i := range x {
				x[i] = "SCRIBBLED-BY-POLICY"
			}
		}()
		var c int
		if len(x) == 1 {
			switch tv := x[0].(type) {
			case nil:
				c = 0
			case int:
				c = tv
			case *int:
				c = typedNilCode
			case *********int:
				c = deepPtrCode
			case stk.Condition:
				fmt.Sscanf(tv.ID(), "c%d", &c)
			default:
				if s, ok := stk.ConvertStack(tv); ok {
					var n int
					fmt.Sscanf(s.ID(), "s%d", &n)
					c = -n
				}
			}
		}
		h.plog = append(h.plog, c)
		bit := 15
		if c >= 0 {
			bit = c % 16
		}
		if p&(1<<bit) != 0 {
			h.lastRej = fmt.Sprintf("rejected %d", c)
			return fmt.Errorf("rejected %d", c)
		}
		return nil
	}
}

// exec runs one op; returns the Coq op term, the Coq output term and a
// JSON-able record of the output.
func (h *histRun) exec(o HOp) (outT string, rec any) {
	s := h.s
	rv := func(v any, ok bool) (string, any) {
		t, j := h.code(v)
		return fmt.Sprintf("(RVal %s %s)", t, coqBool(ok)), []any{j, ok}
	}
	switch o.Op {
	case "push":
		var vs []any
		for _, c := range o.Vs {
			vs = append(vs, h.val(c))
		}
		h.plog = nil
		// handed over as a window onto a larger array, as a caller slicing its
		// own buffer would: neither the window nor the array behind it is the
		// library's to rewrite
		buf := make([]any, len(vs)+2)
		copy(buf, vs)
		buf[len(vs)], buf[len(vs)+1] = "guard-1", "guard-2"
		keep := append([]any{}, buf...)
		h.lastRej = ""
		s.Push(buf[:len(vs)]...)
		// a rejection is reported through Err(): the error of THIS batch, whatever was stored before
		if h.lastRej != "" && h.invariant == "" {
			if e := s.Err(); e == nil || e.Error() != h.lastRej {
				h.invariant = fmt.Sprintf("the push policy returned %q for this batch, Err() shows %v", h.lastRej, e)
			}
		}
		for i := range buf {
			if !sameValue(buf[i], keep[i]) {
				h.invariant = fmt.Sprintf("Push rewrote the caller's argument slice at position %d of %d", i, len(vs))
			}
		}
		var lt []string
		for _, c := range h.plog {
			lt = append(lt, codeTerm(c))
		}
		return "(RLog " + coqList(lt) + ")", h.plog
	case "pop":
		v, ok := s.Pop()
		t, j := rv(v, ok)
		return t, j
	case "insert":
		ok := s.Insert(h.val(o.Vs[0]), o.I)
		return "(RBool " + coqBool(ok) + ")", ok
	case "remove":
		v, ok := s.Remove(o.I)
		t, j := rv(v, ok)
		return t, j
	case "replace":
		ok := s.Replace(h.val(o.Vs[0]), o.I)
		return "(RBool " + coqBool(ok) + ")", ok
	case "swap":
		s.Swap(o.I, o.J)
		return "RUnit", nil
	case "reverse":
		s.Reverse()
		return "RUnit", nil
	case "reset":
		s.Reset()
		return "RUnit", nil
	case "setfifo":
		s.SetFIFO(o.I != 0)
		return "RUnit", nil
	case "setopt":
		a := triArgs(o.T)
		switch o.I {
		case 1:
			s.SetParen(a...)
		case 2:
			s.SetFold(a...)
		case 4:
			s.SetNoPadding(a...)
		case 8:
			s.SetLeadOnce(a...)
		case 16:
			s.SetNegativeIndices(a...)
		case 32:
			s.SetForwardIndices(a...)
		case 128:
			s.SetReadOnly(a...)
		case 256:
			s.SetNoNesting(a...)
		}
		return "RUnit", nil
	case "setpolicy":
		if o.I < 0 {
			s.SetPushPolicy(nil)
			return "RUnit", nil
		}
		s.SetPushPolicy(h.policy(o.I))
		return "RUnit", nil
	case "len":
		n := s.Len()
		return "(RInt " + coqZ(n) + ")", n
	case "index":
		v, ok := s.Index(o.I)
		t, j := rv(v, ok)
		return t, j
	case "front":
		v, ok := s.Front()
		t, j := rv(v, ok)
		return t, j
	case "back":
		v, ok := s.Back()
		t, j := rv(v, ok)
		return t, j
	case "isempty":
		b := s.IsEmpty()
		return "(RBool " + coqBool(b) + ")", b
	case "cap":
		n := s.Cap()
		return "(RInt " + coqZ(n) + ")", n
	case "avail":
		n := s.Avail()
		return "(RInt " + coqZ(n) + ")", n
	case "isfull":
		b := s.IsFull()
		if s.CapReached() != b && h.invariant == "" {
			h.invariant = fmt.Sprintf("CapReached() = %v, IsFull() = %v: the deprecated spelling answers differently", !b, b)
		}
		return "(RBool " + coqBool(b) + ")", b
	case "cannest":
		b := s.CanNest()
		return "(RBool " + coqBool(b) + ")", b
	case "isnesting":
		b := s.IsNesting()
		return "(RBool " + coqBool(b) + ")", b
	case "isfifo":
		b := s.IsFIFO()
		return "(RBool " + coqBool(b) + ")", b
	case "getopt":
		var b bool
		switch o.I {
		case 1:
			b = s.IsParen()
		case 4:
			b = !s.IsPadded()
		case 128:
			b = s.IsReadOnly()
		}
		return "(RBool " + coqBool(b) + ")", b
	case "errisnil":
		b := s.Err() == nil
		return "(RBool " + coqBool(b) + ")", b
	}
	panic("unknown op " + o.Op)
}

var mutators = map[string]bool{"push": true, "pop": true, "insert": true, "remove": true, "replace": true,
	"swap": true, "reverse": true, "reset": true}

func runHist(raw json.RawMessage) (res *Result, err error) {
	var in HistInput
	if err = json.Unmarshal(raw, &in); err != nil {
		return nil, err
	}
	h := &histRun{s: newStack(in.Kind, in.Cap), nested: map[int]any{}}
	applyNoise(h.s, in.Noise)
	var opTs, outTs []string
	var recs []any
	tags := map[string]bool{}
	panicked := false
	mutKinds := map[string]bool{}
	nmut := 0
	step := func(o HOp) (ok bool) {
		defer func() {
			if r := recover(); r != nil {
				panicked = true
				ok = false
				tags["panic"] = true
				recs = append(recs, map[string]any{"op": o, "panic": fmt.Sprint(r)})
			}
		}()
		opTs = append(opTs, opTerm(o))
		outT, rec := h.exec(o)
		outTs = append(outTs, outT)
		recs = append(recs, map[string]any{"op": o, "out": rec})
		return true
	}
	observe := func() bool {
		n := 0
		func() {
			defer func() { recover() }()
			n = h.s.Len()
		}()
		obs := []HOp{{Op: "len"}}
		for i := 0; i < n && i < 64; i++ {
			obs = append(obs, HOp{Op: "index", I: i})
		}
		obs = append(obs, HOp{Op: "front"}, HOp{Op: "back"}, HOp{Op: "isempty"}, HOp{Op: "cap"}, HOp{Op: "avail"}, HOp{Op: "isfull"})
		for _, o := range obs {
			if !step(o) {
				return false
			}
		}
		return true
	}
	for _, o := range in.Ops {
		tags["op:"+o.Op] = true
		if o.Op == "push" {
			for _, c := range o.Vs {
				if c == 0 {
					tags["nilpush"] = true
				}
				if c < 0 {
					tags["stackpush"] = true
				}
			}
		}
		if !step(o) {
			break
		}
		if mutators[o.Op] {
			nmut++
			mutKinds[o.Op] = true
			if in.Obs && !observe() {
				break
			}
		}
	}
	if in.Cap > 0 {
		tags["cap"] = true
	}
	tags["kind:"+in.Kind] = true
	var tl []string
	for t := range tags {
		tl = append(tl, t)
	}
	capT := "None"
	if in.Cap >= 0 {
		capT = "(Some " + coqZ(in.Cap) + ")"
	}
	coq := fmt.Sprintf("(MkH %d%%N %s %s %s %s)", kindN[in.Kind], capT, coqList(opTs), coqList(outTs), coqBool(panicked))
	return &Result{Coq: coq, Observed: recs, Tags: tl, Nontrivial: nmut >= 3 && len(mutKinds) >= 2, Invariant: h.invariant}, nil
}

// opTerm renders an op as a Coq term (pure).
func opTerm(o HOp) string {
	v0 := "ENil"
	if len(o.Vs) > 0 {
		v0 = codeTerm(o.Vs[0])
	}
	switch o.Op {
	case "push":
		var ts []string
		for _, c := range o.Vs {
			ts = append(ts, codeTerm(c))
		}
		return "(OPush " + coqList(ts) + ")"
	case "pop":
		return "OPop"
	case "insert":
		return fmt.Sprintf("(OInsert %s %s)", v0, coqZ(o.I))
	case "remove":
		return fmt.Sprintf("(ORemove %s)", coqZ(o.I))
	case "replace":
		return fmt.Sprintf("(OReplace %s %s)", v0, coqZ(o.I))
	case "swap":
		return fmt.Sprintf("(OSwap %s %s)", coqZ(o.I), coqZ(o.J))
	case "reverse":
		return "OReverse"
	case "reset":
		return "OReset"
	case "setfifo":
		return "(OSetFIFO " + coqBool(o.I != 0) + ")"
	case "setopt":
		return fmt.Sprintf("(OSetOpt %d%%N %s)", o.I, coqTri(o.T))
	case "setpolicy":
		if o.I < 0 {
			return "(OSetPolicy None)"
		}
		return fmt.Sprintf("(OSetPolicy (Some %d%%N))", o.I)
	case "len":
		return "OLen"
	case "index":
		return fmt.Sprintf("(OIndex %s)", coqZ(o.I))
	case "front":
		return "OFront"
	case "back":
		return "OBack"
	case "isempty":
		return "OIsEmpty"
	case "cap":
		return "OCap"
	case "avail":
		return "OAvail"
	case "isfull":
		return "OIsFull"
	case "cannest":
		return "OCanNest"
	case "isnesting":
		return "OIsNesting"
	case "isfifo":
		return "OIsFIFO"
	case "getopt":
		return fmt.Sprintf("(OGetOpt %d%%N)", o.I)
	case "errisnil":
		return "OErrIsNil"
	}
	panic("unknown op " + o.Op)
}

// ---------------------------------------------------------------------------
// generators

// typedNilCode: the element code of (*int)(nil); deepPtrCode: of a *********int
const typedNilCode = 4999
const deepPtrCode = 4998

func randVal(r *Rng, stacks bool) int {
	switch x := r.Intn(100); {
	case x < 13:
		return 0
	case x < 14:
		return typedNilCode
	case x < 15:
		return deepPtrCode
	case stacks && x < 27:
		return -(1 + r.Intn(8))
	case stacks && x < 33:
		return condCodeBase + r.Intn(4)
	}
	return 1 + r.Intn(9)
}

func randIndex(r *Rng, n int) int {
	if r.Pct(3) {
		return []int{math.MinInt, math.MinInt + 1, math.MaxInt, math.MaxInt - 1}[r.Intn(4)]
	}
	return r.Range(-n-2, n+2)
}

// bigCaps: a limit is a limit at every size
var bigCaps = []int{127, 255, 256, 4096, 65535, 65536, 70000}

func randHist(r *Rng, maxOps int, stacks bool) HistInput {
	in := HistInput{Kind: kinds[r.Intn(5)], Cap: -1, Obs: true}
	if r.Pct(55) {
		in.Cap = r.Range(0, 6)
	} else if r.Pct(6) {
		in.Cap = bigCaps[r.Intn(len(bigCaps))]
	}
	if r.Pct(40) {
		in.Ops = append(in.Ops, HOp{Op: "setfifo", I: 1})
	}
	if r.Pct(35) {
		in.Ops = append(in.Ops, HOp{Op: "setopt", I: 16, T: 1})
	}
	if r.Pct(35) {
		in.Ops = append(in.Ops, HOp{Op: "setopt", I: 32, T: 1})
	}
	n := 0 // rough length estimate for index generation
	k := r.Range(1, maxOps)
	for i := 0; i < k; i++ {
		x := r.Intn(100)
		switch {
		case x < 22:
			m := r.Range(1, 4)
			if in.Cap > 0 && in.Cap <= 300 && r.Pct(30) {
				m = r.Range(in.Cap-1, in.Cap+2)
				if m < 1 {
					m = 1
				}
			}
			var vs []int
			for j := 0; j < m; j++ {
				vs = append(vs, randVal(r, stacks))
			}
			in.Ops = append(in.Ops, HOp{Op: "push", Vs: vs})
			n += m
		case x < 32:
			in.Ops = append(in.Ops, HOp{Op: "pop"})
			if n > 0 {
				n--
			}
		case x < 44:
			in.Ops = append(in.Ops, HOp{Op: "insert", Vs: []int{randVal(r, stacks)}, I: randIndex(r, n)})
			n++
		case x < 54:
			in.Ops = append(in.Ops, HOp{Op: "remove", I: randIndex(r, n)})
		case x < 62:
			in.Ops = append(in.Ops, HOp{Op: "replace", Vs: []int{randVal(r, stacks)}, I: randIndex(r, n)})
		case x < 70:
			in.Ops = append(in.Ops, HOp{Op: "swap", I: randIndex(r, n), J: randIndex(r, n)})
		case x < 75:
			in.Ops = append(in.Ops, HOp{Op: "reverse"})
		case x < 78:
			in.Ops = append(in.Ops, HOp{Op: "reset"})
			n = 0
		case x < 80:
			in.Ops = append(in.Ops, HOp{Op: "setfifo", I: r.Intn(2)})
		case x < 84:
			in.Ops = append(in.Ops, HOp{Op: "setopt", I: []int{16, 32}[r.Intn(2)], T: r.Intn(3)})
		case x < 92:
			in.Ops = append(in.Ops, HOp{Op: "index", I: randIndex(r, n)})
		case x < 94:
			in.Ops = append(in.Ops, HOp{Op: "front"})
		case x < 96:
			in.Ops = append(in.Ops, HOp{Op: "back"})
		default:
			in.Ops = append(in.Ops, HOp{Op: []string{"len", "isempty", "cap", "avail", "isfull"}[r.Intn(5)]})
		}
	}
	if r.Pct(40) {
		in.Noise = 1 + r.Intn(127)
	}
	return in
}

var histAlphabet = []HOp{
	{Op: "push", Vs: []int{1}}, {Op: "push", Vs: []int{0, 2}}, {Op: "pop"},
	{Op: "insert", Vs: []int{9}, I: 0}, {Op: "insert", Vs: []int{9}, I: 1}, {Op: "insert", Vs: []int{9}, I: 7},
	{Op: "remove", I: 0}, {Op: "remove", I: 1}, {Op: "replace", Vs: []int{8}, I: 0},
	{Op: "swap", I: 0, J: 1}, {Op: "reverse"}, {Op: "reset"}, {Op: "setfifo", I: 1},
}

func genHist(ctx *Ctx, emit func(any, string)) {
	depth := 2
	if !ctx.Quick() {
		depth = 3
	}
	// exhaustive: every history of length <= depth over the alphabet, from
	// stacks of length 0..3, with and without a capacity of 4
	var rec func(prefix []HOp, d int)
	inits := [][]int{{}, {1}, {1, 0}, {1, 2, 3}}
	rec = func(prefix []HOp, d int) {
		if len(prefix) > 0 {
			for _, init := range inits {
				for _, cp := range []int{-1, 4} {
					in := HistInput{Kind: "AND", Cap: cp, Obs: true}
					if len(init) > 0 {
						in.Ops = append(in.Ops, HOp{Op: "push", Vs: init})
					}
					in.Ops = append(in.Ops, prefix...)
					emit(in, "exhaustive")
				}
			}
		}
		if d == 0 {
			return
		}
		for _, o := range histAlphabet {
			rec(append(append([]HOp{}, prefix...), o), d-1)
		}
	}
	rec(nil, depth)
	// long stacks: a batch of 1200 values in one Push (with and without a limit of
	// 1000), then every mutator far from the ends
	for _, cp := range []int{-1, 1000} {
		for _, fifo := range []int{0, 1} {
			batch := make([]int, 1200)
			for i := range batch {
				batch[i] = 1 + i%9
			}
			probe := []HOp{{Op: "len"}, {Op: "index", I: 0}, {Op: "index", I: 600}, {Op: "index", I: 999}, {Op: "index", I: 1199},
				{Op: "front"}, {Op: "back"}, {Op: "cap"}, {Op: "avail"}, {Op: "isfull"}}
			in := HistInput{Kind: "OR", Cap: cp}
			if fifo == 1 {
				in.Ops = append(in.Ops, HOp{Op: "setfifo", I: 1})
			}
			in.Ops = append(in.Ops, HOp{Op: "push", Vs: batch})
			in.Ops = append(in.Ops, probe...)
			for _, m := range []HOp{{Op: "pop"}, {Op: "pop"}, {Op: "insert", Vs: []int{77}, I: 700}, {Op: "remove", I: 950}, {Op: "replace", Vs: []int{88}, I: 900},
				{Op: "swap", I: 3, J: 940}, {Op: "reverse"}, {Op: "push", Vs: []int{5, 6, 7}}, {Op: "remove", I: 0}} {
				in.Ops = append(in.Ops, m)
				in.Ops = append(in.Ops, probe...)
			}
			in.Ops = append(in.Ops, HOp{Op: "reset"}, HOp{Op: "len"}, HOp{Op: "cap"}, HOp{Op: "push", Vs: []int{1}}, HOp{Op: "len"})
			emit(in, "exhaustive")
		}
	}
	// long runs of nil elements at either end (Front / Back look past them, however long)
	for _, run := range []int{49, 50, 51, 64, 130} {
		nils := make([]int, run)
		for _, fifo := range []int{0, 1} {
			in := HistInput{Kind: "BASIC", Cap: -1, Obs: true}
			if fifo == 1 {
				in.Ops = append(in.Ops, HOp{Op: "setfifo", I: 1})
			}
			in.Ops = append(in.Ops, HOp{Op: "push", Vs: []int{7}}, HOp{Op: "push", Vs: nils}, HOp{Op: "reverse"},
				HOp{Op: "push", Vs: []int{8}}, HOp{Op: "push", Vs: nils}, HOp{Op: "pop"})
			emit(in, "exhaustive")
		}
	}
	for _, cp := range bigCaps {
		for _, k := range kinds {
			emit(HistInput{Kind: k, Cap: cp, Obs: true, Ops: []HOp{{Op: "push", Vs: []int{1, 2}}, {Op: "pop"}, {Op: "push", Vs: []int{3}}, {Op: "insert", I: 0, Vs: []int{4}}}}, "exhaustive")
		}
	}
	n := ctx.N(400, 20000)
	for i := 0; i < n; i++ {
		emit(randHist(ctx.Rng.Fork(), 40, true), "random")
	}
}

// indexsweep: every int-taking method x boundary index values x lengths 0..4
// x index options x LIFO/FIFO; full observation after each call
func genIndexSweep(ctx *Ctx, emit func(any, string)) {
	for L := 0; L <= 4; L++ {
		idx := []int{math.MinInt, math.MinInt + 1, math.MaxInt - 1, math.MaxInt}
		for i := -L - 2; i <= L+2; i++ {
			idx = append(idx, i)
		}
		for opt := 0; opt < 4; opt++ {
			for fifo := 0; fifo < 2; fifo++ {
				if ctx.Quick() && fifo == 1 && opt != 3 {
					continue
				}
				for withNil := 0; withNil < 2; withNil++ {
					if withNil == 1 && L < 2 {
						continue
					}
					base := func() HistInput {
						in := HistInput{Kind: "OR", Cap: -1, Obs: true}
						if fifo == 1 {
							in.Ops = append(in.Ops, HOp{Op: "setfifo", I: 1})
						}
						if opt&1 != 0 {
							in.Ops = append(in.Ops, HOp{Op: "setopt", I: 16, T: 1})
						}
						if opt&2 != 0 {
							in.Ops = append(in.Ops, HOp{Op: "setopt", I: 32, T: 1})
						}
						if L > 0 {
							var vs []int
							for k := 1; k <= L; k++ {
								v := k
								if withNil == 1 && k == 2 {
									v = 0
								}
								vs = append(vs, v)
							}
							in.Ops = append(in.Ops, HOp{Op: "push", Vs: vs})
						}
						return in
					}
					for _, i := range idx {
						for _, m := range []string{"index", "remove", "replace", "insert"} {
							in := base()
							in.Ops = append(in.Ops, HOp{Op: m, Vs: []int{7}, I: i}, HOp{Op: "push", Vs: []int{5}}, HOp{Op: "pop"})
							emit(in, "exhaustive")
						}
						for _, j := range idx {
							if ctx.Quick() && j != 0 && j != L-1 && j != L && j != -1 && j != math.MinInt && j != i {
								continue
							}
							in := base()
							in.Ops = append(in.Ops, HOp{Op: "swap", I: i, J: j}, HOp{Op: "push", Vs: []int{5}}, HOp{Op: "pop"})
							emit(in, "exhaustive")
						}
					}
				}
			}
		}
	}
}

// nesting: batches mixing stacks, aliases, pointers to aliases and
// primitives, with the no-nesting option switched between batches
func genNesting(ctx *Ctx, emit func(any, string)) {
	// exhaustive: option state x batch of length <= 3 over {int, nil, native, alias, ptr-alias}
	alpha := []int{1, 0, -1, -2, -4, condCodeBase, deepPtrCode}
	var batches [][]int
	var rec func(p []int, d int)
	rec = func(p []int, d int) {
		if len(p) > 0 {
			batches = append(batches, append([]int{}, p...))
		}
		if d == 0 {
			return
		}
		for _, a := range alpha {
			rec(append(p, a), d-1)
		}
	}
	rec(nil, 3)
	for _, kind := range kinds {
		for _, b := range batches {
			if ctx.Quick() && kind != "AND" && len(b) > 2 {
				continue
			}
			for nn := 0; nn < 4; nn++ {
				in := HistInput{Kind: kind, Cap: -1, Obs: true}
				if nn < 2 {
					in.Ops = append(in.Ops, HOp{Op: "push", Vs: []int{-3, 2}})
				} else {
					// no Stack among the first elements: whether the stack nests depends on the batch alone
					in.Ops = append(in.Ops, HOp{Op: "push", Vs: []int{2}}, HOp{Op: "isnesting"})
				}
				if nn%2 == 1 {
					in.Ops = append(in.Ops, HOp{Op: "setopt", I: 256, T: 1})
				}
				in.Ops = append(in.Ops, HOp{Op: "cannest"}, HOp{Op: "push", Vs: b}, HOp{Op: "isnesting"},
					HOp{Op: "setopt", I: 256, T: 0}, HOp{Op: "cannest"}, HOp{Op: "isnesting"}, HOp{Op: "push", Vs: []int{-5}}, HOp{Op: "isnesting"})
				emit(in, "exhaustive")
			}
		}
	}
	n := ctx.N(300, 10000)
	for i := 0; i < n; i++ {
		r := ctx.Rng.Fork()
		in := HistInput{Kind: kinds[r.Intn(5)], Cap: -1, Obs: true}
		if r.Pct(30) {
			in.Cap = r.Range(1, 6)
		}
		k := r.Range(2, 10)
		for j := 0; j < k; j++ {
			switch x := r.Intn(10); {
			case x < 5:
				m := r.Range(1, 5)
				var vs []int
				for q := 0; q < m; q++ {
					if r.Pct(45) {
						vs = append(vs, -(1 + r.Intn(8)))
					} else {
						vs = append(vs, randVal(r, false))
					}
				}
				in.Ops = append(in.Ops, HOp{Op: "push", Vs: vs})
			case x < 8:
				in.Ops = append(in.Ops, HOp{Op: "setopt", I: 256, T: r.Intn(3)})
			case x < 9:
				in.Ops = append(in.Ops, HOp{Op: "pop"})
			default:
				in.Ops = append(in.Ops, HOp{Op: "remove", I: r.Intn(3)})
			}
			in.Ops = append(in.Ops, HOp{Op: "cannest"}, HOp{Op: "isnesting"})
		}
		if r.Pct(40) {
			in.Noise = 1 + r.Intn(127)
		}
		emit(in, "random")
	}
}

// policy: push batches against table-driven policies, with and without capacity
func genPolicy(ctx *Ctx, emit func(any, string)) {
	n := ctx.N(400, 15000)
	for i := 0; i < n; i++ {
		r := ctx.Rng.Fork()
		in := HistInput{Kind: kinds[r.Intn(5)], Cap: -1, Obs: true}
		if r.Pct(50) {
			in.Cap = r.Range(1, 6)
		}
		k := r.Range(2, 8)
		for j := 0; j < k; j++ {
			switch x := r.Intn(10); {
			case x < 3:
				p := 0
				for b := 0; b < 3; b++ {
					p |= 1 << r.Intn(16)
				}
				if r.Pct(20) {
					p = 0
				}
				if r.Pct(15) {
					p = -1
				}
				in.Ops = append(in.Ops, HOp{Op: "setpolicy", I: p})
			case x < 8:
				m := r.Range(1, 6)
				var vs []int
				for q := 0; q < m; q++ {
					vs = append(vs, randVal(r, true))
				}
				in.Ops = append(in.Ops, HOp{Op: "push", Vs: vs}, HOp{Op: "errisnil"})
			case x < 9:
				in.Ops = append(in.Ops, HOp{Op: "pop"})
			default:
				in.Ops = append(in.Ops, HOp{Op: "setopt", I: 256, T: r.Intn(3)})
			}
		}
		if r.Pct(40) {
			in.Noise = 1 + r.Intn(127)
		}
		emit(in, "random")
	}
}

func init() {
	register(&Family{Name: "hist", Gen: genHist, Run: runHist,
		Rule: "exhaustive: all histories of length<=2 (quick) / 3 (thorough) over a 13-op alphabet from stacks of length 0..3 with/without capacity; random: histories of 1-40 ops (70% mutators), nil 15%, nested stacks, indices in [-len-2,len+2] plus MinInt/MaxInt, 5 kinds x LIFO/FIFO x capacity none/0..6 x index options; after every mutator Len, Index(every position), Front, Back, IsEmpty, Cap, Avail, IsFull are recorded. distinct = distinct input hash; non-trivial = >=3 mutator calls of >=2 kinds"})
	register(&Family{Name: "indexsweep", Gen: genIndexSweep, Run: runHist,
		Rule: "exhaustive: {Index,Remove,Replace,Insert,Swap} x index values {MinInt,MinInt+1,-L-2..L+2,MaxInt-1,MaxInt} x length 0..4 x negative/forward options x LIFO/FIFO x with/without a nil slot; followed by Push+Pop to show the stack is still usable; full observation after every mutator. non-trivial = >=3 mutator calls of >=2 kinds"})
	register(&Family{Name: "nesting", Gen: genNesting, Run: runHist,
		Rule: "exhaustive: batches of length<=3 over {int,nil,native stack,alias,pointer to alias} x no-nesting on/off x 5 kinds; random: 2-10 steps of batches/option switches/pop/remove; CanNest and IsNesting after every step. non-trivial = >=3 mutators of >=2 kinds"})
	register(&Family{Name: "policy", Gen: genPolicy, Run: runHist,
		Rule: "random: install/remove table-driven push policies (reject set = bit mask over value codes), batches of 1-6 values, capacity none/1..6; the policy's call log, Err()==nil and full content are recorded. non-trivial = >=3 mutators of >=2 kinds"})
}
