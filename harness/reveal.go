package main

// Family `reveal` (C20): trees handed to Stack.Reveal.
//
// One case = a tree description (desc.go Node, every Stack/Condition node with
// a unique ID), built into real values, Reveal called under a watchdog, and
// then read back: a pre-order walk through Len/Index/Keyword/Operator/
// Expression that records for every node how it is typed (native / alias /
// pointer to alias), kind, option word, ID (configuration record through the
// VerifDump hook), every leaf, every Condition's keyword and operator.  The
// mutex acquire/release events (verifPoint hook) are recorded by node ID.
// String() before and after goes into the JSON record only (rendering is
// another module's model).
//
// The same walk is done BEFORE the call and must reproduce the description;
// a generator that emits something Build cannot represent is a harness error,
// not a case.

import (
	"encoding/json"
	"errors"
	"fmt"
	"reflect"
	"strings"
	"sync"
	"time"

	stk "github.com/JesseCoretta/go-stackage"
)

type RevealInput struct {
	Tree *Node `json:"tree"`
	// IDs of Conditions put into the error state (SetErr) after building:
	// such a Condition refuses SetExpression
	ErrIDs []string `json:"err_ids,omitempty"`
	// RO: check that read-only instances below a writable receiver stay as they are (family revealro)
	RO bool `json:"ro,omitempty"`
}

// ---- Coq term of a description (family-specific configuration syntax) ----

// revBytes is coqBytes with the byte list of a non-ASCII string forced into
// N scope (the shards open Z_scope).
func revBytes(s string) string {
	t := coqBytes(s)
	if strings.HasPrefix(t, "(L [") {
		var parts []string
		for _, c := range []byte(s) {
			parts = append(parts, fmt.Sprintf("%d%%N", c))
		}
		return "(L [" + strings.Join(parts, ";") + "])"
	}
	return t
}

func revCfg(typ, opt int, id string, mtx bool) string {
	return fmt.Sprintf("(cfgR %d%%N %d%%N %s %s)", typ, opt, revBytes(id), coqBool(mtx))
}

// a Condition whose configuration holds an error
func revCfgErr(typ, opt int, id string) string {
	return fmt.Sprintf("(cfgRE %d%%N %d%%N %s)", typ, opt, revBytes(id))
}

func revCoq(n *Node, errs map[string]bool) string {
	if n == nil {
		return "VNil"
	}
	switch n.T {
	case "stack":
		var es []string
		for _, e := range n.Els {
			es = append(es, revCoq(e, errs))
		}
		return fmt.Sprintf("(VStack %s %s %s)", coqAkind(n.A), revCfg(kindN[n.Kind], n.Opt, n.ID, n.Mutex), coqList(es))
	case "cond":
		cfg := revCfg(5, n.Opt, n.ID, false)
		if errs[n.ID] {
			cfg = revCfgErr(5, n.Opt, n.ID)
		}
		return fmt.Sprintf("(VCond %s %s %s %s %s)", coqAkind(n.A), cfg, revBytes(n.Kw), n.Op.Coq(), revCoq(n.Ex, errs))
	}
	if n.T == "str" {
		return "(VLeaf (GStr " + revBytes(n.S) + "))"
	}
	return n.Coq()
}

// ---- reading a real value back ----

type revWalk struct {
	ids    map[uintptr]string       // *stack identity -> ID (filled by the walk)
	conds_ map[string]stk.Condition // ID -> Condition (filled by the walk when non-nil)
	stacks int
	conds  int
	leaves int
}

func leafTerm(x any) (string, bool) {
	switch v := x.(type) {
	case string:
		return "(VLeaf (GStr " + revBytes(v) + "))", true
	case int:
		return (&Node{T: "int", Ty: 0, I: int64(v)}).Coq(), true
	case int8:
		return (&Node{T: "int", Ty: 1, I: int64(v)}).Coq(), true
	case int64:
		return (&Node{T: "int", Ty: 4, I: v}).Coq(), true
	case uint8:
		return (&Node{T: "int", Ty: 11, I: int64(v)}).Coq(), true
	case uint64:
		return (&Node{T: "int", Ty: 14, I: int64(v)}).Coq(), true
	case bool:
		return (&Node{T: "bool", Bv: v}).Coq(), true
	case float64:
		return (&Node{T: "float", Ty: 21, F: v}).Coq(), true
	case float32:
		return (&Node{T: "float", Ty: 20, F: float64(v)}).Coq(), true
	case complex64:
		return (&Node{T: "float", Ty: 22, F: float64(real(v)), F2: float64(imag(v))}).Coq(), true
	case complex128:
		return (&Node{T: "float", Ty: 23, F: real(v), F2: imag(v)}).Coq(), true
	}
	return "", false
}

func opTermOf(op stk.Operator) string {
	switch o := op.(type) {
	case nil:
		return "None"
	case stk.ComparisonOperator:
		return fmt.Sprintf("(Some (OpBuiltin %d%%N))", int(o))
	case userOp:
		return fmt.Sprintf("(Some (OpUser %s %s))", revBytes(o.text), revBytes(o.ctx))
	case sliceOp:
		return fmt.Sprintf("(Some (OpUser %s %s))", revBytes(o[0]), revBytes(o[1]))
	}
	return "(Some (OpUser (B \"?\") (B \"?\")))"
}

func cfgOf(x any) (typ, opt int, id string, mtx, errset bool) {
	d := stk.VerifDump(x)
	c, _ := d["cfg"].(map[string]any)
	if c == nil {
		return 0, 0, "", false, false
	}
	typ, _ = c["typ"].(int)
	opt, _ = c["opt"].(int)
	id, _ = c["id"].(string)
	mtx, _ = c["mtx"].(bool)
	errset, _ = c["errset"].(bool)
	return
}

func (w *revWalk) stack(s stk.Stack, ak string) string {
	if s.IsZero() {
		return "(VZeroStack " + ak + ")"
	}
	w.stacks++
	typ, opt, id, mtx, _ := cfgOf(s)
	if w.ids != nil {
		w.ids[stk.VerifID(s)] = id
	}
	var es []string
	n := s.Len()
	for i := 0; i < n; i++ {
		x, _ := s.Index(i)
		es = append(es, w.value(x))
	}
	return fmt.Sprintf("(VStack %s %s %s)", ak, revCfg(typ, opt, id, mtx), coqList(es))
}

func (w *revWalk) cond(c stk.Condition, ak string) string {
	if c.IsZero() {
		return "(VZeroCond " + ak + ")"
	}
	w.conds++
	typ, opt, id, _, errset := cfgOf(c)
	cfg := revCfg(typ, opt, id, false)
	if errset {
		cfg = revCfgErr(typ, opt, id)
	}
	if w.conds_ != nil {
		w.conds_[id] = c
	}
	return fmt.Sprintf("(VCond %s %s %s %s %s)", ak, cfg, revBytes(c.Keyword()), opTermOf(c.Operator()), w.value(c.Expression()))
}

func (w *revWalk) value(x any) string {
	switch v := x.(type) {
	case nil:
		w.leaves++
		return "VNil"
	case stk.Stack:
		return w.stack(v, "Native")
	case aStack:
		return w.stack(stk.Stack(v), "AliasVal")
	case *aStack:
		return w.stack(stk.Stack(*v), "AliasPtr")
	case sStack:
		return w.stack(stk.Stack(v), "AliasValStr")
	case *sStack:
		return w.stack(stk.Stack(*v), "AliasPtrStr")
	case stk.Condition:
		return w.cond(v, "Native")
	case aCond:
		return w.cond(stk.Condition(v), "AliasVal")
	case *aCond:
		return w.cond(stk.Condition(*v), "AliasPtr")
	case sCond:
		return w.cond(stk.Condition(v), "AliasValStr")
	case *sCond:
		return w.cond(stk.Condition(*v), "AliasPtrStr")
	}
	w.leaves++
	if t, ok := leafTerm(x); ok {
		return t
	}
	return "(VLeaf (GOther 0%N))"
}

// ---- shape statistics of a description (tags, non-triviality) ----

type revStats struct {
	nodes, stacks, conds, maxChain                                                 int
	redundant, mutex, alias, condStack, empty, zero, nils, fwd, paren, not, nested int
}

func isWrapperOf(n *Node) bool { // plain single-slot stack around a non-paren native Stack/Condition
	if n.T != "stack" || len(n.Els) != 1 || n.Opt&1 != 0 || n.Kind == "NOT" {
		return false
	}
	c := n.Els[0]
	switch c.T {
	case "stack", "cond":
		return c.A == "" && c.Opt&1 == 0
	case "zstack", "zcond":
		return c.A == ""
	}
	return false
}

func (st *revStats) scan(n *Node, chain int, depth int) {
	if n == nil {
		return
	}
	st.nodes++
	switch n.T {
	case "stack":
		st.stacks++
		if depth > 0 {
			st.nested++
		}
		if n.Mutex {
			st.mutex++
		}
		if n.A != "" {
			st.alias++
		}
		if len(n.Els) == 0 {
			st.empty++
		}
		if n.Opt&32 != 0 {
			st.fwd++
		}
		if n.Opt&1 != 0 {
			st.paren++
		}
		if n.Kind == "NOT" {
			st.not++
		}
		c := 0
		if len(n.Els) == 1 && n.Els[0].T == "stack" {
			c = chain + 1
			if c > st.maxChain {
				st.maxChain = c
			}
		}
		if depth > 0 && isWrapperOf(n) {
			st.redundant++
		}
		for _, e := range n.Els {
			st.scan(e, c, depth+1)
		}
	case "cond":
		st.conds++
		if n.A != "" {
			st.alias++
		}
		if n.Ex != nil && n.Ex.T == "stack" {
			st.condStack++
		}
		st.scan(n.Ex, 0, depth+1)
	case "zstack", "zcond":
		st.zero++
	case "nil":
		st.nils++
	}
}

// ---- running one case ----

var revealHookMu sync.Mutex

func runReveal(raw json.RawMessage) (res *Result, err error) {
	var in RevealInput
	if err = json.Unmarshal(raw, &in); err != nil {
		return nil, err
	}
	if in.Tree == nil {
		return nil, fmt.Errorf("reveal: no tree")
	}
	errs := map[string]bool{}
	for _, id := range in.ErrIDs {
		errs[id] = true
	}
	inTerm := revCoq(in.Tree, errs)
	built := in.Tree.Build()
	root, isStack := built.(stk.Stack)
	if !isStack {
		return nil, fmt.Errorf("reveal: the root must be a native Stack (or a zero Stack)")
	}
	if len(errs) > 0 {
		w0 := &revWalk{conds_: map[string]stk.Condition{}}
		w0.value(root)
		for id := range errs {
			c, ok := w0.conds_[id]
			if !ok {
				return nil, fmt.Errorf("reveal: err_ids names %q, which is not a Condition of the tree", id)
			}
			c.SetErr(errors.New("verif: error state"))
		}
	}
	// read back before the call: must reproduce the description
	wb := &revWalk{ids: map[uintptr]string{}}
	before := wb.value(root)
	if before != inTerm {
		return nil, fmt.Errorf("reveal: the built value does not match its description:\n built %s\n desc  %s", before, inTerm)
	}
	strBefore := safeString(root)

	type ev struct {
		what string
		id   uintptr
	}
	var evs []ev
	heldNow := map[uintptr]bool{}
	deadCh := make(chan struct{}, 1)
	revealHookMu.Lock()
	stk.VerifSetPoint(func(what string, id uintptr) {
		// single goroutine inside Reveal
		switch what {
		case "lock.want":
			if heldNow[id] {
				// sync.Mutex is not re-entrant: this goroutine is about to
				// block for ever on a mutex it holds
				select {
				case deadCh <- struct{}{}:
				default:
				}
			}
		case "lock.held":
			heldNow[id] = true
			evs = append(evs, ev{what, id})
		case "lock.released":
			delete(heldNow, id)
			evs = append(evs, ev{what, id})
		}
	})
	// read-only Stacks and Conditions below a writable receiver: whatever Reveal
	// does around them, they themselves stay exactly as they are
	var ros []any
	var roBefore []any
	if in.RO && !root.IsReadOnly() {
		collectReadOnlyAll(root, 0, &ros)
		for _, x := range ros {
			roBefore = append(roBefore, roSnapshot(x))
		}
	}
	done := make(chan any, 1)
	go func() {
		defer func() { done <- recover() }()
		root.Reveal()
	}()
	dead, panicked := false, false
	var pv any
	select {
	case pv = <-done:
		panicked = pv != nil
	case <-deadCh:
		dead = true // certain: a held mutex was requested again
	case <-time.After(10 * time.Second):
		dead = true // watchdog (any other way of not returning)
	}
	stk.VerifSetPoint(nil)
	revealHookMu.Unlock()
	if panicked {
		// the property says "neither panics nor deadlocks": record a panic as
		// a non-returning call with a marker event the model never produces
		dead = true
	}

	var lockTs []string
	var lockJ []string
	snapshot := append([]ev{}, evs...)
	for _, e := range snapshot {
		id, known := wb.ids[e.id]
		if !known {
			id = "?"
		}
		switch e.what {
		case "lock.held":
			lockTs = append(lockTs, "(true, "+revBytes(id)+")")
			lockJ = append(lockJ, "+"+id)
		case "lock.released":
			lockTs = append(lockTs, "(false, "+revBytes(id)+")")
			lockJ = append(lockJ, "-"+id)
		}
	}
	if panicked {
		lockTs = append(lockTs, "(false, (B \"<panic>\"))")
		lockJ = append(lockJ, fmt.Sprintf("panic: %v", pv))
	}

	after := "VNil"
	strAfter := ""
	wa := &revWalk{}
	if !dead {
		after = wa.value(root)
		strAfter = safeString(root)
	}

	var st revStats
	st.scan(in.Tree, 0, 0)
	tags := map[string]bool{}
	flag := func(c bool, t string) {
		if c {
			tags[t] = true
		}
	}
	flag(!dead && after != before, "changed")
	flag(!dead && wa.stacks < wb.stacks, "unwrapped")
	flag(st.redundant > 0, "has-redundant-wrapper")
	flag(st.maxChain >= 2, "chain>=2")
	flag(st.maxChain >= 3, "chain>=3")
	flag(st.mutex > 0, "mutex")
	flag(st.mutex > 1, "mutex-nested")
	flag(st.alias > 0, "alias")
	flag(st.condStack > 0, "cond-holds-stack")
	flag(st.empty > 0, "empty-stack")
	flag(st.zero > 0, "zero-instance")
	flag(st.nils > 0, "nil-slot")
	flag(st.fwd > 0, "fwd-index")
	flag(st.paren > 0, "paren")
	flag(st.not > 0, "not")
	flag(in.Tree.T == "stack" && in.Tree.Opt&128 != 0, "root-readonly")
	flag(in.Tree.T != "stack", "root-zero")
	flag(len(errs) > 0, "cond-in-error-state")
	flag(dead, "did-not-return")
	flag(len(lockTs) > 0, "lock-events")
	flag(strBefore != strAfter && !dead, "string-changed")

	invariant, invariantKF := "", ""
	if !dead {
		for i, x := range ros {
			now := roSnapshot(x)
			if reflect.DeepEqual(roBefore[i], now) {
				continue
			}
			bj, _ := json.Marshal(roBefore[i])
			aj, _ := json.Marshal(now)
			bm, _ := roBefore[i].(map[string]any)
			am, _ := now.(map[string]any)
			if _, isStack := x.(stk.Stack); isStack && reflect.DeepEqual(bm["cfg"], am["cfg"]) {
				// slots of a read-only nested Stack replaced (its own settings untouched)
				if invariant == "" {
					invariant = fmt.Sprintf("Reveal on a writable ancestor replaced slots of a read-only nested Stack: before=%s after=%s", trunc(string(bj), 400), trunc(string(aj), 400))
					invariantKF = "reveal-nested-readonly-stack-slots"
				}
				continue
			}
			what := "Condition"
			if _, isStack := x.(stk.Stack); isStack {
				what = "Stack's settings"
			}
			invariant = fmt.Sprintf("Reveal changed a read-only %s: before=%s after=%s", what, trunc(string(bj), 400), trunc(string(aj), 400))
			invariantKF = ""
			break
		}
	}
	flag(len(ros) > 0, "read-only-below-root")
	coq := fmt.Sprintf("(MkCase %s %s %s %s)", inTerm, coqBool(dead), after, coqList(lockTs))
	obs := map[string]any{"returned": !dead, "panicked": panicked, "after": after, "locks": lockJ,
		"string_before": strBefore, "string_after": strAfter,
		"stacks_before": wb.stacks, "stacks_after": wa.stacks}
	return &Result{Coq: coq, Observed: obs, Tags: joinTags(tags), Invariant: invariant, InvariantKF: invariantKF,
		Nontrivial: st.nested >= 2 && st.nodes >= 4 && (st.redundant > 0 || st.maxChain >= 1 || st.condStack > 0)}, nil
}

// collectReadOnlyAll: handles of every read-only Stack and Condition reachable from v
func collectReadOnlyAll(v any, depth int, acc *[]any) {
	if depth > 12 {
		return
	}
	if s, ok := nativeOf(v); ok {
		if s.IsReadOnly() && depth > 0 {
			*acc = append(*acc, s)
		}
		for i := 0; i < s.Len(); i++ {
			e, _ := s.Index(i)
			collectReadOnlyAll(e, depth+1, acc)
		}
		return
	}
	if c, ok := nativeCondOf(v); ok {
		if c.IsReadOnly() {
			*acc = append(*acc, c)
		}
		collectReadOnlyAll(c.Expression(), depth+1, acc)
	}
}

// roSnapshot: the hidden state of the instance itself; for a Condition also the
// dynamic type and identity of what it holds (the levels below are their own business)
func roSnapshot(x any) any {
	d := stk.VerifDump(x)
	switch c := x.(type) {
	case stk.Condition:
		ex := c.Expression()
		id := ""
		if s, ok := nativeOf(ex); ok {
			id = fmt.Sprintf("%x", s.Addr())
		} else if cc, ok := nativeCondOf(ex); ok {
			id = fmt.Sprintf("%x", cc.Addr())
		}
		return map[string]any{"cfg": cleanCfg(d["cfg"]), "kw": d["kw"], "optext": d["optext"], "extype": fmt.Sprintf("%T", ex), "exid": id}
	case stk.Stack:
		var slots []string
		for i := 0; i < c.Len(); i++ {
			e, _ := c.Index(i)
			if s, ok := nativeOf(e); ok {
				slots = append(slots, fmt.Sprintf("%T@%x", e, s.Addr()))
			} else if cc, ok := nativeCondOf(e); ok {
				slots = append(slots, fmt.Sprintf("%T@%x", e, cc.Addr()))
			} else {
				slots = append(slots, fmt.Sprintf("%T:%v", e, e))
			}
		}
		return map[string]any{"cfg": cleanCfg(d["cfg"]), "rawlen": d["rawlen"], "slots": slots}
	}
	return nil
}

// genRevealRO: trees that hold read-only Conditions and Stacks below a writable receiver
func genRevealRO(ctx *Ctx, emit func(any, string)) {
	leaf := func(s string) *Node { return &Node{T: "str", S: s} }
	k := 0
	id := func() string { k++; return fmt.Sprintf("n%d", k-1) }
	for _, exA := range []string{"", "aval", "aptr", "avalstr", "aptrstr"} {
		for _, cA := range []string{"", "aval", "aptr"} {
			for _, pos := range []int{0, 1} {
				for _, wrapped := range []bool{false, true} {
					k = 0
					root := &Node{T: "stack", ID: id(), Kind: "AND"}
					var ex *Node = &Node{T: "stack", ID: id(), Kind: "OR", A: exA, Els: []*Node{leaf("p"), leaf("q")}}
					if wrapped {
						ex = &Node{T: "stack", ID: id(), Kind: "OR", A: exA, Els: []*Node{{T: "stack", ID: id(), Kind: "AND", Els: []*Node{leaf("p"), leaf("q")}}}}
					}
					ro := &Node{T: "cond", ID: id(), A: cA, Kw: "ro", Op: &OpDesc{Builtin: 1}, Opt: 128, Ex: ex}
					env := &Node{T: "stack", ID: id(), Kind: "OR", Els: []*Node{{T: "stack", ID: id(), Kind: "AND", Els: []*Node{leaf("x"), leaf("y")}}}}
					envc := &Node{T: "stack", ID: id(), Kind: "OR", Els: []*Node{{T: "cond", ID: id(), Kw: "c", Op: &OpDesc{Builtin: 2}, Ex: leaf("v")}}}
					if pos == 0 {
						root.Els = []*Node{ro, env, envc}
					} else {
						root.Els = []*Node{env, ro, envc}
					}
					emit(RevealInput{Tree: root, RO: true}, "exhaustive")
					// the same below one more level
					k = 100
					emit(RevealInput{Tree: &Node{T: "stack", ID: "top", Kind: "OR", Mutex: true, Els: []*Node{leaf("l"), root}}, RO: true}, "exhaustive")
				}
			}
		}
	}
	n := ctx.N(500, 20000)
	for i := 0; i < n; i++ {
		r := ctx.Rng.Fork()
		g := &revGen{r: r, maxDepth: 2 + r.Intn(4), maxWidth: 3, roBoost: 25}
		t := g.stack(0, true)
		if t.Opt&128 != 0 {
			continue
		}
		emit(RevealInput{Tree: t, ErrIDs: g.errIDs, RO: true}, "random")
	}
}

func safeString(s stk.Stack) (out string) {
	defer func() {
		if r := recover(); r != nil {
			out = fmt.Sprintf("<String panicked: %v>", r)
		}
	}()
	return s.String()
}

// ---- generators ----

type revGen struct {
	r        *Rng
	maxDepth int
	maxWidth int
	next     int
	errIDs   []string
	roBoost  int // added to the share of read-only Conditions and nested Stacks (percent)
}

func (g *revGen) id() string {
	g.next++
	return fmt.Sprintf("n%d", g.next-1)
}

var revStrings = []string{"a", "bc", "x y", "k", "cn", "uid", "é", "v1"}

func (g *revGen) leaf() *Node {
	switch g.r.Intn(10) {
	case 0:
		return &Node{T: "int", Ty: []int{0, 1, 4, 11, 14}[g.r.Intn(5)], I: int64(g.r.Intn(100))}
	case 1:
		return &Node{T: "bool", Bv: g.r.Bool()}
	case 2:
		return &Node{T: "float", Ty: 21, F: []float64{1.5, 0, -2.25, 3}[g.r.Intn(4)]}
	}
	return &Node{T: "str", S: revStrings[g.r.Intn(len(revStrings))]}
}

func (g *revGen) alias() string {
	if g.r.Pct(18) {
		return []string{"aval", "aptr", "avalstr", "aptrstr"}[g.r.Intn(4)]
	}
	return ""
}

func (g *revGen) op() *OpDesc {
	switch x := g.r.Intn(10); {
	case x == 0:
		return nil
	case x == 1:
		return &OpDesc{User: true, Text: []string{"~=", "in"}[g.r.Intn(2)], Ctx: "custom"}
	}
	return &OpDesc{Builtin: 1 + g.r.Intn(6)}
}

func (g *revGen) cond(depth int) *Node {
	n := &Node{T: "cond", ID: g.id(), Kw: revStrings[g.r.Intn(len(revStrings))], Op: g.op(), A: g.alias()}
	if g.r.Pct(25) {
		n.Opt |= 1
	}
	if g.r.Pct(10) {
		n.Opt |= 4
	}
	if g.r.Pct(6) {
		n.Opt |= 256 // no nesting (set after the expression): SetExpression is then refused
	}
	if g.r.Pct(6 + g.roBoost) {
		n.Opt |= 128 // read-only
	}
	switch x := g.r.Intn(100); {
	case x < 45 && depth < g.maxDepth:
		n.Ex = g.stack(depth+1, false)
		if g.r.Pct(8) {
			g.errIDs = append(g.errIDs, n.ID) // error state: SetExpression refused
		}
	case x < 50:
		n.Ex = &Node{T: "nil"}
	case x < 60 && depth < g.maxDepth:
		n.Ex = g.cond(depth + 1) // a Condition-valued Condition (its Stack, if any, is none of Reveal's business)
	default:
		n.Ex = g.leaf()
	}
	return n
}

func (g *revGen) stack(depth int, root bool) *Node {
	n := &Node{T: "stack", ID: g.id(), Kind: kinds[g.r.Intn(len(kinds))]}
	if g.r.Pct(40) {
		n.Kind = "AND"
	}
	if !root {
		n.A = g.alias()
	}
	if g.r.Pct(25) {
		n.Opt |= 1
	}
	for _, o := range []int{2, 4, 8} {
		if g.r.Pct(8) {
			n.Opt |= o
		}
	}
	if g.r.Pct(12) {
		n.Opt |= 32 // forward indices: the loop's last index then reads the last element again
	}
	if g.r.Pct(6) {
		n.Opt |= 16
	}
	if g.r.Pct(4) {
		n.Opt |= 256
	}
	if g.r.Pct(4+g.roBoost/2) && !root {
		n.Opt |= 128
	}
	if g.r.Pct(30) {
		n.Mutex = true
	}
	if n.Kind == "LIST" {
		if g.r.Pct(30) {
			n.Delim = ","
		}
	} else if g.r.Pct(20) {
		n.Sym = []string{"&", "||"}[g.r.Intn(2)]
	}
	w := 0
	switch x := g.r.Intn(100); {
	case x < 45:
		w = 1
	case x < 53:
		w = 0
	default:
		w = 2 + g.r.Intn(g.maxWidth-1)
	}
	for i := 0; i < w; i++ {
		x := g.r.Intn(100)
		switch {
		case x < 55 && depth < g.maxDepth:
			n.Els = append(n.Els, g.stack(depth+1, false))
		case x < 75:
			n.Els = append(n.Els, g.cond(depth))
		case x < 79:
			n.Els = append(n.Els, &Node{T: "nil"})
		case x < 82:
			n.Els = append(n.Els, &Node{T: "zstack", A: []string{"", "", "aval", "aptr"}[g.r.Intn(4)]})
		case x < 84:
			n.Els = append(n.Els, &Node{T: "zcond", A: []string{"", "", "aval"}[g.r.Intn(3)]})
		default:
			n.Els = append(n.Els, g.leaf())
		}
	}
	return n
}

// exhaustive small shapes: root shapes x chains of wrappers x terminals
func revWrappers() []func(id string, child *Node) *Node {
	mk := func(kind string, opt int, a string, mtx bool) func(string, *Node) *Node {
		return func(id string, child *Node) *Node {
			return &Node{T: "stack", ID: id, Kind: kind, Opt: opt, A: a, Mutex: mtx, Els: []*Node{child}}
		}
	}
	return []func(string, *Node) *Node{
		mk("AND", 0, "", true),      // plain, mutex
		mk("OR", 0, "", false),      // plain
		mk("AND", 1, "", true),      // parenthetical
		mk("NOT", 0, "", false),     // NOT
		mk("OR", 32, "", true),      // plain with forward indices
		mk("AND", 0, "aval", false), // plain, typed as an alias
	}
}

func revTerminals() []func(ids func() string) *Node {
	two := func(kind string, opt int, mtx bool) func(func() string) *Node {
		return func(ids func() string) *Node {
			return &Node{T: "stack", ID: ids(), Kind: kind, Opt: opt, Mutex: mtx,
				Els: []*Node{{T: "str", S: "x"}, {T: "int", I: 7}}}
		}
	}
	return []func(func() string) *Node{
		two("AND", 0, true),
		two("OR", 1, false),
		func(ids func() string) *Node { // a Condition with a leaf
			return &Node{T: "cond", ID: ids(), Kw: "k", Op: &OpDesc{Builtin: 1}, Ex: &Node{T: "str", S: "v"}}
		},
		func(ids func() string) *Node { // a parenthetical Condition
			return &Node{T: "cond", ID: ids(), Opt: 1, Kw: "k", Op: &OpDesc{Builtin: 2}, Ex: &Node{T: "str", S: "v"}}
		},
		func(ids func() string) *Node { return &Node{T: "str", S: "leaf"} },
		func(ids func() string) *Node { return &Node{T: "stack", ID: ids(), Kind: "AND"} }, // empty stack
		func(ids func() string) *Node { return &Node{T: "zstack"} },
		func(ids func() string) *Node { // a Condition holding a wrapped stack
			return &Node{T: "cond", ID: ids(), Kw: "k", Op: &OpDesc{Builtin: 1},
				Ex: &Node{T: "stack", ID: ids(), Kind: "AND", Mutex: true,
					Els: []*Node{{T: "stack", ID: ids(), Kind: "OR", Els: []*Node{{T: "str", S: "p"}, {T: "str", S: "q"}}}}}}
		},
	}
}

func genReveal(ctx *Ctx, emit func(any, string)) {
	wr := revWrappers()
	tm := revTerminals()
	maxChain := 2
	if !ctx.Quick() {
		maxChain = 4
	}
	// root shapes: [chain]  [leaf, chain]  [cond(stack), chain]  [chain, chain'] (fwd-index root)
	var chains [][]int
	var rec func(prefix []int, d int)
	rec = func(prefix []int, d int) {
		chains = append(chains, append([]int{}, prefix...))
		if d == 0 {
			return
		}
		for w := range wr {
			rec(append(prefix, w), d-1)
		}
	}
	rec(nil, maxChain)
	for _, ch := range chains {
		for ti := range tm {
			for shape := 0; shape < 5; shape++ {
				k := 0
				ids := func() string { k++; return fmt.Sprintf("n%d", k-1) }
				rootID := ids()
				mkChain := func() *Node {
					n := tm[ti](ids)
					for j := len(ch) - 1; j >= 0; j-- {
						n = wr[ch[j]](ids(), n)
					}
					return n
				}
				root := &Node{T: "stack", ID: rootID, Kind: "AND", Mutex: true}
				switch shape {
				case 0:
					root.Els = []*Node{mkChain()}
				case 1:
					root.Els = []*Node{{T: "str", S: "first"}, mkChain()}
				case 2:
					if len(ch) == 0 {
						continue
					}
					c0 := &Node{T: "cond", ID: ids(), Kw: "c", Op: &OpDesc{Builtin: 3},
						Ex: &Node{T: "stack", ID: ids(), Kind: "OR", A: "aval", Mutex: true,
							Els: []*Node{{T: "stack", ID: ids(), Kind: "AND", Els: []*Node{{T: "str", S: "e1"}, {T: "str", S: "e2"}}}}}}
					root.Els = []*Node{c0, mkChain()}
				case 4:
					// slot 0: a Condition holding a Condition holding a (wrapped) Stack; next to it the chain
					if len(ch) == 0 {
						continue
					}
					inner := &Node{T: "cond", ID: ids(), Kw: "inner", Op: &OpDesc{Builtin: 2},
						Ex: &Node{T: "stack", ID: ids(), Kind: "OR", Mutex: true,
							Els: []*Node{{T: "stack", ID: ids(), Kind: "AND", Els: []*Node{{T: "str", S: "e1"}, {T: "str", S: "e2"}}}}}}
					root.Els = []*Node{{T: "cond", ID: ids(), Kw: "outer", Op: &OpDesc{Builtin: 3}, Ex: inner}, mkChain()}
				case 3:
					if len(ch) == 0 {
						continue
					}
					root.Opt = 32
					root.Els = []*Node{mkChain(), {T: "bool", Bv: true}, mkChain()}
				}
				emit(RevealInput{Tree: root}, "exhaustive")
			}
		}
	}
	// size is no limit: a chain of 120 single-slot wrappers; 300 wrapped children side by side
	{
		k := 0
		id := func() string { k++; return fmt.Sprintf("n%d", k-1) }
		rootID := id()
		var n *Node = &Node{T: "stack", ID: id(), Kind: "OR", Els: []*Node{{T: "str", S: "e1"}, {T: "str", S: "e2"}}}
		for d := 0; d < 120; d++ {
			w := &Node{T: "stack", ID: id(), Kind: []string{"AND", "OR", "LIST"}[d%3], Mutex: d%7 == 0, Els: []*Node{n}}
			if d%11 == 10 {
				w.Opt = 1 // a parenthetical level in between: survives
			}
			if d%13 == 12 {
				w.Kind = "NOT"
			}
			n = w
		}
		emit(RevealInput{Tree: &Node{T: "stack", ID: rootID, Kind: "AND", Els: []*Node{{T: "str", S: "first"}, n}}}, "exhaustive")
		k = 0
		root := &Node{T: "stack", ID: id(), Kind: "AND", Mutex: true}
		for i := 0; i < 300; i++ {
			inner := &Node{T: "stack", ID: id(), Kind: "OR", Els: []*Node{{T: "str", S: "a"}, {T: "str", S: "b"}}}
			switch i % 4 {
			case 0:
				root.Els = append(root.Els, &Node{T: "stack", ID: id(), Kind: "AND", Els: []*Node{inner}})
			case 1:
				root.Els = append(root.Els, &Node{T: "cond", ID: id(), Kw: "k", Op: &OpDesc{Builtin: 1}, Ex: &Node{T: "stack", ID: id(), Kind: "AND", Els: []*Node{inner}}})
			case 2:
				root.Els = append(root.Els, &Node{T: "str", S: "leaf"})
			default:
				root.Els = append(root.Els, inner)
			}
		}
		emit(RevealInput{Tree: root}, "exhaustive")
	}
	// malformed / degenerate receivers
	emit(RevealInput{Tree: &Node{T: "zstack"}}, "exhaustive")
	emit(RevealInput{Tree: &Node{T: "stack", ID: "n0", Kind: "AND"}}, "exhaustive")
	emit(RevealInput{Tree: &Node{T: "stack", ID: "n0", Kind: "AND", Opt: 128, Mutex: true,
		Els: []*Node{{T: "stack", ID: "n1", Kind: "AND", Els: []*Node{{T: "stack", ID: "n2", Kind: "OR", Els: []*Node{{T: "str", S: "a"}, {T: "str", S: "b"}}}}}}}}, "exhaustive")

	n := ctx.N(700, 40000)
	for i := 0; i < n; i++ {
		r := ctx.Rng.Fork()
		g := &revGen{r: r, maxDepth: 2 + r.Intn(4), maxWidth: 3}
		t := g.stack(0, true)
		if r.Pct(3) {
			t.Opt |= 128 // read-only receiver: Reveal must do nothing
		}
		emit(RevealInput{Tree: t, ErrIDs: g.errIDs}, "random")
	}
}

func init() {
	register(&Family{Name: "revealro", Gen: genRevealRO, Run: runReveal,
		Rule: "exhaustive: a read-only Condition (native, alias, pointer to alias) holding a Stack in each of five node forms, plain or wrapped once, in slot 0 / slot 1 of a writable Stack next to single-slot envelopes, at the top and one level down; random: the trees of the reveal family with read-only Conditions (31%) and read-only nested Stacks (16%). Checked by the harness itself: after Reveal on the writable receiver every read-only Stack / Condition below it has the hidden configuration, raw length, slot identities and (Conditions) keyword, operator, dynamic type and identity of the expression it had before. every case with a read-only node is non-trivial"})
	register(&Family{Name: "reveal", Gen: genReveal, Run: runReveal,
		Rule: "exhaustive: root shapes {[chain], [leaf,chain], [cond(stack),chain], [cond(cond(stack)),chain], fwd-index [chain,leaf,chain]} x every chain of <=2 (quick) / <=4 (thorough) single-slot wrappers over {plain+mutex, plain, parenthetical, NOT, plain+forward-index+mutex, plain typed as alias} x 8 terminals {2-leaf stack (mutex), parenthetical 2-leaf stack, Condition, parenthetical Condition, leaf, empty stack, zero Stack, Condition holding a wrapped stack}; zero / empty / read-only receivers; random: trees of depth <=5, width <=3, 45% single-slot stacks, 5 kinds, parenthetical 25%, forward/negative-index/no-nesting/read-only bits, mutex on 30% of the nodes, 18% alias-typed nodes, Conditions (45% holding a stack; no-nesting / read-only / error-state ones), nil slots, zero instances, empty stacks. Observed: returned or not (1.5 s watchdog), pre-order walk afterwards (typing, kind, option word, ID of every node; leaves; keyword/operator), mutex events by node ID. distinct = distinct input hash; non-trivial = >=2 nested stacks, >=4 nodes and a single-slot chain, a redundant wrapper or a Condition holding a stack"})
}
