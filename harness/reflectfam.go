package main

// Reflection-driven families (dynamic legs of C09, C11, C17): every exported
// method of Stack, *Stack, Condition, *Condition and Auxiliary is enumerated
// with package reflect (so methods added later are included) and called with
// argument variants synthesised from its signature.
//
//   roreflect     C09  read-only receivers: deep state identical before/after
//   queryreflect  C11  non-mutators: deep state identical, same answer twice
//   zeroreflect   C17  zero / freed / Init()-only receivers: no panic, zero results

import (
	"bytes"
	"encoding/json"
	"errors"
	"fmt"
	"log"
	"reflect"
	"sort"
	"strings"

	stk "github.com/JesseCoretta/go-stackage"
)

type ReflInput struct {
	Mode  string  `json:"mode"`  // ro | query | zero
	Recv  string  `json:"recv"`  // receiver recipe
	Calls []RCall `json:"calls"` // one or several calls (sequences)
	Seed  uint64  `json:"seed,omitempty"`
	// Held: the state that must not change is that of the instance the
	// receiver variable pointed to BEFORE the calls (they start with Init,
	// which re-points the variable to a fresh, writable instance)
	Held  bool     `json:"held,omitempty"`
	Tree  *Node    `json:"tree,omitempty"`
	Names []string `json:"-"`
	// DefLog: after the receiver exists, the package defaults
	// (SetDefaultStackLogger / SetDefaultConditionLogger) are switched to a live
	// logger for the duration of the calls: an instance is not its package's default
	DefLog bool `json:"deflog,omitempty"`
}

// zeroDeepEnv: well-formed Unmarshal output inside 1100 single-element envelopes
var zeroDeepEnv = func() []any {
	v := []any{"AND", "a"}
	for d := 0; d < 1100; d++ {
		v = []any{v}
	}
	return v
}()

var reflLiveLogger = log.New(&bytes.Buffer{}, "live ", 0)

// withDefLog repeats every case that calls a logging-related method with DefLog set.
func withDefLog(emit func(any, string)) func(any, string) {
	return func(in any, src string) {
		emit(in, src)
		if ri, ok := in.(ReflInput); ok && !ri.DefLog {
			for _, c := range ri.Calls {
				if strings.Contains(c.Method, "Log") {
					ri.DefLog = true
					emit(ri, src)
					return
				}
			}
		}
	}
}

type RCall struct {
	Method  string `json:"m"`
	Variant int    `json:"v"`
}

var stackMutators = map[string]bool{}
var condMutators = map[string]bool{}

func init() {
	for _, n := range strings.Fields(`Push Pop Insert Remove Replace Swap Reverse Reset Defrag Reveal Transfer
		SetParen Paren SetFold Fold SetNoPadding NoPadding SetLeadOnce LeadOnce SetNegativeIndices NegativeIndices
		SetForwardIndices ForwardIndices SetNoNesting NoNesting SetReadOnly ReadOnly SetFIFO SetMutex Mutex SetID
		SetCategory SetDelimiter SetSymbol Symbol SetEncap Encap SetAuxiliary SetErr SetLogger SetLogLevel UnsetLogLevel
		SetLessFunc SetPushPolicy SetPresentationPolicy SetValidityPolicy SetEqualityPolicy SetMarshaler SetUnmarshaler
		Marshal Free`) {
		stackMutators[n] = true
	}
	for _, n := range strings.Fields(`Init Free SetKeyword SetOperator SetExpression SetParen Paren SetNoPadding NoPadding
		SetNoNesting NoNesting SetReadOnly SetID SetCategory SetEncap Encap SetAuxiliary SetErr SetLogger SetLogLevel
		UnsetLogLevel SetEvaluator SetPresentationPolicy SetValidityPolicy SetEqualityPolicy SetUnmarshaler`) {
		condMutators[n] = true
	}
}

// methodNames lists the exported methods of a value's pointer type (which
// includes the value-receiver methods).
func methodNames(x any) []string {
	t := reflect.TypeOf(x)
	var out []string
	for i := 0; i < t.NumMethod(); i++ {
		out = append(out, t.Method(i).Name)
	}
	sort.Strings(out)
	return out
}

// deepDump: the whole hidden state of a tree, recursively.
func deepDump(x any, depth int) any {
	d := stk.VerifDump(x)
	switch d["is"] {
	case "stack":
		out := map[string]any{"is": "stack", "cfg": cleanCfg(d["cfg"]), "rawlen": d["rawlen"], "slot0cfg": d["slot0cfg"], "ptr": d["ptr"]}
		var slots []any
		if sl, ok := d["slots"].([]any); ok && depth < 12 {
			for _, v := range sl {
				slots = append(slots, deepDump(v, depth+1))
			}
		}
		out["slots"] = slots
		return out
	case "condition":
		out := map[string]any{"is": "condition", "cfg": cleanCfg(d["cfg"]), "kw": d["kw"], "opnil": d["opnil"],
			"optext": d["optext"], "opctx": d["opctx"], "ptr": d["ptr"]}
		if depth < 12 {
			out["ex"] = deepDump(d["ex"], depth+1)
		}
		return out
	}
	if x == nil {
		return nil
	}
	rv := reflect.ValueOf(x)
	switch rv.Kind() {
	case reflect.Func, reflect.Chan, reflect.UnsafePointer:
		return fmt.Sprintf("%T@%x", x, rv.Pointer())
	case reflect.Ptr, reflect.Map, reflect.Slice:
		if rv.IsNil() {
			return fmt.Sprintf("%T(nil)", x)
		}
		return fmt.Sprintf("%T@%x:%v", x, rv.Pointer(), x)
	}
	return fmt.Sprintf("%T:%v", x, x)
}

var dumpIgnoreErr = false

func cleanCfg(c any) any {
	m, ok := c.(map[string]any)
	if !ok {
		return c
	}
	out := map[string]any{}
	for k, v := range m {
		if k == "ldr" || (dumpIgnoreErr && (k == "err" || k == "errset")) {
			continue
		}
		out[k] = v
	}
	return out
}

// argument variants synthesised from a parameter type
var testLogger = log.New(log.Writer(), "", 0)

func argVariants(t reflect.Type) []reflect.Value {
	zero := reflect.Zero(t)
	vals := []reflect.Value{zero}
	add := func(x any) {
		if x == nil {
			return
		}
		v := reflect.ValueOf(x)
		if v.Type().AssignableTo(t) {
			vals = append(vals, v)
		} else if v.Type().ConvertibleTo(t) && t.Kind() != reflect.Interface {
			vals = append(vals, v.Convert(t))
		}
	}
	switch t.Kind() {
	case reflect.Int:
		add(1)
		add(-1)
		add(7)
		add(1000)
	case reflect.Bool:
		add(true)
	case reflect.String:
		add("x")
		add("_random")
	case reflect.Interface:
		if t.NumMethod() == 0 { // any
			add("v")
			add(3)
			add(stk.And().Push("n"))
			add(stk.Stack{})
			add(stk.Cond("k", stk.Eq, "v"))
			// Conditions that agree with an Init()-only one on the keyword
			add(stk.Cond("", stk.Ne, "x"))
			var ci, co stk.Condition
			ci.Init()
			co.Init()
			co.SetOperator(stk.Eq)
			add(ci)
			add(co)
			add(stk.Condition{})
			add(stk.And().Push(stk.Cond("", stk.Ne, "x")))
			add([]any{"AND", "a"})
			add(zeroDeepEnv)                          // the same, inside 1100 single-element envelopes
			add([]any{"CONDITION", "k", stk.Eq, "v"}) // the record Condition.Unmarshal produces
			for _, rn := range []string{"maps", "maps-twin", "cond-maps", "cond-maps-twin"} {
				rv, _ := reflRecv(rn)
				add(rv)
			}
			add(testLogger)
		} else {
			add(stk.Eq)
			add(userOp{"~", "u"})
			add(sliceOp{"~", "u"})
			add(errors.New("e"))
		}
	case reflect.Func:
		// table closures for each closure type
		switch t.String() {
		case "stackage.PushPolicy", "stackage.ValidityPolicy":
			add(func(...any) error { return nil })
		case "stackage.PresentationPolicy":
			add(func(...any) string { return "P" })
		case "stackage.EqualityPolicy":
			add(func(any, any) error { return nil })
		case "stackage.Unmarshaler":
			add(func(...any) ([]any, error) { return nil, nil })
		case "stackage.Marshaler":
			add(func(...any) error { return nil })
		case "stackage.Evaluator":
			add(func(...any) (any, error) { return 1, nil })
		case "stackage.LessFunc":
			add(func(int, int) bool { return false })
		}
	case reflect.Map:
		add(stk.Auxiliary{"a": 1})
	}
	return vals
}

// callVariants: argument tuples for a method (receiver excluded)
func callVariants(mt reflect.Type, recvIn int) [][]reflect.Value {
	n := mt.NumIn() - recvIn
	var per [][]reflect.Value
	for i := 0; i < n; i++ {
		pt := mt.In(i + recvIn)
		if mt.IsVariadic() && i == n-1 {
			et := pt.Elem()
			ev := argVariants(et)
			// empty, one (each variant), two
			v := []reflect.Value{reflect.ValueOf(nil)} // marker: no variadic args
			v = append(v, ev...)
			per = append(per, v)
			continue
		}
		per = append(per, argVariants(pt))
	}
	if n == 0 {
		return [][]reflect.Value{{}}
	}
	// tuples: vary one position at a time around the "typical" choice (index 1 if present, else 0)
	typ := make([]reflect.Value, n)
	for i := range per {
		if len(per[i]) > 1 {
			typ[i] = per[i][1]
		} else {
			typ[i] = per[i][0]
		}
	}
	var out [][]reflect.Value
	seen := map[string]bool{}
	// tuples are told apart by the positions of their variants (printing the
	// values would merge distinct values that print alike, e.g. empty Conditions)
	typIdx := make([]int, n)
	for i := range per {
		if len(per[i]) > 1 {
			typIdx[i] = 1
		}
	}
	addT := func(t []reflect.Value, idx []int) {
		key := fmt.Sprint(idx)
		if !seen[key] {
			seen[key] = true
			out = append(out, append([]reflect.Value{}, t...))
		}
	}
	addT(typ, typIdx)
	for i := range per {
		for j, v := range per[i] {
			t := append([]reflect.Value{}, typ...)
			t[i] = v
			idx := append([]int{}, typIdx...)
			idx[i] = j
			addT(t, idx)
		}
	}
	return out
}

func invoke(m reflect.Value, mt reflect.Type, args []reflect.Value) (res []reflect.Value, panicked string) {
	defer func() {
		if r := recover(); r != nil {
			panicked = fmt.Sprint(r)
		}
	}()
	var in []reflect.Value
	for i, a := range args {
		if mt.IsVariadic() && i == len(args)-1 {
			if a.IsValid() {
				in = append(in, a)
			}
			continue
		}
		in = append(in, a)
	}
	return m.Call(in), ""
}

// receiver recipes
func reflRecv(name string) (recv any, isStack bool) {
	mk := func(s stk.Stack) stk.Stack {
		return s.SetID("root").SetCategory("cat").Push("a", 2, nil, stk.Or().Push("x", stk.Cond("k", stk.Ge, 5)), stk.Cond("kw", stk.Eq, stk.And().Push("y")))
	}
	switch name {
	case "and":
		return mk(stk.And()), true
	case "or-sym":
		return mk(stk.Or().SetSymbol("|").SetParen(true).SetEncap(`"`)), true
	case "not":
		return mk(stk.Not().SetFold(true)), true
	case "list":
		return mk(stk.List().SetDelimiter(",")), true
	case "basic":
		return mk(stk.Basic(9)), true
	case "fifo-mutex":
		return mk(stk.And().SetFIFO(true).SetMutex().SetNegativeIndices(true).SetForwardIndices(true)), true
	case "empty":
		return stk.And(3), true
	case "policies":
		rej := func(...any) error { return errors.New("rejected by validity policy") }
		inner := stk.Or().Push("x", "y").SetValidityPolicy(rej)
		return mk(stk.And()).Push(inner).SetValidityPolicy(rej).SetPushPolicy(func(...any) error { return nil }).
			SetPresentationPolicy(func(...any) string { return "P" }), true
	case "closures-ro":
		// every closure slot filled, then frozen: queries must neither lose nor replace any of them
		um := func(...any) ([]any, error) { return []any{"U"}, nil }
		inner := stk.Or().Push("x", "y").SetUnmarshaler(um)
		inner.SetReadOnly(true)
		failing := stk.Cond("u", stk.Eq, "v").SetUnmarshaler(func(...any) ([]any, error) { return nil, errors.New("this unmarshaler fails") })
		s := mk(stk.And()).Push(inner, stk.Cond("c", stk.Eq, inner), failing).
			SetUnmarshaler(um).SetMarshaler(func(...any) error { return nil }).
			SetEqualityPolicy(func(any, any) error { return nil }).
			SetPresentationPolicy(func(...any) string { return "P" }).
			SetValidityPolicy(func(...any) error { return nil })
		s.SetReadOnly(true)
		return s, true
	case "failing-unmarshal":
		// the default unmarshaler meets an element whose own unmarshaler fails: the
		// error is the caller's to look at, not something to store in the receiver
		bad := func(...any) ([]any, error) { return nil, errors.New("this unmarshaler fails") }
		return mk(stk.And()).Push(stk.Cond("u", stk.Eq, "v").SetUnmarshaler(bad),
			stk.Cond("w", stk.Eq, stk.Or().Push("p").SetUnmarshaler(bad))), true
	case "encap-window":
		// encapsulation schemes given as windows onto one caller-owned table:
		// the spare capacity behind each is the caller's (and the neighbour's) memory
		tbl := []string{"<", ">", "[", "]", "{", "}"}
		inner := stk.Or().Push("x", "y").SetEncap(tbl[1:2])
		return mk(stk.And().SetEncap(tbl[:1]).SetEncap(tbl[2:4])).Push(inner, stk.Cond("k", stk.Eq, "v").SetEncap(tbl[4:5])), true
	case "big":
		// 1200 elements, some of them Stacks and Conditions
		vals := make([]any, 0, 1200)
		for i := 0; i < 1200; i++ {
			switch i % 97 {
			case 13:
				vals = append(vals, stk.Or().Push(i, "x"))
			case 57:
				vals = append(vals, stk.Cond("k", stk.Eq, i))
			default:
				vals = append(vals, i)
			}
		}
		return stk.And().SetID("big").Push(vals...), true
	case "maps", "maps-twin":
		// map leaves with several entries that are no primitives: the verdict of a
		// comparison must not depend on the order the runtime walks them in
		v := 0
		if name == "maps-twin" {
			v = 1
		}
		return mk(stk.And()).Push(mapsLeaf(0), stk.Or().Push(stk.Cond("m", stk.Eq, mapsLeaf(v)))), true
	case "cond-maps", "cond-maps-twin":
		v := 0
		if name == "cond-maps-twin" {
			v = 1
		}
		return stk.Cond("m", stk.Eq, mapsLeaf(v)), false
	case "cond":
		return stk.Cond("kw", stk.Ne, "val").SetID("c").SetEncap(`'`), false
	case "cond-stack":
		return stk.Cond("kw", stk.Lt, stk.And().Push("p", "q")), false
	case "cond-init":
		var c stk.Condition
		c.Init()
		return c, false
	}
	panic("unknown receiver " + name)
}

// mapsLeaf: five entries, none a primitive; variant 1 differs in one element of one of them
func mapsLeaf(variant int) map[string]any {
	m := map[string]any{"a": []int{1, 2}, "b": []string{"x"}, "c": map[string]int{"k": 1}, "d": [2]int{3, 4}, "e": []int{5}}
	if variant == 1 {
		m["a"] = []int{1, 3}
	}
	return m
}

var zeroProbed bool
var otherHandleParent stk.Stack
var reinitProblem string

var reflStackRecvs = []string{"and", "or-sym", "not", "list", "basic", "fifo-mutex", "empty", "policies", "encap-window", "closures-ro", "failing-unmarshal", "maps", "big"}
var reflCondRecvs = []string{"cond", "cond-stack", "cond-init", "cond-maps"}

func isZeroVal(v reflect.Value) bool {
	if !v.IsValid() {
		return true
	}
	switch v.Kind() {
	case reflect.Slice, reflect.Map:
		return v.Len() == 0
	}
	return v.IsZero()
}

func runRefl(raw json.RawMessage) (res *Result, err error) {
	var in ReflInput
	if err = json.Unmarshal(raw, &in); err != nil {
		return nil, err
	}
	var recvAny any
	isStack := true
	switch in.Mode {
	case "zero":
		switch in.Recv {
		case "zstack":
			recvAny = stk.Stack{}
		case "freed":
			s := stk.And().Push(1)
			s.Free()
			recvAny = s
		case "freedpol":
			// released while its own validity policy is failing and other settings are in place:
			// Free makes the handle zero unless the instance is read-only - nothing else stops it
			s := stk.And(5).Push(1, 2).SetValidityPolicy(func(...any) error { return errors.New("fails") }).
				SetPushPolicy(func(...any) error { return errors.New("no") }).SetMutex().SetNoNesting(true)
			s.SetErr(errors.New("stale"))
			s.Free()
			recvAny = s
		case "freedbusy":
			// released (through a copy of the handle) while the instance is busy: from inside its own
			// push policy, i.e. with the stack's lock held.  Free makes the handle zero unless the
			// instance is read-only - a held lock is not a reason to refuse
			s := stk.And().Push(1)
			s.SetMutex()
			var inside stk.Stack
			s.SetPushPolicy(func(...any) error {
				inside = s
				inside.Free()
				return nil
			})
			s.Push(2)
			recvAny = inside
		case "freedpolcond":
			c := stk.Cond("k", stk.Eq, "v").SetValidityPolicy(func(...any) error { return errors.New("fails") }).SetNoNesting(true)
			c.SetErr(errors.New("stale"))
			c.Free()
			recvAny, isStack = c, false
		case "freedcond-roexpr":
			// a writable Condition whose expression is a read-only Stack (in every node
			// form): only the Condition's OWN read-only flag keeps Free from working
			mk := func() stk.Stack { s := stk.And().Push("x", "y"); s.SetReadOnly(true); return s }
			a, b := aStack(mk()), sStack(mk())
			roc := stk.Cond("in", stk.Eq, "v")
			roc.SetReadOnly(true)
			var pick *stk.Condition
			for _, ex := range []any{mk(), aStack(mk()), &a, &b, roc, stk.Cond("mid", stk.Eq, mk())} {
				c := stk.Cond("k", stk.Eq, ex)
				c.Free()
				if pick == nil || (!c.IsZero() && pick.IsZero()) {
					cc := c
					pick = &cc
				}
			}
			recvAny, isStack = *pick, false
		case "freed-ronested":
			// a writable Stack holding read-only Stacks and Conditions
			ro := stk.Or().Push("x")
			ro.SetReadOnly(true)
			roc := stk.Cond("in", stk.Eq, ro)
			roc.SetReadOnly(true)
			a := aStack(ro)
			s := stk.And().Push(ro, roc, &a, "leaf")
			s.Free()
			recvAny = s
		case "zcond":
			recvAny, isStack = stk.Condition{}, false
		case "freedcond":
			c := stk.Cond("k", stk.Eq, "v")
			c.Free()
			recvAny, isStack = c, false
		case "cond-init":
			recvAny, isStack = reflRecv("cond-init")
		case "cond-reinit":
			// a used Condition (levels, logger, options, policies, error) given a fresh start:
			// Init() must leave exactly what Init() on a zero Condition leaves
			c := stk.Cond("k", stk.Eq, "v").SetLogLevel("ERROR", "DEBUG").SetLogger("stderr").SetID("old").SetParen(true).
				SetValidityPolicy(func(...any) error { return nil }).SetEncap("'")
			c.SetErr(errors.New("old"))
			c.Init()
			var pristine stk.Condition
			pristine.Init()
			got, _ := stk.VerifDump(c)["cfg"].(map[string]any)
			want, _ := stk.VerifDump(pristine)["cfg"].(map[string]any)
			if !reflect.DeepEqual(cleanCfg(got), cleanCfg(want)) {
				gj, _ := json.Marshal(cleanCfg(got))
				wj, _ := json.Marshal(cleanCfg(want))
				reinitProblem = fmt.Sprintf("Init() on a used Condition left %s, a pristine Init() leaves %s", gj, wj)
			}
			recvAny, isStack = c, false
		case "other-handle":
			// the instance was released through ANOTHER handle; this handle keeps
			// referring to it and must stay usable (Free only zeroes the handle it is called on)
			s := stk.And().Push(1, stk.Or().Push("x"), stk.Cond("k", stk.Eq, stk.And().Push("y")))
			s2 := s
			parent := stk.And().Push(s, "sib")
			s.Free()
			recvAny = s2
			otherHandleParent = parent
		case "other-handle-cond":
			c := stk.Cond("k", stk.Eq, "v")
			c2 := c
			c.Free()
			recvAny, isStack = c2, false
		case "nilaux":
			var a stk.Auxiliary
			recvAny = a
		}
	default:
		if in.Tree != nil {
			recvAny = in.Tree.BuildStack()
		} else {
			recvAny, isStack = reflRecv(in.Recv)
		}
	}
	// addressable copy so that pointer-receiver methods are reachable
	pv := reflect.New(reflect.TypeOf(recvAny))
	pv.Elem().Set(reflect.ValueOf(recvAny))
	if in.Mode == "ro" {
		if isStack {
			pv.Elem().Interface().(stk.Stack).SetReadOnly(true)
		} else {
			pv.Elem().Interface().(stk.Condition).SetReadOnly(true)
		}
	}
	problems := []string{}
	if in.Mode == "zero" && !zeroProbed {
		zeroProbed = true
		if p := ptrExprProbe(); p != "" {
			problems = append(problems, p)
		}
	}
	if reinitProblem != "" {
		problems = append(problems, reinitProblem)
		reinitProblem = ""
	}
	panicked := false
	var records []any
	dumpIgnoreErr = false
	for _, c := range in.Calls {
		if in.Mode == "ro" && c.Method == "SetErr" {
			dumpIgnoreErr = true
		}
	}
	if in.DefLog {
		stk.SetDefaultStackLogger(reflLiveLogger)
		stk.SetDefaultConditionLogger(reflLiveLogger)
		defer func() {
			stk.SetDefaultStackLogger(nil)
			stk.SetDefaultConditionLogger(nil)
		}()
	}
	heldHandle := pv.Elem().Interface() // a second handle to the instance as it is now
	before := deepDump(heldHandle, 0)
	for _, c := range in.Calls {
		m := pv.MethodByName(c.Method)
		if !m.IsValid() {
			problems = append(problems, "no such method "+c.Method)
			continue
		}
		mt := m.Type()
		vars := callVariants(mt, 0)
		if c.Variant >= len(vars) {
			continue
		}
		args := vars[c.Variant]
		out, p := invoke(m, mt, args)
		rec := map[string]any{"m": c.Method, "v": c.Variant}
		if p != "" {
			panicked = true
			rec["panic"] = p
			problems = append(problems, c.Method+": panic: "+p)
			records = append(records, rec)
			break
		}
		switch in.Mode {
		case "query":
			// same answer when repeated (compare printed forms; pointers compare by identity)
			out2, p2 := invoke(m, mt, args)
			if p2 != "" {
				panicked = true
				problems = append(problems, c.Method+": panic on repeat: "+p2)
			} else {
				for i := range out {
					a, b := fmt.Sprintf("%#v", out[i].Interface()), fmt.Sprintf("%#v", out2[i].Interface())
					if out[i].Kind() == reflect.Func || (out[i].Kind() == reflect.Interface && !out[i].IsNil() && out[i].Elem().Kind() == reflect.Func) {
						continue
					}
					if a != b && c.Method != "Addr" {
						problems = append(problems, fmt.Sprintf("%s: answers differ: %s vs %s", c.Method, a, b))
					}
				}
				// a comparison is asked many more times: its verdict must not depend on
				// anything that varies between calls (the walk order of a map, say)
				if c.Method == "IsEqual" && len(out) == 1 {
					first := fmt.Sprintf("%#v", out[0].Interface())
					for k := 0; k < 16; k++ {
						o, pk := invoke(m, mt, args)
						if pk != "" || len(o) != 1 || fmt.Sprintf("%#v", o[0].Interface()) != first {
							problems = append(problems, fmt.Sprintf("IsEqual: answer %d differs from the first (%s)", k+3, first))
							break
						}
					}
				}
				// containers handed back must be fresh: scribble on the Unmarshal slice
				if c.Method == "Unmarshal" && len(out) > 0 && out[0].Kind() == reflect.Slice && out[0].Len() > 0 {
					first := fmt.Sprintf("%#v", out2[0].Interface())
					out[0].Index(0).Set(reflect.ValueOf(any("SCRIBBLE")))
					out3, _ := invoke(m, mt, args)
					if len(out3) > 0 && fmt.Sprintf("%#v", out3[0].Interface()) != first {
						problems = append(problems, "Unmarshal: altering the returned slice changed the next answer")
					}
				}
			}
		case "zero":
			skip := map[string]bool{"IsZero": true, "IsEmpty": true, "ID": true, "Kind": true, "Addr": true, "Valid": true, "IsEqual": true,
				"Marshal": true, "Init": true, "String": false}
			if in.Recv == "cond-init" || in.Recv == "cond-reinit" || in.Recv == "other-handle" || in.Recv == "other-handle-cond" {
				break // an initialised instance: only panic-freedom is required
			}
			// the Marshal exception: well-formed input brings a zero / freed Stack to life
			if c.Method == "Marshal" && isStack && len(args) == 1 && args[0].IsValid() {
				var arg any = args[0].Interface()
				if vs, isVariadic := arg.([]any); isVariadic && len(vs) == 1 {
					if inner, isList := vs[0].([]any); isList {
						arg = inner // Marshal(x): the variadic list holds the one argument
					}
				}
				if l, ok := arg.([]any); ok && len(l) > 0 {
					inner := l
					for len(inner) == 1 {
						n, isList := inner[0].([]any)
						if !isList {
							break
						}
						inner = n
					}
					if len(inner) == 2 && inner[0] == "AND" && inner[1] == "a" {
						got := pv.Elem().Interface().(stk.Stack)
						if !got.IsInit() || got.Len() != 1 || got.Kind() != "AND" {
							problems = append(problems, fmt.Sprintf("Marshal of well-formed input into a zero / freed Stack: IsInit %v, Len %d, Kind %q afterwards (want true, 1, AND)", got.IsInit(), got.Len(), got.Kind()))
						}
					}
				}
			}
			if !skip[c.Method] {
				for i, o := range out {
					// methods returning the receiver itself (fluent setters) hand back the zero handle
					if o.Type() == pv.Elem().Type() {
						continue
					}
					if !isZeroVal(o) {
						problems = append(problems, fmt.Sprintf("%s: result %d is not zero: %#v", c.Method, i, o.Interface()))
					}
				}
			}
		}
		records = append(records, rec)
	}
	after := deepDump(pv.Elem().Interface(), 0)
	if in.Held {
		after = deepDump(heldHandle, 0)
	}
	switch in.Mode {
	case "ro", "query":
		if !reflect.DeepEqual(before, after) {
			bj, _ := json.Marshal(before)
			aj, _ := json.Marshal(after)
			problems = append(problems, fmt.Sprintf("state changed: before=%s after=%s", trunc(string(bj), 600), trunc(string(aj), 600)))
		}
		if in.Mode == "ro" && !panicked && !in.Held {
			// the read-only instance handed to OTHER instances as an argument (pushed into a
			// policed Stack, set as a Condition's expression, named as a Transfer
			// destination, compared): whatever they do with it, it stays as it is
			func() {
				defer func() {
					if r := recover(); r != nil {
						problems = append(problems, "handing the read-only instance to another instance panicked: "+fmt.Sprint(r))
					}
				}()
				m := pv.Elem().Interface()
				accept := func(...any) error { return nil }
				p := stk.And().SetPushPolicy(accept).SetValidityPolicy(accept).SetPresentationPolicy(func(...any) string { return "P" }).
					SetEqualityPolicy(func(any, any) error { return nil }).SetMutex()
				p.SetLogLevel("ALL")
				p.Push("a", m)
				p.Insert(m, 0)
				p.Replace(m, 0)
				_ = p.String()
				_ = p.Valid()
				_ = p.IsEqual(m)
				_, _ = p.Unmarshal()
				stk.And().Push("x", "y").Transfer(m) // (Defrag / Reveal of a parent: families defragro, revealro)
				c := stk.Cond("k", stk.Eq, m).SetValidityPolicy(accept)
				c.SetExpression(m)
				_ = c.String()
				_, _ = c.Unmarshal()
				_, _ = stk.ConvertStack(m)
				_, _ = stk.ConvertCondition(m)
				if now := deepDump(m, 0); !reflect.DeepEqual(before, now) {
					bj, _ := json.Marshal(before)
					aj, _ := json.Marshal(now)
					problems = append(problems, fmt.Sprintf("the read-only instance changed while other instances handled it: before=%s after=%s", trunc(string(bj), 600), trunc(string(aj), 600)))
				}
			}()
			// clearing the flag restores full mutability
			if isStack {
				s := pv.Elem().Interface().(stk.Stack)
				s.SetReadOnly(false)
				n := s.Len()
				full := s.IsFull()
				s.Push("probe")
				if !full && s.Len() != n+1 {
					problems = append(problems, "after clearing read-only a Push did not take effect")
				}
			} else {
				c := pv.Elem().Interface().(stk.Condition)
				c.SetReadOnly(false)
				c.SetKeyword("probe")
				if c.Keyword() != "probe" {
					problems = append(problems, "after clearing read-only SetKeyword did not take effect")
				}
			}
		}
	case "zero":
		if in.Recv == "other-handle" {
			func() {
				defer func() {
					if r := recover(); r != nil {
						problems = append(problems, "the parent of an instance freed through another handle panics: "+fmt.Sprint(r))
					}
				}()
				_ = otherHandleParent.String()
				_, _ = otherHandleParent.Unmarshal()
				_, _ = otherHandleParent.Traverse(0, 0)
			}()
		}
		if in.Recv != "cond-init" && in.Recv != "cond-reinit" && in.Recv != "nilaux" && in.Recv != "other-handle" && in.Recv != "other-handle-cond" {
			stillZero := true
			func() {
				defer func() {
					if r := recover(); r != nil {
						stillZero = false
					}
				}()
				if isStack {
					s := pv.Elem().Interface().(stk.Stack)
					stillZero = s.IsZero() && !s.IsInit()
				} else {
					c := pv.Elem().Interface().(stk.Condition)
					stillZero = c.IsZero() && !c.IsInit()
				}
			}()
			exempt := false
			for _, c := range in.Calls {
				if c.Method == "Marshal" || c.Method == "Init" {
					exempt = true
				}
			}
			if !stillZero && !exempt {
				problems = append(problems, "the zero instance came to life")
			}
		}
	}
	ok := len(problems) == 0
	coq := fmt.Sprintf("(MkA %s %s)", coqBool(panicked), coqBool(ok))
	tags := []string{"mode:" + in.Mode, "recv:" + in.Recv}
	for _, c := range in.Calls {
		tags = append(tags, "m:"+c.Method)
	}
	return &Result{Coq: coq, Observed: map[string]any{"problems": problems, "calls": records}, Tags: tags, Nontrivial: true}, nil
}

func trunc(s string, n int) string {
	if len(s) > n {
		return s[:n] + "..."
	}
	return s
}

func nVariants(recv any, method string) int {
	pv := reflect.New(reflect.TypeOf(recv))
	m := pv.MethodByName(method)
	if !m.IsValid() {
		return 0
	}
	return len(callVariants(m.Type(), 0))
}

var roExceptions = map[string]bool{"SetReadOnly": true, "ReadOnly": true, "SetErr": true, "Init": true}

// in sequences SetErr may appear (documented exception): it may change the
// error field and nothing else, and the instance must stay read-only
var roSeqExceptions = map[string]bool{"SetReadOnly": true, "ReadOnly": true, "Init": true}

func genRoReflect(ctx *Ctx, emit func(any, string)) {
	emit = withDefLog(emit)
	sm := methodNames(&stk.Stack{})
	cm := methodNames(&stk.Condition{})
	for _, rn := range reflStackRecvs {
		if ctx.Quick() && (rn == "not" || rn == "basic") {
			continue
		}
		r, _ := reflRecv(rn)
		for _, m := range sm {
			if roExceptions[m] {
				continue
			}
			for v := 0; v < nVariants(r, m); v++ {
				emit(ReflInput{Mode: "ro", Recv: rn, Calls: []RCall{{m, v}}}, "exhaustive")
			}
		}
	}
	for _, rn := range reflCondRecvs {
		r, _ := reflRecv(rn)
		for _, m := range cm {
			if roExceptions[m] {
				continue
			}
			for v := 0; v < nVariants(r, m); v++ {
				emit(ReflInput{Mode: "ro", Recv: rn, Calls: []RCall{{m, v}}}, "exhaustive")
			}
		}
	}
	// Init first (a documented exception: the variable gets a fresh instance),
	// then any method once: the former, read-only instance - still reachable
	// through a second handle - must stay exactly as it was
	for _, rn := range []string{"cond", "cond-stack"} {
		r, _ := reflRecv(rn)
		for _, m := range cm {
			if m == "Init" {
				continue
			}
			nv := nVariants(r, m)
			for v := 0; v < nv; v++ {
				emit(ReflInput{Mode: "ro", Recv: rn, Held: true, Calls: []RCall{{"Init", 0}, {m, v}}}, "exhaustive")
			}
		}
	}
	// SetErr first (with a non-nil and with a nil error), then every other method once
	for _, rn := range []string{"and", "cond"} {
		r, isS := reflRecv(rn)
		names := sm
		if !isS {
			names = cm
		}
		for ev := 0; ev < nVariants(r, "SetErr"); ev++ {
			for _, m := range names {
				if roSeqExceptions[m] || m == "SetErr" {
					continue
				}
				nv := nVariants(r, m)
				if nv > 2 {
					nv = 2
				}
				for v := 0; v < nv; v++ {
					emit(ReflInput{Mode: "ro", Recv: rn, Calls: []RCall{{"SetErr", ev}, {m, v}}}, "exhaustive")
				}
			}
		}
	}
	// random sequences of up to 6 calls
	n := ctx.N(150, 4000)
	for i := 0; i < n; i++ {
		r := ctx.Rng.Fork()
		isS := r.Pct(65)
		var rn string
		var names []string
		if isS {
			rn, names = reflStackRecvs[r.Intn(len(reflStackRecvs))], sm
		} else {
			rn, names = reflCondRecvs[r.Intn(len(reflCondRecvs))], cm
		}
		rv, _ := reflRecv(rn)
		var calls []RCall
		for k := r.Range(2, 6); k > 0; k-- {
			m := names[r.Intn(len(names))]
			if roSeqExceptions[m] {
				continue
			}
			nv := nVariants(rv, m)
			if nv == 0 {
				continue
			}
			calls = append(calls, RCall{m, r.Intn(nv)})
		}
		emit(ReflInput{Mode: "ro", Recv: rn, Calls: calls}, "random")
	}
}

func genQueryReflect(ctx *Ctx, emit func(any, string)) {
	emit = withDefLog(emit)
	sm := methodNames(&stk.Stack{})
	cm := methodNames(&stk.Condition{})
	for _, rn := range reflStackRecvs {
		r, _ := reflRecv(rn)
		for _, m := range sm {
			if stackMutators[m] {
				continue
			}
			for v := 0; v < nVariants(r, m); v++ {
				emit(ReflInput{Mode: "query", Recv: rn, Calls: []RCall{{m, v}}}, "exhaustive")
			}
		}
	}
	for _, rn := range reflCondRecvs {
		r, _ := reflRecv(rn)
		for _, m := range cm {
			if condMutators[m] {
				continue
			}
			for v := 0; v < nVariants(r, m); v++ {
				emit(ReflInput{Mode: "query", Recv: rn, Calls: []RCall{{m, v}}}, "exhaustive")
			}
		}
	}
	// random trees (mutex-enabled and read-only nodes included), sequences of queries
	n := ctx.N(150, 4000)
	var queries []string
	for _, m := range sm {
		if !stackMutators[m] {
			queries = append(queries, m)
		}
	}
	for i := 0; i < n; i++ {
		r := ctx.Rng.Fork()
		g := DefaultTreeGen(r)
		g.MutexPct = 30
		g.Leaves = append(g.Leaves, "nil")
		t := g.Stack(0)
		if r.Pct(30) {
			t.Opt |= 128
		}
		rv := t.BuildStack()
		var calls []RCall
		for k := r.Range(2, 6); k > 0; k-- {
			m := queries[r.Intn(len(queries))]
			nv := nVariants(rv, m)
			if nv == 0 {
				continue
			}
			calls = append(calls, RCall{m, r.Intn(nv)})
		}
		emit(ReflInput{Mode: "query", Recv: "tree", Tree: t, Calls: calls}, "random")
	}
}

func genZeroReflect(ctx *Ctx, emit func(any, string)) {
	emit = withDefLog(emit)
	sm := methodNames(&stk.Stack{})
	cm := methodNames(&stk.Condition{})
	am := methodNames(&stk.Auxiliary{})
	for _, rn := range []string{"zstack", "freed", "freedpol", "freedbusy", "freed-ronested", "other-handle"} {
		for _, m := range sm {
			for v := 0; v < nVariants(stk.Stack{}, m); v++ {
				emit(ReflInput{Mode: "zero", Recv: rn, Calls: []RCall{{m, v}}}, "exhaustive")
			}
		}
	}
	for _, rn := range []string{"zcond", "freedcond", "freedpolcond", "freedcond-roexpr", "cond-init", "cond-reinit", "other-handle-cond"} {
		for _, m := range cm {
			for v := 0; v < nVariants(stk.Condition{}, m); v++ {
				emit(ReflInput{Mode: "zero", Recv: rn, Calls: []RCall{{m, v}}}, "exhaustive")
			}
		}
	}
	for _, m := range am {
		for v := 0; v < nVariants(stk.Auxiliary{}, m); v++ {
			emit(ReflInput{Mode: "zero", Recv: "nilaux", Calls: []RCall{{m, v}}}, "exhaustive")
		}
	}
}

// methodSets is written next to the cases so that check.py can compare the
// reflection view with the translator's entry table.
func methodSets() map[string][]string {
	return map[string][]string{"Stack": methodNames(&stk.Stack{}), "Condition": methodNames(&stk.Condition{}), "Auxiliary": methodNames(&stk.Auxiliary{})}
}

func init() {
	register(&Family{Name: "roreflect", Gen: genRoReflect, Run: runRefl,
		Rule: "exhaustive: every exported method of Stack/*Stack/Condition/*Condition found by reflection (documented exceptions SetReadOnly, ReadOnly, SetErr, Init excluded) x argument variants synthesised from its signature (zero, typical, awkward values per parameter, one position varied at a time; variadics empty/one) x read-only receivers of every kind with nested content; random: sequences of 2-6 such calls. Observed: deep hidden state (VerifDump of the whole tree: every configuration field, option word, closures and logger by identity, log levels, slots) identical before/after; then the flag is cleared and a mutator must work. every case non-trivial"})
	register(&Family{Name: "queryreflect", Gen: genQueryReflect, Run: runRefl,
		Rule: "exhaustive: every exported method not in the declared mutator list x argument variants x receivers of every kind (mutex-enabled, FIFO included); random: sequences of 2-6 queries on random trees with mutex-enabled and read-only nodes. Observed: deep hidden state of the whole tree identical before/after, repeated call gives the same answer, scribbling on the returned Unmarshal slice does not change the next answer. every case non-trivial"})
	register(&Family{Name: "zeroreflect", Gen: genZeroReflect, Run: runRefl,
		Rule: "exhaustive: every exported method of Stack, Condition, Auxiliary x argument variants x receiver in {zero value, freed, Init()-only Condition, nil Auxiliary}. Observed: no panic, zero results (sentinel strings of ID/Kind/Addr and the truthful IsZero/IsEmpty excepted; errors from Valid/IsEqual allowed), IsZero/IsInit unchanged afterwards (Marshal and Init excepted). every case non-trivial"})
}
