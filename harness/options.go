package main

// Family options (property C18): sequences of option / settings calls on a
// Stack (any kind) or a Condition.  After EVERY call the public getters and,
// through the hook stackage.VerifDump, the raw option word, log-level word,
// symbol, delimiter, encapsulation list, id, category, FIFO flag, auxiliary
// map identity and the content are recorded.  Coq side: OptionsTypes.v
// (ocase), Options.v / OptionsCorr.v (model), OptionsSpec.v /
// OptionsSpecCorr.v (specification).

import (
	"encoding/json"
	"fmt"
	"io"
	"log"
	"reflect"
	"strings"

	stk "github.com/JesseCoretta/go-stackage"
)

// OArg is one `any` argument of a string-valued setter.
//
//	k = str    : string S
//	k = rune   : rune(I)
//	k = nil    : untyped nil
//	k = other  : a value of a type the setter does not know (variant I)
//	k = slice  : []string L
//	k = name   : string S (log-level name)
//	k = const  : stackage.LogLevel(I)
//	k = int    : int(I)
type OArg struct {
	K string   `json:"k"`
	S string   `json:"s,omitempty"`
	I int      `json:"i,omitempty"`
	L []string `json:"l,omitempty"`
}

// OCall is one call.
//
//	setopt O T     SetParen/SetFold/SetNoPadding/SetLeadOnce/SetNegativeIndices/
//	               SetForwardIndices/SetNoNesting/SetReadOnly; T: 0 toggle, 1 true, 2 false
//	setfifo B | setid S | setcat S | setdelim Args[0] | setsym Args | setencap Args
//	setaux I (-2: no argument, -1: nil map, k>=1: the k-th map of the harness)
//	setlog Args | unsetlog Args
type OCall struct {
	Op   string `json:"op"`
	O    string `json:"o,omitempty"`
	T    int    `json:"t,omitempty"`
	B    bool   `json:"b,omitempty"`
	S    string `json:"s,omitempty"`
	I    int    `json:"i,omitempty"`
	Args []OArg `json:"args,omitempty"`
	// Alt: the call is made through the deprecated spelling of the method
	// (Paren for SetParen, Encap for SetEncap, ...): same behaviour
	Alt bool `json:"alt,omitempty"`
}

type OptInput struct {
	Rk      string  `json:"rk"`   // stack | cond
	Kind    string  `json:"kind"` // AND OR NOT LIST BASIC (stack)
	Content []int   `json:"content"`
	Ops     []OCall `json:"ops"`
}

var optNames = []string{"paren", "fold", "nopad", "leadonce", "neg", "fwd", "nonest", "ronly"}
var condOptNames = []string{"paren", "nopad", "nonest", "ronly"}
var optCoq = map[string]string{"paren": "OParen", "fold": "OFold", "nopad": "ONoPad", "leadonce": "OLeadOnce",
	"neg": "ONegIdx", "fwd": "OFwdIdx", "nonest": "ONoNest", "ronly": "OReadOnly"}

type foreign struct{ x int }

func otherValue(i int) any {
	switch i % 5 {
	case 0:
		return int64(44) // neither string, rune, int nor LogLevel
	case 1:
		return 1.5
	case 2:
		return uint16(4)
	case 3:
		return []byte("ab")
	}
	return foreign{7}
}

func (a OArg) value() any {
	switch a.K {
	case "str", "name":
		return a.S
	case "rune":
		return rune(a.I)
	case "nil":
		return nil
	case "slice":
		if a.L == nil {
			return []string{}
		}
		return append([]string{}, a.L...)
	case "const":
		return stk.LogLevel(uint16(a.I))
	case "int":
		return a.I
	}
	return otherValue(a.I)
}

// obytes is coqBytes with explicit N literals (the shards open Z_scope).
func obytes(s string) string {
	t := coqBytes(s)
	if !strings.HasPrefix(t, "(L [") {
		return t
	}
	var parts []string
	for _, c := range []byte(s) {
		parts = append(parts, fmt.Sprintf("%d%%N", c))
	}
	return "(L [" + strings.Join(parts, ";") + "])"
}

func coqByteList(l []string) string {
	var ts []string
	for _, s := range l {
		ts = append(ts, obytes(s))
	}
	return coqList(ts)
}

func (a OArg) targ() string {
	switch a.K {
	case "str":
		return "(TStr " + obytes(a.S) + ")"
	case "rune":
		return "(TRune " + coqZ(int(rune(a.I))) + ")"
	case "nil":
		return "TNil"
	}
	return "TOther"
}
func (a OArg) earg() string {
	switch a.K {
	case "str":
		return "(EStr " + obytes(a.S) + ")"
	case "slice":
		return "(ESlice " + coqByteList(a.L) + ")"
	}
	return "EOther"
}
func (a OArg) larg() string {
	switch a.K {
	case "name":
		return "(LName " + obytes(a.S) + ")"
	case "const":
		return fmt.Sprintf("(LConst %d%%N)", uint16(a.I))
	case "int":
		return "(LInt " + coqZ(a.I) + ")"
	}
	return "LOther"
}

func mapArgs(args []OArg, f func(OArg) string) string {
	var ts []string
	for _, a := range args {
		ts = append(ts, f(a))
	}
	return coqList(ts)
}

func (c OCall) coq() string {
	switch c.Op {
	case "setopt":
		return fmt.Sprintf("(CSetOpt %s %s)", optCoq[c.O], coqTri(c.T))
	case "setfifo":
		return "(CSetFIFO " + coqBool(c.B) + ")"
	case "setid":
		return "(CSetID " + obytes(c.S) + ")"
	case "setcat":
		return "(CSetCat " + obytes(c.S) + ")"
	case "setdelim":
		return "(CSetDelim " + c.Args[0].targ() + ")"
	case "setsym":
		return "(CSetSymbol " + mapArgs(c.Args, OArg.targ) + ")"
	case "setencap":
		return "(CSetEncap " + mapArgs(c.Args, OArg.earg) + ")"
	case "setaux":
		switch {
		case c.I == -2:
			return "(CSetAux ANone)"
		case c.I == -1:
			return "(CSetAux ANil)"
		}
		return fmt.Sprintf("(CSetAux (AMap %d%%N))", c.I)
	case "setlog":
		return "(CSetLog " + mapArgs(c.Args, OArg.larg) + ")"
	case "unsetlog":
		return "(CUnsetLog " + mapArgs(c.Args, OArg.larg) + ")"
	}
	panic("unknown call " + c.Op)
}

type optRun struct {
	kindWord  string // AND OR NOT LIST BASIC
	invariant string
	isStack   bool
	s         stk.Stack
	c         stk.Condition
	maps      []stk.Auxiliary // maps[k-1] is the k-th map of the harness
}

// swapLogger: choosing another logger (every other time) has nothing to say
// about the levels, the options or any other setting
func (r *optRun) swapLogger(k int) {
	if k%2 != 0 {
		return
	}
	var lg any = log.New(io.Discard, "", 0)
	if k%4 == 0 {
		lg = "off"
	}
	if r.isStack {
		r.s.SetLogger(lg)
	} else {
		r.c.SetLogger(lg)
	}
}

func (r *optRun) auxByPtr(isnil bool, p uintptr, n int) (string, any) {
	if isnil {
		return "None", nil
	}
	for k, hm := range r.maps {
		if reflect.ValueOf(hm).Pointer() == p {
			return fmt.Sprintf("(Some %d%%N)", k+1), k + 1
		}
	}
	if n != 0 {
		return "(Some 99%N)", "package-allocated map is not empty"
	}
	return "(Some 0%N)", 0
}

func (r *optRun) auxID(m stk.Auxiliary) (string, any) {
	if m == nil {
		return "None", nil
	}
	return r.auxByPtr(false, reflect.ValueOf(m).Pointer(), len(m))
}

func anyValues(args []OArg) []any {
	var vs []any
	for _, a := range args {
		vs = append(vs, a.value())
	}
	return vs
}

func (r *optRun) exec(c OCall) {
	st := triArgs(c.T)
	switch c.Op {
	case "setopt":
		if c.Alt {
			done := true
			if r.isStack {
				switch c.O {
				case "paren":
					r.s.Paren(st...)
				case "fold":
					r.s.Fold(st...)
				case "nopad":
					r.s.NoPadding(st...)
				case "leadonce":
					r.s.LeadOnce(st...)
				case "neg":
					r.s.NegativeIndices(st...)
				case "fwd":
					r.s.ForwardIndices(st...)
				case "nonest":
					r.s.NoNesting(st...)
				case "ronly":
					r.s.ReadOnly(st...)
				default:
					done = false
				}
			} else {
				switch c.O {
				case "paren":
					r.c.Paren(st...)
				case "nopad":
					r.c.NoPadding(st...)
				case "nonest":
					r.c.NoNesting(st...)
				default:
					done = false
				}
			}
			if done {
				return
			}
		}
		if r.isStack {
			switch c.O {
			case "paren":
				r.s.SetParen(st...)
			case "fold":
				r.s.SetFold(st...)
			case "nopad":
				r.s.SetNoPadding(st...)
			case "leadonce":
				r.s.SetLeadOnce(st...)
			case "neg":
				r.s.SetNegativeIndices(st...)
			case "fwd":
				r.s.SetForwardIndices(st...)
			case "nonest":
				r.s.SetNoNesting(st...)
			case "ronly":
				r.s.SetReadOnly(st...)
			default:
				panic("unknown option " + c.O)
			}
			return
		}
		switch c.O {
		case "paren":
			r.c.SetParen(st...)
		case "nopad":
			r.c.SetNoPadding(st...)
		case "nonest":
			r.c.SetNoNesting(st...)
		case "ronly":
			r.c.SetReadOnly(st...)
		default:
			panic("Condition has no option " + c.O)
		}
	case "setfifo":
		r.s.SetFIFO(c.B)
	case "setid":
		if r.isStack {
			r.s.SetID(c.S)
		} else {
			r.c.SetID(c.S)
		}
	case "setcat":
		if r.isStack {
			r.s.SetCategory(c.S)
		} else {
			r.c.SetCategory(c.S)
		}
	case "setdelim":
		r.s.SetDelimiter(c.Args[0].value())
	case "setsym":
		if c.Alt {
			r.s.Symbol(anyValues(c.Args)...)
		} else {
			r.s.SetSymbol(anyValues(c.Args)...)
		}
	case "setencap":
		if c.Alt {
			if r.isStack {
				r.s.Encap(anyValues(c.Args)...)
			} else {
				r.c.Encap(anyValues(c.Args)...)
			}
			return
		}
		if r.isStack {
			r.s.SetEncap(anyValues(c.Args)...)
		} else {
			r.c.SetEncap(anyValues(c.Args)...)
		}
	case "setaux":
		var a []stk.Auxiliary
		switch {
		case c.I == -1:
			a = []stk.Auxiliary{nil}
		case c.I >= 1:
			a = []stk.Auxiliary{r.maps[c.I-1]}
		}
		if r.isStack {
			r.s.SetAuxiliary(a...)
		} else {
			r.c.SetAuxiliary(a...)
		}
	case "setlog":
		if r.isStack {
			r.s.SetLogLevel(anyValues(c.Args)...)
		} else {
			r.c.SetLogLevel(anyValues(c.Args)...)
		}
		r.swapLogger(len(c.Args))
	case "unsetlog":
		if r.isStack {
			r.s.UnsetLogLevel(anyValues(c.Args)...)
		} else {
			r.c.UnsetLogLevel(anyValues(c.Args)...)
		}
		r.swapLogger(len(c.Args) + 1)
	default:
		panic("unknown call " + c.Op)
	}
}

// observe reads every getter and the hidden fields; returns the Coq term of
// the observation and a JSON-able record.
func (r *optRun) observe() (string, map[string]any) {
	var x any = r.c
	if r.isStack {
		x = r.s
	}
	d := stk.VerifDump(x)
	cfg, _ := d["cfg"].(map[string]any)
	if cfg == nil {
		panic("VerifDump shows no configuration record")
	}
	geti := func(k string) int { v, _ := cfg[k].(int); return v }
	gets := func(k string) string { v, _ := cfg[k].(string); return v }
	getb := func(k string) bool { v, _ := cfg[k].(bool); return v }
	enc, _ := cfg["enc"].([][]string)
	var encT []string
	for _, e := range enc {
		encT = append(encT, coqByteList(e))
	}
	var isparen, ispadded, isro, cannest, isencap, isfifo, idxneg, idxfwd bool
	var gid, gcat, gdelim, glog string
	var gaux stk.Auxiliary
	var content []int
	if r.isStack {
		s := r.s
		isparen, ispadded, isro, cannest, isencap, isfifo = s.IsParen(), s.IsPadded(), s.IsReadOnly(), s.CanNest(), s.IsEncap(), s.IsFIFO()
		gid, gcat, gdelim, glog, gaux = s.ID(), s.Category(), s.Delimiter(), s.LogLevels(), s.Auxiliary()
		_, idxneg = s.Index(-1)
		_, idxfwd = s.Index(s.Len() + 1)
		// Kind(): the symbol exactly as stored when there is one, the kind
		// word otherwise (lower case under case folding) - no option may
		// alter the symbol
		wantKind := r.kindWord
		if geti("opt")&2 != 0 {
			wantKind = strings.ToLower(wantKind)
		}
		if sym := gets("sym"); sym != "" {
			wantKind = sym
		}
		if got := s.Kind(); got != wantKind && r.invariant == "" {
			r.invariant = fmt.Sprintf("Kind() = %q, want %q (stored symbol %q, option word %d)", got, wantKind, gets("sym"), geti("opt"))
		}
		slots, _ := d["slots"].([]any)
		for _, v := range slots {
			if n, ok := v.(int); ok {
				content = append(content, n)
			} else {
				content = append(content, -999)
			}
		}
		if s.Len() != len(slots) {
			content = append(content, -998)
		}
	} else {
		c := r.c
		isparen, ispadded, isro, cannest, isencap, isfifo = c.IsParen(), c.IsPadded(), c.IsReadOnly(), c.CanNest(), c.IsEncap(), c.IsFIFO()
		gid, gcat, glog, gaux = c.ID(), c.Category(), c.LogLevels(), c.Auxiliary()
		ex, opc, kwc := -999, 0, 0
		if n, ok := c.Expression().(int); ok {
			ex = n
		}
		if c.Operator() != nil && c.Operator().String() == "=" {
			opc = 1
		}
		if c.Keyword() == "kw" {
			kwc = 1
		}
		content = []int{ex, opc, kwc}
	}
	rawPtr, _ := cfg["aux"].(uintptr)
	rawKeys, _ := cfg["auxkeys"].([]string)
	rawAuxT, rawAuxJ := r.auxByPtr(getb("auxnil"), rawPtr, len(rawKeys))
	gauxT, gauxJ := r.auxID(gaux)
	var ct []string
	for _, n := range content {
		ct = append(ct, coqZ(n))
	}
	if geti("lvl") == 0 && gets("sym") == "" && gets("ljc") == "" && len(enc) == 0 && gets("id") == "" && gets("cat") == "" &&
		!getb("ord") && rawAuxJ == nil && !isencap && !isfifo && gid == "" && gcat == "" && gdelim == "" && glog == "NONE" && gauxJ == nil {
		term := fmt.Sprintf("(ObsD %d%%N %s %s %s %s %s %s %s)", geti("opt"), coqBool(isparen), coqBool(ispadded), coqBool(isro),
			coqBool(cannest), coqBool(idxneg), coqBool(idxfwd), coqList(ct))
		return term, rec0(geti, gets, getb, enc, rawAuxJ, isparen, ispadded, isro, cannest, isencap, isfifo, gid, gcat, gdelim, glog, gauxJ, idxneg, idxfwd, content)
	}
	term := fmt.Sprintf("(MkObs %d%%N %d%%N %s %s %s %s %s %s %s %s %s %s %s %s %s %s %s %s %s %s %s %s %s)",
		geti("opt"), geti("lvl"), obytes(gets("sym")), obytes(gets("ljc")), coqList(encT),
		obytes(gets("id")), obytes(gets("cat")), coqBool(getb("ord")), rawAuxT,
		coqBool(isparen), coqBool(ispadded), coqBool(isro), coqBool(cannest), coqBool(isencap), coqBool(isfifo),
		obytes(gid), obytes(gcat), obytes(gdelim), obytes(glog), gauxT,
		coqBool(idxneg), coqBool(idxfwd), coqList(ct))
	rec := rec0(geti, gets, getb, enc, rawAuxJ, isparen, ispadded, isro, cannest, isencap, isfifo, gid, gcat, gdelim, glog, gauxJ, idxneg, idxfwd, content)
	return term, rec
}

func rec0(geti func(string) int, gets func(string) string, getb func(string) bool, enc [][]string, rawAuxJ any,
	isparen, ispadded, isro, cannest, isencap, isfifo bool, gid, gcat, gdelim, glog string, gauxJ any, idxneg, idxfwd bool, content []int) map[string]any {
	rec := map[string]any{
		"opt": geti("opt"), "lvl": geti("lvl"), "sym": gets("sym"), "ljc": gets("ljc"), "enc": enc, "id": gets("id"),
		"cat": gets("cat"), "ord": getb("ord"), "aux": rawAuxJ,
		"IsParen": isparen, "IsPadded": ispadded, "IsReadOnly": isro, "CanNest": cannest, "IsEncap": isencap, "IsFIFO": isfifo,
		"ID": gid, "Category": gcat, "Delimiter": gdelim, "LogLevels": glog, "Auxiliary": gauxJ,
		"Index(-1)ok": idxneg, "Index(len+1)ok": idxfwd, "content": content,
	}
	return rec
}

func callTarget(c OCall) string {
	if c.Op == "setopt" {
		return "opt:" + c.O
	}
	return c.Op
}

func runOptions(raw json.RawMessage) (*Result, error) {
	var in OptInput
	if err := json.Unmarshal(raw, &in); err != nil {
		return nil, err
	}
	r := &optRun{isStack: in.Rk != "cond"}
	for k := 0; k < 3; k++ {
		r.maps = append(r.maps, stk.Auxiliary{fmt.Sprintf("m%d", k+1): k})
	}
	r.maps = append(r.maps, stk.Auxiliary{}) // the 4th map is non-nil and EMPTY: still the caller's map
	kindNum := 5
	var contentT []string
	if r.isStack {
		kindNum = kindN[in.Kind]
		if kindNum == 0 {
			return nil, fmt.Errorf("unknown kind %q", in.Kind)
		}
		r.s = newStack(in.Kind, -1)
		r.kindWord = in.Kind
		for _, n := range in.Content {
			r.s.Push(n)
			contentT = append(contentT, coqZ(n))
		}
	} else {
		ex := 7
		if len(in.Content) > 0 {
			ex = in.Content[0]
		}
		r.c = stk.Cond("kw", stk.Eq, ex)
		contentT = []string{coqZ(ex), "1", "1"}
	}
	tags := map[string]bool{"rk:" + in.Rk: true}
	if r.isStack {
		tags["kind:"+in.Kind] = true
	}
	var stepTs []string
	var recs []any
	targets := map[string]bool{}
	ncalls := 0
	for _, c := range in.Ops {
		var obsT string
		var rec map[string]any
		var pv any
		wasRO := false
		func() {
			defer func() {
				if p := recover(); p != nil {
					pv = p
				}
			}()
			if r.isStack {
				wasRO = r.s.IsReadOnly()
			} else {
				wasRO = r.c.IsReadOnly()
			}
			r.exec(c)
			obsT, rec = r.observe()
		}()
		tags["op:"+c.Op] = true
		if wasRO && !(c.Op == "setopt" && c.O == "ronly") {
			tags["while-read-only"] = true
		}
		for _, a := range c.Args {
			tags["arg:"+a.K] = true
		}
		targets[callTarget(c)] = true
		ncalls++
		if pv != nil {
			tags["panic"] = true
			stepTs = append(stepTs, "("+c.coq()+", None)")
			recs = append(recs, map[string]any{"call": c, "panic": fmt.Sprint(pv)})
			break
		}
		stepTs = append(stepTs, "("+c.coq()+", Some "+obsT+")")
		recs = append(recs, map[string]any{"call": c, "after": rec})
	}
	rkT := "RCond"
	if r.isStack {
		rkT = "RStack"
	}
	coq := fmt.Sprintf("(MkOC %s %d%%N %s %s)", rkT, kindNum, coqList(contentT), coqList(stepTs))
	var tl []string
	for t := range tags {
		tl = append(tl, t)
	}
	return &Result{Coq: coq, Observed: recs, Tags: tl, Nontrivial: ncalls >= 3 && len(targets) >= 2, Invariant: r.invariant}, nil
}

// ---------------------------------------------------------------------------
// generators

var optStrings = []string{"", "a", "b", "Xor", "nand", "ALSO", ",", ";", "|", "é", "«", "»", "(", ")", "[", "]", "\"", "'", "<<", ">>", "x y", "∧", "&&", "ab", "Zz9"}
var encapStrings = []string{"(", ")", "[", "]", "\"", "'", "<", ">", "«", "»", "<<", "<", "a", "ab", "", "`", "A", "aB", "Ab"}
var levelNames = []string{"NONE", "CALLS", "POLICY", "STATE", "DEBUG", "ERROR", "TRACE", "USER1", "USER2", "USER3", "USER4",
	"USER5", "USER6", "USER7", "USER8", "USER9", "USER10", "ALL"}

func optRandCase(r *Rng, s string) string {
	switch r.Intn(4) {
	case 0:
		return strings.ToLower(s)
	case 1:
		b := []byte(s)
		for i := range b {
			if r.Bool() {
				b[i] = strings.ToLower(string(b[i]))[0]
			}
		}
		return string(b)
	}
	return s
}

func randTarg(r *Rng) OArg {
	switch x := r.Intn(100); {
	case x < 50:
		return OArg{K: "str", S: optStrings[r.Intn(len(optStrings))]}
	case x < 80:
		runes := []int{',', ';', 0, 'x', 0xe9, 0x2227, 0x1F600, 0xD800, 0xDFFF, -1, 0x110000, 0x10FFFF, 0x7f, 0x80, 0x7ff, 0x800, 0xFFFF, 0x10000}
		return OArg{K: "rune", I: runes[r.Intn(len(runes))]}
	case x < 88:
		return OArg{K: "nil"}
	}
	return OArg{K: "other", I: r.Intn(5)}
}

func randEarg(r *Rng) OArg {
	es := func() string { return encapStrings[r.Intn(len(encapStrings))] }
	switch x := r.Intn(100); {
	case x < 35:
		return OArg{K: "str", S: es()}
	case x < 70:
		return OArg{K: "slice", L: []string{es(), es()}}
	case x < 80:
		return OArg{K: "slice", L: []string{es()}}
	case x < 86:
		return OArg{K: "slice", L: []string{}}
	case x < 93:
		return OArg{K: "slice", L: []string{es(), es(), es()}}
	}
	return OArg{K: "other", I: r.Intn(5)}
}

func randLarg(r *Rng) OArg {
	switch x := r.Intn(100); {
	case x < 38:
		n := levelNames[r.Intn(len(levelNames))]
		if r.Pct(75) {
			n = levelNames[1+r.Intn(16)] // a proper level rather than a shortcut
		}
		return OArg{K: "name", S: optRandCase(r, n)}
	case x < 45:
		return OArg{K: "name", S: []string{"bogus", "", "USER11", "DEBUG ", "user", "al", "nonee"}[r.Intn(7)]}
	case x < 70:
		v := 1 << r.Intn(16)
		switch y := r.Intn(10); {
		case y < 2:
			v |= 1 << r.Intn(16)
			v |= 1 << r.Intn(16)
		case y < 3:
			v = 0
		case y < 4:
			v = 65535
		case y < 5:
			v = r.Intn(65536)
		}
		return OArg{K: "const", I: v}
	case x < 92:
		v := 1 << r.Intn(16)
		switch y := r.Intn(12); {
		case y < 2:
			v = r.Intn(65536)
		case y < 3:
			v = 0
		case y < 4:
			v = 65535
		case y < 5:
			v = -1
		case y < 6:
			v = 65536
		case y < 7:
			v = 65536 + (1 << r.Intn(16))
		case y < 8:
			v = -(1 << r.Intn(17))
		case y < 9:
			v = 44
		}
		return OArg{K: "int", I: v}
	}
	return OArg{K: "other", I: r.Intn(5)}
}

func randOptCall(r *Rng, cond bool, roBias int) OCall {
	names := optNames
	if cond {
		names = condOptNames
	}
	o := names[r.Intn(len(names))]
	if o == "ronly" && !r.Pct(roBias) {
		o = names[r.Intn(len(names)-1)]
	}
	return OCall{Op: "setopt", O: o, T: r.Intn(3)}
}

func randCall(r *Rng, cond bool) OCall {
	for {
		x := r.Intn(100)
		switch {
		case x < 34:
			c := randOptCall(r, cond, 45)
			if c.O == "ronly" && c.T == 1 && r.Pct(50) {
				c.T = 0 // fewer permanent freezes
			}
			return c
		case x < 41:
			if cond {
				continue
			}
			return OCall{Op: "setfifo", B: r.Pct(60)}
		case x < 48:
			ids := []string{"", "id1", "an id", "_RANDOMx", "random", "_add", "é", "A", "_", "unspecified", "ID1", "Id1", "a", "AN ID", "É", "filter", "FILTER"}
			return OCall{Op: "setid", S: ids[r.Intn(len(ids))]}
		case x < 54:
			return OCall{Op: "setcat", S: optStrings[r.Intn(len(optStrings))]}
		case x < 62:
			if cond {
				continue
			}
			return OCall{Op: "setdelim", Args: []OArg{randTarg(r)}}
		case x < 70:
			if cond {
				continue
			}
			n := r.Intn(4)
			if r.Pct(50) {
				n = 1
			}
			c := OCall{Op: "setsym"}
			for i := 0; i < n; i++ {
				c.Args = append(c.Args, randTarg(r))
			}
			return c
		case x < 83:
			n := 1
			switch y := r.Intn(10); {
			case y < 1:
				n = 0
			case y < 4:
				n = 2
			case y < 5:
				n = 3
			}
			c := OCall{Op: "setencap"}
			for i := 0; i < n; i++ {
				c.Args = append(c.Args, randEarg(r))
			}
			return c
		case x < 88:
			return OCall{Op: "setaux", I: []int{-2, -1, 1, 2, 3, 4, 4, 1}[r.Intn(8)]}
		default:
			n := 1
			switch y := r.Intn(10); {
			case y < 1:
				n = 0
			case y < 4:
				n = 2
			case y < 6:
				n = 3
			}
			c := OCall{Op: "setlog"}
			if r.Pct(40) {
				c.Op = "unsetlog"
			}
			for i := 0; i < n; i++ {
				c.Args = append(c.Args, randLarg(r))
			}
			return c
		}
	}
}

// genOptions interleaves the (cheap) exhaustive cases with the (long) random
// ones so that the evaluation shards are of similar weight.
func genOptions(ctx *Ctx, emit0 func(any, string)) {
	var exh, rnd []any
	altRng := ctx.Rng.Fork()
	emit := func(in any, source string) {
		// a fifth of the option calls go through the deprecated spelling of the method
		if oi, ok := in.(OptInput); ok {
			ops := append([]OCall{}, oi.Ops...)
			for i := range ops {
				if (ops[i].Op == "setopt" || ops[i].Op == "setsym" || ops[i].Op == "setencap") && altRng.Pct(20) {
					ops[i].Alt = true
				}
			}
			oi.Ops = ops
			in = oi
		}
		if source == "exhaustive" {
			exh = append(exh, in)
		} else {
			rnd = append(rnd, in)
		}
	}
	defer func() {
		per := 1
		if len(rnd) > 0 && len(exh) > len(rnd) {
			per = len(exh) / len(rnd)
		}
		j := 0
		for i, in := range exh {
			emit0(in, "exhaustive")
			if (i+1)%per == 0 && j < len(rnd) {
				emit0(rnd[j], "random")
				j++
			}
		}
		for ; j < len(rnd); j++ {
			emit0(rnd[j], "random")
		}
	}()
	depth := 3
	if !ctx.Quick() {
		depth = 4
	}
	// exhaustive: EVERY sequence of length `depth` over {set, clear, toggle} x
	// the 8 options of a Stack (4 of a Condition); every call is followed by
	// a full observation, so all shorter sequences are covered as prefixes
	var rec func(names []string, prefix []OCall, d int, f func([]OCall))
	rec = func(names []string, prefix []OCall, d int, f func([]OCall)) {
		if d == 0 {
			f(prefix)
			return
		}
		for _, o := range names {
			for t := 0; t < 3; t++ {
				rec(names, append(append([]OCall{}, prefix...), OCall{Op: "setopt", O: o, T: t}), d-1, f)
			}
		}
	}
	k := 0
	rec(optNames, nil, depth, func(ops []OCall) {
		emit(OptInput{Rk: "stack", Kind: kinds[k%5], Content: []int{1, 2}, Ops: ops}, "exhaustive")
		k++
	})
	rec(condOptNames, nil, depth, func(ops []OCall) {
		emit(OptInput{Rk: "cond", Kind: "CONDITION", Content: []int{7}, Ops: ops}, "exhaustive")
	})
	// exhaustive: each option call preceded by each single option state,
	// on every kind and on empty / non-empty content (Index observers)
	for _, kind := range kinds {
		for _, content := range [][]int{{}, {5}} {
			for _, o := range optNames {
				for t := 0; t < 3; t++ {
					emit(OptInput{Rk: "stack", Kind: kind, Content: content,
						Ops: []OCall{{Op: "setopt", O: o, T: t}, {Op: "setopt", O: o, T: 0}}}, "exhaustive")
				}
			}
		}
	}
	// exhaustive: EVERY option state (2^8 on Stacks, 2^4 on Conditions) x EVERY
	// option call: the complete transition table of the switch bank,
	// read-only states included (the state is built with set-calls, the
	// read-only switch last)
	states := func(names []string, rk, kind string, content []int) {
		for st := 0; st < 1<<len(names); st++ {
			var prefix []OCall
			for i, o := range names { // "ronly" is the last name
				if st&(1<<i) != 0 {
					prefix = append(prefix, OCall{Op: "setopt", O: o, T: 1})
				}
			}
			for _, o := range names {
				for t := 0; t < 3; t++ {
					ops := append(append([]OCall{}, prefix...), OCall{Op: "setopt", O: o, T: t})
					emit(OptInput{Rk: rk, Kind: kind, Content: content, Ops: ops}, "exhaustive")
				}
			}
		}
	}
	states(optNames, "stack", "OR", []int{4})
	states(condOptNames, "cond", "CONDITION", []int{2})
	// size is no limit: 70 encapsulation schemes one after the other, strings of 300 / 5000 bytes
	for _, rk := range []string{"stack", "cond"} {
		in := OptInput{Rk: rk, Kind: "AND", Content: []int{1, 2}}
		if rk == "cond" {
			in.Kind, in.Content = "CONDITION", []int{7}
		}
		for i := 0; i < 70; i++ {
			if i%3 == 2 {
				in.Ops = append(in.Ops, OCall{Op: "setencap", Args: []OArg{{K: "slice", L: []string{fmt.Sprintf("<%d", i), fmt.Sprintf("%d>", i)}}}})
			} else {
				in.Ops = append(in.Ops, OCall{Op: "setencap", Args: []OArg{{K: "str", S: fmt.Sprintf("q%d", i)}}})
			}
		}
		long := strings.Repeat("ab c", 75)
		vlong := strings.Repeat("0123456789", 500)
		in.Ops = append(in.Ops, OCall{Op: "setid", S: long}, OCall{Op: "setcat", S: vlong}, OCall{Op: "setid", S: vlong})
		if rk == "stack" {
			in.Ops = append(in.Ops, OCall{Op: "setsym", Args: []OArg{{K: "str", S: long}}}, OCall{Op: "setdelim", Args: []OArg{{K: "str", S: long}}})
		}
		in.Ops = append(in.Ops, OCall{Op: "setencap", Args: []OArg{{K: "str", S: vlong}}})
		emit(in, "exhaustive")
	}
	// random longer sequences mixing everything
	n := ctx.N(900, 20000)
	for i := 0; i < n; i++ {
		r := ctx.Rng.Fork()
		in := OptInput{Rk: "stack", Kind: kinds[r.Intn(5)]}
		if r.Pct(30) {
			in.Kind = "LIST"
		}
		cond := r.Pct(20)
		if cond {
			in.Rk, in.Kind = "cond", "CONDITION"
			in.Content = []int{r.Range(-3, 9)}
		} else {
			for j, m := 0, r.Intn(4); j < m; j++ {
				in.Content = append(in.Content, r.Range(1, 9))
			}
		}
		m := r.Range(4, 26)
		if ctx.Bias != "" || r.Pct(15) {
			m = r.Range(2, 8)
		}
		for j := 0; j < m; j++ {
			in.Ops = append(in.Ops, randCall(r, cond))
		}
		emit(in, "random")
	}
	// a stream dedicated to log levels, one dedicated to encapsulation
	n2 := ctx.N(240, 5000)
	for i := 0; i < n2; i++ {
		r := ctx.Rng.Fork()
		in := OptInput{Rk: "stack", Kind: kinds[r.Intn(5)], Content: []int{3}}
		cond := r.Pct(25)
		if cond {
			in.Rk, in.Kind, in.Content = "cond", "CONDITION", []int{1}
		}
		m := r.Range(3, 14)
		for j := 0; j < m; j++ {
			var c OCall
			if i%2 == 0 {
				c = OCall{Op: "setlog"}
				if r.Pct(45) {
					c.Op = "unsetlog"
				}
				for q, na := 0, r.Range(0, 4); q < na; q++ {
					c.Args = append(c.Args, randLarg(r))
				}
			} else {
				c = OCall{Op: "setencap"}
				na := r.Range(1, 3)
				if r.Pct(6) {
					na = 0
				}
				for q := 0; q < na; q++ {
					c.Args = append(c.Args, randEarg(r))
				}
			}
			if r.Pct(8) {
				c = randOptCall(r, cond, 60)
			}
			in.Ops = append(in.Ops, c)
		}
		emit(in, "random")
	}
}

func init() {
	register(&Family{Name: "options", Gen: genOptions, Run: runOptions,
		Rule: "exhaustive: EVERY sequence of length 3 (quick) / 4 (thorough) of {set, clear, toggle} x 8 options on Stacks (kinds rotated) and x 4 options on Conditions (shorter sequences are their prefixes: every call is followed by a full observation), plus EVERY option state (2^8 on Stacks, 2^4 on Conditions, read-only states included) x every option call (the complete transition table), plus every (option call, toggle) pair on 5 kinds x empty/non-empty content; random: 4-30 calls mixing option calls (incl. read-only gating), SetFIFO, SetID, SetCategory, SetDelimiter (strings, runes incl. NUL/surrogates/out of range, nil, foreign types), SetSymbol (0-3 strings/runes), SetEncap (strings, 0-3-element slices, foreign types, no argument), SetAuxiliary (none, nil, 3 maps), SetLogLevel/UnsetLogLevel (names in random case, unknown names, LogLevel constants and sums, raw ints incl. 0, 65535, -1, >65535, foreign types) on 5 Stack kinds (LIST weighted) and Conditions (20%); dedicated log-level and encapsulation streams; after EVERY call: IsParen IsPadded IsReadOnly CanNest IsEncap IsFIFO ID Category Delimiter LogLevels Auxiliary Index(-1) Index(len+1) and, through VerifDump, option word, level word, symbol, delimiter, encapsulation list, id, category, FIFO flag, auxiliary identity, content. distinct = distinct input hash; non-trivial = >=3 calls addressing >=2 different options/settings"})
}
