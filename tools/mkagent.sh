#!/bin/sh
# mkagent.sh NAME : private copy of /verif and of a repository tree with the
# candidate repairs applied, for a module builder.  (scratch, under /tmp)
set -e
n="$1"
d=/tmp/ag/$n
rm -rf "$d"; mkdir -p "$d"
rsync -a --exclude build --exclude .git --exclude 'coq/*.vo' --exclude 'coq/*.glob' --exclude 'coq/*.vok' --exclude 'coq/*.vos' --exclude 'coq/.*.aux' --exclude 'coq/Props/*.vo' --exclude 'coq/Props/*.glob' --exclude 'coq/Props/*.vok' --exclude 'coq/Props/*.vos' --exclude 'coq/Props/.*.aux' /verif/ "$d/verif/"
cp -r /tmp/repo_fixed "$d/repo"
sed -i "s|=> /repo|=> $d/repo|" "$d/verif/harness/go.mod"
cd "$d/verif" && VERIF_REPO="$d/repo" GOCACHE=/tmp/ag/gocache sh setup.sh >/dev/null 2>&1
echo "$d ready"
