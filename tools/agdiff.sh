#!/bin/sh
# agdiff.sh NAME : files the agent added or changed relative to the commit its sandbox was copied from
n="$1"; BASE=10d9dfc; cd /tmp/ag/$n/verif
find . -type f \( -name "*.v" -o -name "*.go" -o -name "*.py" -o -name "*.json" -o -name "*.md" -o -name "_CoqProject" -o -name "*.diff" -o -name "*.patch" -o -name "*.sh" \)   ! -path "./build/*" ! -path "./evidence/*" ! -name "Generated*.v" ! -path "./coq/.*" ! -name "MANIFEST.json" | sort | while read f; do
  p=${f#./}
  if ! git -C /verif cat-file -e $BASE:$p 2>/dev/null; then echo "NEW  $p"; elif ! git -C /verif show $BASE:$p | cmp -s - "$f"; then echo "CHG  $p"; fi
done
