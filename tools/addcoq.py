#!/usr/bin/env python3
# addcoq.py FILE ENDMARK < chunk : insert chunk before the last line equal to ENDMARK
import sys
f, mark = sys.argv[1], sys.argv[2]
s = open(f).read()
i = s.rindex("\n" + mark + "\n")
open(f, "w").write(s[:i] + "\n" + sys.stdin.read() + "\n" + mark + "\n" + s[i + len(mark) + 2:])
