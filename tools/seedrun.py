#!/usr/bin/env python3
"""seedrun.py NAME SRC_WORKTREE PROP[,PROP...] : take a seeded change produced in a
scratch worktree, confirm it (compiles, suite passes, demonstration fails with the
change and passes without), store it under /verif/seeded/NAME/, then run the
property check(s) against /repo with the patch applied and undo it straight
afterwards.  Writes seeded/NAME/meta.json."""
import sys as _sys
_sys.setrecursionlimit(100000)
import sys, os, subprocess, json, shutil, time, re

name, src, props = sys.argv[1], sys.argv[2], sys.argv[3].split(",")
ENV = dict(os.environ, GOFLAGS="-mod=mod", GOPROXY="off", GOSUMDB="off", GOTOOLCHAIN="local")
dst = "/verif/seeded/" + name
os.makedirs(dst, exist_ok=True)


def sh(cmd, cwd=None, timeout=3000):
    p = subprocess.run(cmd, cwd=cwd, shell=True, stdout=subprocess.PIPE, stderr=subprocess.STDOUT, text=True, env=ENV, timeout=timeout)
    return p.returncode, p.stdout


# 1. extract patch (non-test source only) and demo
rc, diff = sh("git diff HEAD -- '*.go' ':!*_test.go'", cwd=src)
if not diff.strip():
    raise SystemExit("no source change in " + src)
open(dst + "/patch.diff", "w").write(diff)
demo = os.path.join(src, "seeded_demo_test.go")
if os.path.exists(demo):
    shutil.copy(demo, dst + "/seeded_demo_test.go")
if os.path.exists(os.path.join(src, "SEEDED.md")):
    shutil.copy(os.path.join(src, "SEEDED.md"), dst + "/SEEDED.md")

# 2. confirm in a fresh scratch worktree
wt = "/tmp/seedconfirm_" + name
sh("git -C /repo worktree remove --force %s" % wt)
rc, out = sh("git -C /repo worktree add --detach %s HEAD" % wt)
meta = {"name": name, "breaks": props, "confirmed": {}, "checks": {}}
try:
    rc, out = sh("git apply %s/patch.diff" % dst, cwd=wt)
    meta["confirmed"]["applies"] = rc == 0
    rc, out = sh("go build ./... && go vet ./...", cwd=wt)
    meta["confirmed"]["builds"] = rc == 0
    rc, out = sh("go test -vet=off -count=1 ./...", cwd=wt)
    meta["confirmed"]["suite_passes_with_change"] = rc == 0
    if os.path.exists(dst + "/seeded_demo_test.go"):
        shutil.copy(dst + "/seeded_demo_test.go", wt + "/seeded_demo_test.go")
        rc, out = sh("go test -vet=off -count=1 -run 'TestSeededDemo' ./...", cwd=wt)
        meta["confirmed"]["demo_fails_with_change"] = rc != 0
        meta["confirmed"]["demo_output_with_change"] = out[-600:]
        sh("git checkout -- .", cwd=wt)
        rc, out = sh("go test -vet=off -count=1 -run 'TestSeededDemo' ./...", cwd=wt)
        meta["confirmed"]["demo_passes_without_change"] = rc == 0
finally:
    sh("git -C /repo worktree remove --force %s" % wt)

# 3. run the checks against /repo with the patch applied
rc, out = sh("git -C /repo status --porcelain")
if out.strip():
    raise SystemExit("/repo is not clean: " + out)
rc, out = sh("git -C /repo apply %s/patch.diff" % dst)
try:
    for p in props:
        t0 = time.time()
        rc, out = sh("/verif/check %s --tier quick" % p, timeout=3000)
        viol = [l for l in out.splitlines() if l.startswith("VIOLATION")]
        replay = None
        m = re.search(r"replay=(\S+)", viol[0]) if viol else None
        rtxt = None
        if m and os.path.exists(m.group(1)):
            shutil.copy(m.group(1), "%s/replay-%s.json" % (dst, p))
            try:
                rj = json.load(open(m.group(1)))
                rtxt = json.dumps(rj.get("input"))[:400] if rj.get("input") else json.dumps(rj.get("broken"))[:400]
            except Exception:
                pass
        meta["checks"][p] = {"exit": rc, "violation_lines": viol, "replay_input": rtxt, "wall_s": round(time.time() - t0, 1),
                             "tail": out.splitlines()[-4:]}
        print(p, "exit", rc, viol[:1])
finally:
    sh("git -C /repo checkout -- .")
    sh("git -C /verif checkout -- evidence")   # evidence from a mutated tree is not kept
meta["what_it_needs"] = open(dst + "/SEEDED.md").read()[:1500] if os.path.exists(dst + "/SEEDED.md") else ""
meta["ran"] = "tools/seedrun.py %s %s %s" % (name, src, ",".join(props))
json.dump(meta, open(dst + "/meta.json", "w"), indent=1)
print(json.dumps(meta["confirmed"]))
