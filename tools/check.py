#!/usr/bin/env python3
"""check.py <property-id> [--tier quick|thorough] [--replay FILE]

One run = (1) regenerate coq/Generated.v from /repo's working tree with the
translator and rebuild the Coq development, (2) re-check the property's
theorem file and collect Print Assumptions, (3) build the Go harness against
/repo (-tags verif), run the property's families, and evaluate every recorded
case against the model and against the specification inside Coq, (4) decide.

Exit 0 = property held on everything explored (KNOWN-FINDING lines allowed);
exit 1 + "VIOLATION property=<id> replay=<path>" otherwise.  DESIGN.md §6.
"""
import sys as _sys
_sys.setrecursionlimit(100000)
import sys, os, json, subprocess, time, re, fcntl, hashlib, shutil, glob
from concurrent.futures import ThreadPoolExecutor

ROOT = os.path.dirname(os.path.dirname(os.path.abspath(__file__)))
COQ = os.path.join(ROOT, "coq")
BUILD = os.path.join(ROOT, "build")
REPO = os.environ.get("VERIF_REPO", "/repo")
sys.path.insert(0, os.path.join(ROOT, "tools"))
from props import PROPS, FAMILIES, TRUSTED_BASE, ASSUMPTIONS  # noqa: E402

GOENV = dict(os.environ, GOFLAGS="-mod=mod", GOPROXY="off", GOSUMDB="off", GOTOOLCHAIN="local",
             GOCACHE=os.environ.get("GOCACHE", os.path.join(BUILD, "gocache")))
FORBIDDEN = re.compile(r"\b(Admitted|admit|Axiom|Axioms|Parameter|Parameters|Conjecture|Unset\s+Guard|bypass_check|type-in-type|impredicative-set|Admit\s+Obligations)\b")


def sh(cmd, cwd=None, timeout=1800, env=None):
    p = subprocess.run(cmd, cwd=cwd, shell=isinstance(cmd, str), stdout=subprocess.PIPE, stderr=subprocess.STDOUT,
                       timeout=timeout, env=env, text=True, errors="replace")
    return p.returncode, p.stdout


def log(*a):
    print(*a, flush=True)


# --------------------------------------------------------------------------
# step 1: translator + Coq build

def build_translator():
    rc, out = sh(["go", "build", "-o", os.path.join(BUILD, "translator"), "."], cwd=os.path.join(ROOT, "translator"), env=GOENV)
    if rc != 0:
        raise SystemExit("cannot build translator:\n" + out)


def run_translator():
    """returns (ok, message)"""
    rc, out = sh([os.path.join(BUILD, "translator"), "-repo", REPO, "-out", os.path.join(COQ, "Generated.v"),
                  "-ir", os.path.join(COQ, "GeneratedIR.v")], timeout=300)
    return rc == 0, out.strip()


def coq_files():
    files = []
    for line in open(os.path.join(COQ, "_CoqProject")):
        line = line.strip()
        if line.endswith(".v"):
            files.append(line)
    return files


def forbidden_scan():
    bad = []
    for f in coq_files():
        if os.path.basename(f).startswith("Generated"):
            continue
        p = os.path.join(COQ, f)
        if not os.path.exists(p):
            continue
        txt = open(p).read()
        txt = re.sub(r"\(\*.*?\*\)", "", txt, flags=re.S)
        for m in FORBIDDEN.finditer(txt):
            bad.append("%s: %s" % (f, m.group(0)))
    return bad


def coq_deps():
    """file -> set of files it depends on (transitively), from coqdep"""
    rc, out = sh("coqdep -f _CoqProject 2>/dev/null", cwd=COQ)
    direct = {}
    for line in out.splitlines():
        if ":" not in line:
            continue
        lhs, rhs = line.split(":", 1)
        tgt = [t for t in lhs.split() if t.endswith(".vo")]
        if not tgt:
            continue
        t = tgt[0][:-1]
        direct[t] = set(d[:-1] for d in rhs.split() if d.endswith(".vo"))
    trans = {}

    def go(f, seen):
        for d in direct.get(f, ()):
            if d not in seen:
                seen.add(d)
                go(d, seen)
        return seen
    for f in direct:
        trans[f] = go(f, set())
    return trans


def coq_build():
    """make -k; returns dict file -> error text for files that failed"""
    if not os.path.exists(os.path.join(COQ, "Makefile")) or \
            os.path.getmtime(os.path.join(COQ, "Makefile")) < os.path.getmtime(os.path.join(COQ, "_CoqProject")):
        sh("coq_makefile -f _CoqProject -o Makefile", cwd=COQ)
    rc, out = sh("timeout 1500 make -k -j16 2>&1", cwd=COQ, timeout=1600)
    failed = {}
    if rc != 0:
        # File "./X.v", line ..:\nError: ...
        for m in re.finditer(r'File "\./([^"]+\.v)", line (\d+), characters [^\n]*\n((?:(?!File ").*\n?){1,12})', out):
            f = m.group(1)
            if "Error" in m.group(3) and f not in failed:
                failed[f] = "line %s: %s" % (m.group(2), " ".join(m.group(3).split())[:600])
        for m in re.finditer(r"\*\*\* \[[^\]]*?: ([^\s\]]+)\.vo\] Error", out):
            f = m.group(1) + ".v"
            failed.setdefault(f, "failed to compile")
        if not failed:
            failed["<make>"] = out[-800:]
        for f in failed:
            vo = os.path.join(COQ, f[:-2] + ".vo")
            if os.path.exists(vo):
                os.remove(vo)
    return failed


def print_assumptions(props_file):
    """re-check the property file on its own and collect Print Assumptions output"""
    rc, out = sh(["timeout", "600", "coqc", "-Q", ".", "Stackage", "-w", "-notation-overridden", props_file], cwd=COQ, timeout=700)
    res = []
    if rc != 0:
        return rc, out, res
    # "Closed under the global context" or "Axioms:\n ..." blocks, in order
    blocks = re.split(r"\n(?=Closed under the global context|Axioms:)", "\n" + out)
    for b in blocks:
        b = b.strip()
        if b.startswith("Closed under"):
            res.append("Closed under the global context")
        elif b.startswith("Axioms:"):
            res.append(" ".join(b.split()))
    return rc, out, res


def theorem_names(props_file):
    txt = open(os.path.join(COQ, props_file)).read()
    txt = re.sub(r"\(\*.*?\*\)", "", txt, flags=re.S)
    return re.findall(r"^\s*(?:Theorem|Corollary)\s+(\w+)", txt, flags=re.M), re.findall(r"^\s*Example\s+(\w+)", txt, flags=re.M)


# --------------------------------------------------------------------------
# step 3: harness + shards

def build_harness():
    hd = os.path.join(ROOT, "harness")
    rc, out = sh(["go", "build", "-tags", "verif", "-o", os.path.join(BUILD, "harness"), "."], cwd=hd, env=GOENV, timeout=600)
    return rc == 0, out


def run_family(fam, tier, seed, outdir, scale=1, inputs=None):
    shutil.rmtree(outdir, ignore_errors=True)
    os.makedirs(outdir)
    if inputs is not None:
        inp = os.path.join(outdir, "inputs.jsonl")
        with open(inp, "w") as f:
            for i in inputs:
                f.write(json.dumps(i) + "\n")
        cmd = [os.path.join(BUILD, "harness"), "run", "-family", fam, "-inputs", inp, "-out", outdir]
    else:
        cmd = [os.path.join(BUILD, "harness"), "gen", "-family", fam, "-tier", tier, "-seed", str(seed), "-out", outdir,
               "-scale", str(scale), "-corpus", os.path.join(ROOT, "corpus")]
    rc, out = sh(cmd, timeout=3000, env=GOENV)
    if rc != 0:
        return None, out
    cases = [json.loads(l) for l in open(os.path.join(outdir, "cases.jsonl"))]
    return cases, out


def eval_shards(cases, imports, prelude, typ, fn, tag, outdir, shard=150, timeout=900):
    """evaluate fn on every case inside Coq; returns dict idx -> code, or raises RuntimeError"""
    jobs = []
    # cases without a Coq term (the harness gave up on them: watchdog) are reported
    # through the invariant channel and are not evaluated
    live = [i for i, c in enumerate(cases) if c.get("coq")]
    for k in range(0, len(live), shard):
        chunk = [cases[i] for i in live[k:k + shard]]
        name = "shard_%s_%d" % (tag, k // shard)
        path = os.path.join(outdir, name + ".v")
        with open(path, "w") as f:
            f.write("From Stackage Require Import %s.\n%s\nOpen Scope Z_scope.\n" % (imports, prelude))
            f.write("Definition cases : list %s := [\n" % typ)
            f.write(";\n".join(c["coq"] for c in chunk))
            f.write("\n].\nDefinition R := Eval vm_compute in verdicts %s cases.\nPrint R.\n" % fn)
        jobs.append((k, path))

    def one(job):
        k, path = job
        rc, out = sh(["timeout", str(timeout), "coqc", "-Q", COQ, "Stackage", "-w", "-notation-overridden", path], cwd=outdir, timeout=timeout + 60)
        if rc != 0:
            raise RuntimeError("coqc failed on %s:\n%s" % (path, out[-1500:]))
        flat = " ".join(out.split())
        m = re.search(r"R = (\[.*?\]|nil)\s*:", flat)
        if not m:
            raise RuntimeError("cannot parse coqc output for %s: %s" % (path, flat[:400]))
        res = {}
        for a, b in re.findall(r"\(\s*(\d+)%?N?\s*,\s*(\d+)%?N?\s*\)", m.group(1)):
            res[live[k + int(a)]] = int(b)
        return res
    allres = {}
    with ThreadPoolExecutor(max_workers=16) as ex:
        for r in ex.map(one, jobs):
            allres.update(r)
    return allres


# --------------------------------------------------------------------------

def methods_crosscheck(refl):
    """compare the exported method names found by reflection with the entry table of GeneratedIR.v"""
    p = os.path.join(COQ, "GeneratedIR.v")
    if not os.path.exists(p):
        return "GeneratedIR.v missing"
    txt = open(p).read()
    ents = re.findall(r'MkEntry \(B "(\w+)"\) (\d+) \d+', txt)
    tr = {"Stack": set(), "Condition": set(), "Auxiliary": set()}
    for name, rc in ents:
        rc = int(rc)
        if rc in (0, 1):
            tr["Stack"].add(name)
        elif rc in (2, 3):
            tr["Condition"].add(name)
        elif rc == 4:
            tr["Auxiliary"].add(name)
    out = []
    for k in tr:
        r = set(refl.get(k) or [])
        if r != tr[k]:
            out.append("%s: only-reflection=%s only-translator=%s" % (k, sorted(r - tr[k]), sorted(tr[k] - r)))
    return "; ".join(out)


def build_race_harness():
    hd = os.path.join(ROOT, "harness")
    rc, out = sh(["go", "build", "-race", "-tags", "verif", "-o", os.path.join(BUILD, "harness-race"), "."], cwd=hd, env=GOENV, timeout=900)
    return rc == 0, out


def race_stress(pid, rcfg, tier, seed, work, known):
    """free-running parallel execution under the race detector (supporting evidence).
    returns (stats, known_lines, violations)"""
    ok, out = build_race_harness()
    if not ok:
        return {"error": out[-800:]}, [], [("race harness does not build", out[-800:])]
    logdir = os.path.join(work, "race")
    shutil.rmtree(logdir, ignore_errors=True)
    os.makedirs(logdir)
    rounds = rcfg["rounds"][0 if tier != "thorough" else 1]
    env = dict(GOENV, GORACE="log_path=%s/r halt_on_error=0" % logdir)
    rc, out = sh([os.path.join(BUILD, "harness-race"), "stress", "-mode", rcfg["mode"], "-rounds", str(rounds),
                  "-workers", str(rcfg.get("workers", 8)), "-seed", str(seed)], env=env, timeout=3000)
    res = {}
    try:
        res = json.loads(out.strip().splitlines()[-1])
    except Exception:
        res = {"problems": ["stress run produced no result: " + out[-400:]]}
    reports = []
    for f in sorted(glob.glob(os.path.join(logdir, "r.*"))):
        txt = open(f, errors="replace").read()
        for blk in txt.split("WARNING: DATA RACE")[1:]:
            sides = re.split(r"\n(?=Previous (?:read|write) at )", blk.strip(), maxsplit=1)
            info = []
            for sd in sides[:2]:
                sd = sd.split("\nGoroutine ")[0]
                kind = "write" if re.match(r"\s*(?:Previous )?[Ww]rite", sd) else "read"
                frames = re.findall(r"go-stackage\.([^\s(]*(?:\([^)]*\))?[^\s(]*)\(\)", sd)
                info.append((kind, frames))
            reports.append(info)
    # the race finding is recorded against C10; runs for other properties tolerate the
    # same reports (they are about C10) and print no KNOWN-FINDING line for them
    kf = next((k for k in load_known() if k.get("kind") == "race" and k.get("status") == "known"), None)
    new, old = [], 0
    for info in reports:
        if len(info) < 2:
            new.append(info)
            continue
        reads = [x for x in info if x[0] == "read"]
        writes = [x for x in info if x[0] == "write"]
        is_known = False
        if kf and len(reads) == 1 and len(writes) == 1:
            rf, wf = reads[0][1], writes[0][1]
            if any(any(a in fr for a in kf["reader_frames"]) for fr in rf) and any(any(a in fr for a in kf["writer_frames"]) for fr in wf):
                is_known = True
        if is_known:
            old += 1
        else:
            new.append(info)
    stats = {"mode": rcfg["mode"], "rounds": rounds, "workers": rcfg.get("workers", 8), "race_reports": len(reports),
             "matching_known_finding": old, "other_reports": len(new), "invariant_problems": res.get("problems") or []}
    lines, viol = [], []
    if kf and old and kf.get("property") == pid:
        lines.append("KNOWN-FINDING: property=%s %s (%s; %d race report(s) this run)" % (pid, kf["id"], kf["what"], old))
    if rcfg.get("invariants_only"):
        # the property says nothing about the memory model: only the run's own invariants count
        stats["other_reports_ignored"] = len(new)
        new = []
    if new:
        rp = write_replay(pid, "race", {"property": pid, "family": "", "kind": "race-report", "reports": [[(k, f[:6]) for k, f in i] for i in new[:5]],
                                        "how": "harness-race stress -mode %s -rounds %d -seed %d under GORACE" % (rcfg["mode"], rounds, seed)})
        viol.append((rp, "%d data race report(s) outside the known finding" % len(new)))
    if res.get("problems"):
        rp = write_replay(pid, "stress", {"property": pid, "family": "", "kind": "stress-invariant", "problems": res["problems"],
                                          "how": "harness-race stress -mode %s -rounds %d -seed %d" % (rcfg["mode"], rounds, seed)})
        viol.append((rp, "parallel execution broke an invariant: %s" % res["problems"][0]))
    return stats, lines, viol


def load_known():
    p = os.path.join(ROOT, "known_findings.json")
    if not os.path.exists(p):
        return []
    return json.load(open(p))["findings"]


def shrink(pid, fam, fcfg, case, outdir):
    """delta-debug the 'ops' list of a failing input while the specification still fails"""
    inp = case["input"]
    if not isinstance(inp, dict) or not isinstance(inp.get("ops"), list) or not fcfg.get("spec"):
        return case
    best = case
    for rnd in range(12):
        ops = best["input"]["ops"]
        if len(ops) <= 1:
            break
        cands = []
        # drop halves first, then single ops
        n = len(ops)
        if n > 6:
            cands += [ops[:n // 2], ops[n // 2:], ops[:n * 3 // 4], ops[n // 4:]]
        cands += [ops[:i] + ops[i + 1:] for i in range(n)]
        inputs = [dict(best["input"], ops=c) for c in cands if c]
        d = os.path.join(outdir, "shrink%d" % rnd)
        cs, _ = run_family(fam, "quick", 0, d, inputs=inputs)
        if not cs:
            break
        try:
            sp = fcfg["spec"]
            res = eval_shards(cs, sp["imports"], sp.get("prelude", ""), sp["type"], sp["fn"], "s", d, shard=400)
        except RuntimeError:
            break
        failing = [cs[i] for i in sorted(res) if res[i] & 2]
        if not failing:
            break
        failing.sort(key=lambda c: len(c["input"]["ops"]))
        if len(failing[0]["input"]["ops"]) >= len(ops):
            break
        best = failing[0]
    return best


def write_replay(pid, name, payload):
    d = os.path.join(BUILD, "replays")
    os.makedirs(d, exist_ok=True)
    p = os.path.join(d, "%s-%s.json" % (pid, name))
    json.dump(payload, open(p, "w"), indent=1)
    return p


def main():
    if len(sys.argv) < 2:
        raise SystemExit(__doc__)
    pid = sys.argv[1]
    tier = os.environ.get("VERIF_TIER", "quick")
    replay = None
    args = sys.argv[2:]
    while args:
        a = args.pop(0)
        if a == "--tier":
            tier = args.pop(0)
        elif a == "--replay":
            replay = args.pop(0)
    seed = int(os.environ.get("VERIF_SEED", "1"))
    if pid not in PROPS:
        raise SystemExit("unknown property " + pid)
    os.makedirs(BUILD, exist_ok=True)
    lock = open(os.path.join(BUILD, ".lock"), "w")
    fcntl.flock(lock, fcntl.LOCK_EX)
    if replay:
        ok, out = build_harness()
        if not ok:
            raise SystemExit(out)
        rc, out = sh([os.path.join(BUILD, "harness"), "replay", "-file", replay], env=GOENV)
        print(out)
        sys.exit(rc)
    t0 = time.time()
    cfg = PROPS[pid]
    evid_path = os.path.join(ROOT, "evidence", pid + ".json")
    os.makedirs(os.path.dirname(evid_path), exist_ok=True)
    work = os.path.join(BUILD, "work", pid)
    shutil.rmtree(work, ignore_errors=True)
    os.makedirs(work)

    violations = []      # (replay_path, confirmed: bool, text)
    known_lines = []
    notes = []
    broken = []          # broken theorem files / tie components

    # ---- 1. translator, build
    build_translator()
    tr_ok, tr_msg = run_translator()
    if not tr_ok:
        broken.append({"component": "translator", "detail": tr_msg})
        log("translator failed:", tr_msg)
    bad = forbidden_scan()
    if bad:
        raise SystemExit("forbidden vernacular in the development: %s" % bad)
    failed = coq_build()
    deps = coq_deps()
    pf = cfg["props_file"]
    needed = set([pf]) | deps.get(pf, set())
    for f in sorted(failed):
        if f in needed or f == "<make>":
            broken.append({"component": "theorem-file", "file": f, "detail": failed[f]})
            log("does not compile: %s: %s" % (f, failed[f]))
    thms, examples = theorem_names(pf)
    assumptions = []
    if not any(b.get("file") == pf or b.get("file") in deps.get(pf, set()) for b in broken):
        rc, out, assumptions = print_assumptions(pf)
        if rc != 0:
            broken.append({"component": "theorem-file", "file": pf, "detail": out[-600:]})
    thm_ok = not broken
    axioms = sorted(set(a for a in assumptions if a.startswith("Axioms:")))

    # ---- 2. harness
    ok, out = build_harness()
    fam_stats = []
    total_eval = 0
    total_dnt = 0
    samples = []
    corr_ok = 0
    corr_total = 0
    known = [k for k in load_known() if k["property"] == pid and k.get("status") == "known"]
    if not ok:
        broken.append({"component": "harness-build", "detail": out[-1500:]})
        log("harness does not build against /repo:\n" + out[-1500:])
    else:
        for fam in cfg["families"]:
            fcfg = FAMILIES[fam]
            corr_total += 1
            fam_t0 = time.time()
            outdir = os.path.join(work, fam)
            cases, hout = run_family(fam, tier, seed, outdir)
            if cases is None:
                broken.append({"component": "harness-run", "family": fam, "detail": hout[-1500:]})
                log("harness family %s failed:\n%s" % (fam, hout[-1500:]))
                continue
            summ = json.load(open(os.path.join(outdir, "summary.json")))
            if fcfg.get("methods_crosscheck"):
                diff = methods_crosscheck(summ.get("methods") or {})
                if diff:
                    broken.append({"component": "method-set-crosscheck", "family": fam,
                                   "detail": "exported methods seen by reflection and by the translator differ: %s" % diff})
                    log("method sets differ (reflection vs translator): %s" % diff)
            model_res, spec_res, kf_res = None, {}, {}
            model_err = None
            mfiles = set()
            if fcfg.get("model"):
                m = fcfg["model"]
                mneeded = set()
                for lib in m["imports"].split():
                    mneeded.add(lib + ".v")
                    mneeded |= deps.get(lib + ".v", set())
                if any(f in failed for f in mneeded):
                    model_err = "model files do not compile: %s" % sorted(f for f in mneeded if f in failed)
                else:
                    try:
                        model_res = eval_shards(cases, m["imports"], m.get("prelude", ""), m["type"], m["fn"], "m", outdir, m.get("shard", 150))
                    except RuntimeError as e:
                        model_err = str(e)
            if fcfg.get("spec"):
                s = fcfg["spec"]
                try:
                    spec_res = eval_shards(cases, s["imports"], s.get("prelude", ""), s["type"], s["fn"], "s", outdir, s.get("shard", 150))
                    if s.get("kf"):
                        kf_res = eval_shards(cases, s["imports"], s.get("prelude", ""), s["type"], s["kf"], "k", outdir, s.get("shard", 150))
                except RuntimeError as e:
                    broken.append({"component": "spec-eval", "family": fam, "detail": str(e)[-1200:]})
                    log("specification evaluation failed for %s: %s" % (fam, str(e)[-1200:]))
            if model_err:
                broken.append({"component": "model-eval", "family": fam, "detail": model_err[-1200:]})
                log("model evaluation failed for %s: %s" % (fam, model_err[-600:]))
            spec_fail = sorted(i for i, v in spec_res.items() if v & 2)
            # invariants the harness checks by itself (outside the model)
            inv_all = [i for i, c in enumerate(cases) if c.get("invariant")]
            inv_fail, inv_known = [], {}
            for i in inv_all:
                cls = cases[i].get("invariant_kf")
                kf = next((x for x in known if cls and x.get("family") == fam and x.get("invariant_class") == cls), None)
                if kf is not None:
                    inv_known.setdefault(kf["id"], []).append(i)
                else:
                    inv_fail.append(i)
            for kid, idxs in inv_known.items():
                kf = next(x for x in known if x["id"] == kid)
                c = min((cases[i] for i in idxs[:200]), key=lambda c: len(json.dumps(c["input"])))
                known_lines.append("KNOWN-FINDING: property=%s %s (%s; %d case(s) this run, e.g. %s)" % (
                    pid, kid, kf["what"], len(idxs), json.dumps(c["input"])[:300]))
            if inv_fail:
                c = min((cases[i] for i in inv_fail[:200]), key=lambda c: len(json.dumps(c["input"])))
                rp = write_replay(pid, fam, {"property": pid, "family": fam, "input": c["input"], "observed": c.get("observed"),
                                             "verdict": "harness invariant broken: " + c["invariant"],
                                             "failing_cases_this_run": len(inv_fail)})
                violations.append((rp, True, "%d case(s) of family %s break a harness invariant: %s" % (len(inv_fail), fam, c["invariant"])))
            model_mis = sorted(i for i, v in (model_res or {}).items() if v & 1)
            # classify specification failures
            new_fail = []
            kf_hits = {}
            for i in spec_fail:
                k = kf_res.get(i, 0)
                kf = next((x for x in known if x.get("family") == fam and x.get("kf_code") == k and k != 0), None)
                if kf is not None and (model_res is None or i not in model_res):
                    kf_hits.setdefault(kf["id"], []).append(i)
                else:
                    new_fail.append(i)
            for kid, idxs in kf_hits.items():
                kf = next(x for x in known if x["id"] == kid)
                known_lines.append("KNOWN-FINDING: property=%s %s (%s; %d case(s) this run, e.g. %s)" % (
                    pid, kid, kf["what"], len(idxs), json.dumps(cases[idxs[0]]["input"])[:200]))
            if new_fail:
                c = cases[new_fail[0]]
                # prefer the smallest failing input, then shrink it
                c = min((cases[i] for i in new_fail[:200]), key=lambda c: len(json.dumps(c["input"])))
                c = shrink(pid, fam, fcfg, c, outdir)
                rp = write_replay(pid, fam, {"property": pid, "family": fam, "input": c["input"], "observed": c.get("observed"),
                                             "verdict": "the implementation's observed behaviour violates the specification (%s) on this input" % fcfg["spec"]["fn"],
                                             "failing_cases_this_run": len(new_fail),
                                             "differs_from_model_too": (model_res is not None and any(i in model_res for i in new_fail))})
                violations.append((rp, True, "%d case(s) of family %s violate the specification" % (len(new_fail), fam)))
            only_model = [i for i in model_mis if i not in spec_res or not (spec_res[i] & 2)]
            if only_model:
                c = min((cases[i] for i in only_model[:200]), key=lambda c: len(json.dumps(c["input"])))
                broken.append({"component": "correspondence", "family": fam,
                               "detail": "%d case(s): implementation differs from the model although the specification oracle accepts them" % len(only_model),
                               "case": c["input"], "observed": c.get("observed")})
                log("correspondence broken for family %s: %d case(s) differ from the model" % (fam, len(only_model)))
            elif not model_err and not new_fail and not inv_fail:
                corr_ok += 1
            total_eval += summ["evaluations"]
            total_dnt += summ["distinct_nontrivial"]
            for smp in summ.get("samples") or []:
                if len(samples) < 4:
                    samples.append({"family": fam, "case": smp})
            fam_stats.append({"family": fam, "evaluations": summ["evaluations"], "distinct": summ["distinct"],
                              "distinct_nontrivial": summ["distinct_nontrivial"], "sources": summ["sources"],
                              "tags": summ["tags"], "rule": summ["rule"],
                              "spec_failures": len(spec_fail), "known_finding_cases": sum(len(v) for v in kf_hits.values()),
                              "model_mismatches": len(model_mis), "model_evaluated": model_res is not None,
                              "wall_s": round(time.time() - fam_t0, 1)})

    race_stats = None
    if ok and cfg.get("race"):
        race_stats, rlines, rviol = race_stress(pid, cfg["race"], tier, seed, work, known)
        known_lines += rlines
        for rp, text in rviol:
            violations.append((rp, True, text))

    # ---- 3. a broken proof / tie with no confirmed failing input: widen the search
    confirmed = [v for v in violations if v[1]]
    if broken and not confirmed and ok:
        log("searching for a concrete failing input (widened budget) ...")
        for fam in cfg["families"]:
            fcfg = FAMILIES[fam]
            if not fcfg.get("spec"):
                continue
            outdir = os.path.join(work, fam + "_wide")
            cases, hout = run_family(fam, tier, seed + 7919, outdir, scale=10)
            if cases is None:
                continue
            s = fcfg["spec"]
            try:
                res = eval_shards(cases, s["imports"], s.get("prelude", ""), s["type"], s["fn"], "s", outdir, s.get("shard", 150))
                kfr = eval_shards(cases, s["imports"], s.get("prelude", ""), s["type"], s["kf"], "k", outdir, s.get("shard", 150)) if s.get("kf") else {}
            except RuntimeError:
                continue
            total_eval += len(cases)
            fails = [i for i in sorted(res) if res[i] & 2 and not any(
                x.get("family") == fam and x.get("kf_code") == kfr.get(i, 0) and kfr.get(i, 0) != 0 for x in known)]
            if fails:
                c = min((cases[i] for i in fails[:200]), key=lambda c: len(json.dumps(c["input"])))
                c = shrink(pid, fam, fcfg, c, outdir)
                rp = write_replay(pid, fam, {"property": pid, "family": fam, "input": c["input"], "observed": c.get("observed"),
                                             "verdict": "found by the widened search after a proof/tie break: the implementation violates the specification on this input",
                                             "broken": broken})
                violations.append((rp, True, "widened search: %d failing case(s) in family %s" % (len(fails), fam)))
                break
    confirmed = [v for v in violations if v[1]]
    if broken and not confirmed:
        rp = write_replay(pid, "broken", {"property": pid, "family": "",
                                           "no_failing_input_found": True,
                                           "broken": broken,
                                           "meaning": "a theorem over the regenerated model, or the model/implementation correspondence, no longer checks; no input on which the implementation violates the specification was found"})
        violations.append((rp, False, "proof or correspondence broken: " + "; ".join(
            (b.get("file") or b.get("family") or b["component"]) for b in broken)))

    # ---- 4. evidence + verdict
    obligations = len(thms) + corr_total
    discharged = (len(thms) if thm_ok else 0) + corr_ok
    wall = round(time.time() - t0, 1)
    evidence = {
        "property_id": pid, "tier": tier, "seed": seed, "level": "proof",
        "coverage": {
            "obligations": obligations, "discharged": discharged,
            "checker_cmd": "coqc 8.16.1 (coq_makefile + make -j16 full .vo build of /verif/coq, then coqc %s); correspondence: harness (go build -tags verif against /repo) + vm_compute shards" % pf,
            "trusted_base": TRUSTED_BASE + ["axioms reported by Print Assumptions for %s: %s" % (pf, "; ".join(axioms) if axioms else "none (every theorem: Closed under the global context)")],
            "theorems": thms, "examples": examples,
            "print_assumptions": assumptions,
            "theorems_checked": thm_ok,
            "translator_ok": tr_ok,
            "correspondence_families": fam_stats,
            "evaluations": total_eval, "distinct_nontrivial": total_dnt,
            "rule": " | ".join("%s: %s" % (f["family"], f["rule"]) for f in fam_stats),
            "samples": samples or [{"note": "no harness cases this run"}],
            "known_findings_printed": known_lines,
            "parallel_race_run": race_stats,
            "broken": broken,
            "explanation": cfg.get("explanation", ""),
        },
        "assumptions": ASSUMPTIONS + cfg.get("assumptions", []),
        "wall_s": wall,
        "violations": len(violations),
    }
    json.dump(evidence, open(evid_path, "w"), indent=1)
    for l in known_lines:
        log(l)
    log("%s: theorems %d/%d checked, correspondence %d/%d families clean, %d cases, %.1fs" % (
        pid, len(thms) if thm_ok else 0, len(thms), corr_ok, corr_total, total_eval, wall))
    if violations:
        for rp, conf, text in violations:
            log("  " + text)
            log("VIOLATION property=%s replay=%s%s" % (pid, rp, "" if conf else " no-failing-input-found"))
        sys.exit(1)
    sys.exit(0)


if __name__ == "__main__":
    main()
