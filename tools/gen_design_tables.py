#!/usr/bin/env python3
"""Regenerate the generated sections of DESIGN.md (between <!-- BEGIN x --> / <!-- END x --> markers):
   fixes   - repaired defects (from known_findings.json, status=fixed)
   known   - known findings (status=known)
   seeded  - seeded changes and which check caught them (from seeded/*/meta.json)
   stats   - size of the development"""
import json, os, re, glob, subprocess
ROOT = os.path.dirname(os.path.dirname(os.path.abspath(__file__)))
kf = json.load(open(os.path.join(ROOT, "known_findings.json")))["findings"]


def fixes():
    out = ["| id | property | /repo commit | what failed on the unchanged tree |", "|---|---|---|---|"]
    for k in kf:
        if k.get("status") == "fixed":
            what = k["line"].split(" ", 3)[3] if k["line"].count(" ") >= 3 else k["line"]
            out.append("| %s | %s | `%s` | %s |" % (k["id"], k["property"], k.get("commit", ""), what.replace("|", "\\|")))
    return "\n".join(out)


def known():
    out = ["| id | property | matched by | what fails |", "|---|---|---|---|"]
    for k in kf:
        if k.get("status") == "known":
            if k.get("kind") == "race":
                m = "race-report call sites"
            elif k.get("invariant_class"):
                m = "family `%s`, harness invariant of class `%s` (any other broken invariant is a violation)" % (k.get("family"), k.get("invariant_class"))
            else:
                m = "family `%s`, `kf` code %s (computed in Coq on the case input)" % (k.get("family"), k.get("kf_code"))
            out.append("| %s | %s | %s | %s |" % (k["id"], k["property"], m, k["what"].replace("|", "\\|")))
    return "\n".join(out)


def seeded():
    out = ["| seeded change | breaks | what the change is / what it needs | confirmed (builds, suite green, demo fails with / passes without) | check result | replay found |",
           "|---|---|---|---|---|---|"]
    for d in sorted(glob.glob(os.path.join(ROOT, "seeded", "*", "meta.json"))):
        m = json.load(open(d))
        name = m["name"]
        sd = os.path.join(os.path.dirname(d), "SEEDED.md")
        desc = ""
        if os.path.exists(sd):
            txt = open(sd).read()
            txt = re.sub(r"[#*`]", "", txt)
            lines = [l.strip() for l in txt.splitlines() if l.strip()]
            desc = " ".join(lines[1:4])[:260]
        c = m["confirmed"]
        conf = "yes" if all([c.get("applies"), c.get("builds"), c.get("suite_passes_with_change"), c.get("demo_fails_with_change"), c.get("demo_passes_without_change")]) else "NO: %s" % {k: v for k, v in c.items() if isinstance(v, bool) and not v}
        for p, r in m["checks"].items():
            v = r["violation_lines"]
            res = "VIOLATION" if v else "missed (exit %s)" % r["exit"]
            if v and "no-failing-input-found" in v[0]:
                res = "VIOLATION no-failing-input-found"
            rep = (r.get("replay_input") or "")[:140].replace("|", "\\|")
            out.append("| %s | %s | %s | %s | %s | `%s` |" % (name, p, desc.replace("|", "\\|"), conf, res, rep))
    return "\n".join(out)


def stats():
    v = glob.glob(os.path.join(ROOT, "coq", "*.v")) + glob.glob(os.path.join(ROOT, "coq", "Props", "*.v"))
    v = [f for f in v if not os.path.basename(f).startswith("Generated")]
    lines = sum(len(open(f).read().splitlines()) for f in v)
    lem = sum(len(re.findall(r"^\s*(?:Theorem|Lemma|Corollary)\s", open(f).read(), flags=re.M)) for f in v)
    pt = sum(len(re.findall(r"^\s*Theorem\s", open(f).read(), flags=re.M)) for f in glob.glob(os.path.join(ROOT, "coq", "Props", "*.v")))
    go = sum(len(open(f).read().splitlines()) for f in glob.glob(os.path.join(ROOT, "harness", "*.go")) + glob.glob(os.path.join(ROOT, "translator", "*.go")))
    return "%d Coq files, %d lines, %d lemmas/theorems (%d property theorems in `coq/Props`); harness + translator: %d lines of Go; tools: check.py, props.py and helpers." % (len(v), lines, lem, pt, go)


p = os.path.join(ROOT, "DESIGN.md")
s = open(p).read()
for name, fn in [("fixes", fixes), ("known", known), ("seeded", seeded), ("stats", stats)]:
    s = re.sub(r"(<!-- BEGIN %s -->).*?(<!-- END %s -->)" % (name, name), lambda m: m.group(1) + "\n" + fn() + "\n" + m.group(2), s, flags=re.S)
open(p, "w").write(s)
print("DESIGN.md tables regenerated")
