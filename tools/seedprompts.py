#!/usr/bin/env python3
"""seedprompts.py LETTER: scratch worktrees /tmp/seed/<Cnn><LETTER> of /repo and one prompt
file per property for a sub-agent that is to produce a property-breaking change.  The
prompt holds the property text and one-line excerpts of earlier attempts (so that they
are not repeated); nothing about the machinery in /verif."""
import json, subprocess, os, glob, re, sys
letter = sys.argv[1]
props = {json.loads(l)['id']: json.loads(l) for l in open('/verif/properties.jsonl')}

def summary(d):
    m = json.load(open(d + '/meta.json'))
    t = re.sub(r'[#`*]', '', m.get('what_it_needs', ''))
    i = t.find('hat was changed')
    if i < 0:
        i = t.find('Change')
    seg = t[i:i + 240] if i >= 0 else t[:240]
    return ' '.join(seg.split())

by = {}
for d in sorted(glob.glob('/verif/seeded/*')):
    n = os.path.basename(d)
    m = re.match(r'(C\d\d)', n)
    if m and os.path.exists(d + '/meta.json'):
        by.setdefault(m.group(1), []).append(summary(d))

TMPL = '''You are given a Go library (JesseCoretta/go-stackage: Stack and Condition types for nested Boolean expressions) in your own scratch git worktree at {wt} (a checkout of the repository; work ONLY inside it; never touch /repo or /verif, and do not read /verif).

Here is a semantic property the library is supposed to have:

  {pid}: {title}
  STATEMENT: {stmt}
  QUANTIFIED OVER: {quant}

Your task: make ONE realistic change to the library's non-test Go source in {wt} that BREAKS this property, while
  (a) the package still compiles (`cd {wt} && go build ./... && go vet ./...`, also with `-tags verif`), and
  (b) the existing test suite still passes unedited (`cd {wt} && go test -count=1 ./...`).
The change must look like something a maintainer could plausibly commit (an off-by-one, a dropped or inverted guard, a wrong operator or constant, a forgotten conversion, a reordered pair of statements, a stale value used after a lock, a missing case, an aliasing slip such as re-using a backing array, a cache, a fast path, a "hardening" bound, ...), NOT sabotage that ordinary use would expose at once. Earlier attempts by other engineers (all of these are known and are caught by the project's checks; do not repeat them or close variants; excerpts of their write-ups): {earlier} . The checks that guard this property are strong on randomly generated trees/histories with random options, on aliasing of caller-owned memory, on repeated calls, on lock misuse, on second handles, on unusual Go values (deep pointer chains, complex numbers, same-named types, huge capacities, shared instances, negative and extreme ints, backslashes, pre-quoted texts), on large sizes (thousands of elements, hundreds of nesting levels, long strings, long nil runs), on deprecated method spellings and package-level defaults, on closures that change their own slot; look for something they would plausibly NOT exercise. Do something clearly different - a different function and a different clause of the property - and make it HARD to hit: it should need a multi-step sequence of operations, an unusual option combination, a particular interleaving, a particular value, or two cooperating sites that each look fine alone. Do not touch files named verif_*.go and do not edit *_test.go files.

Also write a demonstration: a new Go test file {wt}/seeded_demo_test.go (package stackage) containing a test named TestSeededDemo that FAILS with your change and PASSES on the original code. Verify both: run it with your change applied (must fail), then `git diff > {wt}.patch && git checkout -- <changed files>`, run it again on the original code (must pass), then re-apply your change with `git apply {wt}.patch`.

Deliver, inside {wt}: the modified source (leave it applied in the working tree, uncommitted), seeded_demo_test.go, and a short file {wt}/SEEDED.md saying: which function(s) you changed and how, which clause of the property breaks, why the suite does not notice, what exactly is needed for the breakage to manifest, and the exact commands you ran with their outcomes. Environment: offline; use `export GOFLAGS=-mod=mod GOPROXY=off GOSUMDB=off GOTOOLCHAIN=local` in each shell call. Reply with a 5-line summary.'''

for pid in sorted(props):
    n = pid + letter
    wt = '/tmp/seed/' + n
    if not os.path.exists(wt):
        subprocess.run(['git', '-C', '/repo', 'worktree', 'add', '--detach', wt, 'HEAD'], check=True, capture_output=True)
    p = props[pid]
    ea = ' || '.join('(%d) %s' % (a + 1, s) for a, s in enumerate(by.get(pid, [])))
    open('/tmp/seed/%s.prompt' % n, 'w').write(TMPL.format(wt=wt, pid=pid, title=p['title'], stmt=p['statement'],
                                                           quant=p['quantifier']['text'], earlier=ea))
print(len(props), 'prompts')
