"""Per-property and per-family configuration of tools/check.py."""

TRUSTED_BASE = [
    "Coq 8.16.1 kernel (coqc, full .vo build; vm_compute used for witnesses, finite sweeps and correspondence evaluation; native_compute not used)",
    "translator /verif/translator (Go, go/parser+go/ast): renders the constant blocks, flag helpers and scalar guard fragments of /repo into coq/Generated.v on every run; fails rather than guesses",
    "correspondence check: /verif/harness (Go, built with -tags verif against /repo's working tree), tools/check.py (shard generation, parsing of coqc output); differential testing, reported with measured counts",
    "Go toolchain/runtime used to run the implementation side; no extraction (no Extract Constant / Extract Inductive directives)",
]

ASSUMPTIONS = [
    "Go values are abstracted to the model's value universe; structures are trees (no sharing, no cycles)",
    "the hand-written model is tied to the code by differential testing only (families and counts in coverage.correspondence_families)",
    "slices are shorter than 2^61 elements (Go int arithmetic on lengths does not wrap)",
]

_STACK_MODEL = {"imports": "Base StackImpl StackSpecCorr StackCorr", "type": "hcase", "fn": "check"}
_STACK_SPEC = {"imports": "Base StackSpec StackSpecCorr", "prelude": "Import SpecSyntax.", "type": "scase", "fn": "check"}

FAMILIES = {
    "hist": {"model": _STACK_MODEL, "spec": _STACK_SPEC},
    "indexsweep": {"model": _STACK_MODEL, "spec": _STACK_SPEC},
    "nesting": {"model": _STACK_MODEL, "spec": _STACK_SPEC},
    "policy": {"model": _STACK_MODEL, "spec": _STACK_SPEC},
}

PROPS = {
    "C01": {"props_file": "Props/C01.v", "families": ["hist"], "design_ref": "§8 C01"},
}
