"""Per-property and per-family configuration of tools/check.py."""

TRUSTED_BASE = [
    "Coq 8.16.1 kernel (coqc, full .vo build; vm_compute used for witnesses, finite sweeps and correspondence evaluation; native_compute not used)",
    "translator /verif/translator (Go, go/parser+go/ast): renders the constant blocks, flag helpers, scalar guard fragments and the bodies of the push loops of /repo into coq/Generated.v (T1), and a statement-level IR of every function into coq/GeneratedIR.v (T2: stores, nil dereferences, lock operations, external calls, and - in the result-tracking variants of the bodies - every place where a result may become non-zero; its classification of locations, of 'same object' calls, of fresh values and of syntactically zero expressions is trusted) on every run; fails rather than guesses",
    "correspondence check: /verif/harness (Go, built with -tags verif against /repo's working tree), tools/check.py (shard generation, parsing of coqc output); differential testing, reported with measured counts",
    "Go toolchain/runtime used to run the implementation side; no extraction (no Extract Constant / Extract Inductive directives)",
]

ASSUMPTIONS = [
    "Go values are abstracted to the model's value universe; structures are trees (no sharing, no cycles)",
    "the hand-written model is tied to the code by differential testing only (families and counts in coverage.correspondence_families)",
    "slices are shorter than 2^61 elements (Go int arithmetic on lengths does not wrap)",
]

_STACK_MODEL = {"imports": "Base StackImpl StackSpecCorr StackCorr", "type": "hcase", "fn": "check"}
_STACK_SPEC = {"imports": "Base StackSpec StackSpecCorr", "prelude": "Import SpecSyntax.", "type": "scase", "fn": "check"}

FAMILIES = {
    "hist": {"model": _STACK_MODEL, "spec": _STACK_SPEC},
    "indexsweep": {"model": _STACK_MODEL, "spec": _STACK_SPEC},
    "nesting": {"model": _STACK_MODEL, "spec": _STACK_SPEC},
    "policy": {"model": _STACK_MODEL, "spec": _STACK_SPEC},
    "defragro": {},
    "revealro": {},
    "awkward": {"spec": {"imports": "Base AwkCorr", "type": "acase", "fn": "acheck"}},
    "roreflect": {"spec": {"imports": "Base AwkCorr", "type": "acase", "fn": "acheck"}, "methods_crosscheck": True},
    "queryreflect": {"spec": {"imports": "Base AwkCorr", "type": "acase", "fn": "acheck"}, "methods_crosscheck": True},
    "zeroreflect": {"spec": {"imports": "Base AwkCorr", "type": "acase", "fn": "acheck"}, "methods_crosscheck": True},
    "sched": {"model": {"imports": "Base StackImpl StackSpecCorr StackCorr Conc ConcCorr", "type": "mccase", "fn": "mc_check"},
              "spec": {"imports": "Base StackSpec StackSpecCorr ConcSpecCorr", "prelude": "Import SpecSyntax. Import ConcSyntax.", "type": "sccase", "fn": "sc_check"}},
    "closures": {"spec": {"imports": "Base Policy PolicyCorr", "type": "pcase", "fn": "pcheck"}},
    "transfer": {"model": {"imports": "Base StackImpl StackSpecCorr TransferCorr TransferCorrM", "type": "tcase", "fn": "tcheck_model"},
                 "spec": {"imports": "Base StackSpec StackSpecCorr TransferCorr", "type": "tcase", "fn": "tcheck_spec"}},
}

PROPS = {
    "C01": {"props_file": "Props/C01.v", "families": ["hist", "nesting"], "design_ref": "DESIGN.md §8 C01",
            "level_text": "Theorem c01_history_refines: for every element type, configuration and EVERY finite history of the 24 list operations (unbounded length, by induction) the raw-slot model of stack.go (whose guards are regenerated from /repo by the translator) never panics, stays well-formed and returns/ends exactly like the ordered-list specification. The model is tied to the code by the hist family (exhaustive short + random long histories, full re-observation after every mutator) evaluated in Coq against model and specification.",
            "technique": "Coq refinement proof (induction over histories) over a partly regenerated model + differential correspondence check"},
    "C03": {"props_file": "Props/C03.v", "families": ["hist", "transfer", "policy", "sched", "marshaljunk"], "design_ref": "DESIGN.md §8 C03",
            "level_text": "Theorems c03_*: every state reachable from a constructor with capacity k by any history holds <= k elements and answers Len/Cap/Avail/IsFull with n, k, k-n, n==k; without capacity -1/-1/false; Push keeps the earliest offered values; Insert on a full stack is a no-op. Proved from the refinement theorem plus a capacity invariant of the specification.",
            "technique": "Coq invariant proof over all histories (corollary of the refinement theorem) + differential correspondence check"},
    "C08": {"props_file": "Props/C08.v", "families": ["indexsweep", "awkward", "hist", "sched", "policy", "reveal"], "design_ref": "DESIGN.md §8 C08",
            "level_text": "Index part proved: every history with arbitrary Go-int indices (MinInt/MaxInt included) runs without Panic in the regenerated raw-slot model and never reads or overwrites the configuration slot; non-addressing indices make Index/Remove/Replace/Swap fail with the state untouched; -k / oversize indices address what the options promise. Value part: panics on awkward Go values live in reflect and cannot be proved over a model of Go; it is decided by the exhaustive awkward-value family (24 methods x 52 values x receiver states + observer battery) and, for the two alias converters, by the theorems of C12.",
            "technique": "Coq proof over the regenerated index/guard fragments (all ints) + exhaustive boundary sweep and awkward-value differential families",
            "assumptions": ["the value part (arbitrary Go values through reflect) is covered by exhaustive enumeration of a 52-value catalogue, not by a theorem"]},
    "C09": {"props_file": "Props/C09.v", "families": ["roreflect", "transfer", "defragro", "revealro"], "design_ref": "DESIGN.md §8 C09",
            "level_text": "Static leg: the translator regenerates a guard IR of EVERY function of the package; Guard.v gives it a trace semantics and a summary-based analysis proved sound in Coq; theorem c09_ro_no_write_every_method applies it to every exported method in the source now (new methods included) on an initialised read-only receiver: no store into the receiver on any path, exceptions SetReadOnly/ReadOnly/SetErr/Init only. Model leg: every mutator of the list model is a no-op under read-only and clearing the flag restores the exact state. Dynamic leg: every method found by reflection x argument variants x read-only receivers, deep hidden-state snapshots (VerifDump) identical; the reflected method set must equal the translator's table.",
            "race": {"mode": "options", "rounds": [30, 600], "workers": 9, "invariants_only": True},
            "technique": "Coq-proved static analysis over a guard IR regenerated from the source + model frame theorems + reflection-driven differential check",
            "assumptions": ["calls leaving the package and user closures (EExt) are assumed not to write into the receiver", "the translator's classification of stores (which assignments go through the receiver) is trusted; cross-checked by the deep-snapshot family"]},
    "C11": {"props_file": "Props/C11.v", "families": ["queryreflect"], "design_ref": "DESIGN.md §8 C11",
            "level_text": "Partial: purity is decided (static theorem c11_queries_no_write_no_lock over the regenerated guard IR for every exported method not in the declared mutator list: no store into the receiver or any nested object and no lock operation on any path; model theorems: a query returns the state it was given and the same answer when repeated; dynamic deep-snapshot family incl. freshness of the Unmarshal slice). 'Without a data race' follows from the absence of writes on query paths at the granularity of the IR's store events; the Go memory model itself is outside the model.",
            "technique": "Coq-proved static analysis over a regenerated guard IR + model frame theorems + reflection-driven differential check",
            "race": {"mode": "queries", "rounds": [25, 800], "workers": 12},
            "assumptions": ["user closures and foreign String methods are assumed pure", "race-freedom is argued from 'no writes on any query path'; the Go memory model and scheduler are not modelled (partial)"]},
    "C17": {"props_file": "Props/C17.v", "families": ["zeroreflect", "awkward", "hist"], "design_ref": "DESIGN.md §8 C17",
            "level_text": "c17_zero_results_every_method: over the regenerated IR with result tracking, on a zero or freed receiver NO path of any exported method (124 of 136; exceptions: the initialisers, error-returning Valid/IsEqual, truthful IsZero/IsEmpty, sentinel strings of ID/Kind/Addr) reaches a place where a result could become non-zero, for all arguments. Static theorem c17_zero_inert_every_method over the regenerated guard IR: for every exported method in the source now (except Marshal and Condition.Init) no path on a zero/freed receiver dereferences the nil embedded pointer or the missing configuration record, and none stores into the receiver; nil Auxiliary methods do not dereference. Reset keeps the configuration record and empties the content (nil elements included). Dynamic leg: every method found by reflection x argument variants x {zero, freed, Init()-only Condition, nil Auxiliary}: no panic, zero results, IsZero/IsInit unchanged.",
            "technique": "Coq-proved static analysis over a regenerated guard IR + reflection-driven differential check",
            "assumptions": ["panics other than nil dereference of the embedded pointer / configuration record are covered by the dynamic family only"]},
    "C10": {"props_file": "Props/C10.v", "families": ["sched"], "design_ref": "DESIGN.md §8 C10",
            "level_text": "Partial. Proved (Conc.v/ConcProofs.v): in the interleaving model at lock-acquisition granularity (unlocked wrapper part; acquire+critical section+release), for ANY number of goroutines, ANY programs of the eight mutators and ANY schedule, no call panics, the shared slice stays well-formed (configuration slot never returned or removed, capacity respected), and the completed calls - in the order they took effect, which respects every goroutine's own order - are a sequential execution of the list model that returns exactly the values the goroutines got and ends in exactly the shared content (linearizability); some goroutine can always move (no deadlock at this granularity). Proved over the statement-level IR regenerated from /repo (GuardLock.v, translator T2): on every path of each of the eight mutators and of every package function it calls on the same stack, stores into the slice header and element slots happen only between stack.lock and stack.unlock, the lock is never requested while held, and it is released on every exit; the bookkeeping field is stored only inside lock/unlock, after Mutex.Lock and before Mutex.Unlock. Refuted in the model and recorded as known finding: freedom from data races (the public wrappers read the slice header and option word before requesting the lock). Not expressible in the model: the Go memory model, the scheduler, sync.Mutex internals. The sched family enforces enumerated interleavings on the real package through the verifPoint hook.",
            "technique": "Coq linearizability proof (ghost log invariant, induction over schedules) over the regenerated list model + Coq-verified lockset analysis of the regenerated statement IR + exhaustive scheduler-controlled differential check",
            "race": {"mode": "mutators", "rounds": [40, 1500], "workers": 8},
            "assumptions": ["sync.Mutex is an ideal exclusive lock; critical sections are atomic actions", "the Go memory model (torn reads, reordering) and goroutine scheduling are outside the model: partial", "the race-freedom sentence of the property is refuted at footprint level (known finding C10/unlocked-wrapper-reads), not proved"]},
    "C13": {"props_file": "Props/C13.v", "families": ["nesting", "cond"], "design_ref": "DESIGN.md §8 C13",
            "level_text": "Theorems c13_*: with the option on Push stores exactly the non-Stack values (in order, up to capacity); switching never touches elements; CanNest = option off = a pushed Stack would be stored; IsNesting = some element is a Stack/alias; in every reachable state.",
            "technique": "Coq proof over the regenerated list model + differential correspondence check (native/alias/pointer-to-alias values)"},
    "C15": {"props_file": "Props/C15.v", "families": ["transfer"], "design_ref": "DESIGN.md §8 C15",
            "level_text": "Theorems c15_*: for all source/destination contents, capacities, destination options and push policies, the model of Stack.Transfer (pre-check and success expression regenerated from /repo) agrees with the specification: true is returned only if the destination ends as its previous elements followed by every source element in order; too little free capacity, a read-only or non-convertible destination give false and no change; the source is not an output of the operation at all.",
            "technique": "Coq refinement proof over two raw-slot states + exhaustive/random differential correspondence check"},
    "C14": {"props_file": "Props/C14.v", "families": ["policy", "closures"], "race": {"mode": "policy", "rounds": [6, 40], "workers": 2, "invariants_only": True}, "design_ref": "DESIGN.md §8 C14",
            "level_text": "Theorem c14_push_policy holds for EVERY policy function: consulted values are a prefix of the batch, each once, in order; approved ones are exactly what is appended; the first rejection stops the batch, is recorded in Err and is not stored; capacity respected.",
            "technique": "Coq proof parametric in the policy closure + differential correspondence check with logged table-driven policies"},
}

# entries contributed by the module builders (tools/props.d/*.json)
import glob as _glob, json as _json, os as _os
for _f in sorted(_glob.glob(_os.path.join(_os.path.dirname(_os.path.abspath(__file__)), "props.d", "*.json"))):
    _d = _json.load(open(_f))
    FAMILIES.update(_d.get("families", {}))
    PROPS.update(_d.get("props", {}))
