#!/usr/bin/env python3
"""agmerge.py NAME : merge a module-builder sandbox /tmp/ag/NAME/verif into /verif
(new files, _CoqProject lines, props entries as tools/props.d/NAME.json)."""
import sys, os, subprocess, shutil, json
name = sys.argv[1]
BASE = "10d9dfc"
SB = "/tmp/ag/%s/verif" % name
out = subprocess.check_output(["/verif/tools/agdiff.sh", name], text=True).splitlines()
for l in out:
    kind, p = l.split(None, 1)
    if kind == "NEW":
        dst = os.path.join("/verif", p)
        os.makedirs(os.path.dirname(dst), exist_ok=True)
        shutil.copy(os.path.join(SB, p), dst)
        print("copied", p)
# _CoqProject
base_cp = subprocess.check_output(["git", "-C", "/verif", "show", BASE + ":coq/_CoqProject"], text=True).splitlines()
new_cp = open(os.path.join(SB, "coq/_CoqProject")).read().splitlines()
added = [l for l in new_cp if l not in base_cp]
cur = open("/verif/coq/_CoqProject").read().splitlines()
mods = [l for l in added if not l.startswith("Props/") and l not in cur]
props = [l for l in added if l.startswith("Props/") and l not in cur]
i = next(k for k, l in enumerate(cur) if l.startswith("Props/"))
cur = cur[:i] + mods + cur[i:] + props
open("/verif/coq/_CoqProject", "w").write("\n".join(cur) + "\n")
print("_CoqProject +", mods + props)
# props
def load(src):
    g = {}
    exec(src, g)
    return g["FAMILIES"], g["PROPS"]
bf, bp = load(subprocess.check_output(["git", "-C", "/verif", "show", BASE + ":tools/props.py"], text=True))
nf, np_ = load(open(os.path.join(SB, "tools/props.py")).read())
frag = {"families": {k: v for k, v in nf.items() if k not in bf}, "props": {k: v for k, v in np_.items() if k not in bp}}
json.dump(frag, open("/verif/tools/props.d/%s.json" % name, "w"), indent=1)
print("props.d/%s.json:" % name, list(frag["families"]), list(frag["props"]))
# known findings added by the agent
bk = json.loads(subprocess.check_output(["git", "-C", "/verif", "show", BASE + ":known_findings.json"], text=True))["findings"]
nk = json.load(open(os.path.join(SB, "known_findings.json")))["findings"]
ids = {k["id"] for k in bk}
extra = [k for k in nk if k["id"] not in ids]
if extra:
    print("known findings proposed by the agent (NOT merged automatically):")
    for k in extra:
        print("  ", json.dumps(k))
