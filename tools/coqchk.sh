#!/bin/sh
# coqchk.sh : re-check every compiled module of /verif/coq with Coq's
# independent checker and list the axioms the development relies on.
# Works on a scratch copy (coqchk would otherwise interfere with the checks'
# own builds); writes notes/coqchk.txt.  Run `./check Cnn` (any) first so that
# the generated files and all .vo files are current.
set -e
ROOT=$(cd "$(dirname "$0")/.." && pwd)
W="$ROOT/build/coqchk_copy"
rm -rf "$W"; mkdir -p "$W"
cp -r "$ROOT/coq/." "$W/"
cd "$W"
mods=$(ls *.vo Props/*.vo | sed 's/\.vo$//; s/^Props\//Props./; s/^/Stackage./')
{
  date
  echo "coqchk -silent -o -Q . Stackage <all $(echo $mods | wc -w) compiled modules of /verif/coq at commit $(git -C "$ROOT" rev-parse --short HEAD)>"
  timeout 7200 coqchk -silent -o -Q . Stackage $mods 2>&1 | tail -40
  echo "EXIT=$?"
  date
} > "$ROOT/notes/coqchk.txt" 2>&1
rm -rf "$W"
tail -14 "$ROOT/notes/coqchk.txt"
