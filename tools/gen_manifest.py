#!/usr/bin/env python3
"""Regenerate /verif/MANIFEST.json from tools/props.py (claimed properties) and
tools/not_applicable.json (everything not claimed, with reasons)."""
import json, os, sys
ROOT = os.path.dirname(os.path.dirname(os.path.abspath(__file__)))
sys.path.insert(0, os.path.join(ROOT, "tools"))
from props import PROPS
allp = [json.loads(l)["id"] for l in open(os.path.join(ROOT, "properties.jsonl"))]
na_path = os.path.join(ROOT, "tools", "not_applicable.json")
na = json.load(open(na_path)) if os.path.exists(na_path) else {}
hooks_path = os.path.join(ROOT, "MANIFEST.hooks")
commits = [l.split()[0] for l in open(hooks_path) if l.strip() and not l.startswith("#")] if os.path.exists(hooks_path) else []
m = {
    "version": 1,
    "setup_cmd": "sh /verif/setup.sh",
    "hooks": {"guard": "verif", "enable": "go build -tags verif (harness module with replace => /repo)",
              "baseline_off_cmd": "cd /repo && go test -vet=off -count=1 ./...",
              "source_commits": commits, "add_only": True},
    "engines": [{"name": "coq-proof+correspondence", "path": "/verif/tools/check.py",
                 "serves_properties": sorted(PROPS),
                 "kind_free_text": "Coq 8.16.1 theorems over a model partly regenerated from /repo (translator) and partly hand-written, tied to the implementation by a Go harness whose recorded cases are evaluated against model and specification with vm_compute"}],
    "checks": [],
    "notes": "Every check: translator -> make (full .vo) -> coqc Props/<id>.v (Print Assumptions) -> harness families -> vm_compute shards -> verdict. See DESIGN.md.",
    "not_applicable": [],
}
for pid in sorted(PROPS):
    c = PROPS[pid]
    m["checks"].append({
        "property_id": pid,
        "quick_cmd": "/verif/check %s --tier quick" % pid,
        "thorough_cmd": "/verif/check %s --tier thorough" % pid,
        "evidence_file": "/verif/evidence/%s.json" % pid,
        "replay_cmd_template": "/verif/check %s --replay {path}" % pid,
        "engine": "coq-proof+correspondence",
        "level_claimed": {"category": "proof", "text": c["level_text"], "design_ref": c["design_ref"]},
        "level_note": c.get("level_note", "Trusted: Coq 8.16.1 kernel (vm_compute, no native_compute), no axioms (Print Assumptions collected per run), the translator for the regenerated fragments, and the harness-based correspondence check (differential testing) for the hand-written parts of the model; Go values abstracted to the model's universe."),
        "technique": c["technique"],
    })
for pid in allp:
    if pid not in PROPS:
        m["not_applicable"].append({"property_id": pid, "reason": na.get(pid, "not claimed yet: the model, theorems and check for this property are still being built (see DESIGN.md §13 build order)")})
json.dump(m, open(os.path.join(ROOT, "MANIFEST.json"), "w"), indent=1)
print("MANIFEST.json: %d checks, %d not claimed" % (len(m["checks"]), len(m["not_applicable"])))
