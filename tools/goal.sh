#!/bin/sh
# goal.sh FILE LINE : show the proof state after line LINE of FILE (cwd = /verif/coq)
f="$1"; n="$2"
head -n "$n" "$f" > /tmp/_goal.v
echo "Show." >> /tmp/_goal.v
coqtop -Q . Stackage -batch -l /tmp/_goal.v 2>&1 | tail -${3:-40}
