package main

// T2: the guard IR.  Every function of the package is rendered as a term of
// coq/Guard.v's [gstmt]: control flow, stores through the receiver (GEv
// (EWrite loc)), accesses that panic on a nil embedded pointer (GEv EDeref),
// lock operations, calls inside the package (same object / other object) and
// calls leaving it.  Types are resolved with go/types (source importer, works
// offline).  See DESIGN.md §4 T2.

import (
	"fmt"
	"go/ast"
	"go/importer"
	"go/token"
	"go/types"
	"sort"
	"strings"
)

type irGen struct {
	info    *types.Info
	pkg     *types.Package
	funcs   map[string]*ast.FuncDecl // key -> decl
	keys    []string
	ids     map[string]int
	variant map[string]bool // function keys that have a cfgFlag parameter named cf (specialised on cf == ronly)
}

func funcKey(fd *ast.FuncDecl) string {
	key := fd.Name.Name
	if fd.Recv != nil && len(fd.Recv.List) > 0 {
		t := fd.Recv.List[0].Type
		ptr := ""
		if s, ok := t.(*ast.StarExpr); ok {
			t = s.X
			ptr = "*"
		}
		if id, ok := t.(*ast.Ident); ok {
			key = ptr + id.Name + "." + key
		}
	}
	return key
}

func objKey(f *types.Func) string {
	sig := f.Type().(*types.Signature)
	if r := sig.Recv(); r != nil {
		t := r.Type()
		ptr := ""
		if p, ok := t.(*types.Pointer); ok {
			t = p.Elem()
			ptr = "*"
		}
		if n, ok := t.(*types.Named); ok {
			return ptr + n.Obj().Name() + "." + f.Name()
		}
	}
	return f.Name()
}

type fctx struct {
	g       *irGen
	fd      *ast.FuncDecl
	recv    types.Object // receiver variable (may be nil)
	recvPtr bool
	fresh   map[types.Object]bool
	derived map[types.Object]bool // locals holding the result of r.config(): nil exactly when the receiver is not initialised
	cfIs    int // specialisation of "cf == ronly": 0 unknown, 1 true, 2 false
	// resMode: the body is translated as an ENTRY POINT: every place where one
	// of its results may become something other than the zero value of its
	// type emits (GEv ERes).  Such bodies are never the target of a GCall.
	resMode bool
	results map[types.Object]bool // named results
	tail    bool                  // the call being translated hands its results on as results of this entry point
}

// zeroExpr: the expression is syntactically the zero value of its type (or the
// value receiver itself, which IS the zero value in the only analysis that
// looks at ERes events, the one for zero receivers).
func (c *fctx) zeroExpr(e ast.Expr) bool {
	switch x := e.(type) {
	case *ast.ParenExpr:
		return c.zeroExpr(x.X)
	case *ast.BasicLit:
		switch x.Kind {
		case token.INT:
			return x.Value == "0"
		case token.FLOAT:
			return x.Value == "0.0" || x.Value == "0."
		case token.STRING:
			return x.Value == `""` || x.Value == "``"
		case token.CHAR:
			return false
		}
	case *ast.Ident:
		if x.Name == "nil" || x.Name == "false" {
			if _, isConst := c.g.info.Uses[x].(*types.Nil); isConst || x.Name == "false" {
				return true
			}
		}
		obj := c.g.info.Uses[x]
		if obj != nil && c.results[obj] {
			return true // a named result: its assignments are looked at where they happen
		}
		if obj != nil && c.recv != nil && obj == c.recv && !c.recvPtr {
			return true
		}
	case *ast.CompositeLit:
		return len(x.Elts) == 0
	case *ast.CallExpr:
		// a conversion of a zero value
		if tv, ok := c.g.info.Types[x.Fun]; ok && tv.IsType() && len(x.Args) == 1 {
			return c.zeroExpr(x.Args[0])
		}
	}
	return false
}

// pkgCall: e is a call of a function or method of this package (whose body is in the table)
func (c *fctx) pkgCall(e ast.Expr) (*ast.CallExpr, bool) {
	x, ok := e.(*ast.CallExpr)
	if !ok {
		return nil, false
	}
	if tv, ok := c.g.info.Types[x.Fun]; ok && tv.IsType() {
		return nil, false
	}
	var obj types.Object
	switch f := x.Fun.(type) {
	case *ast.Ident:
		obj = c.g.info.Uses[f]
	case *ast.SelectorExpr:
		if sel, ok := c.g.info.Selections[f]; ok && sel.Kind() == types.MethodVal {
			obj = sel.Obj()
		} else {
			obj = c.g.info.Uses[f.Sel]
		}
	}
	fn, ok := obj.(*types.Func)
	if !ok || fn.Pkg() != c.g.pkg {
		return nil, false
	}
	if _, known := c.g.funcs[objKey(fn)]; !known {
		return nil, false
	}
	return x, true
}

func (c *fctx) isResult(e ast.Expr) bool {
	if id, ok := e.(*ast.Ident); ok {
		obj := c.g.info.Uses[id]
		if obj == nil {
			obj = c.g.info.Defs[id]
		}
		return obj != nil && c.results[obj]
	}
	return false
}

func seq(parts ...string) string {
	var ps []string
	for _, p := range parts {
		if p != "" && p != "GSkip" {
			ps = append(ps, p)
		}
	}
	if len(ps) == 0 {
		return "GSkip"
	}
	out := ps[len(ps)-1]
	for i := len(ps) - 2; i >= 0; i-- {
		out = "(GSeq " + ps[i] + " " + out + ")"
	}
	return out
}

func (c *fctx) rootIdent(e ast.Expr) *ast.Ident {
	for {
		switch x := e.(type) {
		case *ast.Ident:
			return x
		case *ast.SelectorExpr:
			e = x.X
		case *ast.StarExpr:
			e = x.X
		case *ast.ParenExpr:
			e = x.X
		case *ast.IndexExpr:
			e = x.X
		case *ast.SliceExpr:
			e = x.X
		default:
			return nil
		}
	}
}

// sameObject: the expression denotes the receiver, a part of it (its embedded
// pointer, its configuration record, the log system inside it, ...) or a local
// holding the result of r.config().  Elements of the slice are other objects.
func (c *fctx) sameObject(e ast.Expr) bool {
	for {
		switch x := e.(type) {
		case *ast.Ident:
			obj := c.g.info.Uses[x]
			return obj != nil && ((c.recv != nil && obj == c.recv) || c.derived[obj])
		case *ast.ParenExpr:
			e = x.X
		case *ast.StarExpr:
			e = x.X
		case *ast.SelectorExpr:
			if _, ok := c.g.info.Selections[x]; !ok {
				return false // qualified identifier
			}
			e = x.X
		default:
			return false
		}
	}
}

func (c *fctx) isRecvRooted(e ast.Expr) bool {
	id := c.rootIdent(e)
	if id == nil {
		return false
	}
	obj := c.g.info.Uses[id]
	if obj == nil {
		return false
	}
	return (c.recv != nil && obj == c.recv) || c.derived[obj]
}

func (c *fctx) markDerived(lhs []ast.Expr, rhs []ast.Expr) {
	if len(rhs) != 1 || len(lhs) == 0 {
		return
	}
	ce, ok := rhs[0].(*ast.CallExpr)
	if !ok {
		return
	}
	se, ok := ce.Fun.(*ast.SelectorExpr)
	if !ok || se.Sel.Name != "config" || !c.sameObject(se.X) {
		return
	}
	if id, ok := lhs[0].(*ast.Ident); ok {
		obj := c.g.info.Defs[id]
		if obj == nil {
			obj = c.g.info.Uses[id]
		}
		if obj != nil {
			c.derived[obj] = true
		}
	}
}

// derefNeeded: does evaluating the selection x.f dereference a pointer
// (go/types' Selection.Indirect is unreliable for pointer-receiver methods)
func derefNeeded(sel *types.Selection) bool {
	t := sel.Recv()
	idx := sel.Index()
	for i, k := range idx {
		last := i == len(idx)-1
		if last && sel.Kind() == types.MethodVal {
			_, isPtr := t.(*types.Pointer)
			if !isPtr {
				return false
			}
			sig := sel.Obj().Type().(*types.Signature)
			_, recvPtr := sig.Recv().Type().(*types.Pointer)
			if _, isIface := sig.Recv().Type().Underlying().(*types.Interface); isIface {
				return false
			}
			return !recvPtr
		}
		// a field step
		if p, isPtr := t.(*types.Pointer); isPtr {
			_ = p
			return true
		}
		st, ok := t.Underlying().(*types.Struct)
		if !ok {
			return false
		}
		t = st.Field(k).Type()
	}
	return false
}

func namedName(t types.Type) string {
	for {
		switch x := t.(type) {
		case *types.Pointer:
			t = x.Elem()
			continue
		case *types.Named:
			return x.Obj().Name()
		}
		return ""
	}
}

// effects of evaluating an expression: calls and dereferences, in order
func (c *fctx) expr(e ast.Expr) string {
	if e == nil {
		return "GSkip"
	}
	if tv, ok := c.g.info.Types[e]; ok && tv.IsType() {
		return "GSkip"
	}
	switch x := e.(type) {
	case *ast.ParenExpr:
		return c.expr(x.X)
	case *ast.Ident, *ast.BasicLit, *ast.FuncLit:
		return "GSkip"
	case *ast.CompositeLit:
		var ps []string
		for _, el := range x.Elts {
			if kv, ok := el.(*ast.KeyValueExpr); ok {
				ps = append(ps, c.expr(kv.Value))
			} else {
				ps = append(ps, c.expr(el))
			}
		}
		return seq(ps...)
	case *ast.UnaryExpr:
		return c.expr(x.X)
	case *ast.BinaryExpr:
		return seq(c.expr(x.X), c.expr(x.Y))
	case *ast.StarExpr:
		d := ""
		if c.isRecvRooted(x.X) {
			d = "(GEv EDeref)"
		}
		return seq(c.expr(x.X), d)
	case *ast.TypeAssertExpr:
		return c.expr(x.X)
	case *ast.IndexExpr:
		return seq(c.expr(x.X), c.expr(x.Index))
	case *ast.SliceExpr:
		return seq(c.expr(x.X), c.expr(x.Low), c.expr(x.High), c.expr(x.Max))
	case *ast.KeyValueExpr:
		return c.expr(x.Value)
	case *ast.SelectorExpr:
		d := ""
		if sel, ok := c.g.info.Selections[x]; ok && derefNeeded(sel) && c.isRecvRooted(x.X) {
			d = "(GEv EDeref)"
		}
		return seq(c.expr(x.X), d)
	case *ast.CallExpr:
		return c.call(x)
	}
	die("ir: %s: unsupported expression %T %q", funcKey(c.fd), e, src(e))
	return ""
}

func (c *fctx) call(x *ast.CallExpr) string {
	var args []string
	for _, a := range x.Args {
		args = append(args, c.expr(a))
	}
	argEff := seq(args...)
	// conversions and builtins
	if tv, ok := c.g.info.Types[x.Fun]; ok && tv.IsType() {
		return argEff
	}
	switch f := x.Fun.(type) {
	case *ast.Ident:
		switch obj := c.g.info.Uses[f].(type) {
		case *types.Builtin:
			if obj.Name() == "delete" && len(x.Args) > 0 {
				return seq(argEff, "(GEv (EWrite LAux))")
			}
			// append stores into the spare capacity of its first argument's
			// backing array: unless that slice was made in this function (or
			// is the stack's own slice, whose assignment is a header write)
			// this is a store into memory shared with whoever supplied it
			if obj.Name() == "append" && len(x.Args) > 1 {
				if _, isStar := x.Args[0].(*ast.StarExpr); !isStar {
					id := c.rootIdent(x.Args[0])
					if id == nil || !c.fresh[c.g.info.Uses[id]] {
						return seq(argEff, "(GEv (EWrite LOther))")
					}
				}
			}
			return argEff
		case *types.Func:
			if obj.Pkg() == c.g.pkg {
				return seq(argEff, c.callTo(objKey(obj), false, x))
			}
			return seq(argEff, "(GEv EExt)")
		case *types.Var: // function value (package-level alias like sprintf, or a closure variable)
			return seq(argEff, "(GEv EExt)")
		}
		return seq(argEff, "(GEv EExt)")
	case *ast.SelectorExpr:
		recvEff := c.expr(f.X)
		if sel, ok := c.g.info.Selections[f]; ok {
			switch sel.Kind() {
			case types.MethodVal:
				fn := sel.Obj().(*types.Func)
				d := ""
				if derefNeeded(sel) && c.isRecvRooted(f.X) {
					d = "(GEv EDeref)"
				}
				if fn.Pkg() == c.g.pkg {
					if _, isIface := sel.Recv().Underlying().(*types.Interface); isIface {
						return seq(recvEff, argEff, "(GEv EExt)")
					}
					return seq(recvEff, argEff, d, c.callTo(objKey(fn), c.sameObject(f.X), x))
				}
				// methods of other packages
				if fn.Pkg() != nil && fn.Pkg().Path() == "sync" && namedName(sel.Recv()) == "Mutex" {
					if fn.Name() == "Lock" {
						return seq(recvEff, "(GEv EMLock)")
					}
					if fn.Name() == "Unlock" {
						return seq(recvEff, "(GEv EMUnlock)")
					}
				}
				return seq(recvEff, argEff, d, "(GEv EExt)")
			case types.FieldVal: // call of a function-typed field: a user closure
				d := ""
				if derefNeeded(sel) && c.isRecvRooted(f.X) {
					d = "(GEv EDeref)"
				}
				return seq(recvEff, argEff, d, "(GEv EExt)")
			}
		}
		// qualified identifier pkg.Func
		return seq(argEff, "(GEv EExt)")
	case *ast.FuncLit, *ast.CallExpr, *ast.ParenExpr, *ast.IndexExpr, *ast.TypeAssertExpr:
		return seq(c.expr(x.Fun), argEff, "(GEv EExt)")
	}
	die("ir: %s: unsupported call %q", funcKey(c.fd), src(x))
	return ""
}

func (c *fctx) callTo(key string, same bool, x *ast.CallExpr) string {
	if _, ok := c.g.funcs[key]; !ok {
		die("ir: %s: call to unknown package function %s", funcKey(c.fd), key)
	}
	name := key
	if c.g.variant[key] {
		// specialise on the constant passed for the cfgFlag parameter
		v := "?"
		fd := c.g.funcs[key]
		idx := 0
		for _, fl := range fd.Type.Params.List {
			for _, n := range fl.Names {
				if n.Name == "cf" && idx < len(x.Args) {
					if id, ok := x.Args[idx].(*ast.Ident); ok {
						if _, isConst := c.g.info.Uses[id].(*types.Const); isConst {
							if id.Name == "ronly" {
								v = "ronly"
							} else {
								v = "other"
							}
						} else if id.Name == "cf" && c.cfIs != 0 {
							v = map[int]string{1: "ronly", 2: "other"}[c.cfIs]
						}
					}
				}
				idx++
			}
		}
		name = key + "[" + v + "]"
	}
	if c.tail {
		name += "[res]"
	}
	id, ok := c.g.ids[name]
	if !ok {
		die("ir: no id for %s", name)
	}
	pre := ""
	if key == "*stack.lock" {
		pre = "(GEv ELock)"
	}
	if key == "*stack.unlock" {
		pre = "(GEv EUnlock)"
	}
	if same {
		return seq(pre, fmt.Sprintf("(GCall %d)", id))
	}
	return seq(pre, fmt.Sprintf("(GCallOther %d)", id))
}

// classification of a condition; the second result are the effects of
// evaluating the parts that were not recognised
func (c *fctx) cond(e ast.Expr) (string, string) {
	switch x := e.(type) {
	case *ast.ParenExpr:
		return c.cond(x.X)
	case *ast.UnaryExpr:
		if x.Op == token.NOT {
			g, eff := c.cond(x.X)
			return "(CNot " + g + ")", eff
		}
	case *ast.BinaryExpr:
		switch x.Op {
		case token.LAND:
			a, e1 := c.cond(x.X)
			b, e2 := c.cond(x.Y)
			return "(CAnd " + a + " " + b + ")", seq(e1, e2)
		case token.LOR:
			a, e1 := c.cond(x.X)
			b, e2 := c.cond(x.Y)
			return "(COr " + a + " " + b + ")", seq(e1, e2)
		case token.EQL, token.NEQ:
			neg := x.Op == token.NEQ
			wrap := func(g string) (string, string) {
				if neg {
					return "(CNot " + g + ")", "GSkip"
				}
				return g, "GSkip"
			}
			isNil := func(e ast.Expr) bool { id, ok := e.(*ast.Ident); return ok && id.Name == "nil" }
			var other ast.Expr
			if isNil(x.Y) {
				other = x.X
			} else if isNil(x.X) {
				other = x.Y
			}
			if other != nil {
				if id, ok := other.(*ast.Ident); ok && c.recv != nil && c.g.info.Uses[id] == c.recv {
					return wrap("CRecvNil")
				}
				if se, ok := other.(*ast.SelectorExpr); ok && (se.Sel.Name == "stack" || se.Sel.Name == "condition") && c.sameObject(se.X) {
					return wrap("CZero")
				}
			}
			// cf == ronly in the specialised copies of setState
			if idl, ok := x.X.(*ast.Ident); ok && idl.Name == "cf" {
				if idr, ok := x.Y.(*ast.Ident); ok && idr.Name == "ronly" && c.cfIs != 0 {
					if (c.cfIs == 1) != neg {
						return "CTrue", "GSkip"
					}
					return "CFalse", "GSkip"
				}
			}
		}
	case *ast.CallExpr:
		if se, ok := x.Fun.(*ast.SelectorExpr); ok && c.sameObject(se.X) {
			switch se.Sel.Name {
			case "IsInit":
				return "CInit", "GSkip"
			case "IsZero", "isZero":
				return "CZero", "GSkip"
			case "IsReadOnly":
				return "CRO", "GSkip"
			case "IsEmpty":
				return "(CNot CNonEmpty)", "GSkip"
			case "getState":
				if len(x.Args) == 1 {
					if id, ok := x.Args[0].(*ast.Ident); ok && id.Name == "ronly" {
						return "CRO", "GSkip"
					}
				}
			}
		}
	}
	return "COther", c.expr(e)
}

func (c *fctx) write(lhs ast.Expr) string {
	switch x := lhs.(type) {
	case *ast.ParenExpr:
		return c.write(x.X)
	case *ast.Ident:
		if x.Name == "_" {
			return "GSkip"
		}
		obj := c.g.info.Uses[x]
		if obj == nil {
			obj = c.g.info.Defs[x]
		}
		if v, ok := obj.(*types.Var); ok && v.Parent() == c.g.pkg.Scope() {
			return "(GEv (EWrite LGlobal))"
		}
		return "GSkip"
	case *ast.StarExpr:
		if id := c.rootIdent(x.X); id != nil && c.fresh[c.g.info.Uses[id]] {
			return "GSkip"
		}
		loc := "LOther"
		switch namedName(c.g.info.TypeOf(x.X)) {
		case "stack":
			loc = "LHdr"
		case "Stack", "Condition":
			loc = "LHandle"
		case "cfgFlag", "logLevels", "logSystem", "nodeConfig":
			loc = "LCfg"
		case "condition":
			loc = "LCond"
		}
		d := ""
		if c.isRecvRooted(x.X) {
			d = "(GEv EDeref)"
		}
		return seq(c.expr(x.X), d, "(GEv (EWrite "+loc+"))")
	case *ast.IndexExpr:
		if id := c.rootIdent(x.X); id != nil && c.fresh[c.g.info.Uses[id]] {
			return seq(c.expr(x.X), c.expr(x.Index))
		}
		loc := "LOther"
		d := ""
		switch namedName(c.g.info.TypeOf(x.X)) {
		case "stack":
			loc = "LSlot"
		case "Auxiliary":
			loc = "LAux"
			d = "(GEv EDeref)" // assignment to an entry of a nil map panics
		}
		return seq(c.expr(x.X), c.expr(x.Index), d, "(GEv (EWrite "+loc+"))")
	case *ast.SelectorExpr:
		if id := c.rootIdent(x.X); id != nil && c.fresh[c.g.info.Uses[id]] {
			return c.expr(x.X)
		}
		loc := "LOther"
		bt := c.g.info.TypeOf(x.X)
		switch namedName(bt) {
		case "nodeConfig":
			switch x.Sel.Name {
			case "err":
				loc = "LCfgErr"
			case "ldr":
				loc = "LCfgLdr"
			default:
				loc = "LCfg"
			}
		case "logSystem":
			loc = "LCfg"
		case "condition":
			loc = "LCond"
		case "Stack", "Condition":
			// r.stack = nil / r.condition = nil: a store into the handle only
			// when the handle is reached through a pointer
			if _, isPtr := bt.(*types.Pointer); !isPtr {
				return c.expr(x.X)
			}
			loc = "LHandle"
		}
		d := ""
		if sel, ok := c.g.info.Selections[x]; ok && derefNeeded(sel) && c.isRecvRooted(x.X) {
			d = "(GEv EDeref)"
		}
		return seq(c.expr(x.X), d, "(GEv (EWrite "+loc+"))")
	}
	die("ir: %s: unsupported assignment target %q", funcKey(c.fd), src(lhs))
	return ""
}

func (c *fctx) markFresh(lhs ast.Expr, rhs ast.Expr) {
	id, ok := lhs.(*ast.Ident)
	if !ok {
		return
	}
	obj := c.g.info.Defs[id]
	if obj == nil {
		obj = c.g.info.Uses[id]
	}
	if obj == nil {
		return
	}
	isFresh := false
	switch r := rhs.(type) {
	case nil:
		// var x T : a fresh zero value unless T is a pointer/interface
		switch obj.Type().Underlying().(type) {
		case *types.Pointer, *types.Interface:
		default:
			isFresh = true
		}
	case *ast.CompositeLit:
		isFresh = true
	case *ast.UnaryExpr:
		if _, ok := r.X.(*ast.CompositeLit); ok && r.Op == token.AND {
			isFresh = true
		}
	case *ast.CallExpr:
		if f, ok := r.Fun.(*ast.Ident); ok {
			if b, ok := c.g.info.Uses[f].(*types.Builtin); ok && (b.Name() == "make" || b.Name() == "new" || b.Name() == "append") {
				isFresh = b.Name() != "append"
				if !isFresh && len(r.Args) > 0 {
					// appending to a slice made here gives a slice made here
					if id := c.rootIdent(r.Args[0]); id != nil {
						if _, isStar := r.Args[0].(*ast.StarExpr); !isStar && c.fresh[c.g.info.Uses[id]] {
							isFresh = true
						}
					}
				}
			}
		}
	}
	if isFresh {
		c.fresh[obj] = true
	} else if _, was := c.fresh[obj]; was {
		delete(c.fresh, obj)
	}
}

func (c *fctx) stmts(list []ast.Stmt) string {
	for i, s := range list {
		if d, ok := s.(*ast.DeferStmt); ok {
			fin := c.call(d.Call)
			return seq(c.stmts(list[:i]), "(GFinally "+c.stmts(list[i+1:])+" "+fin+")")
		}
	}
	var ps []string
	for _, s := range list {
		ps = append(ps, c.stmt(s))
	}
	return seq(ps...)
}

func (c *fctx) stmt(s ast.Stmt) string {
	switch x := s.(type) {
	case nil:
		return "GSkip"
	case *ast.EmptyStmt:
		return "GSkip"
	case *ast.BlockStmt:
		return c.stmts(x.List)
	case *ast.ExprStmt:
		return c.expr(x.X)
	case *ast.ReturnStmt:
		var ps []string
		if c.resMode && len(x.Results) == 1 {
			if ce, ok := c.pkgCall(x.Results[0]); ok {
				// return f(...): the callee's results are this function's results
				c.tail = true
				s := c.call(ce)
				c.tail = false
				return seq(s, "GReturn")
			}
		}
		for _, r := range x.Results {
			ps = append(ps, c.expr(r))
		}
		if c.resMode {
			for _, r := range x.Results {
				if !c.zeroExpr(r) {
					ps = append(ps, "(GEv ERes)")
					break
				}
			}
		}
		ps = append(ps, "GReturn")
		return seq(ps...)
	case *ast.BranchStmt:
		switch x.Tok {
		case token.BREAK:
			return "GBreak"
		case token.CONTINUE:
			return "GContinue"
		}
	case *ast.IncDecStmt:
		if c.resMode && c.isResult(x.X) {
			return seq(c.expr(x.X), c.write(x.X), "(GEv ERes)")
		}
		return seq(c.expr(x.X), c.write(x.X))
	case *ast.DeclStmt:
		gd := x.Decl.(*ast.GenDecl)
		var ps []string
		for _, sp := range gd.Specs {
			if vs, ok := sp.(*ast.ValueSpec); ok {
				for _, v := range vs.Values {
					ps = append(ps, c.expr(v))
				}
				for i, n := range vs.Names {
					var rhs ast.Expr
					if i < len(vs.Values) {
						rhs = vs.Values[i]
					}
					c.markFresh(n, rhs)
				}
			}
		}
		return seq(ps...)
	case *ast.AssignStmt:
		var ps []string
		if c.resMode && x.Tok == token.ASSIGN && len(x.Rhs) == 1 {
			if ce, ok := c.pkgCall(x.Rhs[0]); ok {
				all := true
				for _, l := range x.Lhs {
					if id, isId := l.(*ast.Ident); !(isId && id.Name == "_") && !c.isResult(l) {
						all = false
					}
				}
				if all {
					// results = f(...): as for "return f(...)"
					c.tail = true
					s := c.call(ce)
					c.tail = false
					return s
				}
			}
		}
		for _, r := range x.Rhs {
			ps = append(ps, c.expr(r))
		}
		c.markDerived(x.Lhs, x.Rhs)
		for i, l := range x.Lhs {
			if len(x.Lhs) == len(x.Rhs) {
				c.markFresh(l, x.Rhs[i])
			}
			if x.Tok == token.DEFINE {
				if id, ok := l.(*ast.Ident); ok && c.g.info.Defs[id] != nil {
					continue // a new local
				}
			}
			if x.Tok != token.ASSIGN && x.Tok != token.DEFINE {
				ps = append(ps, c.expr(l)) // compound assignment reads the target
			}
			ps = append(ps, c.write(l))
			if c.resMode && c.isResult(l) {
				if x.Tok != token.ASSIGN || len(x.Lhs) != len(x.Rhs) || !c.zeroExpr(x.Rhs[i]) {
					ps = append(ps, "(GEv ERes)")
				}
			}
		}
		return seq(ps...)
	case *ast.IfStmt:
		init := c.stmt(x.Init)
		g, eff := c.cond(x.Cond)
		// "if err := r.Valid(); err == nil" : validity implies an initialised receiver
		if as, ok := x.Init.(*ast.AssignStmt); ok && len(as.Rhs) == 1 {
			if ce, ok := as.Rhs[0].(*ast.CallExpr); ok {
				if se, ok := ce.Fun.(*ast.SelectorExpr); ok && se.Sel.Name == "Valid" && c.sameObject(se.X) {
					if be, ok := x.Cond.(*ast.BinaryExpr); ok && be.Op == token.EQL {
						if id, ok := be.Y.(*ast.Ident); ok && id.Name == "nil" {
							g = "(CAnd CInit COther)"
						}
					}
				}
			}
		}
		els := "GSkip"
		if x.Else != nil {
			els = c.stmt(x.Else)
		}
		return seq(init, eff, "(GIf "+g+" "+c.stmt(x.Body)+" "+els+")")
	case *ast.ForStmt:
		init := c.stmt(x.Init)
		g, eff := "COther", "GSkip"
		if x.Cond != nil {
			g, eff = c.cond(x.Cond)
		}
		body := seq(eff, "(GIf "+g+" GSkip GBreak)", c.stmt(x.Body), c.stmt(x.Post))
		return seq(init, "(GLoop "+body+")")
	case *ast.RangeStmt:
		return seq(c.expr(x.X), "(GLoop "+c.stmt(x.Body)+")")
	case *ast.SwitchStmt:
		init := c.stmt(x.Init)
		tag := c.expr(x.Tag)
		return seq(init, tag, c.clauses(x.Body))
	case *ast.TypeSwitchStmt:
		init := c.stmt(x.Init)
		var a string
		switch as := x.Assign.(type) {
		case *ast.AssignStmt:
			a = c.expr(as.Rhs[0])
		case *ast.ExprStmt:
			a = c.expr(as.X)
		}
		return seq(init, a, c.clauses(x.Body))
	}
	die("ir: %s: unsupported statement %T %q", funcKey(c.fd), s, src(s))
	return ""
}

// a switch: any one clause (or none) runs; break leaves the switch.  It is
// rendered as a loop that runs a chosen clause and then breaks.
func (c *fctx) clauses(body *ast.BlockStmt) string {
	out := "GSkip"
	for i := len(body.List) - 1; i >= 0; i-- {
		cc := body.List[i].(*ast.CaseClause)
		var effs []string
		for _, e := range cc.List {
			if tv, ok := c.g.info.Types[e]; ok && tv.IsType() {
				continue
			}
			effs = append(effs, c.expr(e))
		}
		out = "(GIf COther " + seq(seq(effs...), c.stmts(cc.Body)) + " " + out + ")"
	}
	return "(GLoop " + seq(out, "GBreak") + ")"
}

func genIR(repo string, p *pkgInfo) string {
	// type-check
	var files []*ast.File
	var names []string
	for n := range p.files {
		names = append(names, n)
	}
	sort.Strings(names)
	for _, n := range names {
		files = append(files, p.files[n])
	}
	info := &types.Info{Types: map[ast.Expr]types.TypeAndValue{}, Defs: map[*ast.Ident]types.Object{},
		Uses: map[*ast.Ident]types.Object{}, Selections: map[*ast.SelectorExpr]*types.Selection{}}
	conf := types.Config{Importer: importer.ForCompiler(fset, "source", nil)}
	pkg, err := conf.Check("stackage", fset, files, info)
	if err != nil {
		die("ir: type-check: %v", err)
	}
	g := &irGen{info: info, pkg: pkg, funcs: map[string]*ast.FuncDecl{}, ids: map[string]int{}, variant: map[string]bool{}}
	for _, f := range files {
		for _, d := range f.Decls {
			if fd, ok := d.(*ast.FuncDecl); ok && fd.Body != nil {
				k := funcKey(fd)
				g.funcs[k] = fd
				for _, fl := range fd.Type.Params.List {
					for _, n := range fl.Names {
						if n.Name == "cf" && src(fl.Type) == "cfgFlag" {
							g.variant[k] = true
						}
					}
				}
			}
		}
	}
	for k := range g.funcs {
		g.keys = append(g.keys, k)
	}
	sort.Strings(g.keys)
	var names2 []string
	for _, k := range g.keys {
		if g.variant[k] {
			names2 = append(names2, k+"[?]", k+"[ronly]", k+"[other]")
		} else {
			names2 = append(names2, k)
		}
	}
	// result-tracking variants of every function (entry points, and callees
	// whose results are handed on by "return f(...)")
	for _, n := range append([]string{}, names2...) {
		k := n
		if j := strings.Index(n, "["); j >= 0 {
			k = n[:j]
		}
		if r := g.funcs[k].Type.Results; (r != nil && len(r.List) > 0) || g.funcs[k].Name.IsExported() {
			names2 = append(names2, n+"[res]")
		}
	}
	for i, n := range names2 {
		g.ids[n] = i
	}
	var b strings.Builder
	b.WriteString("(* GENERATED by /verif/translator (T2, guard IR) from /repo/*.go -- do not edit. *)\n")
	b.WriteString("From Stackage Require Import Base Guard.\nOpen Scope N_scope.\n\n")
	b.WriteString("Definition ir_table : list (N * gstmt) := [\n")
	for i, n := range names2 {
		resMode := strings.HasSuffix(n, "[res]")
		n = strings.TrimSuffix(n, "[res]")
		key := n
		cfIs := 0
		if j := strings.Index(n, "["); j >= 0 {
			key = n[:j]
			switch n[j:] {
			case "[ronly]":
				cfIs = 1
			case "[other]":
				cfIs = 2
			}
		}
		fd := g.funcs[key]
		c := &fctx{g: g, fd: fd, fresh: map[types.Object]bool{}, derived: map[types.Object]bool{}, cfIs: cfIs,
			resMode: resMode, results: map[types.Object]bool{}}
		if fd.Recv != nil && len(fd.Recv.List) > 0 && len(fd.Recv.List[0].Names) > 0 {
			c.recv = info.Defs[fd.Recv.List[0].Names[0]]
			_, c.recvPtr = fd.Recv.List[0].Type.(*ast.StarExpr)
		}
		// named results are fresh locals
		if fd.Type.Results != nil {
			for _, fl := range fd.Type.Results.List {
				for _, nm := range fl.Names {
					c.results[info.Defs[nm]] = true
					switch info.Defs[nm].Type().Underlying().(type) {
					case *types.Pointer, *types.Interface, *types.Map:
					default:
						c.fresh[info.Defs[nm]] = true
					}
				}
			}
		}
		body := c.stmts(fd.Body.List)
		sep := ";"
		if i == len(names2)-1 {
			sep = ""
		}
		fmt.Fprintf(&b, "  (* %s *) (%d, %s)%s\n", strings.ReplaceAll(n, "*", "^"), i, body, sep)
	}
	b.WriteString("].\n\nDefinition ir_names : list (N * bytes) := [\n")
	for i, n := range names2 {
		sep := ";"
		if i == len(names2)-1 {
			sep = ""
		}
		fmt.Fprintf(&b, "  (%d, %s)%s\n", i, coqStr(n), sep)
	}
	b.WriteString("].\n\n(* exported entry points: name, receiver class (Guard.rc_Stack etc.), function id *)\nDefinition ir_entries : list entry := [\n")
	var ents, entsRes []string
	for _, k := range g.keys {
		fd := g.funcs[k]
		if !fd.Name.IsExported() {
			continue
		}
		rc := -1
		switch {
		case fd.Recv == nil:
			rc = 5
		case strings.HasPrefix(k, "Stack."):
			rc = 0
		case strings.HasPrefix(k, "*Stack."):
			rc = 1
		case strings.HasPrefix(k, "Condition."):
			rc = 2
		case strings.HasPrefix(k, "*Condition."):
			rc = 3
		case strings.HasPrefix(k, "Auxiliary."):
			rc = 4
		case strings.HasPrefix(k, "ComparisonOperator."):
			rc = 6
		}
		if rc < 0 {
			continue
		}
		id := g.ids[k]
		if g.variant[k] {
			id = g.ids[k+"[?]"]
		}
		ents = append(ents, fmt.Sprintf("  MkEntry %s %d %d", coqStr(fd.Name.Name), rc, id))
		resName := k + "[res]"
		if g.variant[k] {
			resName = k + "[?][res]"
		}
		entsRes = append(entsRes, fmt.Sprintf("  MkEntry %s %d %d", coqStr(fd.Name.Name), rc, g.ids[resName]))
	}
	b.WriteString(strings.Join(ents, ";\n"))
	b.WriteString("\n].\n")
	b.WriteString("\n(* the same entry points, bodies translated with result tracking (ERes events) *)\nDefinition ir_entries_res : list entry := [\n")
	b.WriteString(strings.Join(entsRes, ";\n"))
	b.WriteString("\n].\n")
	return b.String()
}
