// Command translator regenerates coq/Generated.v from the Go sources of
// go-stackage (see DESIGN.md §4, "T1").  It is deliberately narrow: anything
// it does not understand makes it exit non-zero with a message naming the
// function and statement, so the check reports the tie as broken instead of
// guessing.
//
// Usage: translator -repo /repo -out /verif/coq/Generated.v [-ir /verif/coq/GeneratedIR.v]
package main

import (
	"reflect"
	"bytes"
	"flag"
	"fmt"
	"go/ast"
	"go/parser"
	"go/printer"
	"go/token"
	"os"
	"path/filepath"
	"sort"
	"strconv"
	"strings"
)

var fset = token.NewFileSet()

type pkgInfo struct {
	files map[string]*ast.File
	funcs map[string]*ast.FuncDecl // "recv.name" or "name"
}

func die(format string, a ...any) {
	fmt.Fprintf(os.Stderr, "translator: "+format+"\n", a...)
	os.Exit(2)
}

func src(n ast.Node) string {
	var b bytes.Buffer
	printer.Fprint(&b, fset, n)
	return b.String()
}

func recvName(fd *ast.FuncDecl) string {
	if fd.Recv == nil || len(fd.Recv.List) == 0 {
		return ""
	}
	t := fd.Recv.List[0].Type
	if s, ok := t.(*ast.StarExpr); ok {
		t = s.X
	}
	if id, ok := t.(*ast.Ident); ok {
		return id.Name
	}
	return "?"
}

func load(repo string) *pkgInfo {
	p := &pkgInfo{files: map[string]*ast.File{}, funcs: map[string]*ast.FuncDecl{}}
	names, _ := filepath.Glob(filepath.Join(repo, "*.go"))
	sort.Strings(names)
	for _, n := range names {
		if strings.HasSuffix(n, "_test.go") {
			continue
		}
		base := filepath.Base(n)
		if strings.HasPrefix(base, "verif_") && base != "verif_point_off.go" {
			continue // hook files (build tag verif) are not part of the package proper
		}
		f, err := parser.ParseFile(fset, n, nil, parser.ParseComments)
		if err != nil {
			die("parse %s: %v", n, err)
		}
		p.files[base] = f
		for _, d := range f.Decls {
			if fd, ok := d.(*ast.FuncDecl); ok {
				key := fd.Name.Name
				if r := recvName(fd); r != "" {
					key = r + "." + key
				}
				p.funcs[key] = fd
			}
		}
	}
	return p
}

// ---------------------------------------------------------------------------
// constants

type constVal struct {
	name string
	val  uint64
	typ  string
}

func bitsOf(typ string) uint {
	switch typ {
	case "cfgFlag", "LogLevel", "logLevels", "uint16":
		return 16
	case "stackType", "ComparisonOperator", "uint8":
		return 8
	}
	return 64
}

func evalConst(e ast.Expr, iota uint64, typ string, env map[string]uint64) uint64 {
	switch x := e.(type) {
	case *ast.BasicLit:
		if x.Kind == token.INT {
			v, err := strconv.ParseUint(x.Value, 0, 64)
			if err != nil {
				die("const literal %s", x.Value)
			}
			return v
		}
	case *ast.Ident:
		if x.Name == "iota" {
			return iota
		}
		if v, ok := env[x.Name]; ok {
			return v
		}
	case *ast.ParenExpr:
		return evalConst(x.X, iota, typ, env)
	case *ast.BinaryExpr:
		a := evalConst(x.X, iota, typ, env)
		b := evalConst(x.Y, iota, typ, env)
		switch x.Op {
		case token.SHL:
			return a << b
		case token.ADD:
			return a + b
		case token.SUB:
			return a - b
		case token.OR:
			return a | b
		case token.MUL:
			return a * b
		}
	case *ast.CallExpr: // conversion T(x)
		if len(x.Args) == 1 {
			return evalConst(x.Args[0], iota, typ, env)
		}
	case *ast.UnaryExpr:
		if x.Op == token.XOR {
			t := typ
			if c, ok := x.X.(*ast.CallExpr); ok {
				if id, ok := c.Fun.(*ast.Ident); ok {
					t = id.Name
				}
			}
			v := evalConst(x.X, iota, typ, env)
			mask := uint64(1)<<bitsOf(t) - 1
			return (^v) & mask
		}
	}
	die("unsupported constant expression %q", src(e))
	return 0
}

func constBlocks(p *pkgInfo) []constVal {
	var out []constVal
	env := map[string]uint64{}
	for _, fn := range []string{"cfg.go", "op.go", "log.go"} {
		f := p.files[fn]
		if f == nil {
			die("missing %s", fn)
		}
		for _, d := range f.Decls {
			gd, ok := d.(*ast.GenDecl)
			if !ok || gd.Tok != token.CONST {
				continue
			}
			var lastExpr ast.Expr
			var lastTyp string
			for i, s := range gd.Specs {
				vs := s.(*ast.ValueSpec)
				if len(vs.Values) > 0 {
					lastExpr = vs.Values[0]
					lastTyp = ""
					if vs.Type != nil {
						lastTyp = src(vs.Type)
					}
				}
				if lastExpr == nil {
					continue
				}
				if bl, ok := lastExpr.(*ast.BasicLit); ok && bl.Kind == token.STRING {
					continue
				}
				name := vs.Names[0].Name
				if name == "_" {
					continue
				}
				v := evalConst(lastExpr, uint64(i), lastTyp, env)
				env[name] = v
				out = append(out, constVal{name, v, lastTyp})
			}
		}
	}
	return out
}

func stringConsts(p *pkgInfo) map[string]string {
	out := map[string]string{}
	for _, f := range p.files {
		for _, d := range f.Decls {
			gd, ok := d.(*ast.GenDecl)
			if !ok || gd.Tok != token.CONST {
				continue
			}
			for _, s := range gd.Specs {
				vs := s.(*ast.ValueSpec)
				if len(vs.Values) == 1 {
					if bl, ok := vs.Values[0].(*ast.BasicLit); ok && bl.Kind == token.STRING {
						u, err := strconv.Unquote(bl.Value)
						if err == nil {
							out[vs.Names[0].Name] = u
						}
					}
				}
			}
		}
	}
	return out
}

func coqStr(s string) string {
	for _, c := range []byte(s) {
		if c < 32 || c > 126 || c == '"' {
			var parts []string
			for _, b := range []byte(s) {
				parts = append(parts, strconv.Itoa(int(b)))
			}
			return "(L [" + strings.Join(parts, ";") + "])"
		}
	}
	return "(B \"" + s + "\")"
}

// switchTable extracts "case K: t = `TEXT`" tables from a String() method.
func switchTable(p *pkgInfo, key string, consts map[string]uint64, strs map[string]string) [][2]string {
	fd := p.funcs[key]
	if fd == nil {
		die("missing function %s", key)
	}
	var rows [][2]string
	ast.Inspect(fd.Body, func(n ast.Node) bool {
		sw, ok := n.(*ast.SwitchStmt)
		if !ok {
			return true
		}
		for _, c := range sw.Body.List {
			cc := c.(*ast.CaseClause)
			if len(cc.Body) != 1 {
				continue
			}
			as, ok := cc.Body[0].(*ast.AssignStmt)
			if !ok || len(as.Rhs) != 1 {
				die("%s: unexpected case body %q", key, src(cc.Body[0]))
			}
			var text string
			switch r := as.Rhs[0].(type) {
			case *ast.BasicLit:
				text, _ = strconv.Unquote(r.Value)
			case *ast.Ident:
				t, ok := strs[r.Name]
				if !ok {
					die("%s: unknown string constant %s", key, r.Name)
				}
				text = t
			default:
				die("%s: unexpected case value %q", key, src(as.Rhs[0]))
			}
			for _, e := range cc.List {
				id, ok := e.(*ast.Ident)
				if !ok {
					die("%s: unexpected case label %q", key, src(e))
				}
				v, ok := consts[id.Name]
				if !ok {
					die("%s: unknown constant %s", key, id.Name)
				}
				rows = append(rows, [2]string{strconv.FormatUint(v, 10), text})
			}
		}
		return false
	})
	return rows
}

// mapLiteral extracts `name = map[K]V{ k: v, ... }` from the init() of a file.
func mapLiteral(p *pkgInfo, file, name string) *ast.CompositeLit {
	var res *ast.CompositeLit
	ast.Inspect(p.files[file], func(n ast.Node) bool {
		as, ok := n.(*ast.AssignStmt)
		if !ok || len(as.Lhs) != 1 || len(as.Rhs) != 1 {
			return true
		}
		if id, ok := as.Lhs[0].(*ast.Ident); ok && id.Name == name {
			if cl, ok := as.Rhs[0].(*ast.CompositeLit); ok {
				res = cl
			}
		}
		return true
	})
	if res == nil {
		die("map literal %s not found in %s", name, file)
	}
	return res
}

// ---------------------------------------------------------------------------
// shallow translation of scalar function bodies

type frag struct {
	coq     string            // Coq definition name
	fn      string            // key into pkgInfo.funcs
	mode    string            // "Z" (Go int, wrap64) or "N" (uint16 flag words)
	params  [][2]string       // extra Coq parameters (name, type) placed first
	exprMap map[string]string // Go expression source -> Coq term
	skip    []string          // statement sources that are skipped (locks, config fetch, logging)
	zvars   []string          // Z-typed variables reported in results
	bvars   []string          // bool-typed variables reported in results
	ret     string            // "tres" | "bool" | "N" | "Z"
	recvVar string            // N mode: name of the receiver variable that *r denotes
	calls   map[string]string // method/function name -> Coq function (pure, returns value)
	mcalls  map[string]string // N mode: mutating method statements r.m(x) -> Coq function
	inits   map[string]string // initial values of named results / declared vars
	// outer (loop-body fragments): statements allowed around the loop (besides the skip list)
	outer []string
	// returnCuts (loop-body fragments): a return statement is a cut point
	returnCuts bool
	// rangeLoop (loop-body fragments): the single loop is a range statement with this header
	rangeLoop string
	// fieldVars: a field written by the fragment (source of the selector
	// expression -> variable name); it starts at 0 and is read through exprMap
	fieldVars map[string]string
	// loopSkip: a top-level for statement is not translated; v_looped becomes
	// true and, after it, expressions are mapped through exprMap2 (post-state)
	loopSkip bool
	exprMap2 map[string]string
	// loopBody: the function must consist of ONE top-level loop
	// "for i := 0; i < len(x); i++" plus statements of the skip list; what is
	// translated is the body of that loop (one iteration): TRet = the
	// iteration ends without effect, TCut k = it reaches statement k
	loopBody bool
	// loopHead: the header the loop must have ("" = the push loops' header;
	// "for" = a bare "for {")
	loopHead string
	// pinTails: emit the statements from each cut point to the end of its block as text
	pinTails bool
}

type tr struct {
	f      *frag
	p      *pkgInfo
	fd     *ast.FuncDecl
	cutIDs map[ast.Node]int
	cutSrc []string
	cutTail map[int]string
}

type exprFail struct{ msg string }

func (t *tr) fail(n ast.Node, why string) {
	panic(exprFail{fmt.Sprintf("%s (%s): %s: %q", t.f.coq, t.f.fn, why, src(n))})
}

// head translates the part of a statement that may fail; a failure inside a
// "tres" fragment turns the statement into a cut point.
func (t *tr) head(f func() string) (out string, ok bool) {
	defer func() {
		if r := recover(); r != nil {
			if ef, is := r.(exprFail); is {
				if t.f.ret != "tres" {
					die("%s", ef.msg)
				}
				out, ok = "", false
				return
			}
			panic(r)
		}
	}()
	return f(), true
}

func (t *tr) op2(op token.Token, a, b string, n ast.Node) string {
	Z := t.f.mode == "Z"
	switch op {
	case token.ADD:
		if Z {
			return "(wrap64 (" + a + " + " + b + "))"
		}
		return "(N.add " + a + " " + b + ")"
	case token.SUB:
		if Z {
			return "(wrap64 (" + a + " - " + b + "))"
		}
	case token.MUL:
		if Z {
			return "(wrap64 (" + a + " * " + b + "))"
		}
	case token.AND:
		if !Z {
			return "(N.land " + a + " " + b + ")"
		}
	case token.OR:
		if !Z {
			return "(N.lor " + a + " " + b + ")"
		}
	case token.AND_NOT:
		if !Z {
			return "(N.ldiff " + a + " " + b + ")"
		}
	case token.XOR:
		if !Z {
			return "(N.lxor " + a + " " + b + ")"
		}
	}
	t.fail(n, "unsupported arithmetic operator "+op.String())
	return ""
}

func (t *tr) expr(e ast.Expr) string {
	if m, ok := t.f.exprMap[src(e)]; ok {
		return m
	}
	Z := t.f.mode == "Z"
	pre := "Z"
	if !Z {
		pre = "N"
	}
	switch x := e.(type) {
	case *ast.ParenExpr:
		return t.expr(x.X)
	case *ast.BasicLit:
		if x.Kind == token.INT {
			v, err := strconv.ParseInt(x.Value, 0, 64)
			if err != nil {
				t.fail(e, "integer literal")
			}
			return strconv.FormatInt(v, 10)
		}
	case *ast.Ident:
		switch x.Name {
		case "true", "false":
			return x.Name
		}
		return "v_" + x.Name
	case *ast.StarExpr:
		if id, ok := x.X.(*ast.Ident); ok && id.Name == t.f.recvVar {
			return "v_" + id.Name
		}
	case *ast.UnaryExpr:
		switch x.Op {
		case token.NOT:
			return "(negb " + t.expr(x.X) + ")"
		case token.SUB:
			if bl, ok := x.X.(*ast.BasicLit); ok && Z {
				return "(-" + bl.Value + ")"
			}
			if Z {
				return "(wrap64 (- " + t.expr(x.X) + "))"
			}
		}
	case *ast.BinaryExpr:
		switch x.Op {
		case token.LAND:
			return "(andb " + t.expr(x.X) + " " + t.expr(x.Y) + ")"
		case token.LOR:
			return "(orb " + t.expr(x.X) + " " + t.expr(x.Y) + ")"
		case token.EQL:
			return "(" + pre + ".eqb " + t.expr(x.X) + " " + t.expr(x.Y) + ")"
		case token.NEQ:
			return "(negb (" + pre + ".eqb " + t.expr(x.X) + " " + t.expr(x.Y) + "))"
		case token.LSS:
			return "(" + pre + ".ltb " + t.expr(x.X) + " " + t.expr(x.Y) + ")"
		case token.LEQ:
			return "(" + pre + ".leb " + t.expr(x.X) + " " + t.expr(x.Y) + ")"
		case token.GTR:
			return "(" + pre + ".ltb " + t.expr(x.Y) + " " + t.expr(x.X) + ")"
		case token.GEQ:
			return "(" + pre + ".leb " + t.expr(x.Y) + " " + t.expr(x.X) + ")"
		default:
			return t.op2(x.Op, t.expr(x.X), t.expr(x.Y), e)
		}
	case *ast.CallExpr:
		name := ""
		var recv ast.Expr
		switch f := x.Fun.(type) {
		case *ast.Ident:
			name = f.Name
		case *ast.SelectorExpr:
			name = f.Sel.Name
			recv = f.X
		}
		if cf, ok := t.f.calls[name]; ok {
			var args []string
			if recv != nil {
				args = append(args, t.expr(recv))
			}
			for _, a := range x.Args {
				args = append(args, t.expr(a))
			}
			return "(" + cf + " " + strings.Join(args, " ") + ")"
		}
	}
	t.fail(e, "unsupported expression")
	return ""
}

func (t *tr) result() string {
	switch t.f.ret {
	case "bool", "Z", "N":
		if t.f.ret == "N" {
			return "v_" + t.f.recvVar
		}
		rs := t.fd.Type.Results
		if rs != nil && len(rs.List) == 1 && len(rs.List[0].Names) == 1 {
			return "v_" + rs.List[0].Names[0].Name
		}
		t.fail(t.fd, "bare return needs one named result")
	}
	return "(TRet " + t.varlists() + ")"
}

func (t *tr) varlists() string {
	var zs, bs []string
	for _, v := range t.f.zvars {
		zs = append(zs, "v_"+v)
	}
	for _, v := range t.f.bvars {
		bs = append(bs, "v_"+v)
	}
	return "[" + strings.Join(zs, "; ") + "] [" + strings.Join(bs, "; ") + "]"
}

func (t *tr) skipped(s ast.Stmt) bool {
	txt := src(s)
	// leading comment lines printed with the statement do not count
	for strings.HasPrefix(strings.TrimSpace(txt), "//") {
		if i := strings.Index(txt, "\n"); i >= 0 {
			txt = txt[i+1:]
		} else {
			txt = ""
		}
	}
	txt = strings.TrimSpace(txt)
	for _, k := range t.f.skip {
		if txt == k {
			return true
		}
	}
	return false
}

func (t *tr) assign(lhs ast.Expr, rhs string, rest func() string) string {
	switch l := lhs.(type) {
	case *ast.Ident:
		if l.Name == "_" {
			return rest()
		}
		return "let v_" + l.Name + " := " + rhs + " in\n  " + rest()
	case *ast.StarExpr:
		if id, ok := l.X.(*ast.Ident); ok && id.Name == t.f.recvVar {
			return "let v_" + id.Name + " := " + rhs + " in\n  " + rest()
		}
	case *ast.SelectorExpr:
		if name, ok := t.f.fieldVars[src(l)]; ok {
			return "let v_" + name + " := " + rhs + " in\n  " + rest()
		}
	}
	return ""
}

// stmts translates a statement list followed by the continuation k (nil =
// fall off the end of the function = bare return).
func (t *tr) stmts(list []ast.Stmt, k func() string) string {
	if len(list) == 0 {
		if k == nil {
			return t.result()
		}
		return k()
	}
	s := list[0]
	rest := func() string { return t.stmts(list[1:], k) }
	if t.skipped(s) {
		return rest()
	}
	if r, ok := t.stmt1(s, list, k, rest); ok {
		return r
	}
	// not translatable: a cut point
	if t.f.ret != "tres" {
		die("%s (%s): unsupported statement %q", t.f.coq, t.f.fn, src(s))
	}
	r := t.cut(s)
	// what the code goes on to do from this cut point to the end of the
	// enclosing block (pinned as text for loop-body fragments)
	if t.cutTail == nil {
		t.cutTail = map[int]string{}
	}
	var parts []string
	for _, q := range list {
		parts = append(parts, strings.Join(strings.Fields(src(q)), " "))
	}
	t.cutTail[t.cutIDs[s]] = strings.Join(parts, "; ")
	return r
}

func (t *tr) cut(s ast.Node) string {
	if t.cutIDs == nil {
		t.cutIDs = map[ast.Node]int{}
	}
	kk, ok := t.cutIDs[s]
	if !ok {
		kk = len(t.cutIDs)
		t.cutIDs[s] = kk
		t.cutSrc = append(t.cutSrc, src(s))
	}
	return "(TCut " + strconv.Itoa(kk) + " " + t.varlists() + ")"
}

func (t *tr) stmt1(s ast.Stmt, list []ast.Stmt, k func() string, rest func() string) (string, bool) {
	// heads (the expressions of this very statement) are translated first so
	// that a failure does not swallow cut points of the continuation
	hd := func(e ast.Expr) (string, bool) { return t.head(func() string { return t.expr(e) }) }
	let := func(lhs ast.Expr, rhs string) (string, bool) {
		if r := t.assign(lhs, rhs, rest); r != "" {
			return r, true
		}
		return "", false
	}
	switch x := s.(type) {
	case *ast.ReturnStmt:
		if t.f.loopBody && t.f.returnCuts {
			// inside a loop body "return" leaves the loop: not the same as reaching the end of the iteration
			return "", false
		}
		if len(x.Results) == 0 {
			return t.result(), true
		}
		if len(x.Results) == 1 && t.f.ret != "tres" {
			return hd(x.Results[0])
		}
	case *ast.IncDecStmt:
		op := token.ADD
		if x.Tok == token.DEC {
			op = token.SUB
		}
		if v, ok := t.head(func() string { return t.op2(op, t.expr(x.X), "1", s) }); ok {
			return let(x.X, v)
		}
	case *ast.DeclStmt:
		gd := x.Decl.(*ast.GenDecl)
		if gd.Tok == token.VAR && len(gd.Specs) == 1 {
			vs := gd.Specs[0].(*ast.ValueSpec)
			if len(vs.Names) == 1 {
				val, ok := "", true
				if len(vs.Values) == 1 {
					val, ok = hd(vs.Values[0])
				} else if vs.Type != nil {
					switch src(vs.Type) {
					case "int":
						val = "0"
					case "bool":
						val = "false"
					}
				}
				if ok && val != "" {
					return let(vs.Names[0], val)
				}
			}
		}
	case *ast.AssignStmt:
		if len(x.Lhs) == 1 && len(x.Rhs) == 1 {
			switch x.Tok {
			case token.ASSIGN, token.DEFINE:
				if v, ok := hd(x.Rhs[0]); ok {
					return let(x.Lhs[0], v)
				}
			case token.ADD_ASSIGN, token.SUB_ASSIGN, token.OR_ASSIGN, token.AND_ASSIGN, token.AND_NOT_ASSIGN, token.XOR_ASSIGN, token.MUL_ASSIGN:
				op := map[token.Token]token.Token{token.ADD_ASSIGN: token.ADD, token.SUB_ASSIGN: token.SUB,
					token.OR_ASSIGN: token.OR, token.AND_ASSIGN: token.AND, token.AND_NOT_ASSIGN: token.AND_NOT,
					token.XOR_ASSIGN: token.XOR, token.MUL_ASSIGN: token.MUL}[x.Tok]
				if v, ok := t.head(func() string { return t.op2(op, t.expr(x.Lhs[0]), t.expr(x.Rhs[0]), s) }); ok {
					return let(x.Lhs[0], v)
				}
			}
		}
	case *ast.ExprStmt:
		if c, ok := x.X.(*ast.CallExpr); ok {
			if se, ok := c.Fun.(*ast.SelectorExpr); ok {
				if cf, ok := t.f.mcalls[se.Sel.Name]; ok {
					if id, ok := se.X.(*ast.Ident); ok && id.Name == t.f.recvVar {
						v, ok := t.head(func() string {
							var args []string
							for _, a := range c.Args {
								args = append(args, t.expr(a))
							}
							return "(" + cf + " v_" + id.Name + " " + strings.Join(args, " ") + ")"
						})
						if ok {
							return "let v_" + id.Name + " := " + v + " in\n  " + rest(), true
						}
					}
				}
			}
		}
	case *ast.ForStmt:
		if t.f.loopSkip {
			save := t.f.exprMap
			t.f.exprMap = t.f.exprMap2
			r := "let v_looped := true in\n  " + rest()
			t.f.exprMap = save
			return r, true
		}
	case *ast.BlockStmt:
		return t.stmts(append(append([]ast.Stmt{}, x.List...), list[1:]...), k), true
	case *ast.IfStmt:
		return t.ifstmt(x, rest)
	case *ast.SwitchStmt:
		return t.switchstmt(x, rest)
	}
	return "", false
}

func (t *tr) ifstmt(x *ast.IfStmt, rest func() string) (string, bool) {
	body := func() string {
		cond, ok := t.head(func() string { return t.expr(x.Cond) })
		if !ok {
			if t.f.ret != "tres" {
				die("%s (%s): unsupported condition %q", t.f.coq, t.f.fn, src(x.Cond))
			}
			return t.cut(x)
		}
		thn := t.stmts(x.Body.List, rest)
		var els string
		switch e := x.Else.(type) {
		case nil:
			els = rest()
		case *ast.BlockStmt:
			els = t.stmts(e.List, rest)
		case *ast.IfStmt:
			els, _ = t.ifstmt(e, rest)
		}
		return "(if " + cond + "\n  then " + thn + "\n  else " + els + ")"
	}
	if x.Init != nil {
		return t.stmts([]ast.Stmt{x.Init}, body), true
	}
	return body(), true
}

func (t *tr) switchstmt(x *ast.SwitchStmt, rest func() string) (string, bool) {
	if x.Tag == nil {
		return "", false
	}
	body := func() string {
		tag, ok := t.head(func() string { return t.expr(x.Tag) })
		if !ok {
			return t.cut(x)
		}
		var def *ast.CaseClause
		var clauses []*ast.CaseClause
		for _, c := range x.Body.List {
			cc := c.(*ast.CaseClause)
			if cc.List == nil {
				def = cc
			} else {
				clauses = append(clauses, cc)
			}
		}
		out := ""
		if def != nil {
			out = t.stmts(def.Body, rest)
		} else {
			out = rest()
		}
		pre := "Z"
		if t.f.mode != "Z" {
			pre = "N"
		}
		for i := len(clauses) - 1; i >= 0; i-- {
			cc := clauses[i]
			var conds []string
			for _, e := range cc.List {
				conds = append(conds, "("+pre+".eqb "+tag+" "+t.expr(e)+")")
			}
			c := conds[0]
			for _, d := range conds[1:] {
				c = "(orb " + c + " " + d + ")"
			}
			out = "(if " + c + "\n  then " + t.stmts(cc.Body, rest) + "\n  else " + out + ")"
		}
		return out
	}
	if x.Init != nil {
		return t.stmts([]ast.Stmt{x.Init}, body), true
	}
	return body(), true
}

func translate(p *pkgInfo, f *frag) string {
	fd := p.funcs[f.fn]
	if fd == nil {
		die("missing function %s", f.fn)
	}
	t := &tr{f: f, p: p, fd: fd}
	var b strings.Builder
	typ := "Z"
	if f.mode == "N" {
		typ = "N"
	}
	fmt.Fprintf(&b, "(* from %s *)\nDefinition %s", f.fn, f.coq)
	for _, pr := range f.params {
		fmt.Fprintf(&b, " (%s : %s)", pr[0], pr[1])
	}
	mapped := map[string]bool{}
	for k := range f.exprMap {
		mapped[k] = true
	}
	if f.recvVar != "" {
		fmt.Fprintf(&b, " (v_%s : %s)", f.recvVar, typ)
	}
	for _, fl := range fd.Type.Params.List {
		for _, n := range fl.Names {
			if mapped[n.Name] {
				continue
			}
			pt := typ
			switch src(fl.Type) {
			case "bool":
				pt = "bool"
			case "int", "cfgFlag":
			default:
				if _, isEll := fl.Type.(*ast.Ellipsis); isEll {
					continue // variadic handled through exprMap
				}
				if _, skip := f.inits[n.Name]; skip {
					continue
				}
				die("%s: parameter %s has unsupported type %s", f.fn, n.Name, src(fl.Type))
			}
			fmt.Fprintf(&b, " (v_%s : %s)", n.Name, pt)
		}
	}
	fmt.Fprintf(&b, " : %s :=\n  ", f.ret)
	if f.loopSkip {
		b.WriteString("let v_looped := false in\n  ")
	}
	{
		var fvs []string
		for _, v := range f.fieldVars {
			fvs = append(fvs, v)
		}
		sort.Strings(fvs)
		for _, v := range fvs {
			fmt.Fprintf(&b, "let v_%s := 0 in\n  ", v)
		}
	}
	// named results start at their zero values
	if fd.Type.Results != nil {
		for _, fl := range fd.Type.Results.List {
			for _, n := range fl.Names {
				init := ""
				if v, ok := f.inits[n.Name]; ok {
					if v == "" {
						continue // a result the fragment does not track
					}
					init = v
				} else {
					switch src(fl.Type) {
					case "int":
						init = "0"
					case "bool":
						init = "false"
					default:
						continue
					}
				}
				fmt.Fprintf(&b, "let v_%s := %s in\n  ", n.Name, init)
			}
		}
	}
	body := fd.Body.List
	if f.loopBody {
		var loop *ast.ForStmt
		var rloop *ast.RangeStmt
		for _, s := range fd.Body.List {
			if rs, ok := s.(*ast.RangeStmt); ok && f.rangeLoop != "" {
				if rloop != nil {
					die("%s (%s): more than one top-level range loop", f.coq, f.fn)
				}
				rloop = rs
				continue
			}
			if fs, ok := s.(*ast.ForStmt); ok {
				if loop != nil {
					die("%s (%s): more than one top-level loop", f.coq, f.fn)
				}
				loop = fs
				continue
			}
			if !t.skipped(s) {
				allowed := false
				for _, o := range f.outer {
					if strings.TrimSpace(src(s)) == o {
						allowed = true
					}
				}
				if !allowed {
					die("%s (%s): statement outside the loop is not in the allow-list: %q", f.coq, f.fn, src(s))
				}
			}
		}
		if f.rangeLoop != "" {
			if rloop == nil || loop != nil {
				die("%s (%s): expected exactly one top-level range loop", f.coq, f.fn)
			}
			part := func(n ast.Node) string {
				if n == nil || reflect.ValueOf(n).IsNil() {
					return "_"
				}
				return src(n)
			}
			have := part(rloop.Key) + ", " + part(rloop.Value) + " " + rloop.Tok.String() + " range " + src(rloop.X)
			if have != f.rangeLoop {
				die("%s (%s): expected the loop header %q, found %q", f.coq, f.fn, f.rangeLoop, have)
			}
			body = rloop.Body.List
		}
		want := f.loopHead
		if f.rangeLoop != "" {
			want = "-"
		} else if want == "" {
			want = "i := 0; i < len(x); i++"
		}
		have := "for"
		if loop != nil && (loop.Init != nil || loop.Cond != nil || loop.Post != nil) {
			part := func(n ast.Node) string {
				if n == nil || reflect.ValueOf(n).IsNil() {
					return ""
				}
				return src(n)
			}
			have = part(loop.Init) + "; " + part(loop.Cond) + "; " + part(loop.Post)
		}
		if f.rangeLoop == "" {
			if loop == nil || have != want {
				die("%s (%s): expected the loop header %q, found %q", f.coq, f.fn, want, have)
			}
			body = loop.Body.List
		}
	}
	b.WriteString(t.stmts(body, nil))
	b.WriteString(".\n")
	for i, c := range t.cutSrc {
		fmt.Fprintf(&b, "(* %s cut %d: %s *)\n", f.coq, i, strings.ReplaceAll(strings.ReplaceAll(strings.ReplaceAll(c, "\n", " "), "*)", "* )"), "(*", "( *"))
	}
	if f.loopBody || f.pinTails {
		var tails []string
		for i := range t.cutSrc {
			tails = append(tails, "\""+strings.ReplaceAll(t.cutTail[i], "\"", "\"\"")+"\"%string")
		}
		fmt.Fprintf(&b, "(* the statements from each cut point to the end of its block, as text *)\nDefinition %s_tails : list String.string := [%s].\n", f.coq, strings.Join(tails, "; "))
	}
	b.WriteString("\n")
	return b.String()
}

// ---------------------------------------------------------------------------

func main() {
	repo := flag.String("repo", "/repo", "repository root")
	out := flag.String("out", "", "output file (Generated.v)")
	irOut := flag.String("ir", "", "output file for the guard IR (GeneratedIR.v); empty = skip")
	flag.Parse()
	p := load(*repo)

	var b strings.Builder
	b.WriteString("(* GENERATED by /verif/translator from /repo/*.go -- do not edit. *)\n")
	b.WriteString("From Coq Require Import List ZArith NArith Bool.\nFrom Stackage Require Import Base.\nImport ListNotations.\nOpen Scope Z_scope.\n\n")

	consts := constBlocks(p)
	cenv := map[string]uint64{}
	for _, c := range consts {
		cenv[c.name] = c.val
		fmt.Fprintf(&b, "Definition c_%s : N := %d%%N. (* %s *)\n", c.name, c.val, c.typ)
	}
	strs := stringConsts(p)
	var sk []string
	for k := range strs {
		sk = append(sk, k)
	}
	sort.Strings(sk)
	for _, k := range sk {
		fmt.Fprintf(&b, "Definition s_%s : bytes := %s.\n", k, coqStr(strs[k]))
	}
	b.WriteString("\n")

	// flag lists
	flagNames := []string{"parens", "cfold", "nspad", "lonce", "negidx", "fwdidx", "joinl", "ronly", "nnest", "etrav"}
	var fl []string
	for _, n := range flagNames {
		if _, ok := cenv[n]; !ok {
			die("option constant %s not found", n)
		}
		fl = append(fl, "c_"+n)
	}
	fmt.Fprintf(&b, "Definition all_flags : list N := [%s]%%N.\n", strings.Join(fl, "; "))
	var lv []string
	for _, c := range consts {
		if strings.HasPrefix(c.name, "LogLevel") || strings.HasPrefix(c.name, "UserLogLevel") {
			lv = append(lv, "c_"+c.name)
		}
	}
	fmt.Fprintf(&b, "Definition all_loglevels : list N := [%s]%%N.\n\n", strings.Join(lv, "; "))

	emitTable := func(name string, rows [][2]string) {
		fmt.Fprintf(&b, "Definition %s : list (N * bytes) := [\n", name)
		for i, r := range rows {
			sep := ";"
			if i == len(rows)-1 {
				sep = ""
			}
			fmt.Fprintf(&b, "  (%s%%N, %s)%s\n", r[0], coqStr(r[1]), sep)
		}
		b.WriteString("].\n\n")
	}
	emitTable("t_kind_names", switchTable(p, "stackType.String", cenv, strs))
	emitTable("t_op_names", switchTable(p, "ComparisonOperator.String", cenv, strs))

	// logLevelNames : map[LogLevel]string ; logLevelMap : map[string]LogLevel
	{
		cl := mapLiteral(p, "log.go", "logLevelNames")
		var rows [][2]string
		for _, e := range cl.Elts {
			kv := e.(*ast.KeyValueExpr)
			id, ok := kv.Key.(*ast.Ident)
			if !ok {
				die("logLevelNames key %q", src(kv.Key))
			}
			v, ok := cenv[id.Name]
			if !ok {
				die("logLevelNames: unknown constant %s", id.Name)
			}
			s, _ := strconv.Unquote(kv.Value.(*ast.BasicLit).Value)
			rows = append(rows, [2]string{strconv.FormatUint(v, 10), s})
		}
		emitTable("t_loglevel_names", rows)
		cl = mapLiteral(p, "log.go", "logLevelMap")
		rows = nil
		for _, e := range cl.Elts {
			kv := e.(*ast.KeyValueExpr)
			s, _ := strconv.Unquote(kv.Key.(*ast.BasicLit).Value)
			id, ok := kv.Value.(*ast.Ident)
			if !ok {
				die("logLevelMap value %q", src(kv.Value))
			}
			v, ok := cenv[id.Name]
			if !ok {
				die("logLevelMap: unknown constant %s", id.Name)
			}
			rows = append(rows, [2]string{strconv.FormatUint(v, 10), s})
		}
		emitTable("t_loglevel_map", rows)
	}

	locks := []string{"r.lock()", "defer r.unlock()", "cfg, _ := r.config()"}
	frags := []*frag{
		{coq: "g_flag_positive", fn: "cfgFlag.positive", mode: "N", ret: "bool", recvVar: "r"},
		{coq: "g_flag_shift", fn: "cfgFlag.shift", mode: "N", ret: "N", recvVar: "r"},
		{coq: "g_flag_unshift", fn: "cfgFlag.unshift", mode: "N", ret: "N", recvVar: "r"},
		{coq: "g_flag_toggle", fn: "cfgFlag.toggle", mode: "N", ret: "N", recvVar: "r",
			calls:  map[string]string{"positive": "g_flag_positive"},
			mcalls: map[string]string{"shift": "g_flag_shift", "unshift": "g_flag_unshift"}},
		{coq: "g_cfg_valid", fn: "nodeConfig.valid", mode: "N", ret: "bool",
			params: [][2]string{{"typ", "N"}}, exprMap: map[string]string{"r.isZero()": "false", "r.typ": "typ"}},
		{coq: "g_cfg_positive", fn: "nodeConfig.positive", mode: "N", ret: "bool",
			params:  [][2]string{{"typ", "N"}, {"opt", "N"}},
			exprMap: map[string]string{"r.valid()": "(g_cfg_valid typ)", "r.opt.positive(x)": "(g_flag_positive opt v_x)"}},
		{coq: "g_ulen", fn: "stack.ulen", mode: "Z", ret: "Z",
			params: [][2]string{{"len", "Z"}}, exprMap: map[string]string{"r.len()": "len"}},
		{coq: "g_isFull", fn: "stack.isFull", mode: "Z", ret: "bool",
			params:  [][2]string{{"len", "Z"}, {"cap", "Z"}},
			exprMap: map[string]string{"r.len()": "len", "r.cap()": "cap"}},
		{coq: "g_Cap", fn: "Stack.Cap", mode: "Z", ret: "Z",
			params:  [][2]string{{"init", "bool"}, {"cap", "Z"}},
			exprMap: map[string]string{"r.IsInit()": "init", "r.cap()": "cap"}},
		{coq: "g_Avail", fn: "Stack.Avail", mode: "Z", ret: "Z",
			params:  [][2]string{{"init", "bool"}, {"len", "Z"}, {"cap", "Z"}},
			exprMap: map[string]string{"r.IsInit()": "init", "r.cap()": "cap", "r.len()": "len"}},
		// one iteration of the key loop of mapsEqual: a key the other map lacks
		// ends the comparison (cut 0), so does a differing value (cut 1: return
		// with err set); otherwise the loop goes on
		{coq: "g_mapsEqual_body", fn: "mapsEqual", mode: "Z", ret: "tres", loopBody: true, returnCuts: true,
			rangeLoop: "_, key := range xrv.MapKeys()",
			params:    [][2]string{{"present", "bool"}, {"differs", "bool"}},
			exprMap:   map[string]string{"yidx.IsValid()": "present", "err != nil": "differs"},
			inits:     map[string]string{"x": "", "y": "", "err": ""},
			skip: []string{"xrt, xrv, xrk := derefPtr(assertReflect(x))", "yrt, yrv, yrk := derefPtr(assertReflect(y))",
				"if xrk != reflect.Map || xrk != yrk {\n\terr = errorf(\"Cannot compare non-map instances\")\n\treturn\n}",
				"if xrt != yrt {\n\terr = errorf(\"Map type mismatch\")\n\treturn\n}",
				"if xrv.Len() != yrv.Len() {\n\terr = errorf(\"Map length mismatch\")\n\treturn\n}",
				"yidx := yrv.MapIndex(key)", "xval := xrv.MapIndex(key).Interface()", "yval := yidx.Interface()",
				"err = valuesEqual(xval, yval)"},
			outer: []string{"return"}},
		// the pointer chase shared by the converters and the comparisons: one
		// iteration of its loop (cut 0: strip one level and go on; cut 1: stop)
		{coq: "g_derefPtr_body", fn: "derefPtr", mode: "Z", ret: "tres", loopBody: true, loopHead: "for",
			params: [][2]string{{"isptr", "bool"}}, exprMap: map[string]string{"isPtr(t)": "isptr"},
			inits: map[string]string{"t": "", "v": ""},
			skip:  []string{"var k reflect.Kind", "k = v.Kind()", "return t, v, k"}},
		// the capacity a constructor records: cfg.cap as newStack leaves it
		{coq: "g_newStack_cap", fn: "newStack", mode: "Z", ret: "tres",
			params:    [][2]string{{"clen", "Z"}, {"c0", "Z"}},
			exprMap:   map[string]string{"len(c)": "clen", "c[0]": "c0", "cfg.cap": "v_cap"},
			fieldVars: map[string]string{"cfg.cap": "cap"},
			inits:     map[string]string{"t": ""},
			skip: []string{"var (\n\tcfg\t*nodeConfig\t= new(nodeConfig)\n\tst\tstack\n)", "cfg.log = newLogSystem(sLogDefault)", "cfg.log.lvl = logLevels(sLogLevelDefault)",
				"cfg.typ = t", "cfg.ord = fifo", "st = make(stack, 0, cfg.cap)", "st = make(stack, 0)", "st = append(st, cfg)", "instance := &st"},
			zvars: []string{"cap"}, pinTails: true},
		{coq: "g_capLenEqual", fn: "capLenEqual", mode: "Z", ret: "bool"},
		{coq: "g_factorNegIndex", fn: "factorNegIndex", mode: "Z", ret: "Z"},
		{coq: "g_calculateDefragMax", fn: "calculateDefragMax", mode: "Z", ret: "Z",
			params:  [][2]string{{"maxlen", "Z"}, {"max0", "Z"}},
			exprMap: map[string]string{"len(max)": "maxlen", "max[0]": "max0"}},
		{coq: "g_index", fn: "stack.index", mode: "Z", ret: "tres",
			params:  [][2]string{{"ulen", "Z"}, {"neg", "bool"}, {"fwd", "bool"}},
			exprMap: map[string]string{"r.ulen()": "ulen", "r.positive(negidx)": "neg", "r.positive(fwdidx)": "fwd"},
			calls:   map[string]string{"factorNegIndex": "g_factorNegIndex"},
			zvars:   []string{"i", "idx"}, bvars: []string{"ok"}},
		{coq: "g_swap", fn: "stack.swap", mode: "Z", ret: "tres",
			params: [][2]string{{"ulen", "Z"}}, exprMap: map[string]string{"r.ulen()": "ulen"},
			skip: locks, zvars: []string{"i", "j"}},
		{coq: "g_replace", fn: "stack.replace", mode: "Z", ret: "tres",
			params:  [][2]string{{"ulen", "Z"}},
			exprMap: map[string]string{"r.ulen()": "ulen", "r != nil": "true"},
			inits:   map[string]string{"x": ""},
			skip:    locks, zvars: []string{"i"}, bvars: []string{"ok"}},
		{coq: "g_insert", fn: "stack.insert", mode: "Z", ret: "tres",
			params:  [][2]string{{"ulen", "Z"}, {"cap", "Z"}},
			exprMap: map[string]string{"r.ulen()": "ulen", "r.cap()": "cap"},
			inits:   map[string]string{"x": ""},
			skip:    append([]string{"var R stack = make(stack, 0)"}, locks...), zvars: []string{"u1", "left"}, bvars: []string{"ok"}},
		{coq: "g_transfer", fn: "stack.transfer", mode: "Z", ret: "tres", loopSkip: true,
			params: [][2]string{{"ulen", "Z"}, {"dcap", "Z"}, {"dlen", "Z"}, {"dulen", "Z"}, {"dlen1", "Z"}, {"dulen1", "Z"}},
			exprMap: map[string]string{"r.ulen()": "ulen", "dest.cap()": "dcap", "dest.len()": "dlen",
				"dest.ulen()": "dulen"},
			exprMap2: map[string]string{"r.ulen()": "ulen", "dest.cap()": "dcap", "dest.len()": "dlen1",
				"dest.ulen()": "dulen1"},
			inits: map[string]string{"dest": ""},
			zvars: []string{}, bvars: []string{"looped", "ok"}},
		{coq: "g_canPushNester", fn: "stack.canPushNester", mode: "Z", ret: "bool",
			params:  [][2]string{{"nnest", "bool"}, {"isstack", "bool"}},
			exprMap: map[string]string{"r.positive(nnest)": "nnest", "isStack": "isstack"},
			inits:   map[string]string{"x": ""},
			skip:    []string{"_, isStack := stackTypeAliasConverter(x)"}},
		{coq: "g_genericAppend_body", fn: "stack.genericAppend", mode: "Z", ret: "tres", loopBody: true,
			params:  [][2]string{{"canpush", "bool"}, {"full", "bool"}},
			exprMap: map[string]string{"r.canPushNester(x[i])": "canpush", "r.isFull()": "full"},
			skip:    []string{"var pct int", "pct++"}},
		{coq: "g_methodAppend_body", fn: "stack.methodAppend", mode: "Z", ret: "tres", loopBody: true,
			params:  [][2]string{{"full", "bool"}, {"rejected", "bool"}},
			exprMap: map[string]string{"r.isFull()": "full", "err != nil": "rejected"},
			inits:   map[string]string{"meth": ""},
			skip:    []string{"var pct int", "var err error", "err = meth(x[i])", "pct++", "return r"}},
		{coq: "g_implode_iter", fn: "stack.implode", mode: "Z", ret: "tres", loopBody: true, loopHead: "for",
			params:  [][2]string{{"ulen", "Z"}, {"isnil", "bool"}, {"v_ct", "Z"}},
			exprMap: map[string]string{"r.ulen()": "ulen", "(*r)[start+ct+1] == nil": "isnil"},
			inits:   map[string]string{"spat": "", "tpat": ""},
			skip: []string{"var ct int", "tpat = make([]int, len(spat), len(spat))", "tpat[0] = 1", "r.lock()", "defer r.unlock()", "return"},
			zvars: []string{"start", "ct"}},
		{coq: "g_verify_iter", fn: "stack.verifyImplode", mode: "Z", ret: "tres", loopBody: true, loopHead: "i := 1; i < len(spat); i++",
			params: [][2]string{{"same", "bool"}, {"tnz", "bool"}, {"dlen", "Z"}, {"tlen", "Z"}, {"i", "Z"}, {"v_last0", "Z"}},
			exprMap: map[string]string{"spat[i] == tpat[i]": "same", "tpat[i] != 0": "tnz", "len(data)": "dlen", "len(tpat)": "tlen", "i": "i"},
			inits:   map[string]string{"spat": "", "tpat": "", "last": "v_last0", "err": ""},
			skip: []string{"last = -1", `err = errorf("defragmentation failed; inconsistent slice results")`, "data := make(map[string]string, len(tpat))",
				"var fail bool", "key := `S[` + itoa(i-1) + `]`", "data[key] = `match:` + bool2str(result)", "if !fail {\n\terr = nil\n}", "last--", "return"},
			zvars: []string{"last"}, bvars: []string{"fail"}},
		{coq: "g_defrag_after", fn: "stack.defrag", mode: "Z", ret: "tres", loopSkip: true,
			params:   [][2]string{{"start1", "Z"}},
			exprMap:  map[string]string{},
			exprMap2: map[string]string{"start": "start1"},
			skip:     []string{"var spat []int = make([]int, r.len(), r.len())"},
			zvars:    []string{}, bvars: []string{"looped"}},
		{coq: "g_reset", fn: "stack.reset", mode: "Z", ret: "tres",
			params: [][2]string{{"len", "Z"}}, exprMap: map[string]string{"r.len()": "len"}, skip: locks},
		{coq: "g_remove", fn: "stack.remove", mode: "Z", ret: "tres", loopSkip: true,
			params:   [][2]string{{"found", "bool"}, {"notnil", "bool"}, {"ulen", "Z"}, {"ulen1", "Z"}},
			exprMap:  map[string]string{"r.ulen()": "ulen", "found": "found"},
			exprMap2: map[string]string{"r.ulen()": "ulen1", "slice != nil": "notnil", "u1": "v_u1"},
			inits:    map[string]string{"slice": "", "idx": ""},
			skip: append([]string{"var found bool", "var index int", "slice, index, found = r.index(idx)", "var contents []any", "var preserved int",
				"cfg, _ := r.config()", "var R stack = make(stack, 0)", "R = append(R, cfg)", "R = append(R, contents...)", "*r = R"}, locks...),
			zvars: []string{}, bvars: []string{"looped", "ok"}},
		{coq: "g_wrap_Push", fn: "Stack.Push", mode: "Z", ret: "tres", pinTails: true,
			params:  [][2]string{{"init", "bool"}, {"ro", "bool"}},
			exprMap: map[string]string{"r.IsInit()": "init", "r.getState(ronly)": "ro"},
			inits:   map[string]string{"popped": "", "slice": "", "idx": "", "i": "", "j": ""}},
		{coq: "g_wrap_Pop", fn: "Stack.Pop", mode: "Z", ret: "tres", pinTails: true,
			params:  [][2]string{{"empty", "bool"}, {"ro", "bool"}},
			exprMap: map[string]string{"r.IsEmpty()": "empty", "r.getState(ronly)": "ro"},
			inits:   map[string]string{"popped": "", "slice": "", "idx": "", "i": "", "j": ""}},
		{coq: "g_wrap_Remove", fn: "Stack.Remove", mode: "Z", ret: "tres", pinTails: true,
			params:  [][2]string{{"init", "bool"}, {"ro", "bool"}},
			exprMap: map[string]string{"r.IsInit()": "init", "r.getState(ronly)": "ro"},
			inits:   map[string]string{"popped": "", "slice": "", "idx": "", "i": "", "j": ""}},
		{coq: "g_wrap_Swap", fn: "Stack.Swap", mode: "Z", ret: "tres", pinTails: true,
			params:  [][2]string{{"init", "bool"}, {"ro", "bool"}},
			exprMap: map[string]string{"r.IsInit()": "init", "r.getState(ronly)": "ro"},
			inits:   map[string]string{"popped": "", "slice": "", "idx": "", "i": "", "j": ""}},
		{coq: "g_wrap_Reverse", fn: "Stack.Reverse", mode: "Z", ret: "tres", pinTails: true,
			params:  [][2]string{{"empty", "bool"}, {"ro", "bool"}},
			exprMap: map[string]string{"r.IsEmpty()": "empty", "r.getState(ronly)": "ro"},
			inits:   map[string]string{"popped": "", "slice": "", "idx": "", "i": "", "j": ""}},
		{coq: "g_wrap_Reset", fn: "Stack.Reset", mode: "Z", ret: "tres", pinTails: true,
			params:  [][2]string{{"init", "bool"}, {"ro", "bool"}},
			exprMap: map[string]string{"r.IsInit()": "init", "r.getState(ronly)": "ro"},
			inits:   map[string]string{"popped": "", "slice": "", "idx": "", "i": "", "j": ""}},
		{coq: "g_wrap_Insert", fn: "Stack.Insert", mode: "Z", ret: "tres", pinTails: true,
			params:  [][2]string{{"init", "bool"}, {"notnil", "bool"}, {"ro", "bool"}},
			exprMap: map[string]string{"r.IsInit()": "init", "x != nil": "notnil", "r.getState(ronly)": "ro"},
			inits:   map[string]string{"x": "", "left": "", "idx": ""}, bvars: []string{"ok"}},
		{coq: "g_wrap_Replace", fn: "Stack.Replace", mode: "Z", ret: "tres", pinTails: true,
			params:  [][2]string{{"init", "bool"}, {"notnil", "bool"}, {"ro", "bool"}},
			exprMap: map[string]string{"r.IsInit()": "init", "x != nil": "notnil", "r.getState(ronly)": "ro"},
			inits:   map[string]string{"x": "", "left": "", "idx": ""}, bvars: []string{"ok"}},
		{coq: "g_pop", fn: "stack.pop", mode: "Z", ret: "tres",
			params:  [][2]string{{"ulen", "Z"}, {"fifo", "bool"}, {"len", "Z"}},
			exprMap: map[string]string{"r.ulen()": "ulen", "r.isFIFO()": "fifo", "len(*r)": "len"},
			skip:    locks, zvars: []string{"idx"}, bvars: []string{"ok"}},
	}
	for _, f := range frags {
		b.WriteString(translate(p, f))
	}

	write := func(path, content string) {
		old, err := os.ReadFile(path)
		if err == nil && string(old) == content {
			return
		}
		if err := os.WriteFile(path, []byte(content), 0o644); err != nil {
			die("write %s: %v", path, err)
		}
	}
	if *out == "" {
		fmt.Print(b.String())
	} else {
		write(*out, b.String())
	}
	if *irOut != "" {
		write(*irOut, genIR(*repo, p))
	}
}
