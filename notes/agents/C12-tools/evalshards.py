import sys, os, json
sys.path.insert(0, '/tmp/ag/alias/verif/tools')
os.environ['VERIF_REPO']='/tmp/ag/alias/repo'
import check
from props import FAMILIES
d=sys.argv[1]
cases=[json.loads(l) for l in open(os.path.join(d,'cases.jsonl'))]
f=FAMILIES['alias']
import time
t=time.time()
m=f['model']; s=f['spec']
mr=check.eval_shards(cases,m['imports'],'',m['type'],m['fn'],'m',d,m['shard'])
print('model mismatches',len(mr), sorted(mr)[:20], 'time',time.time()-t)
t=time.time()
sr=check.eval_shards(cases,s['imports'],'',s['type'],s['fn'],'s',d,s['shard'])
kr=check.eval_shards(cases,s['imports'],'',s['type'],s['kf'],'k',d,s['shard'])
print('spec failures',len(sr),'kf',len(kr),'spec not kf',[i for i in sr if i not in kr][:20],'kf not spec', len([i for i in kr if i not in sr]), 'time',time.time()-t)
json.dump({'model':sorted(mr),'spec':sorted(sr),'kf':sorted(kr)},open(os.path.join(d,'res.json'),'w'))
