#!/bin/bash
# mut.sh NAME FILE 'old' 'new'
export GOFLAGS=-mod=mod GOPROXY=off GOSUMDB=off GOTOOLCHAIN=local GOCACHE=/tmp/ag/gocache
name="$1"; file="$2"
python3 - "$file" "$3" "$4" <<'PY'
import sys
p='/tmp/ag/alias/repo/'+sys.argv[1]
s=open(p).read()
old=sys.argv[2]; new=sys.argv[3]
assert s.count(old)==1, s.count(old)
open(p,'w').write(s.replace(old,new))
PY
[ $? -eq 0 ] || { echo "patch failed"; exit 1; }
cd /tmp/ag/alias/repo && echo "== $name: go test:" && go test ./... 2>&1 | tail -2
cd /tmp/ag/alias/verif && VERIF_REPO=/tmp/ag/alias/repo ./check C12 2>&1 | grep -v KNOWN-FINDING | tail -4 | cut -c1-300; echo "check exit=${PIPESTATUS[0]}"
python3 - <<'PY'
import json,glob
for f in glob.glob('/tmp/ag/alias/verif/build/replays/C12-*.json'):
    d=json.load(open(f))
    print(f, d.get('verdict','')[:120], 'failing', d.get('failing_cases_this_run'), 'model-too', d.get('differs_from_model_too'))
    print(' input:', json.dumps(d.get('input'))[:600])
PY
cp /tmp/ag/alias/repo.orig/*.go /tmp/ag/alias/repo/ && diff -r /tmp/ag/alias/repo.orig /tmp/ag/alias/repo && echo reverted
rm -f /tmp/ag/alias/verif/build/replays/C12-*.json
