import sys, os, json, subprocess
d=sys.argv[1]; idxs=[int(x) for x in sys.argv[2:]]
cases=[json.loads(l) for l in open(os.path.join(d,'cases.jsonl'))]
for i in idxs:
    p=os.path.join(d,'diag_%d.v'%i)
    open(p,'w').write("From Stackage Require Import Base Values JVal AliasSpec MarshalSpecCorr AliasSpecCorr AliasCorr.\nOpen Scope Z_scope.\nDefinition c : acase := %s.\nEval vm_compute in (model_diag c).\nEval vm_compute in (spec_diag c).\nEval vm_compute in (akf c).\n" % cases[i]['coq'])
    out=subprocess.run(['coqc','-Q','/tmp/ag/alias/verif/coq','Stackage','-w','-notation-overridden',p],capture_output=True,text=True,cwd=d)
    print(i, ' '.join((out.stdout+out.stderr).split())[:1500])
