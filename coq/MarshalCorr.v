(* MarshalCorr.v -- model-side evaluation of the cases recorded by the harness
   families marshalrt and marshaljunk: the model of Marshal.v is run on the
   recorded input inside Coq and everything it predicts is compared with what
   the real package did.  Executable definitions only.  check = 0: agrees;
   1: differs. *)
From Stackage Require Import Base Generated StackImpl Values JVal MarshalSpec Marshal MarshalSpecCorr.
Open Scope Z_scope.

(* the harness installs no push policy *)
Definition nopol (p : N) (x : jval) : option N := None.

(* ---- marshalrt ---- *)
Definition rt_model_ok (c : rtcase) : bool :=
  match rt_tree c with
  | JStack _ tc els =>
      match Unmarshal (RInit tc els) with
      | Ok u =>
          lsim u (rt_u1 c) &&
          match Marshal nopol RZero (if rt_single c then [JList u] else u) with
          | Ok (r', e) =>
              negb (rt_panic c) &&
              Bool.eqb e (rt_merr c) &&
              jsim (recv_val r') (rt_walk c) &&
              match Unmarshal r' with
              | Ok u2 => lsim u2 (rt_u2 c)
              | _ => false
              end
          | Panic => rt_panic c
          | Unmodelled => false
          end
      | Panic => rt_panic c
      | Unmodelled => false
      end
  | _ => false
  end.

Definition rt_mcheck (c : rtcase) : N := if rt_model_ok c then 0%N else 1%N.

(* ---- marshaljunk ---- *)
Definition jk_model_ok (c : jkcase) : bool :=
  let r := match jk_recv c with Some (JStack _ rc els) => RInit rc els | _ => RZero end in
  match Marshal nopol r (jk_in c) with
  | Ok (r', e) =>
      negb (jk_panic c) &&
      Bool.eqb e (jk_err c) &&
      match r' with
      | RZero => negb (jk_init c) && (jk_len c =? 0)
      | RInit c' els' => jk_init c && (jk_kind c =? c_typ c')%N && (jk_len c =? zlen els')
      end &&
      match Unmarshal r' with
      | Ok u => lsim u (jk_u c)
      | _ => false
      end
  | Panic => jk_panic c
  | Unmodelled => false
  end.

Definition jk_mcheck (c : jkcase) : N := if jk_model_ok c then 0%N else 1%N.
