(* RenderCorr.v -- model-side evaluation of recorded rendering cases (family
   render): the byte-level model of Render.v must produce exactly the strings
   the real package produced, for every Stack/Condition node of the tree.
   Executable definitions only. *)
From Stackage Require Import Base Generated StackImpl Values Render RenderSpec RenderSpecCorr.
Open Scope N_scope.

Definition res_eqb (r : res bytes) (o : bytes) : bool :=
  match r with Ok s => bytes_eqb s o | _ => false end.

Fixpoint all2 {A B} (f : A -> B -> bool) (a : list A) (b : list B) : bool :=
  match a, b with
  | [], [] => true
  | x :: a', y :: b' => f x y && all2 f a' b'
  | _, _ => false
  end.

Definition model_panics (v : value) : bool :=
  existsb (fun n => match node_string n with Panic => true | _ => false end) (subnodes v).

Definition model_ok (c : rcase) : bool :=
  if r_panic c then model_panics (r_tree c)
  else all2 res_eqb (map node_string (subnodes (r_tree c))) (r_outs c) &&
       res_eqb (node_string (r_tree c)) (r_fmt c).

Definition check (c : rcase) : N := if model_ok c then 0 else 1.
