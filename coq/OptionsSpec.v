(* OptionsSpec.v -- what property C18 says about options and settings.

   A receiver has eight independent boolean switches, a one-way FIFO latch,
   five plain settings that the getters hand back (ID, category, list
   delimiter, symbol, auxiliary map), a list of encapsulation pairs in which
   no string is used twice, and a set of log levels.  Read-only gates every
   setter except the read-only switch itself (C09).

   Nothing here mentions a bit field, masks, or Generated.v: switches are a
   function [optname -> bool], the level set is a function [nat -> bool]
   (level index 0..15), names and documented numbers are this file's own. *)
From Stackage Require Import Base OptionsTypes.
Open Scope Z_scope.

(* tri-state: true sets, false clears, nothing inverts *)
Definition tri (t : option bool) (b : bool) : bool :=
  match t with Some v => v | None => negb b end.

Definition lset := nat -> bool.

Record sstate := {
  s_rk : rkind;
  s_kind : N;                      (* 1 AND, 2 OR, 3 NOT, 4 LIST, 5 CONDITION, 6 BASIC *)
  s_opt : optname -> bool;
  s_fifo : bool;
  s_id : bytes; s_cat : bytes; s_delim : bytes; s_sym : bytes;
  s_enc : list (list bytes);
  s_aux : option N;                (* identity of the auxiliary map; None = nil *)
  s_lvl : lset
}.

Definition k_list : N := 4.

Definition upd_opt (f : optname -> bool) (o : optname) (v : bool) : optname -> bool :=
  fun o' => if optname_eqb o o' then v else f o'.

Definition with_opt (s : sstate) (f : optname -> bool) : sstate :=
  {| s_rk := s_rk s; s_kind := s_kind s; s_opt := f; s_fifo := s_fifo s; s_id := s_id s; s_cat := s_cat s;
     s_delim := s_delim s; s_sym := s_sym s; s_enc := s_enc s; s_aux := s_aux s; s_lvl := s_lvl s |}.
Definition with_fifo (s : sstate) (b : bool) : sstate :=
  {| s_rk := s_rk s; s_kind := s_kind s; s_opt := s_opt s; s_fifo := b; s_id := s_id s; s_cat := s_cat s;
     s_delim := s_delim s; s_sym := s_sym s; s_enc := s_enc s; s_aux := s_aux s; s_lvl := s_lvl s |}.
Definition with_id (s : sstate) (x : bytes) : sstate :=
  {| s_rk := s_rk s; s_kind := s_kind s; s_opt := s_opt s; s_fifo := s_fifo s; s_id := x; s_cat := s_cat s;
     s_delim := s_delim s; s_sym := s_sym s; s_enc := s_enc s; s_aux := s_aux s; s_lvl := s_lvl s |}.
Definition with_cat (s : sstate) (x : bytes) : sstate :=
  {| s_rk := s_rk s; s_kind := s_kind s; s_opt := s_opt s; s_fifo := s_fifo s; s_id := s_id s; s_cat := x;
     s_delim := s_delim s; s_sym := s_sym s; s_enc := s_enc s; s_aux := s_aux s; s_lvl := s_lvl s |}.
Definition with_delim (s : sstate) (x : bytes) : sstate :=
  {| s_rk := s_rk s; s_kind := s_kind s; s_opt := s_opt s; s_fifo := s_fifo s; s_id := s_id s; s_cat := s_cat s;
     s_delim := x; s_sym := s_sym s; s_enc := s_enc s; s_aux := s_aux s; s_lvl := s_lvl s |}.
Definition with_sym (s : sstate) (x : bytes) : sstate :=
  {| s_rk := s_rk s; s_kind := s_kind s; s_opt := s_opt s; s_fifo := s_fifo s; s_id := s_id s; s_cat := s_cat s;
     s_delim := s_delim s; s_sym := x; s_enc := s_enc s; s_aux := s_aux s; s_lvl := s_lvl s |}.
Definition with_enc (s : sstate) (x : list (list bytes)) : sstate :=
  {| s_rk := s_rk s; s_kind := s_kind s; s_opt := s_opt s; s_fifo := s_fifo s; s_id := s_id s; s_cat := s_cat s;
     s_delim := s_delim s; s_sym := s_sym s; s_enc := x; s_aux := s_aux s; s_lvl := s_lvl s |}.
Definition with_aux (s : sstate) (x : option N) : sstate :=
  {| s_rk := s_rk s; s_kind := s_kind s; s_opt := s_opt s; s_fifo := s_fifo s; s_id := s_id s; s_cat := s_cat s;
     s_delim := s_delim s; s_sym := s_sym s; s_enc := s_enc s; s_aux := x; s_lvl := s_lvl s |}.
Definition with_lvl (s : sstate) (x : lset) : sstate :=
  {| s_rk := s_rk s; s_kind := s_kind s; s_opt := s_opt s; s_fifo := s_fifo s; s_id := s_id s; s_cat := s_cat s;
     s_delim := s_delim s; s_sym := s_sym s; s_enc := s_enc s; s_aux := s_aux s; s_lvl := x |}.

(* ---- plain settings ---- *)

(* SetDelimiter: a string as it is, a non-NUL rune as its UTF-8 text,
   anything else (nil, NUL, other types) unsets *)
Definition delim_text (x : targ) : bytes :=
  match x with
  | TStr s => s
  | TRune r => if r =? 0 then [] else utf8_of_rune r
  | _ => []
  end.

(* SetSymbol: the concatenation of its string and rune arguments *)
Definition sym_text (x : targ) : bytes :=
  match x with
  | TStr s => s
  | TRune r => utf8_of_rune r
  | _ => []
  end.

(* SetAuxiliary: the caller's map, or a new empty map (identity 0) *)
Definition aux_of (a : aarg) : option N :=
  match a with AMap k => Some k | _ => Some 0%N end.

(* ---- encapsulation pairs ---- *)

Definition pair_of (a : earg) : option (list bytes) :=
  match a with EStr s => Some [s] | ESlice l => Some l | EOther => None end.

(* [s] is in use: it occurs in some stored pair *)
Definition used (enc : list (list bytes)) (s : bytes) : bool :=
  existsb (fun p => existsb (bytes_eqb s) p) enc.

(* a new pair is refused when its left or right string is already in use;
   an empty slice is ignored *)
Definition add_pair (enc : list (list bytes)) (p : list bytes) : list (list bytes) :=
  match p with
  | [] => enc
  | _ => if existsb (used enc) (firstn 2 p) then enc else enc ++ [p]
  end.

Definition add_earg (enc : list (list bytes)) (a : earg) : list (list bytes) :=
  match pair_of a with Some p => add_pair enc p | None => enc end.

(* SetEncap() without arguments clears *)
Definition set_encap (enc : list (list bytes)) (xs : list earg) : list (list bytes) :=
  match xs with
  | [] => []
  | _ => fold_left add_earg xs enc
  end.

(* ---- log levels ---- *)

Definition level_names : list bytes :=
  [B "CALLS"; B "POLICY"; B "STATE"; B "DEBUG"; B "ERROR"; B "TRACE";
   B "USER1"; B "USER2"; B "USER3"; B "USER4"; B "USER5"; B "USER6"; B "USER7"; B "USER8"; B "USER9"; B "USER10"].

Definition nlevels : nat := 16.
Definition levels : list nat := seq 0 nlevels.

Definition lv_empty : lset := fun _ => false.
Definition lv_full : lset := fun i => (i <? nlevels)%nat.
Definition lv_single (k : nat) : lset := fun i => (i =? k)%nat.
(* a LogLevel value / a raw integer denotes the levels whose (documented)
   bit values sum to it: level i is worth 2^i *)
Definition lv_of_N (n : N) : lset := fun i => (i <? nlevels)%nat && N.testbit n (N.of_nat i).
Definition lv_of_Z (z : Z) : lset := fun i => (i <? nlevels)%nat && Z.testbit z (Z.of_nat i).
Definition lv_union (a b : lset) : lset := fun i => a i || b i.
Definition lv_diff (a b : lset) : lset := fun i => a i && negb (b i).

Fixpoint index_of (s : bytes) (l : list bytes) (i : nat) : option nat :=
  match l with
  | [] => None
  | x :: t => if bytes_eqb s x then Some i else index_of s t (S i)
  end.

(* names are matched without regard to (ASCII) case *)
Definition resolve_name (s : bytes) : option lset :=
  let u := map ascii_upper s in
  if bytes_eqb u (B "NONE") then Some lv_empty
  else if bytes_eqb u (B "ALL") then Some lv_full
  else match index_of u level_names 0 with Some k => Some (lv_single k) | None => None end.

Definition resolve (a : larg) : option lset :=
  match a with
  | LName s => resolve_name s
  | LConst n => Some (lv_of_N n)
  | LInt z => Some (lv_of_Z z)
  | LOther => None
  end.

Definition lv_is_empty (m : lset) : bool := forallb (fun i => negb (m i)) levels.
Definition lv_is_full (m : lset) : bool := forallb m levels.

(* SetLogLevel: arguments in order; 'none' (the empty set, however spelled)
   silences and 'all' enables everything, either ends the call; anything else
   is added.  An argument that names no level set (unknown name, foreign
   type) is outside the property's text: [unk = true] treats it like 'none',
   [unk = false] skips it; an implementation may follow either reading. *)
Fixpoint set_levels (unk : bool) (cur : lset) (xs : list larg) : lset :=
  match xs with
  | [] => cur
  | a :: t =>
      match resolve a with
      | None => if unk then lv_empty else set_levels unk cur t
      | Some m => if lv_is_empty m then lv_empty
                  else if lv_is_full m then lv_full
                  else set_levels unk (lv_union cur m) t
      end
  end.

(* UnsetLogLevel: 'none' removes nothing, 'all' removes everything and ends
   the call, anything else is removed; unresolvable arguments are skipped *)
Fixpoint unset_levels (cur : lset) (xs : list larg) : lset :=
  match xs with
  | [] => cur
  | a :: t =>
      match resolve a with
      | None => unset_levels cur t
      | Some m => if lv_is_empty m then unset_levels cur t
                  else if lv_is_full m then lv_empty
                  else unset_levels (lv_diff cur m) t
      end
  end.

(* LogLevels(): ALL, NONE, or the names of the members in ascending order *)
Definition levels_text (m : lset) : bytes :=
  if lv_is_full m then B "ALL"
  else if lv_is_empty m then B "NONE"
  else join_bytes (B ",") (flat_map (fun i => if m i then [nth i level_names []] else []) levels).

(* ---- one call ---- *)

Definition sstep (unk : bool) (s : sstate) (c : ocall) : sstate :=
  let ro := s_opt s OReadOnly in
  match c with
  | CSetOpt o t =>
      if ro && negb (optname_eqb o OReadOnly) then s
      else with_opt s (upd_opt (s_opt s) o (tri t (s_opt s o)))
  | CSetFIFO b => if ro then s else with_fifo s (s_fifo s || b)
  | CSetID x => if ro then s else with_id s x
  | CSetCat x => if ro then s else with_cat s x
  | CSetDelim x => if ro then s else if (s_kind s =? k_list)%N then with_delim s (delim_text x) else s
  | CSetSymbol xs => if ro then s else if (s_kind s =? k_list)%N then s else with_sym s (concat (map sym_text xs))
  | CSetEncap xs => if ro then s else with_enc s (set_encap (s_enc s) xs)
  | CSetAux a => if ro then s else with_aux s (aux_of a)
  | CSetLog xs => if ro then s else with_lvl s (set_levels unk (s_lvl s) xs)
  | CUnsetLog xs => if ro then s else with_lvl s (unset_levels (s_lvl s) xs)
  end.

Definition srun (unk : bool) (s : sstate) (h : list ocall) : sstate := fold_left (sstep unk) h s.

(* a receiver fresh from its constructor *)
Definition sinit (rk : rkind) (kind : N) : sstate :=
  {| s_rk := rk; s_kind := kind; s_opt := fun _ => false; s_fifo := false; s_id := []; s_cat := [];
     s_delim := []; s_sym := []; s_enc := []; s_aux := None; s_lvl := lv_empty |}.

(* the documented numbering of the option word (cfg.go comments / property
   text: 1 paren, 2 fold, 4 no-pad, 8 lead-once, 16 neg-index, 32 fwd-index,
   128 read-only, 256 no-nest) *)
Definition docbit (o : optname) : N :=
  match o with
  | OParen => 1 | OFold => 2 | ONoPad => 4 | OLeadOnce => 8
  | ONegIdx => 16 | OFwdIdx => 32 | OReadOnly => 128 | ONoNest => 256
  end.

(* ---- what each option's value is, call by call ----
   [own o (b, ro) c]: the value b of option o and the read-only switch ro
   after call c.  Only calls that name o (or the read-only switch that gates
   them) matter. *)
Definition own (o : optname) (st : bool * bool) (c : ocall) : bool * bool :=
  let '(b, ro) := st in
  match c with
  | CSetOpt o' t =>
      let b' := if optname_eqb o' o && (optname_eqb o OReadOnly || negb ro) then tri t b else b in
      let ro' := if optname_eqb o' OReadOnly then tri t ro else ro in
      (b', ro')
  | _ => (b, ro)
  end.

Definition own_fold (o : optname) (h : list ocall) (b ro : bool) : bool := fst (fold_left (own o) h (b, ro)).

(* calls that can matter to option o *)
Definition concerns (o : optname) (c : ocall) : bool :=
  match c with
  | CSetOpt o' _ => optname_eqb o' o || optname_eqb o' OReadOnly
  | _ => false
  end.

(* ---- what every other setting is, call by call ----
   [eff_fold upd h ro cur]: the value of a setting after history h when it is
   cur now and the read-only switch is ro now; [upd c] is what call c does to
   the setting when the receiver is not read-only (the identity for calls
   that do not address it). *)
Definition ro_step (ro : bool) (c : ocall) : bool :=
  match c with CSetOpt OReadOnly t => tri t ro | _ => ro end.

Fixpoint eff_fold {A} (upd : ocall -> A -> A) (h : list ocall) (ro : bool) (cur : A) : A :=
  match h with
  | [] => cur
  | c :: t => eff_fold upd t (ro_step ro c) (if ro then cur else upd c cur)
  end.

Definition upd_id (c : ocall) (cur : bytes) : bytes := match c with CSetID x => x | _ => cur end.
Definition upd_cat (c : ocall) (cur : bytes) : bytes := match c with CSetCat x => x | _ => cur end.
Definition upd_delim (kind : N) (c : ocall) (cur : bytes) : bytes :=
  match c with CSetDelim x => if (kind =? k_list)%N then delim_text x else cur | _ => cur end.
Definition upd_sym (kind : N) (c : ocall) (cur : bytes) : bytes :=
  match c with CSetSymbol xs => if (kind =? k_list)%N then cur else concat (map sym_text xs) | _ => cur end.
Definition upd_aux (c : ocall) (cur : option N) : option N := match c with CSetAux a => aux_of a | _ => cur end.
Definition upd_fifo (c : ocall) (cur : bool) : bool := match c with CSetFIFO b => cur || b | _ => cur end.
Definition upd_enc (c : ocall) (cur : list (list bytes)) : list (list bytes) :=
  match c with CSetEncap xs => set_encap cur xs | _ => cur end.

(* membership of ONE level i, call by call: it depends on the arguments only
   through their own membership of i (and the 'none' / 'all' shortcuts) *)
Fixpoint bit_set (unk : bool) (i : nat) (b : bool) (xs : list larg) : bool :=
  match xs with
  | [] => b
  | a :: t =>
      match resolve a with
      | None => if unk then false else bit_set unk i b t
      | Some m => if lv_is_empty m then false
                  else if lv_is_full m then (i <? nlevels)%nat
                  else bit_set unk i (b || m i) t
      end
  end.
Fixpoint bit_unset (i : nat) (b : bool) (xs : list larg) : bool :=
  match xs with
  | [] => b
  | a :: t =>
      match resolve a with
      | None => bit_unset i b t
      | Some m => if lv_is_empty m then bit_unset i b t
                  else if lv_is_full m then false
                  else bit_unset i (b && negb (m i)) t
      end
  end.
Definition upd_level (unk : bool) (i : nat) (c : ocall) (b : bool) : bool :=
  match c with CSetLog xs => bit_set unk i b xs | CUnsetLog xs => bit_unset i b xs | _ => b end.

(* ---- encapsulation: the invariant and what it means ---- *)

(* built by appending pairs whose left and right strings were unused *)
Inductive enc_inv : list (list bytes) -> Prop :=
| enc_inv_nil : enc_inv []
| enc_inv_snoc enc p : enc_inv enc -> (forall s, In s (firstn 2 p) -> used enc s = false) -> enc_inv (enc ++ [p]).

(* no string occurs in two different stored pairs *)
Definition no_shared (enc : list (list bytes)) : Prop :=
  forall i j pi pj s, i <> j -> nth_error enc i = Some pi -> nth_error enc j = Some pj ->
                      In s pi -> In s pj -> False.

(* every slice handed to SetEncap in history h has at most two elements *)
Definition earg_pairish (a : earg) : bool :=
  match a with ESlice l => (length l <=? 2)%nat | _ => true end.
Definition call_pairish (c : ocall) : bool :=
  match c with CSetEncap xs => forallb earg_pairish xs | _ => true end.

(* the documented use: every encapsulation string is one character (byte) *)
Definition one_byte (s : bytes) : bool := (length s =? 1)%nat.
Definition earg_chars (a : earg) : bool :=
  match a with EStr s => one_byte s | ESlice l => forallb one_byte l | EOther => true end.
Definition call_chars (c : ocall) : bool :=
  match c with CSetEncap xs => forallb earg_chars xs | _ => true end.

(* no character occurs in two different stored pairs *)
Definition no_shared_byte (enc : list (list bytes)) : Prop :=
  forall i j pi pj b, i <> j -> nth_error enc i = Some pi -> nth_error enc j = Some pj ->
                      In b (concat pi) -> In b (concat pj) -> False.
