(* Conc.v -- interleaving model of concurrent mutators on one mutex-enabled
   Stack, at lock-acquisition granularity.

   A call of a public mutator is two atomic actions:
     1. the UNLOCKED part of the public wrapper (IsInit / read-only /
        non-nil argument / emptiness tests): it either returns at once with
        the zero result or goes on to request the lock;
     2. the critical section: acquire the stack's mutex, run the private
        method (StackImpl.push/pop/insert/remove/replace/swap/reverse/reset,
        i.e. the code the translator's fragments come from), release.
   Action 2 of one goroutine excludes action 2 of every other one (that is
   what the mutex provides); action 1 may run at any time, also while another
   goroutine is inside its critical section (it then sees the state before or
   after that section: finer-grained effects - torn slice-header reads,
   reordering - belong to the Go memory model and are not modelled).

   A schedule is a list of goroutine numbers; each entry lets that goroutine
   perform its next action.  No proofs in this file. *)
From Stackage Require Import Base Generated StackImpl.
Open Scope Z_scope.

Section Conc.
  Variable V : Type.
  Variable nilv : V.
  Variable isnil : V -> bool.
  Variable isstack : V -> bool.
  Variable pol : N -> V -> option N.

  Notation raw := (raw V).

  Inductive mop :=
  | MPush (vs : list V) | MPop | MInsert (v : V) (i : Z) | MRemove (i : Z)
  | MReplace (v : V) (i : Z) | MSwap (i j : Z) | MReverse | MReset.

  Definition to_op (o : mop) : op V :=
    match o with
    | MPush vs => OPush vs | MPop => OPop | MInsert v i => OInsert v i | MRemove i => ORemove i
    | MReplace v i => OReplace v i | MSwap i j => OSwap i j | MReverse => OReverse | MReset => OReset
    end.

  (* action 1: true = the wrapper returns at once *)
  Definition pre_skip (r : raw) (o : mop) : res bool :=
    do c <- config V r;
    let ro := positive c c_ronly in
    match o with
    | MPop | MReverse => Ok (IsEmpty V r || ro)
    | MInsert v _ | MReplace v _ => Ok (isnil v || ro)
    | _ => Ok ro
    end.

  Definition zero_out (o : mop) : out V :=
    match o with
    | MPush _ => RLog []
    | MPop | MRemove _ => RVal (SVal nilv) false
    | MInsert _ _ | MReplace _ _ => RBool false
    | _ => RUnit
    end.

  (* action 2: the private method, run under the lock *)
  Definition body (r : raw) (o : mop) : res (raw * out V) :=
    match o with
    | MPush vs => do (r', log) <- push V isstack pol r vs; Ok (r', RLog log)
    | MPop => do (r', s, ok) <- pop V nilv isnil r; Ok (r', RVal s ok)
    | MInsert v i => do (r', ok) <- insert V r v i; Ok (r', RBool ok)
    | MRemove i => do (r', s, ok) <- remove V nilv isnil r i; Ok (r', RVal s ok)
    | MReplace v i => do (r', ok) <- replace V r v i; Ok (r', RBool ok)
    | MSwap i j => do r' <- swap V r i j; Ok (r', RUnit)
    | MReverse => Ok (reverse V r, RUnit)
    | MReset => Ok (reset V r, RUnit)
    end.

  (* a goroutine: what is left of its program, whether it is waiting for the
     lock, and what its finished calls returned (newest first) *)
  Record thr := { t_todo : list mop; t_want : bool; t_done : list (out V) }.

  (* global state: the shared slice, the goroutines, and the ghost log of
     completed calls in the order they took effect (newest first) *)
  Record gst := { g_raw : raw; g_thr : list thr; g_log : list (nat * mop * out V) }.

  Inductive cres := CNext (g : gst) | CIdle | CPanic.

  Definition upd_thr (l : list thr) (i : nat) (t : thr) : list thr := set_nth i t l.

  Definition finish (g : gst) (r' : raw) (tid : nat) (t : thr) (o : mop) (rest : list mop) (x : out V) : gst :=
    {| g_raw := r';
       g_thr := upd_thr (g_thr g) tid {| t_todo := rest; t_want := false; t_done := x :: t_done t |};
       g_log := (tid, o, x) :: g_log g |}.

  Definition cstep (g : gst) (tid : nat) : cres :=
    match nth_error (g_thr g) tid with
    | None => CIdle
    | Some t =>
        match t_todo t with
        | [] => CIdle
        | o :: rest =>
            if t_want t then
              match body (g_raw g) o with
              | Ok (r', x) => CNext (finish g r' tid t o rest x)
              | _ => CPanic
              end
            else
              match pre_skip (g_raw g) o with
              | Ok true => CNext (finish g (g_raw g) tid t o rest (zero_out o))
              | Ok false => CNext {| g_raw := g_raw g;
                                     g_thr := upd_thr (g_thr g) tid {| t_todo := t_todo t; t_want := true; t_done := t_done t |};
                                     g_log := g_log g |}
              | _ => CPanic
              end
        end
    end.

  (* run a schedule; entries naming a finished or non-existent goroutine are
     skipped; [None] = some call panicked *)
  Fixpoint crun (g : gst) (sched : list nat) : option gst :=
    match sched with
    | [] => Some g
    | tid :: rest =>
        match cstep g tid with
        | CNext g' => crun g' rest
        | CIdle => crun g rest
        | CPanic => None
        end
    end.

  Definition ginit (r : raw) (progs : list (list mop)) : gst :=
    {| g_raw := r; g_thr := map (fun p => {| t_todo := p; t_want := false; t_done := [] |}) progs; g_log := [] |}.

  Definition all_done (g : gst) : bool := forallb (fun t => match t_todo t with [] => true | _ => false end) (g_thr g).

  (* ---- footprints, for the race statement ---- *)
  Inductive floc := FHdr | FSlots | FCfgOpt | FCfgLdr.
  (* (location, is-write, lock held) of the two kinds of action *)
  Definition footprint_pre : list (floc * bool * bool) := [(FHdr, false, false); (FCfgOpt, false, false)].
  Definition footprint_body : list (floc * bool * bool) := [(FHdr, true, true); (FSlots, true, true); (FCfgLdr, true, true)].
  Definition conflict (a b : floc * bool * bool) : bool :=
    let '(la, wa, ha) := a in let '(lb, wb, hb) := b in
    (match la, lb with FHdr, FHdr | FSlots, FSlots | FCfgOpt, FCfgOpt | FCfgLdr, FCfgLdr => true | _, _ => false end) &&
    (wa || wb) && negb (ha && hb).
  (* two goroutines whose next actions conflict *)
  Definition next_fp (t : thr) : list (floc * bool * bool) :=
    match t_todo t with [] => [] | _ => if t_want t then footprint_body else footprint_pre end.
  Definition racing (g : gst) (a b : nat) : bool :=
    negb (a =? b)%nat &&
    match nth_error (g_thr g) a, nth_error (g_thr g) b with
    | Some ta, Some tb => existsb (fun x => existsb (conflict x) (next_fp tb)) (next_fp ta)
    | _, _ => false
    end.
End Conc.

Arguments MPush {V}. Arguments MPop {V}. Arguments MInsert {V}. Arguments MRemove {V}.
Arguments MReplace {V}. Arguments MSwap {V}. Arguments MReverse {V}. Arguments MReset {V}.
Arguments CNext {V}. Arguments CIdle {V}. Arguments CPanic {V}.
