(* CondDefects.v -- the two places where cond.go, before repairs D11 and D12
   (DESIGN.md section 7), did not have property C06: the same model with the
   repaired line taken out again, and a concrete witness for each. *)
From Stackage Require Import Base Generated StackImpl Values CondOps Cond CondSpec.
Open Scope Z_scope.

(* D11: setOperator without the `if op == nil { return }` guard calls
   op.Context() on the nil interface *)
Definition setOperator_d11 (st : cstate) (op : option oper) : res cstate :=
  match op with
  | None => Panic
  | Some o => Ok (setOperator st (Some o))
  end.

Theorem set_operator_nil_panic_refuted :
  exists st, setOperator_d11 st None = Panic.
Proof. exists initCondition. reflexivity. Qed.

(* D12: Valid without the `else { err = "operator value is nil" }` branch *)
Definition Valid_d12 (r : cnd) : res (option N) :=
  do i <- IsInit r;
  if negb i then Ok (Some 10%N) else
  do st <- deref r;
  match c_vpf (s_cfg st) with
  | Some _ => Unmodelled
  | None =>
      do kw <- Keyword r;
      if zlen kw =? 0 then Ok (Some 11%N) else
      do cop <- Operator r;
      let ex_check := (do ex <- Expression r; if is_nil ex then Ok (Some 14%N) else Ok None) in
      match cop with
      | Some (OpBuiltin n) =>
          if negb ((1 <=? Z.of_N n) && (Z.of_N n <=? 6)) then Ok (Some 12%N) else ex_check
      | Some (OpUser _ _) => ex_check
      | None => ex_check
      end
  end.

Definition StringOf_d12 (render_node : value -> bytes) (r : cnd) : res bytes :=
  do v <- Valid_d12 r;
  match v with
  | None => (do st <- deref r; cond_string render_node st)
  | Some _ => Ok []
  end.

Fixpoint steps (r : cnd) (ops : list cop) : res cnd :=
  match ops with
  | [] => Ok r
  | o :: t => do r' <- step r o; steps r' t
  end.

(* Init(), SetKeyword("k"), SetExpression("v"): reported valid with no
   operator, and String() dereferences the nil operator *)
Theorem valid_without_operator_refuted :
  exists ops r,
    steps None ops = Ok r /\ Operator r = Ok None /\
    Valid_d12 r = Ok None /\ forall render_node, StringOf_d12 render_node r = Panic.
Proof.
  exists [OInit; OSetKeyword (KStr (B "k")); OSetExpression (VLeaf (GStr (B "v")))].
  eexists. split; [vm_compute; reflexivity|].
  split; [vm_compute; reflexivity|].
  split; [vm_compute; reflexivity|].
  intros render_node. reflexivity.
Qed.
