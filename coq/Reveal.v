(* Reveal.v -- executable model of Stack.Reveal (stack.go: Reveal, stack.reveal,
   stack.revealDescend, stack.revealSingle) written the way the Go code is
   written.

   Go's nested Stacks and Conditions are POINTERS, and Reveal works by
   overwriting slots in place while it still holds older references (`inner`,
   `child`) to the nodes it has just detached.  What a later `inner.reveal()`
   does to a detached wrapper is visible through the children the wrapper
   still shares with the live tree.  The model therefore runs the code on a
   heap of nodes (a Stack node = configuration + slots, a Condition node =
   configuration, keyword, operator, expression slot; a slot holds a plain
   value or a typed reference to a node), exactly as Go does, and is turned
   into a tree-to-tree function by loading a tree into a heap ([load]) and
   reading the tree back from the root afterwards ([table]/[slot_val]).
   That this agrees with the real package on trees is what the correspondence
   family `reveal` tests.

   Outcomes: [Panic] where Go would panic (nowhere reachable, see
   RevealProofs.v), [Unmodelled] when the fuel runs out or the heap is
   ill-formed (proved impossible on loaded trees), and a normal result that
   says whether the call returned or blocked on a mutex it already holds
   (sync.Mutex is not re-entrant).  No proofs in this file. *)
From Stackage Require Import Base Generated StackImpl Values.
Open Scope Z_scope.

(* ---------------------------------------------------------------- heap *)
Inductive slot :=
| SV (v : value)                 (* nil, a leaf, a zero Stack/Condition: no node behind it *)
| SS (a : akind) (p : nat)       (* a Stack (or alias, typed a) whose *stack is node p *)
| SC (a : akind) (p : nat).      (* a Condition (or alias) whose *condition is node p *)

Inductive hnode :=
| HS (c : config) (els : list slot)                               (* *stack: slot 0 = configuration, then the user slots *)
| HC (c : config) (kw : bytes) (op : option oper) (ex : slot).    (* *condition *)

Definition heap := list hnode.

(* load a tree: children first, so every reference points to a smaller index *)
Fixpoint load (v : value) (h : heap) : slot * heap :=
  match v with
  | VStack a c els =>
      let '(ss, h1) :=
        (fix go (l : list value) (h : heap) : list slot * heap :=
           match l with
           | [] => ([], h)
           | x :: t => let '(s, h') := load x h in
                       let '(ss, h'') := go t h' in (s :: ss, h'')
           end) els h in
      (SS a (length h1), h1 ++ [HS c ss])
  | VCond a c kw op ex =>
      let '(s, h1) := load ex h in
      (SC a (length h1), h1 ++ [HC c kw op s])
  | v => (SV v, h)
  end.

(* read trees back: table h = the tree of every node, built in index order
   (a reference to a node that is not smaller reads as nil; loaded heaps and
   everything reveal makes of them never contain one) *)
Definition slot_val (tbl : list value) (s : slot) : value :=
  match s with
  | SV v => v
  | SS a p => match nth_error tbl p with Some (VStack _ c els) => VStack a c els | _ => VNil end
  | SC a p => match nth_error tbl p with Some (VCond _ c kw op ex) => VCond a c kw op ex | _ => VNil end
  end.
Definition node_val (tbl : list value) (n : hnode) : value :=
  match n with
  | HS c els => VStack Native c (map (slot_val tbl) els)
  | HC c kw op ex => VCond Native c kw op (slot_val tbl ex)
  end.
Fixpoint build (h : heap) (tbl : list value) : list value :=
  match h with
  | [] => tbl
  | n :: h' => build h' (tbl ++ [node_val tbl n])
  end.
Definition table (h : heap) : list value := build h [].

(* ---------------------------------------------------------------- state *)
Record state := mkSt {
  hp : heap;
  held : list nat;               (* mutexes currently held (by this, the only, goroutine) *)
  evs : list (bool * nat)        (* (true,p) acquired / (false,p) released, oldest first *)
}.

Inductive mres (A : Type) :=
| MOk (a : A) (s : state)
| MBlock (s : state)             (* mutex.Lock() on a mutex this goroutine holds: blocks for ever *)
| MPanic
| MStuck.                        (* out of fuel / ill-formed heap *)
Arguments MOk {A} a s.
Arguments MBlock {A} s.
Arguments MPanic {A}.
Arguments MStuck {A}.

Definition M (A : Type) := state -> mres A.
Definition ret {A} (a : A) : M A := fun s => MOk a s.
Definition mbind {A B} (m : M A) (f : A -> M B) : M B :=
  fun s => match m s with
           | MOk a s' => f a s'
           | MBlock s' => MBlock s'
           | MPanic => MPanic
           | MStuck => MStuck
           end.
Notation "'let*' x ':=' m 'in' k" := (mbind m (fun x => k)) (at level 200, x pattern, m at level 100, k at level 200).
Definition stuck {A} : M A := fun _ => MStuck.
Definition mpanic {A} : M A := fun _ => MPanic.

Definition get_stack (p : nat) : M (config * list slot) :=
  fun s => match nth_error (hp s) p with Some (HS c els) => MOk (c, els) s | _ => MStuck end.
Definition get_cond (p : nat) : M (config * bytes * option oper * slot) :=
  fun s => match nth_error (hp s) p with Some (HC c kw op ex) => MOk (c, kw, op, ex) s | _ => MStuck end.
Definition put_node (p : nat) (n : hnode) : M unit :=
  fun s => MOk tt (mkSt (set_nth p n (hp s)) (held s) (evs s)).

(* ------------------------------------------------- helpers of stack.go *)
Definition positive (c : config) (f : N) : bool := g_flag_positive (c_opt c) f.

Definition memb (p : nat) (l : list nat) : bool := existsb (Nat.eqb p) l.
Fixpoint delb (p : nat) (l : list nat) : list nat :=
  match l with [] => [] | q :: t => if Nat.eqb p q then t else q :: delb p t end.

(* stack.lock / stack.unlock: nothing unless SetMutex was called *)
Definition lock (p : nat) : M unit :=
  let* (c, _) := get_stack p in
  if c_mtx c then
    fun s => if memb p (held s) then MBlock s
             else MOk tt (mkSt (hp s) (p :: held s) (evs s ++ [(true, p)]))
  else ret tt.
Definition unlock (p : nat) : M unit :=
  let* (c, _) := get_stack p in
  if c_mtx c then
    fun s => MOk tt (mkSt (hp s) (delb p (held s)) (evs s ++ [(false, p)]))
  else ret tt.

(* a nil interface in a slot *)
Definition notnil (s : slot) : bool := match s with SV VNil => false | _ => true end.

(* stack.index(i) on the user slots [els] (raw slice position k >= 1 is
   els[k-1]; position 0 is the configuration).  Ok None = (nil, _, false).
   Lengths are not wrapped (a slice cannot be that long); i is a loop counter
   or the constant 0 here.  [index_sel] is the arithmetic of the function;
   RevealProofs.index_sel_translation shows it is what the translator
   regenerates from stack.index (Generated.g_index) for 64-bit values. *)
Definition index_sel (c : config) (L i : Z) : option Z :=
  if i <? 0 then
    (if positive c c_negidx && (- L <=? i) then Some (g_factorNegIndex i L) else None)
  else if L - 1 <? i then
    (if positive c c_fwdidx then Some L else None)
  else Some (i + 1).

Definition index (c : config) (els : list slot) (i : Z) : res (option slot) :=
  let L := zlen els in
  if 0 <? L then
    match index_sel c L i with
    | None => Ok None
    | Some k =>
        if k <? 0 then Panic                    (* r[k], k < 0 *)
        else if k <? 1 then Unmodelled          (* r[0] is the configuration record (only a negative i could select it) *)
        else if L <? k then Panic               (* r[k] out of range *)
        else match nth_error els (Z.to_nat (k - 1)) with
             | Some s => Ok (if notnil s then Some s else None)
             | None => Panic
             end
    end
  else Ok None.

Definition lift {A} (r : res A) : M A :=
  fun s => match r with Ok x => MOk x s | Panic => MPanic | Unmodelled => MStuck end.

(* stack.replace(x, i): bounds 0 <= i < ulen, then ( *r)[i+1] = x *)
Definition replace (r : nat) (x : slot) (i : Z) : M unit :=
  let* (c, els) := get_stack r in
  if (0 <=? i) && (i <? zlen els) then put_node r (HS c (set_nth (Z.to_nat i) x els))
  else ret tt.

(* child.(Interface): only the native Stack and Condition types have the
   method set; the harness' alias types (type T stackage.Stack) do not *)
Definition is_interface (s : slot) : bool :=
  match s with
  | SS Native _ | SC Native _ => true
  | SV (VZeroStack Native) | SV (VZeroCond Native) => true
  | _ => false
  end.

(* assert.IsParen() on such a value: getState(parens), false for a zero
   instance (IsInit fails).  IsInit holds for every Stack/Condition NODE:
   a non-zero Stack has its configuration slot, a non-zero Condition was made
   by initCondition (cfg.typ == cond); VZeroStack/VZeroCond are the
   uninitialised ones. *)
Definition slot_is_paren (s : slot) : M bool :=
  match s with
  | SS _ p => let* (c, _) := get_stack p in ret (positive c c_parens)
  | SC _ p => let* (c, _, _, _) := get_cond p in ret (positive c c_parens)
  | SV _ => ret false
  end.

(* Condition.SetExpression(inner) with inner a (converted, native) Stack:
   IsInit, not read-only, then assertConditionExpressionValue ->
   defaultAssertionExpressionHandler (refused under no-nesting) and the
   error check *)
Definition set_expression (p : nat) (x : slot) : M unit :=
  let* (c, kw, op, ex) := get_cond p in
  if negb (positive c c_ronly) then
    if negb (positive c c_nnest) then
      match c_err c with
      | None => put_node p (HC c kw op x)
      | Some _ => ret tt
      end
    else ret tt
  else ret tt.

(* ------------------------------------------------- the three helpers,
   parameterised by the recursive call [rec] = stack.reveal on a node *)

(* func (r *stack) revealSingle(idx int) *)
Definition reveal_single (rec : nat -> M unit) (r : nat) (idx : Z) : M unit :=
  let* (c, els) := get_stack r in
  let* sl := lift (index c els idx) in
  match sl with
  | Some (SC _ p) =>                         (* conditionTypeAliasConverter(slice) *)
      let* (_, _, _, ex) := get_cond p in    (* c.Expression() *)
      match ex with
      | SS _ q =>                            (* stackTypeAliasConverter(c.Expression()) *)
          let* _ := rec q in
          set_expression p (SS Native q)     (* c.SetExpression(inner): inner is the converted, native Stack *)
      | _ => ret tt
      end
  | Some (SS _ q) => rec q                   (* a stack: recurse *)
  | _ => ret tt
  end.

(* func (r *stack) revealDescend(inner Stack, idx int); [inner] is the
   converted Stack: node q *)
Definition reveal_descend (rec : nat -> M unit) (r : nat) (q : nat) (idx : Z) : M unit :=
  let* (ci, eli) := get_stack q in
  let* updated :=
    if negb (c_typ ci =? c_not)%N then
      if zlen eli =? 1 then
        (* case 1: child, _, _ := inner.index(0) *)
        let* child := lift (index ci eli 0) in
        match child with
        | Some ch =>
            if is_interface ch then
              let* chp := slot_is_paren ch in
              if negb chp && negb (positive ci c_parens) then
                let* _ := reveal_single rec r 0 in (* on the RECEIVER, index 0 *)
                ret (Some ch)                (* updated = child (the reference fetched above) *)
              else ret None
            else ret None
        | None => ret None
        end
      else
        (* default: *)
        let* _ := rec q in
        ret (Some (SS Native q))             (* updated = inner *)
    else ret None in
  (* err is always nil *)
  let* _ := match updated with
            | Some x => replace r x idx      (* if updated != nil { r.replace(updated, idx) } *)
            | None => ret tt
            end in
  rec q.                                     (* second pass *)

(* the loop of stack.reveal: for i := 0; i < r.len() && err == nil; i++.
   r.len() is the raw length (user slots + 1) and is read again on every
   iteration; [n] bounds the number of iterations. *)
Fixpoint reveal_loop (rec : nat -> M unit) (r : nat) (n : nat) (i : Z) : M unit :=
  match n with
  | O => stuck
  | S n' =>
      let* (c, els) := get_stack r in
      if i <? 1 + zlen els then
        let* sl := lift (index c els i) in
        let* _ := match sl with
                  | Some (SS _ q) =>         (* stackTypeAliasConverter(sl) succeeded *)
                      let* (_, elo) := get_stack q in
                      if 0 <? zlen elo       (* outer.Len() > 0 *)
                      then reveal_descend rec r q i
                      else ret tt
                  | _ => ret tt
                  end in
        reveal_loop rec r n' (i + 1)
      else ret tt
  end.

(* func (r *stack) reveal() *)
Definition reveal_body (rec : nat -> M unit) (r : nat) : M unit :=
  let* _ := lock r in
  let* (_, els) := get_stack r in
  let* _ := reveal_loop rec r (S (S (length els))) 0 in
  unlock r.                                  (* deferred *)

Fixpoint reveal (fuel : nat) (r : nat) : M unit :=
  match fuel with
  | O => stuck
  | S f => reveal_body (reveal f) r
  end.

(* ---------------------------------------------------------------- top *)
Inductive outcome :=
| Returned (t : value) (locks : list (bool * bytes))   (* the receiver afterwards; lock events by node ID *)
| Blocked (locks : list (bool * bytes)).               (* the call never returns *)

Definition node_id (h : heap) (p : nat) : bytes :=
  match nth_error h p with
  | Some (HS c _) => c_id c
  | Some (HC c _ _ _) => c_id c
  | None => []
  end.
Definition ev_ids (h : heap) (l : list (bool * nat)) : list (bool * bytes) :=
  map (fun e => (fst e, node_id h (snd e))) l.

(* the state after running stack.reveal on the root of a loaded tree *)
Definition run_root (t : value) : slot * mres unit :=
  let '(root, h) := load t [] in
  (root,
   match root with
   | SS _ p => reveal (S p) p (mkSt h [] [])
   | _ => MStuck
   end).

(* func (r Stack) Reveal() Stack *)
Definition Reveal (t : value) : res outcome :=
  match t with
  | VStack _ c _ =>
      (* r.IsInit() holds for an initialised Stack *)
      if negb (positive c c_ronly) then
        match run_root t with
        | (root, MOk _ s) => Ok (Returned (slot_val (table (hp s)) root) (ev_ids (hp s) (evs s)))
        | (_, MBlock s) => Ok (Blocked (ev_ids (hp s) (evs s)))
        | (_, MPanic) => Panic
        | (_, MStuck) => Unmodelled
        end
      else Ok (Returned t [])
  | _ => Ok (Returned t [])      (* a zero Stack: returned as is *)
  end.
