(* DefragSpecCorr.v -- specification-side evaluation of recorded Defrag cases
   (family defrag) and the classification of inputs that fall under the known
   findings of C19.  Independent of Generated.v and of the model (Defrag.v),
   so the specification stays usable as the oracle when those break.
   Executable definitions only. *)
From Stackage Require Import Base Values DefragSpec.
Open Scope Z_scope.

(* one recorded case: the arguments of Defrag(max...), the tree it was called
   on, what Len / Index / Err showed afterwards on every node, and whether the
   call panicked *)
Record dcase := MkCase { d_args : list Z; d_in : value; d_obs : obs; d_panic : bool }.

(* short-hands used by the harness for the bulk of its cases (flat native
   stacks of int leaves with a default configuration): 0 stands for nil, any
   other number z for the leaf int(z) *)
Definition zval (z : Z) : value := if z =? 0 then VNil else VLeaf (GInt 0 z).
Definition fS (k opt : N) (p : list Z) : value :=
  VStack Native (cfgS k opt [] [] [] false 0) (map zval p).
Definition zobs (z : Z) : obs := if z =? 0 then ONil else OLeaf (GInt 0 z).
Definition oS (errnil : bool) (p : list Z) : obs := OStack errnil (map zobs p).

Fixpoint nonzero_from {A} (f : A -> N) (i : N) (l : list A) : list (N * N) :=
  match l with
  | [] => []
  | x :: t => let v := f x in
              if (v =? 0)%N then nonzero_from f (i + 1)%N t else (i, v) :: nonzero_from f (i + 1)%N t
  end.
Definition verdicts {A} (f : A -> N) (l : list A) : list (N * N) := nonzero_from f 0%N l.

Definition spec_ok (c : dcase) : bool :=
  negb (d_panic c) && meets (scan_limit (d_args c)) (d_in c) (d_obs c).

(* 0 = the property holds on this case, 2 = it does not *)
Definition dcheck_spec (c : dcase) : N := if spec_ok c then 0%N else 2%N.

(* ---- known findings ----
   Codes (known_findings.json, family defrag):
     1  C19/defrag-truncation       verifyImplode: truncation point 2*imax-len-3
                                    differs from the number of non-nil elements, or
                                    (forward indices on, last element not nil) a
                                    spurious error is reported and nothing is cut
     2  C19/defrag-accumulated-gap  implode: every run is shorter than the limit but
                                    at least `limit` nil elements precede the last
                                    non-nil one
     3  C19/defrag-late-first-nil   defrag: the first nil element sits at a position
                                    >= limit, nothing is done
     4  C19/defrag-cond-only-nesting Stack.Defrag: a Stack whose elements include no
                                    Stack is not searched for Conditions holding one
   All four require the hypothesis of the property (every run shorter than the
   limit) on the node in question; 0 = none applies. *)
Definition fwd_on (c : config) : bool := N.testbit (c_opt c) 5.   (* option bit 32 *)

Definition list_class (m : Z) (fwd : bool) (els : list value) : N :=
  if negb (Z.of_nat (vmax_run els) <? m) then 0%N
  else
    match first_nil value is_nil els with
    | None => 0%N
    | Some s =>
        if m <=? Z.of_nat s then 3%N
        else if m <=? Z.of_nat (gap value is_nil els) then 2%N
        else if (fwd && last_set value is_nil els)
                || negb (trunc value is_nil els =? zlen (vnonnil els)) then 1%N
        else 0%N
    end.

(* the element is a Stack or Stack alias (what IsNesting reports, C13) *)
Definition stacky (v : value) : bool :=
  match v with
  | VStack _ _ _ => true
  | VZeroStack Native => true
  | _ => false
  end.

(* a Condition whose expression is a Stack that the property wants changed *)
Definition cond_needs (v : value) : bool :=
  match v with
  | VCond _ _ _ _ ex =>
      match ex with
      | VStack _ _ _ => negb (obs_eqb (obs_of ex) (obs_of (spec_defrag ex)))
      | _ => false
      end
  | _ => false
  end.

Fixpoint kf_tree (m : Z) (v : value) : N :=
  match v with
  | VStack _ c els =>
      if read_only c then 0%N
      else
        let k := list_class m (fwd_on c) els in
        if negb (k =? 0)%N then k
        else if negb (existsb stacky els) && existsb cond_needs els then 4%N
        else (fix go (l : list value) : N :=
                match l with
                | [] => 0%N
                | x :: t => let k := kf_tree m x in if negb (k =? 0)%N then k else go t
                end) els
  | VCond _ _ _ _ ex =>
      match ex with
      | VStack _ _ _ => kf_tree m ex
      | _ => 0%N
      end
  | _ => 0%N
  end.

Definition dkf (c : dcase) : N := kf_tree (scan_limit (d_args c)) (d_in c).
