(* Base.v -- shared vocabulary: byte strings, Go int wrap-around, the result
   type of translated fragments, small list helpers.  No proofs about the
   stackage model live here. *)
From Coq.Strings Require Export String.
From Coq Require Export List ZArith NArith Bool Lia.
From Coq.Strings Require Export Byte.
Export ListNotations.

Definition bytes := list byte.
Definition B (s : string) : bytes := list_byte_of_string s.
Arguments B s%string_scope.
Definition byte_of_N_tot (n : N) : byte :=
  match Byte.of_N n with Some b => b | None => x00 end.
Definition L (l : list N) : bytes := map byte_of_N_tot l.

Fixpoint list_eqb {A} (e : A -> A -> bool) (a b : list A) : bool :=
  match a, b with
  | [], [] => true
  | x :: a', y :: b' => e x y && list_eqb e a' b'
  | _, _ => false
  end.
Definition bytes_eqb : bytes -> bytes -> bool := list_eqb Byte.eqb.

Lemma list_eqb_spec {A} (e : A -> A -> bool)
  (He : forall x y, e x y = true <-> x = y) :
  forall a b, list_eqb e a b = true <-> a = b.
Proof.
  induction a as [|x a IH]; destruct b as [|y b]; simpl; split; intro H;
    try reflexivity; try discriminate.
  - apply andb_true_iff in H as [H1 H2]. apply He in H1. apply IH in H2. congruence.
  - inversion H; subst. apply andb_true_iff; split; [apply He | apply IH]; reflexivity.
Qed.

Lemma byte_eqb_spec x y : Byte.eqb x y = true <-> x = y.
Proof. split; [apply Byte.byte_dec_bl | apply Byte.byte_dec_lb]. Qed.

Lemma bytes_eqb_spec a b : bytes_eqb a b = true <-> a = b.
Proof. apply list_eqb_spec, byte_eqb_spec. Qed.

(* Go's int is 64-bit two's complement on the platforms this is run on. *)
Definition two63 : Z := 9223372036854775808.
Definition two64 : Z := 18446744073709551616.
Definition wrap64 (z : Z) : Z := ((z + two63) mod two64 - two63)%Z.
Definition in_i64 (z : Z) : Prop := (- two63 <= z < two63)%Z.

Lemma wrap64_id z : in_i64 z -> wrap64 z = z.
Proof.
  unfold in_i64, wrap64, two63, two64. intros H.
  rewrite Z.mod_small; lia.
Qed.

Lemma wrap64_range z : in_i64 (wrap64 z).
Proof.
  unfold in_i64, wrap64, two63, two64.
  pose proof (Z.mod_pos_bound (z + 9223372036854775808) 18446744073709551616). lia.
Qed.

(* Result of a translated function fragment: either it ran to a return
   (TRet) or it reached statement number k that the translator does not
   interpret (TCut k), in both cases with the current values of the tracked
   integer and boolean variables. *)
Inductive tres :=
| TRet (zs : list Z) (bs : list bool)
| TCut (k : nat) (zs : list Z) (bs : list bool).

(* list helpers used by several models *)
Fixpoint set_nth {A} (n : nat) (x : A) (l : list A) : list A :=
  match l, n with
  | [], _ => []
  | _ :: t, O => x :: t
  | h :: t, S n' => h :: set_nth n' x t
  end.

Fixpoint remove_nth {A} (n : nat) (l : list A) : list A :=
  match l, n with
  | [], _ => []
  | _ :: t, O => t
  | h :: t, S n' => h :: remove_nth n' t
  end.

Definition insert_at {A} (n : nat) (x : A) (l : list A) : list A :=
  firstn n l ++ x :: skipn n l.

Definition zlen {A} (l : list A) : Z := Z.of_nat (length l).

Definition znth {A} (l : list A) (i : Z) : option A :=
  if (i <? 0)%Z then None else nth_error l (Z.to_nat i).
