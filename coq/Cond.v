(* Cond.v -- executable model of the Condition state machine of cond.go
   (with cfg.go's option/encapsulation/error helpers, op.go's operator texts
   and misc.go's getStringer/primitiveStringer/encapValue as far as a
   Condition uses them).

   Written the way the Go code is written: every public method first tests
   IsInit(), then (for mutators) the read-only bit, then calls the private
   method on the embedded pointer; dereferencing the embedded pointer of a
   zero Condition{} and calling a method on the nil Operator interface are
   [Panic]; a validity or presentation policy closure (not part of this
   module, see C14) is [Unmodelled].  Constants, operator texts and the bit
   helpers come from Generated.v, which the translator rewrites from the
   repository on every run.  No proofs in this file. *)
From Stackage Require Import Base Generated StackImpl Values CondOps.
Open Scope Z_scope.

(* *condition: cfg, kw, op, ex.  A Condition is the embedded pointer, nil for
   the zero Condition{}. *)
Record cstate := { s_cfg : config; s_kw : bytes; s_op : option oper; s_ex : value }.
Definition cnd := option cstate.

Definition with_cfg (st : cstate) (c : config) : cstate :=
  {| s_cfg := c; s_kw := s_kw st; s_op := s_op st; s_ex := s_ex st |}.
Definition with_kw (st : cstate) (k : bytes) : cstate :=
  {| s_cfg := s_cfg st; s_kw := k; s_op := s_op st; s_ex := s_ex st |}.
Definition with_op (st : cstate) (o : option oper) : cstate :=
  {| s_cfg := s_cfg st; s_kw := s_kw st; s_op := o; s_ex := s_ex st |}.
Definition with_ex (st : cstate) (x : value) : cstate :=
  {| s_cfg := s_cfg st; s_kw := s_kw st; s_op := s_op st; s_ex := x |}.

(* ---- op.go ---- *)
Fixpoint assocN (n : N) (l : list (N * bytes)) : option bytes :=
  match l with
  | [] => None
  | (k, v) :: t => if (k =? n)%N then Some v else assocN n t
  end.

(* ComparisonOperator.String / userOp.String *)
Definition op_text (o : oper) : bytes :=
  match o with
  | OpBuiltin n => match assocN n t_op_names with Some t => t | None => s_badOp end
  | OpUser t _ => t
  end.
(* ComparisonOperator.Context / userOp.Context *)
Definition op_ctx (o : oper) : bytes :=
  match o with
  | OpBuiltin _ => s_compOpCtx
  | OpUser _ c => c
  end.

(* ---- cfg.go ---- *)
Definition cfg_valid (c : config) : bool := negb (c_typ c =? 0)%N.
Definition cfg_positive (c : config) (x : N) : bool :=
  if cfg_valid c then g_flag_positive (c_opt c) x else false.
Definition cfg_setOpt (c : config) (x : N) : config :=
  if cfg_valid c then set_c_opt c (g_flag_shift (c_opt c) x) else c.
Definition cfg_unsetOpt (c : config) (x : N) : config :=
  if cfg_valid c then set_c_opt c (g_flag_unshift (c_opt c) x) else c.
Definition cfg_toggleOpt (c : config) (x : N) : config :=
  if cfg_valid c then set_c_opt c (g_flag_toggle (c_opt c) x) else c.
Definition cfg_isError (c : config) : bool := match c_err c with Some _ => true | None => false end.

Fixpoint strInSlice (s : bytes) (l : list bytes) : bool :=
  match l with
  | [] => false
  | x :: t => if bytes_eqb s x then true else strInSlice s t
  end.

(* for u := 0; u < len(r.enc); u++ { if found = strInSlice(x0, r.enc[u]); found { break } } *)
Fixpoint enc_has (x0 : bytes) (enc : list (list bytes)) : bool :=
  match enc with
  | [] => false
  | sl :: t => if strInSlice x0 sl then true else enc_has x0 t
  end.

Definition setStringSliceEncapOne (c : config) (x : list bytes) : config :=
  match x with
  | x0 :: _ => if enc_has x0 (c_enc c) then c else set_c_enc c (c_enc c ++ [x])
  | [] => c
  end.

(* for i := 0; i < 2 && !found; i++ { for u ... && !found { found = strInSlice(x[i], r.enc[u]) } } *)
Definition setStringSliceEncapTwo (c : config) (x : list bytes) : config :=
  match x with
  | x0 :: x1 :: _ =>
      let found := if enc_has x0 (c_enc c) then true else enc_has x1 (c_enc c) in
      if found then c else set_c_enc c (c_enc c ++ [x])
  | _ => c
  end.

Definition setStringSliceEncap (c : config) (x : list bytes) : config :=
  match x with
  | [] => c
  | [_] => setStringSliceEncapOne c x
  | _ => setStringSliceEncapTwo c x
  end.

Definition setEncap (c : config) (xs : list encarg) : config :=
  match xs with
  | [] => set_c_enc c []
  | _ => fold_left (fun c x =>
                      match x with
                      | EStr s => setStringSliceEncap c [s]
                      | ESlice l => setStringSliceEncap c l
                      | EOther => c
                      end) xs c
  end.

(* ---- misc.go ---- *)
Definition encap_one (sl : list bytes) (v : bytes) : bytes :=
  match sl with
  | [a] => a ++ v ++ a
  | [a; b] => a ++ v ++ b
  | _ => v
  end.
(* for i := len(enc); i > 0; i-- { sl := enc[i-1]; ... } *)
Definition encapValue (enc : list (list bytes)) (v : bytes) : bytes :=
  match enc with
  | [] => v
  | _ => fold_left (fun v sl => encap_one sl v) (rev enc) v
  end.

Definition s_unsupported : bytes := B "unsupported_primitive_type".

(* primitiveStringer on a value that is neither a Stack nor a stringer *)
Definition primitiveStringer (x : value) : bytes :=
  match x with
  | VLeaf g => match prim_text g with Some t => t | None => s_unsupported end
  | _ => s_unsupported
  end.

(* does a value typed this way have a String method (harness alias types) *)
Definition akind_has_string (a : akind) : bool :=
  match a with Native | AliasValStr | AliasPtrStr => true | AliasVal | AliasPtr => false end.

Section Model.
  (* what String() of a nested Stack / Condition (or alias) value returns:
     the rendering module's business, arbitrary here *)
  Variable render_node : value -> bytes.

  (* getStringer(x): Some text = a String method exists on a non-zero value
     and returns text.  A user Operator (harness type: a struct of its two
     strings) is zero iff both strings are empty. *)
  Definition getStringer (x : value) : option bytes :=
    match x with
    | VNil => None
    | VLeaf (GStringer _ t) => Some t
    | VLeaf (GOper (OpBuiltin n)) => if (n =? 0)%N then None else Some (op_text (OpBuiltin n))
    | VLeaf (GOper (OpUser t c)) => match t, c with [], [] => None | _, _ => Some t end
    | VLeaf _ => None
    | VStack a _ _ => if akind_has_string a then Some (render_node x) else None
    | VCond a _ _ _ _ => if akind_has_string a then Some (render_node x) else None
    | VZeroStack a | VZeroCond a => match a with AliasPtrStr => Some (render_node x) | _ => None end
    end.

  (* ---- cond.go, private methods on *condition ---- *)
  Definition initCondition : cstate :=
    {| s_cfg := cfg0 c_cond; s_kw := []; s_op := None; s_ex := VNil |}.

  Definition positive (st : cstate) (x : N) : bool := cfg_positive (s_cfg st) x.

  Definition setKeyword (st : cstate) (kw : kwarg) : cstate :=
    match kw with
    | KStr s => with_kw st s
    | KStringer t => with_kw st t        (* meth := getStringer(tv); meth != nil *)
    | KOther => st
    end.

  Definition setOperator (st : cstate) (op : option oper) : cstate :=
    match op with
    | None => st
    | Some o => if (0 <? zlen (op_ctx o)) && (0 <? zlen (op_text o)) then with_op st (Some o) else st
    end.

  Definition defaultAssertionExpressionHandler (st : cstate) (x : value) : value :=
    if is_stack x then (if positive st c_nnest then VNil else x) else x.

  Definition assertConditionExpressionValue (st : cstate) (x : value) : value * bool :=
    let X := match x with
             | VLeaf (GStr s) => if 0 <? zlen s then x else VNil
             | _ => defaultAssertionExpressionHandler st x
             end in
    (X, negb (is_nil X) && negb (cfg_isError (s_cfg st))).

  Definition setExpression (st : cstate) (ex : value) : cstate :=
    let '(v, ok) := assertConditionExpressionValue st ex in
    if ok then with_ex st v else st.

  Definition setErr (st : cstate) (e : option N) : cstate := with_cfg st (set_c_err (s_cfg st) e).

  Definition newCondition (kw : kwarg) (op : option oper) (ex : value) : cstate :=
    setExpression (setOperator (setKeyword initCondition kw) op) ex.

  (* the text of the expression value in condition.string: a Stack (alias)
     by its own String, else a stringer by its method, else primitiveStringer *)
  Definition expr_text (x : value) : bytes :=
    if is_stack x then render_node x
    else match getStringer x with
         | Some t => t
         | None => primitiveStringer x
         end.

  (* condition.string: the presentation policy first, then the default
     handler; r.op.String() on a nil interface panics *)
  Definition cond_string (st : cstate) : res bytes :=
    match c_rpf (s_cfg st) with
    | Some _ => Unmodelled
    | None =>
        let raw := expr_text (s_ex st) in
        let val := encapValue (c_enc (s_cfg st)) raw in
        let pad := if cfg_positive (s_cfg st) c_nspad then [] else [x20] in
        match s_op st with
        | None => Panic
        | Some o =>
            let s := s_kw st ++ pad ++ op_text o ++ pad ++ val in
            Ok (if cfg_positive (s_cfg st) c_parens then B "(" ++ pad ++ s ++ pad ++ B ")" else s)
        end
    end.

  (* ---- cond.go, public methods on Condition ---- *)
  Definition IsZero (r : cnd) : bool := match r with None => true | Some _ => false end.
  Definition deref (r : cnd) : res cstate := match r with Some st => Ok st | None => Panic end.
  Definition IsInit (r : cnd) : res bool :=
    if negb (IsZero r) then (do st <- deref r; Ok (c_typ (s_cfg st) =? c_cond)%N) else Ok false.

  (* if r.IsInit() { x = f(r.condition) }; return x *)
  Definition when_init {T} (r : cnd) (dflt : T) (f : cstate -> res T) : res T :=
    do i <- IsInit r;
    if i then (do st <- deref r; f st) else Ok dflt.

  Definition getState (r : cnd) (cf : N) : res bool :=
    when_init r false (fun st => Ok (positive st cf)).

  (* if r.IsInit() { if !r.getState(ronly) { r.condition.f() } }; return r *)
  Definition guarded (r : cnd) (f : cstate -> cstate) : res cnd :=
    when_init r r (fun st =>
      do ro <- getState r c_ronly;
      if negb ro then Ok (Some (f st)) else Ok r).

  Definition SetKeyword (r : cnd) (kw : kwarg) : res cnd := guarded r (fun st => setKeyword st kw).
  Definition SetOperator (r : cnd) (op : option oper) : res cnd := guarded r (fun st => setOperator st op).
  Definition SetExpression (r : cnd) (ex : value) : res cnd := guarded r (fun st => setExpression st ex).
  Definition SetEncap (r : cnd) (xs : list encarg) : res cnd :=
    guarded r (fun st => with_cfg st (setEncap (s_cfg st) xs)).

  Definition SetErr (r : cnd) (e : option N) : res cnd :=
    when_init r r (fun st => Ok (Some (setErr st e))).
  Definition Err (r : cnd) : res (option N) :=
    when_init r None (fun st => Ok (c_err (s_cfg st))).

  Definition setState (r : cnd) (cf : N) (t : option bool) : res cnd :=
    when_init r r (fun st =>
      do ro <- getState r c_ronly;
      if negb ro || (cf =? c_ronly)%N then
        Ok (Some (with_cfg st (match t with
                               | Some true => cfg_setOpt (s_cfg st) cf
                               | Some false => cfg_unsetOpt (s_cfg st) cf
                               | None => cfg_toggleOpt (s_cfg st) cf
                               end)))
      else Ok r).

  Definition SetNoNesting (r : cnd) (t : option bool) : res cnd := setState r c_nnest t.
  Definition SetNoPadding (r : cnd) (t : option bool) : res cnd := setState r c_nspad t.
  Definition SetParen (r : cnd) (t : option bool) : res cnd := setState r c_parens t.

  Definition Keyword (r : cnd) : res bytes := when_init r [] (fun st => Ok (s_kw st)).
  Definition Operator (r : cnd) : res (option oper) := when_init r None (fun st => Ok (s_op st)).
  Definition Expression (r : cnd) : res value := when_init r VNil (fun st => Ok (s_ex st)).

  (* error numbers: 10 instance is nil, 11 keyword zero, 12 operator bogus,
     13 operator nil, 14 expression nil *)
  Definition Valid (r : cnd) : res (option N) :=
    do i <- IsInit r;
    if negb i then Ok (Some 10%N) else
    do st <- deref r;
    match c_vpf (s_cfg st) with
    | Some _ => Unmodelled
    | None =>
        do kw <- Keyword r;
        if zlen kw =? 0 then Ok (Some 11%N) else
        do cop <- Operator r;
        let ex_check := (do ex <- Expression r; if is_nil ex then Ok (Some 14%N) else Ok None) in
        match cop with
        | Some (OpBuiltin n) =>
            if negb ((1 <=? Z.of_N n) && (Z.of_N n <=? 6)) then Ok (Some 12%N) else ex_check
        | Some (OpUser _ _) => ex_check
        | None => Ok (Some 13%N)
        end
    end.

  Definition StringOf (r : cnd) : res bytes :=
    do v <- Valid r;
    match v with
    | None => (do st <- deref r; cond_string st)
    | Some _ => Ok []
    end.

  Definition CondNew (kw : kwarg) (op : option oper) (ex : value) : res cnd :=
    let c := Some (newCondition kw op ex) in
    do v <- Valid c;
    match v with
    | Some e => SetErr c (Some e)
    | None => Ok c
    end.

  Definition Init : cnd := Some initCondition.

  Definition CanNest (r : cnd) : res bool :=
    when_init r false (fun st => do b <- getState r c_nnest; Ok (negb b)).
  Definition IsNesting (r : cnd) : res bool :=
    when_init r false (fun st => Ok (is_stack (s_ex st))).

  Definition Len (r : cnd) : res Z :=
    do i <- IsInit r;
    if negb i then Ok 0 else
    do ex <- Expression r;
    if is_nil ex then Ok 0 else
    match ex with
    | VStack _ _ els => Ok (zlen els)
    | _ => Ok 1
    end.

  (* ---- histories ---- *)
  Definition step (r : cnd) (o : cop) : res cnd :=
    match o with
    | OCond kw op ex => CondNew kw op ex
    | OInit => Ok Init
    | OSetKeyword kw => SetKeyword r kw
    | OSetOperator op => SetOperator r op
    | OSetExpression ex => SetExpression r ex
    | OSetErr e => SetErr r e
    | OSetNoNesting t => SetNoNesting r t
    | OSetNoPadding t => SetNoPadding r t
    | OSetParen t => SetParen r t
    | OSetEncap xs => SetEncap r xs
    end.

  Definition observe (r : cnd) : res cobs :=
    do kw <- Keyword r;
    do op <- Operator r;
    do ex <- Expression r;
    do v <- Valid r;
    do e <- Err r;
    do s <- StringOf r;
    do cn <- CanNest r;
    do isn <- IsNesting r;
    do n <- Len r;
    Ok {| b_kw := kw; b_op := op; b_ex := ex;
          b_valid := match v with None => true | Some _ => false end;
          b_errnil := match e with None => true | Some _ => false end;
          b_str := SFull s; b_cannest := cn; b_isnesting := isn; b_len := n |}.

  (* run a history from a state, observing after every call *)
  Fixpoint run (r : cnd) (ops : list cop) : res (cnd * list cobs) :=
    match ops with
    | [] => Ok (r, [])
    | o :: ops' =>
        do r' <- step r o;
        do b <- observe r';
        do x <- run r' ops';
        Ok (fst x, b :: snd x)
    end.
End Model.
