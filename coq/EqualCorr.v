(* EqualCorr.v -- model-side evaluation of recorded IsEqual cases: the model
   (with the switches of [current_fixes]) must produce exactly the recorded
   outcome in both directions.  Executable definitions only. *)
From Stackage Require Import Base Generated StackImpl Values EqualBase EqualSpec EqualSpecCorr Equal.
Open Scope Z_scope.

(* 0 = nil error, 1 = an error, 2 = panic, 3 = the model has no verdict *)
Definition outcome (r : res bool) : N :=
  match r with Ok true => 0 | Ok false => 1 | Panic => 2 | Unmodelled => 3 end%N.

Definition model_ok (c : ecase) : bool :=
  (outcome (is_equal current_fixes (e_a c) (e_b c)) =? e_ab c)%N &&
  (if is_receiver (e_b c) then (outcome (is_equal current_fixes (e_b c) (e_a c)) =? e_ba c)%N else true).

Definition check (c : ecase) : N := if model_ok c then 0%N else 1%N.
