(* DefragProofs.v -- lemmas and theorems about the Defrag model (Defrag.v)
   against the vocabulary and the property of DefragSpec.v. *)
From Stackage Require Import Base Values Generated StackImpl Defrag DefragSpec.
Open Scope Z_scope.

(* slices are shorter than 2^61 elements *)
Definition DBnd : Z := 2305843009213693952.

Lemma wrap64_small z : - DBnd <= z <= DBnd -> wrap64 z = z.
Proof. intros H. apply wrap64_id. unfold in_i64, two63, DBnd in *. lia. Qed.

Lemma g_ulen_succ n : 0 <= n < DBnd -> g_ulen (n + 1) = n.
Proof.
  intros H. unfold g_ulen. cbv zeta.
  destruct (Z.eqb_spec (n + 1) 0) as [E|E]; [lia|].
  destruct (Z.eqb_spec (n + 1) 1) as [E1|E1]; cbn [orb].
  - lia.
  - rewrite wrap64_small by (unfold DBnd in *; lia). lia.
Qed.

(* ---- generic list facts ---- *)
Lemma set_nth_app_len {A} (a : list A) x v b : set_nth (length a) v (a ++ x :: b) = a ++ v :: b.
Proof. induction a as [|h a IH]; cbn [length set_nth app]; [reflexivity | rewrite IH; reflexivity]. Qed.

Lemma set_nth_length {A} n (v : A) l : length (set_nth n v l) = length l.
Proof. revert n; induction l as [|h l IH]; intros [|n]; cbn [set_nth length]; auto. Qed.

Lemma nth_error_app_len {A} (a : list A) x b : nth_error (a ++ x :: b) (length a) = Some x.
Proof. induction a as [|h a IH]; cbn [length app nth_error]; auto. Qed.

Lemma repeat_snoc {A} (x : A) n : repeat x n ++ [x] = repeat x (S n).
Proof. induction n as [|n IH]; cbn [repeat app]; [reflexivity | rewrite IH; reflexivity]. Qed.

Lemma repeat_app_cons {A} (x : A) n l : repeat x n ++ x :: l = repeat x (S n) ++ l.
Proof. rewrite <- repeat_snoc, <- app_assoc. reflexivity. Qed.

Section ListLevel.
  Variable V : Type.
  Variable nilv : V.
  Variable isnil : V -> bool.
  Hypothesis Hnil : isnil nilv = true.
  Hypothesis Huniq : forall v, isnil v = true -> v = nilv.

  Notation raw_get := (raw_get V).
  Notation raw_set := (raw_set V).
  Notation index_ok := (index_ok V isnil).
  Notation scan := (scan V isnil).
  Notation implode_loop := (implode_loop V nilv isnil).
  Notation implode := (implode V nilv isnil).
  Notation defrag := (defrag V nilv isnil).
  Notation nonnil := (nonnil V isnil).
  Notation nnil := (nnil V isnil).
  Notation has_nil := (has_nil V isnil).
  Notation has_nonnil := (has_nonnil V isnil).
  Notation first_nil := (first_nil V isnil).
  Notation gap := (gap V isnil).
  Notation last_nonnil := (last_nonnil V isnil).
  Notation imax := (imax V isnil).
  Notation trunc := (trunc V isnil).
  Notation last_set := (last_set V isnil).

  Definition flag (x : V) : Z := if isnil x then 0 else 1.
  Definition flags (l : list V) : list Z := map flag l.

  (* ---- accessors at nat positions ---- *)
  Lemma raw_get_nat r i :
    raw_get r (Z.of_nat i + 1) = match nth_error r i with Some x => Ok x | None => Panic end.
  Proof.
    unfold Defrag.raw_get.
    destruct (Z.ltb_spec (Z.of_nat i + 1) 0); [lia|].
    destruct (Z.eqb_spec (Z.of_nat i + 1) 0); [lia|].
    replace (Z.to_nat (Z.of_nat i + 1 - 1)) with i by lia. reflexivity.
  Qed.

  Lemma raw_set_nat r i v : (i < length r)%nat -> raw_set r (Z.of_nat i + 1) v = Ok (set_nth i v r).
  Proof.
    intros H. unfold Defrag.raw_set.
    destruct (Z.ltb_spec (Z.of_nat i + 1) 0); [lia|].
    destruct (Z.eqb_spec (Z.of_nat i + 1) 0); [lia|].
    replace (Z.to_nat (Z.of_nat i + 1 - 1)) with i by lia.
    destruct (Nat.ltb_spec i (length r)); [reflexivity | lia].
  Qed.

  Lemma pat_set_nat p i v : (i < length p)%nat -> pat_set p (Z.of_nat i) v = Ok (set_nth i v p).
  Proof.
    intros H. unfold pat_set.
    destruct (Z.ltb_spec (Z.of_nat i) 0); [lia|].
    rewrite Nat2Z.id.
    destruct (Nat.ltb_spec i (length p)); [reflexivity | lia].
  Qed.

  Lemma pat_get_nat p i : pat_get p (Z.of_nat i) = match nth_error p i with Some x => Ok x | None => Panic end.
  Proof.
    unfold pat_get. destruct (Z.ltb_spec (Z.of_nat i) 0); [lia|]. rewrite Nat2Z.id. reflexivity.
  Qed.

  (* ---- the public index translation on the positions the scan visits ---- *)
  Lemma rulen_eq els : zlen els < DBnd -> rulen V els = zlen els.
  Proof. intros H. unfold rulen, rlen. apply g_ulen_succ. unfold zlen in *. lia. Qed.

  Lemma index_ok_in els neg fwd i x :
    zlen els < DBnd -> nth_error els i = Some x ->
    index_ok els neg fwd (Z.of_nat i) = Ok (negb (isnil x)).
  Proof.
    intros Hb Hx. assert (Hi : (i < length els)%nat) by (apply nth_error_Some; congruence).
    unfold Defrag.index_ok. rewrite rulen_eq by assumption.
    unfold g_index. cbv zeta. unfold zlen in *.
    replace (0 <? Z.of_nat (length els)) with true by (symmetry; apply Z.ltb_lt; lia).
    replace (Z.of_nat i <? 0) with false by (symmetry; apply Z.ltb_ge; lia).
    rewrite (wrap64_small (Z.of_nat (length els) - 1)) by (unfold DBnd in *; lia).
    replace (Z.of_nat (length els) - 1 <? Z.of_nat i) with false by (symmetry; apply Z.ltb_ge; lia).
    rewrite (wrap64_small (Z.of_nat i + 1)) by (unfold DBnd in *; lia).
    cbv beta iota zeta.
    destruct (Z.eqb_spec (Z.of_nat i + 1) 0); [lia|].
    rewrite raw_get_nat, Hx. reflexivity.
  Qed.

  (* the extra iteration i = ulen *)
  Definition end_ok (fwd : bool) (els : list V) : bool := fwd && last_set els.

  Lemma last_set_nth els :
    last_set els = match nth_error els (length els - 1) with Some x => negb (isnil x) | None => false end.
  Proof.
    unfold DefragSpec.last_set.
    induction els as [|x t IH]; [reflexivity|].
    destruct t as [|y t'].
    - cbn [DefragSpec.last_nonnil length Nat.sub nth_error]. destruct (isnil x); reflexivity.
    - remember (y :: t') as t eqn:Et.
      replace (nth_error (x :: t) (length (x :: t) - 1)) with (nth_error t (length t - 1))
        by (subst t; cbn [length Nat.sub nth_error]; rewrite Nat.sub_0_r; reflexivity).
      rewrite <- IH. cbn [DefragSpec.last_nonnil length].
      destruct (DefragSpec.last_nonnil V isnil t) as [i|]; [reflexivity|].
      destruct (isnil x); [reflexivity|]. subst t. reflexivity.
  Qed.

  Lemma index_ok_end els neg fwd :
    zlen els < DBnd ->
    index_ok els neg fwd (zlen els) = Ok (end_ok fwd els).
  Proof.
    intros Hb. unfold Defrag.index_ok, end_ok. rewrite rulen_eq by assumption.
    unfold g_index. cbv zeta. unfold zlen in *.
    destruct els as [|x0 t0] eqn:E.
    - cbn [length Z.of_nat]. cbv beta iota zeta. rewrite andb_false_r. reflexivity.
    - rewrite <- E in *. assert (Hl : (0 < length els)%nat) by (subst els; cbn [length]; lia).
      replace (0 <? Z.of_nat (length els)) with true by (symmetry; apply Z.ltb_lt; lia).
      replace (Z.of_nat (length els) <? 0) with false by (symmetry; apply Z.ltb_ge; lia).
      rewrite (wrap64_small (Z.of_nat (length els) - 1)) by (unfold DBnd in *; lia).
      replace (Z.of_nat (length els) - 1 <? Z.of_nat (length els)) with true by (symmetry; apply Z.ltb_lt; lia).
      destruct fwd; cbv beta iota zeta; [|reflexivity].
      destruct (Z.eqb_spec (Z.of_nat (length els)) 0); [lia|].
      replace (Z.of_nat (length els)) with (Z.of_nat (length els - 1) + 1) by lia.
      rewrite raw_get_nat, last_set_nth.
      destruct (nth_error els (length els - 1)) eqn:N; [reflexivity|].
      apply nth_error_None in N. lia.
  Qed.

  (* ---- the scan loop of stack.defrag ---- *)
  Definition startk (l : list V) : Z := match first_nil l with Some s => Z.of_nat s | None => -1 end.
  Definition start_of (fwd : bool) (els : list V) : Z :=
    match first_nil els with
    | Some s => Z.of_nat s
    | None => if end_ok fwd els then -1 else zlen els
    end.
  Definition spat_of (fwd : bool) (els : list V) : list Z :=
    flags els ++ [if end_ok fwd els then 1 else 0].

  Lemma first_nil_snoc l x :
    first_nil (l ++ [x]) =
    match first_nil l with Some s => Some s | None => if isnil x then Some (length l) else None end.
  Proof.
    induction l as [|h l IH]; cbn [app DefragSpec.first_nil length].
    - destruct (isnil x); reflexivity.
    - destruct (isnil h); [reflexivity|]. rewrite IH.
      destruct (DefragSpec.first_nil V isnil l); [reflexivity|]. destruct (isnil x); reflexivity.
  Qed.

  Lemma firstn_snoc {A} (l : list A) k x : nth_error l k = Some x -> firstn (S k) l = firstn k l ++ [x].
  Proof.
    revert k; induction l as [|h l IH]; intros [|k] H; cbn in H; try discriminate.
    - inversion H; reflexivity.
    - cbn [firstn app]. f_equal. apply IH; assumption.
  Qed.

  Lemma flags_length l : length (flags l) = length l.
  Proof. apply map_length. Qed.

  Lemma scan_from els neg fwd :
    zlen els < DBnd -> forall j k, (k + j = length els)%nat ->
    scan els neg fwd (seq k (S j)) (startk (firstn k els)) (flags (firstn k els) ++ repeat 0 (S j))
    = Ok (start_of fwd els, spat_of fwd els).
  Proof.
    intros Hb. induction j as [|j IH]; intros k Hk.
    - assert (k = length els) by lia. subst k. rewrite firstn_all.
      cbn [seq Defrag.scan repeat]. fold (zlen els). rewrite index_ok_end by assumption.
      cbn [bind]. unfold start_of, spat_of, startk.
      destruct (end_ok fwd els) eqn:E.
      + unfold zlen. rewrite pat_set_nat by (rewrite app_length, flags_length; cbn [length]; lia).
        cbn [bind].
        pose proof (set_nth_app_len (flags els) 0 1 []) as Hs. rewrite flags_length in Hs. rewrite Hs.
        destruct (DefragSpec.first_nil V isnil els); reflexivity.
      + destruct (DefragSpec.first_nil V isnil els) as [s|].
        * destruct (Z.eqb_spec (Z.of_nat s) (-1)); [lia | reflexivity].
        * reflexivity.
    - destruct (nth_error els k) as [x|] eqn:Hx; [|apply nth_error_None in Hx; lia].
      rewrite <- cons_seq. cbn [Defrag.scan]. rewrite (index_ok_in els neg fwd k x Hb Hx). cbn [bind].
      specialize (IH (S k) ltac:(lia)). rewrite (firstn_snoc els k x Hx) in IH.
      assert (Hlen : length (flags (firstn k els)) = k) by (rewrite flags_length, firstn_length; lia).
      unfold flags in IH. rewrite map_app in IH. cbn [map] in IH. fold (flags (firstn k els)) in IH.
      rewrite <- app_assoc in IH. cbn [app] in IH.
      unfold startk in *. rewrite first_nil_snoc in IH. rewrite firstn_length in IH.
      replace (Nat.min k (length els)) with k in IH by lia.
      unfold flag in IH.
      destruct (isnil x) eqn:Ex; cbn [negb].
      + cbn [repeat] in *.
        destruct (DefragSpec.first_nil V isnil (firstn k els)) as [s|].
        * destruct (Z.eqb_spec (Z.of_nat s) (-1)); [lia | exact IH].
        * exact IH.
      + rewrite pat_set_nat by (rewrite app_length, Hlen; cbn [length repeat]; lia).
        cbn [bind].
        pose proof (set_nth_app_len (flags (firstn k els)) 0 1 (repeat 0 (S j))) as Hs.
        rewrite Hlen in Hs. change (0 :: repeat 0 (S j)) with (repeat 0 (S (S j))) in Hs. rewrite Hs.
        destruct (DefragSpec.first_nil V isnil (firstn k els)) as [s|]; exact IH.
  Qed.

  Lemma scan_all els neg fwd :
    zlen els < DBnd ->
    scan els neg fwd (seq 0 (S (length els))) (-1) (repeat 0 (S (length els)))
    = Ok (start_of fwd els, spat_of fwd els).
  Proof.
    intros Hb. exact (scan_from els neg fwd Hb (length els) 0%nat eq_refl).
  Qed.

  (* ---- the loop of stack.implode ----
     Abstract view of a loop state: the slice is A ++ K nils ++ R, the write
     position is |A|, the read position is the head of R, and ct = K counts
     the nils in between (the ACCUMULATED gap).  [cscan] says where the loop
     ends, [marks] what it writes into tpat, [need] how many iterations it
     takes. *)
  Fixpoint cscan (m : Z) (K : nat) (R : list V) : list V * nat * list V :=
    match R with
    | [] => ([], K, [])
    | x :: R' => if m <=? Z.of_nat K then ([], K, R)
                 else if isnil x then cscan m (S K) R'
                 else let '(a, c, r) := cscan m K R' in (x :: a, c, r)
    end.
  Fixpoint marks (m : Z) (K : nat) (R : list V) : list Z :=
    match R with
    | [] => []
    | x :: R' => if m <=? Z.of_nat K then repeat 0 (length R)
                 else if isnil x then 0 :: marks m (S K) R' else 1 :: marks m K R'
    end.
  Fixpoint need (m : Z) (K : nat) (R : list V) : nat :=
    match R with
    | [] => 1
    | x :: R' => if m <=? Z.of_nat K then 1
                 else if isnil x then S (need m (S K) R') else S (K + need m K R')
    end.
  Definition cres (A : list V) (m : Z) (K : nat) (R : list V) : list V :=
    let '(a, c, r) := cscan m K R in A ++ a ++ repeat nilv c ++ r.

  Lemma loop_stop f m r a K tp :
    zlen r < DBnd -> (m <= Z.of_nat K \/ zlen r <= Z.of_nat a + Z.of_nat K) ->
    implode_loop (S f) m r (Z.of_nat a) (Z.of_nat K) tp = Ok (r, tp).
  Proof.
    intros Hb H. cbn [Defrag.implode_loop]. rewrite rulen_eq by assumption.
    destruct H as [H|H].
    - replace (m <=? Z.of_nat K) with true by (symmetry; apply Z.leb_le; lia). reflexivity.
    - replace (zlen r <=? Z.of_nat a + Z.of_nat K) with true by (symmetry; apply Z.leb_le; lia).
      rewrite orb_true_r. reflexivity.
  Qed.

  Lemma nth_gap A K R c :
    (c < K)%nat -> nth_error (A ++ repeat nilv K ++ R) (length A + c) = Some nilv.
  Proof.
    intros H. rewrite nth_error_app2 by lia. replace (length A + c - length A)%nat with c by lia.
    rewrite nth_error_app1 by (rewrite repeat_length; lia). apply nth_error_repeat; assumption.
  Qed.

  Lemma rescan m A K R tp :
    zlen (A ++ repeat nilv K ++ R) < DBnd ->
    forall j c f, (c + j <= K)%nat -> Z.of_nat (c + j) <= m ->
    implode_loop (j + f) m (A ++ repeat nilv K ++ R) (Z.of_nat (length A)) (Z.of_nat c) tp
    = implode_loop f m (A ++ repeat nilv K ++ R) (Z.of_nat (length A)) (Z.of_nat (c + j)) tp.
  Proof.
    intros Hb. induction j as [|j IH]; intros c f Hc Hm.
    - rewrite Nat.add_0_r. reflexivity.
    - cbn [Nat.add Defrag.implode_loop]. rewrite rulen_eq by assumption.
      replace (m <=? Z.of_nat c) with false by (symmetry; apply Z.leb_gt; lia).
      replace (zlen (A ++ repeat nilv K ++ R) <=? Z.of_nat (length A) + Z.of_nat c) with false
        by (symmetry; apply Z.leb_gt; unfold zlen; rewrite !app_length, repeat_length; lia).
      cbn [orb].
      replace (Z.of_nat (length A) + Z.of_nat c + 1) with (Z.of_nat (length A + c) + 1) by lia.
      rewrite raw_get_nat, nth_gap by lia. cbn [bind]. rewrite Hnil.
      replace (Z.of_nat c + 1) with (Z.of_nat (S c)) by lia.
      rewrite IH by lia. f_equal. lia.
  Qed.

  Lemma loop_main m :
    forall R A K Pz Sz f,
      zlen (A ++ repeat nilv K ++ R) < DBnd ->
      (K = 0%nat -> match R with x :: _ => isnil x = true | [] => True end) ->
      length Pz = (length A + K)%nat ->
      (need m K R <= f)%nat ->
      implode_loop f m (A ++ repeat nilv K ++ R) (Z.of_nat (length A)) (Z.of_nat K)
                   (Pz ++ repeat 0 (length R) ++ Sz)
      = Ok (cres A m K R, Pz ++ marks m K R ++ Sz).
  Proof.
    induction R as [|x R' IH]; intros A K Pz Sz f Hb H0 HP Hf.
    - cbn [need] in Hf. destruct f as [|f]; [lia|].
      rewrite loop_stop; [|assumption|right; unfold zlen; rewrite !app_length, repeat_length; cbn [length]; lia].
      unfold cres. cbn [cscan marks repeat length app]. reflexivity.
    - cbn [need] in Hf. unfold cres. cbn [cscan marks].
      destruct (Z.leb_spec m (Z.of_nat K)) as [Hm|Hm].
      + destruct f as [|f]; [lia|].
        rewrite loop_stop; [|assumption|left; assumption]. reflexivity.
      + destruct f as [|f]; [destruct (isnil x); lia|].
        cbn [Defrag.implode_loop]. rewrite rulen_eq by assumption.
        replace (m <=? Z.of_nat K) with false by (symmetry; apply Z.leb_gt; lia).
        replace (zlen (A ++ repeat nilv K ++ x :: R') <=? Z.of_nat (length A) + Z.of_nat K) with false
          by (symmetry; apply Z.leb_gt; unfold zlen; rewrite !app_length, repeat_length; cbn [length]; lia).
        cbn [orb].
        replace (Z.of_nat (length A) + Z.of_nat K + 1) with (Z.of_nat (length A + K) + 1) by lia.
        rewrite raw_get_nat.
        assert (Hx : nth_error (A ++ repeat nilv K ++ x :: R') (length A + K) = Some x).
        { rewrite app_assoc. rewrite <- (repeat_length nilv K) at 2. rewrite <- app_length.
          apply nth_error_app_len. }
        rewrite Hx. cbn [bind].
        destruct (isnil x) eqn:Ex.
        * (* a nil: the gap grows *)
          apply Huniq in Ex. subst x.
          replace (Z.of_nat K + 1) with (Z.of_nat (S K)) by lia.
          rewrite repeat_app_cons in *.
          specialize (IH A (S K) (Pz ++ [0]) Sz f Hb ltac:(discriminate)
                         ltac:(rewrite app_length; cbn [length]; lia) ltac:(lia)).
          cbn [length]. change (repeat 0 (S (length R'))) with (0 :: repeat 0 (length R')).
          rewrite <- app_assoc in IH. cbn [app] in IH. cbn [app].
          rewrite IH. unfold cres. rewrite <- app_assoc. reflexivity.
        * (* an element: it moves to the write position *)
          destruct K as [|K0]; [specialize (H0 eq_refl); cbn in H0; congruence|].
          assert (HlenA : (length A < length (A ++ repeat nilv (S K0) ++ x :: R'))%nat)
            by (rewrite !app_length, repeat_length; cbn [length]; lia).
          rewrite raw_set_nat by assumption. cbn [bind].
          replace (Z.of_nat (length A) + Z.of_nat (S K0)) with (Z.of_nat (length A + S K0)) by lia.
          rewrite pat_set_nat by (rewrite !app_length, repeat_length; cbn [length]; lia).
          cbn [bind].
          change (repeat nilv (S K0)) with (nilv :: repeat nilv K0) at 1. cbn [app].
          rewrite set_nth_app_len.
          assert (E1 : A ++ x :: repeat nilv K0 ++ x :: R' = (A ++ x :: repeat nilv K0) ++ x :: R')
            by (rewrite <- app_assoc; reflexivity).
          rewrite E1.
          assert (HL : length (A ++ x :: repeat nilv K0) = (length A + S K0)%nat)
            by (rewrite app_length; cbn [length]; rewrite repeat_length; lia).
          rewrite raw_set_nat by (rewrite app_length, HL; cbn [length]; lia).
          cbn [bind].
          pose proof (set_nth_app_len (A ++ x :: repeat nilv K0) x nilv R') as Hr. rewrite HL in Hr.
          rewrite Hr.
          pose proof (set_nth_app_len Pz 0 1 (repeat 0 (length R') ++ Sz)) as Hs.
          rewrite HP in Hs. cbn [length].
          change (repeat 0 (S (length R'))) with (0 :: repeat 0 (length R')). cbn [app]. rewrite Hs.
          (* the slice is now (A ++ [x]) ++ K nils ++ R', ct = 0 *)
          assert (E2 : (A ++ x :: repeat nilv K0) ++ nilv :: R' = (A ++ [x]) ++ repeat nilv (S K0) ++ R').
          { rewrite <- !app_assoc. cbn [app]. rewrite repeat_app_cons. reflexivity. }
          rewrite E2.
          assert (Hb' : zlen ((A ++ [x]) ++ repeat nilv (S K0) ++ R') < DBnd).
          { unfold zlen in *. rewrite !app_length, repeat_length in *. cbn [length] in *. lia. }
          replace (Z.of_nat (length A) + 1) with (Z.of_nat (length (A ++ [x])))
            by (rewrite app_length; cbn [length]; lia).
          assert (Hf' : exists f', f = (S K0 + f')%nat /\ (need m (S K0) R' <= f')%nat)
            by (exists (f - S K0)%nat; lia).
          destruct Hf' as (f' & -> & Hf').
          pose proof (rescan m (A ++ [x]) (S K0) R' (Pz ++ 1 :: repeat 0 (length R') ++ Sz) Hb'
                        (S K0) 0%nat f' ltac:(lia) ltac:(lia)) as Hre.
          change (Z.of_nat 0) with 0 in Hre. change (0 + S K0)%nat with (S K0) in Hre.
          rewrite Hre. clear Hre.
          specialize (IH (A ++ [x]) (S K0) (Pz ++ [1]) Sz f' Hb' ltac:(discriminate)
                         ltac:(rewrite !app_length; cbn [length]; lia) Hf').
          replace ((Pz ++ [1]) ++ repeat 0 (length R') ++ Sz)
            with (Pz ++ 1 :: repeat 0 (length R') ++ Sz) in IH by (rewrite <- app_assoc; reflexivity).
          replace ((Pz ++ [1]) ++ marks m (S K0) R' ++ Sz)
            with (Pz ++ 1 :: marks m (S K0) R' ++ Sz) in IH by (rewrite <- app_assoc; reflexivity).
          rewrite IH.
          unfold cres. destruct (cscan m (S K0) R') as [[a c] r]. rewrite <- !app_assoc. reflexivity.
  Qed.

  Lemma need_bound m : forall R K, (need m K R <= 1 + length R * (1 + K + length R))%nat.
  Proof.
    induction R as [|x R IH]; intros K; cbn [need length]; [lia|].
    destruct (m <=? Z.of_nat K); [lia|].
    destruct (isnil x).
    - specialize (IH (S K)). nia.
    - specialize (IH K). nia.
  Qed.

  Lemma cscan_length m : forall R K,
    let '(a, c, r) := cscan m K R in (length a + c + length r = K + length R)%nat.
  Proof.
    induction R as [|x R IH]; intros K; cbn [cscan length]; [lia|].
    destruct (m <=? Z.of_nat K); [cbn [length]; lia|].
    destruct (isnil x).
    - specialize (IH (S K)). destruct (cscan m (S K) R) as [[a c] r]. lia.
    - specialize (IH K). destruct (cscan m K R) as [[a c] r]. cbn [length]. lia.
  Qed.

  Lemma cres_length A m K R : length (cres A m K R) = (length A + K + length R)%nat.
  Proof.
    unfold cres. pose proof (cscan_length m R K) as H. destruct (cscan m K R) as [[a c] r].
    rewrite !app_length, repeat_length. lia.
  Qed.

  Lemma marks_length m : forall R K, length (marks m K R) = length R.
  Proof.
    induction R as [|x R IH]; intros K; cbn [marks length]; [reflexivity|].
    destruct (m <=? Z.of_nat K); [rewrite repeat_length; reflexivity|].
    destruct (isnil x); cbn [length]; rewrite IH; reflexivity.
  Qed.

  (* everything the loop leaves was there before (or is nil) *)
  Lemma cscan_incl m : forall R K,
    let '(a, c, r) := cscan m K R in incl a R /\ incl r R.
  Proof.
    induction R as [|x R IH]; intros K; cbn [cscan].
    - split; apply incl_refl.
    - destruct (m <=? Z.of_nat K); [split; [apply incl_nil_l | apply incl_refl]|].
      destruct (isnil x).
      + specialize (IH (S K)). destruct (cscan m (S K) R) as [[a c] r]. destruct IH.
        split; apply incl_tl; assumption.
      + specialize (IH K). destruct (cscan m K R) as [[a c] r]. destruct IH.
        split; [apply incl_cons; [left; reflexivity | apply incl_tl; assumption] | apply incl_tl; assumption].
  Qed.

  (* ---- the loop of stack.verifyImplode ---- *)
  Fixpoint lastnz (l : list Z) : option nat :=
    match l with
    | [] => None
    | x :: t => match lastnz t with
                | Some i => Some (S i)
                | None => if x =? 0 then None else Some O
                end
    end.

  Lemma lastnz_lt : forall l i, lastnz l = Some i -> (i < length l)%nat.
  Proof.
    induction l as [|x t IH]; intros i H; cbn [lastnz length] in *; [discriminate|].
    destruct (lastnz t) as [j|].
    - inversion H; subst. specialize (IH j eq_refl). lia.
    - destruct (x =? 0); [discriminate|]. inversion H; lia.
  Qed.

  Lemma lastnz_zeros k : lastnz (repeat 0 k) = None.
  Proof. induction k as [|k IH]; cbn [repeat lastnz]; [reflexivity|]. rewrite IH. reflexivity. Qed.

  Lemma lastnz_zeros_app k l : lastnz (repeat 0 k ++ l) = option_map (Nat.add k) (lastnz l).
  Proof.
    induction k as [|k IH]; cbn [repeat app lastnz].
    - destruct (lastnz l); reflexivity.
    - rewrite IH. destruct (lastnz l); reflexivity.
  Qed.

  Lemma lastnz_snoc0 l : lastnz (l ++ [0]) = lastnz l.
  Proof.
    induction l as [|x t IH]; cbn [app lastnz]; [reflexivity|]. rewrite IH. reflexivity.
  Qed.

  Lemma lastnz_flags l : lastnz (flags l) = last_nonnil l.
  Proof.
    induction l as [|x t IH]; cbn [flags map lastnz DefragSpec.last_nonnil]; [reflexivity|].
    fold (flags t). rewrite IH. destruct (DefragSpec.last_nonnil V isnil t); [reflexivity|].
    unfold flag. destruct (isnil x); reflexivity.
  Qed.

  Lemma verify_loop_spec spat tpat :
    forall seg_t seg_s pre_s pre_t lst fail,
      spat = pre_s ++ seg_s -> tpat = pre_t ++ seg_t ->
      length pre_s = length pre_t -> length seg_s = length seg_t ->
      verify_loop (seq (length pre_t) (length seg_t)) spat tpat (Z.of_nat (length pre_t) - 1) lst fail
      = Ok (match lastnz seg_t with
            | Some i => 2 * Z.of_nat (length pre_t + i) - zlen tpat - 1
            | None => lst
            end,
            match seg_t with [] => fail | _ => negb (last seg_s 0 =? last seg_t 0) end).
  Proof.
    induction seg_t as [|t seg_t IH]; intros seg_s pre_s pre_t lst fail Hs Ht Hp Hl.
    - reflexivity.
    - destruct seg_s as [|s seg_s]; [discriminate|].
      cbn [length]. rewrite <- cons_seq. cbn [verify_loop].
      rewrite !pat_get_nat. rewrite Ht, nth_error_app_len. rewrite Hs, <- Hp, nth_error_app_len.
      cbn [bind]. rewrite <- Ht, <- Hs.
      specialize (IH seg_s (pre_s ++ [s]) (pre_t ++ [t])
                     (if negb (t =? 0) then Z.of_nat (length pre_t) - 1 + Z.of_nat (length pre_t) - zlen tpat else lst)
                     (negb (s =? t))).
      rewrite !app_length in IH. cbn [length] in IH.
      replace (length pre_t + 1)%nat with (S (length pre_t)) in IH by lia.
      replace (Z.of_nat (S (length pre_t)) - 1) with (Z.of_nat (length pre_t) - 1 + 1) in IH by lia.
      rewrite Hp.
      rewrite IH;
        [| rewrite <- app_assoc; assumption | rewrite <- app_assoc; assumption | lia | cbn [length] in Hl; lia].
      f_equal. f_equal.
      + cbn [lastnz]. destruct (lastnz seg_t) as [i|].
        * f_equal. lia.
        * destruct (t =? 0); cbn [negb]; [reflexivity|]. lia.
      + destruct seg_t as [|t' seg_t]; destruct seg_s as [|s' seg_s]; try discriminate; reflexivity.
  Qed.

  Lemma verify_implode_spec s0 ss t0 ts :
    length ss = length ts ->
    verify_implode (s0 :: ss) (t0 :: ts)
    = Ok (match lastnz ts with Some i => 2 * Z.of_nat i - zlen ts - 1 | None => -2 end,
          match ts with [] => false | _ => negb (last ss 0 =? last ts 0) end).
  Proof.
    intros Hl. unfold verify_implode.
    replace (length (s0 :: ss) - 1)%nat with (length ss) by (cbn [length]; lia).
    pose proof (verify_loop_spec (s0 :: ss) (t0 :: ts) ts ss [s0] [t0] (-1) false
                  eq_refl eq_refl eq_refl Hl) as H.
    cbn [length] in H. change (Z.of_nat 1 - 1) with 0 in H. rewrite Hl. rewrite H. cbn [bind].
    f_equal. f_equal.
    destruct (lastnz ts) as [i|]; [|reflexivity].
    unfold zlen. cbn [length]. lia.
  Qed.

  (* ---- stack.implode from the state stack.defrag calls it in ---- *)
  Lemma first_nil_split : forall els s, first_nil els = Some s ->
    exists P Q, els = P ++ nilv :: Q /\ length P = s /\ first_nil P = None.
  Proof.
    induction els as [|x t IH]; intros s H; cbn [DefragSpec.first_nil] in H; [discriminate|].
    destruct (isnil x) eqn:Ex.
    - inversion H; subst. apply Huniq in Ex. subst x. exists [], t. repeat split.
    - destruct (DefragSpec.first_nil V isnil t) as [s'|] eqn:E; [|discriminate].
      inversion H; subst. destruct (IH s' eq_refl) as (P & Q & -> & HP & HN).
      exists (x :: P), Q. cbn [app length DefragSpec.first_nil]. rewrite Ex, HN. repeat split. lia.
  Qed.

  Lemma firstn_app_len {A} (a b : list A) : firstn (length a) (a ++ b) = a.
  Proof. induction a as [|h a IH]; cbn [length firstn app]; [destruct b; reflexivity | rewrite IH; reflexivity]. Qed.
  Lemma skipn_app_len {A} (a b : list A) : skipn (length a) (a ++ b) = b.
  Proof. induction a as [|h a IH]; cbn [length skipn app]; [reflexivity | exact IH]. Qed.

  Lemma implode_at_nil m P Q spat :
    zlen (P ++ nilv :: Q) < DBnd -> 0 < m -> length spat = S (length (P ++ nilv :: Q)) ->
    implode (Z.of_nat (length P)) m spat (P ++ nilv :: Q)
    = Ok (cres P m 1 Q, (1 :: repeat 0 (length P)) ++ marks m 1 Q ++ [0]).
  Proof.
    intros Hb Hm Hl. unfold Defrag.implode. rewrite Hl.
    change (pat_set (repeat 0 (S (length (P ++ nilv :: Q)))) 0 1)
      with (Ok (1 :: repeat 0 (length (P ++ nilv :: Q)))).
    cbn [bind].
    assert (Hf : exists f, implode_fuel V (P ++ nilv :: Q) = (1 + f)%nat /\ (need m 1 Q <= f)%nat).
    { exists (implode_fuel V (P ++ nilv :: Q) - 1)%nat. unfold implode_fuel.
      pose proof (need_bound m Q 1) as Hn. rewrite app_length in *. cbn [length] in *. split; nia. }
    destruct Hf as (f & -> & Hf).
    change (P ++ nilv :: Q) with (P ++ repeat nilv 1 ++ Q) in *.
    pose proof (rescan m P 1 Q (1 :: repeat 0 (length (P ++ repeat nilv 1 ++ Q))) Hb 1%nat 0%nat f
                  ltac:(lia) ltac:(lia)) as Hre.
    change (Z.of_nat 0) with 0 in Hre. rewrite Hre. clear Hre. change (0 + 1)%nat with 1%nat.
    replace (1 :: repeat 0 (length (P ++ repeat nilv 1 ++ Q)))
      with ((1 :: repeat 0 (length P)) ++ repeat 0 (length Q) ++ [0]).
    - apply loop_main; try assumption; [discriminate | cbn [length]; rewrite repeat_length; lia].
    - cbn [app]. f_equal. rewrite !app_length. cbn [length repeat].
      change [0] with (repeat 0 1). rewrite <- !repeat_app. f_equal. lia.
  Qed.

  Lemma implode_at_nil' m els P Q spat :
    els = P ++ nilv :: Q -> zlen els < DBnd -> 0 < m -> length spat = S (length els) ->
    implode (Z.of_nat (length P)) m spat els
    = Ok (cres P m 1 Q, (1 :: repeat 0 (length P)) ++ marks m 1 Q ++ [0]).
  Proof. intros ->. apply implode_at_nil. Qed.

  Lemma implode_at_end m els spat :
    zlen els < DBnd -> length spat = S (length els) ->
    implode (zlen els) m spat els = Ok (els, 1 :: repeat 0 (length els)).
  Proof.
    intros Hb Hl. unfold Defrag.implode. rewrite Hl.
    change (pat_set (repeat 0 (S (length els))) 0 1) with (Ok (1 :: repeat 0 (length els))).
    cbn [bind]. unfold implode_fuel. cbn [Nat.mul Nat.add]. unfold zlen at 1.
    change 0 with (Z.of_nat 0) at 1.
    apply loop_stop; [assumption | right; unfold zlen; lia].
  Qed.

  (* ---- stack.defrag in closed form, for EVERY list, limit and option ---- *)
  Definition closed (fwd : bool) (m : Z) (els : list V) : list V * option (option N) :=
    match first_nil els with
    | None => (els, if end_ok fwd els || (m <=? zlen els) then None else Some None)
    | Some s =>
        if m <=? Z.of_nat s then (els, None)
        else
          let P := firstn s els in
          let Q := skipn (S s) els in
          let r1 := cres P m 1 Q in
          let err := end_ok fwd els in
          let lst := match lastnz (repeat 0 s ++ marks m 1 Q ++ [0]) with
                     | Some i => 2 * Z.of_nat i - zlen els - 1
                     | None => -2
                     end in
          if negb err && (0 <=? lst) then (firstn (Z.to_nat lst) r1, Some None)
          else (r1, Some (if err then Some err_defrag else None))
    end.

  Lemma last_snoc_tl {A} (l : list A) e d : l <> [] -> last (tl (l ++ [e])) d = e.
  Proof.
    destruct l as [|h t]; [congruence|]. intros _. cbn [app tl]. apply last_last.
  Qed.

  Theorem defrag_general neg fwd m els :
    zlen els < DBnd -> defrag neg fwd m els = Ok (closed fwd m els).
  Proof.
    intros Hb. unfold Defrag.defrag. rewrite scan_all by assumption. cbn [bind].
    unfold closed, start_of.
    destruct (DefragSpec.first_nil V isnil els) as [s|] eqn:Fn.
    - (* a nil element exists *)
      destruct (Z.eqb_spec (Z.of_nat s) (-1)); [lia|]. cbn [orb].
      destruct (Z.leb_spec m (Z.of_nat s)) as [Hm|Hm]; cbn [negb]; [reflexivity|].
      destruct (first_nil_split els s Fn) as (P & Q & E & HP & HN).
      assert (HlenE : length els = (s + 1 + length Q)%nat)
        by (rewrite E, app_length; cbn [length]; lia).
      assert (F1 : firstn s els = P) by (rewrite E, <- HP; apply firstn_app_len).
      assert (F2 : skipn (S s) els = Q).
      { rewrite E, <- HP. replace (P ++ nilv :: Q) with ((P ++ [nilv]) ++ Q) by (rewrite <- app_assoc; reflexivity).
        replace (S (length P)) with (length (P ++ [nilv])) by (rewrite app_length; cbn [length]; lia).
        apply skipn_app_len. }
      rewrite F1, F2.
      assert (Hsp : length (spat_of fwd els) = S (length els))
        by (unfold spat_of; rewrite app_length, flags_length; cbn [length]; lia).
      rewrite <- HP.
      rewrite (implode_at_nil' m els P Q (spat_of fwd els) E Hb ltac:(lia) Hsp).
      cbn [bind].
      (* verifyImplode *)
      unfold spat_of at 1.
      assert (Hne : flags els <> []) by (rewrite E; destruct P; discriminate).
      destruct (flags els) as [|f0 fs] eqn:Ef; [congruence|].
      cbn [app].
      rewrite verify_implode_spec
        by (rewrite !app_length, repeat_length, marks_length; cbn [length];
            assert (length (f0 :: fs) = length els) by (rewrite <- Ef; apply flags_length);
            cbn [length] in *; lia).
      cbn [bind].
      assert (Hz : zlen (repeat 0 (length P) ++ marks m 1 Q ++ [0]) = zlen els)
        by (unfold zlen; rewrite !app_length, repeat_length, marks_length; cbn [length]; lia).
      rewrite Hz.
      assert (Hfail : match repeat 0 (length P) ++ marks m 1 Q ++ [0] with
                      | [] => false
                      | _ :: _ => negb (last (fs ++ [if end_ok fwd els then 1 else 0]) 0
                                        =? last (repeat 0 (length P) ++ marks m 1 Q ++ [0]) 0)
                      end = end_ok fwd els).
      { rewrite last_last.
        replace (repeat 0 (length P) ++ marks m 1 Q ++ [0]) with ((repeat 0 (length P) ++ marks m 1 Q) ++ [0])
          by (rewrite <- app_assoc; reflexivity).
        rewrite last_last.
        destruct ((repeat 0 (length P) ++ marks m 1 Q) ++ [0]) eqn:Ed;
          [destruct (repeat 0 (length P) ++ marks m 1 Q); discriminate|].
        destruct (end_ok fwd els); reflexivity. }
      rewrite Hfail. rewrite HP.
      destruct (lastnz (repeat 0 s ++ marks m 1 Q ++ [0])) as [i|] eqn:Ei.
      + apply lastnz_lt in Ei. rewrite !app_length, repeat_length, marks_length in Ei. cbn [length] in Ei.
        destruct (end_ok fwd els); cbn [negb andb]; [reflexivity|].
        destruct (Z.leb_spec 0 (2 * Z.of_nat i - zlen els - 1)); [|reflexivity].
        unfold rlen, zlen in *. rewrite cres_length.
        destruct (Z.leb_spec (2 * Z.of_nat i - Z.of_nat (length els) - 1 + 1)
                             (Z.of_nat (length P + 1 + length Q) + 1)); [reflexivity | lia].
      + destruct (end_ok fwd els); reflexivity.
    - (* no nil element *)
      destruct (end_ok fwd els) eqn:Ee.
      + reflexivity.
      + destruct (Z.eqb_spec (zlen els) (-1)); [unfold zlen in *; lia|]. cbn [orb].
        destruct (Z.leb_spec m (zlen els)); cbn [negb]; [reflexivity|].
        rewrite implode_at_end by (try assumption; unfold spat_of; rewrite app_length, flags_length; cbn [length]; lia).
        cbn [bind]. unfold spat_of. rewrite Ee.
        destruct (flags els) as [|f0 fs] eqn:Ef.
        * assert (els = []) by (destruct els; [reflexivity | discriminate]). subst els.
          reflexivity.
        * assert (Hl : (length fs + 1 = length els)%nat)
            by (rewrite <- (flags_length els), Ef; cbn [length]; lia).
          cbn [app].
          rewrite verify_implode_spec by (rewrite app_length, repeat_length; cbn [length]; lia).
          cbn [bind]. rewrite lastnz_zeros.
          destruct (repeat 0 (length els)) eqn:Er; [reflexivity|].
          rewrite <- Er. rewrite last_last.
          replace (last (repeat 0 (length els)) 0) with 0; [reflexivity|].
          clear. induction (length els) as [|k IH]; [reflexivity|].
          cbn [repeat]. destruct k; [reflexivity|]. exact IH.
  Qed.

  (* ---- when the accumulated gap stays below the limit the loop compacts
     everything ---- *)
  Lemma all_nil_repeat : forall l, has_nonnil l = false -> l = repeat nilv (length l).
  Proof.
    induction l as [|x t IH]; intros H; [reflexivity|].
    cbn [DefragSpec.has_nonnil existsb] in H. apply orb_false_iff in H as [H1 H2].
    apply negb_false_iff in H1. apply Huniq in H1. subst x.
    cbn [length repeat]. f_equal. apply IH. exact H2.
  Qed.

  Lemma all_nil_facts : forall l, has_nonnil l = false ->
    nonnil l = [] /\ nnil l = length l /\ flags l = repeat 0 (length l).
  Proof.
    induction l as [|x t IH]; intros H; [repeat split|].
    cbn [DefragSpec.has_nonnil existsb] in H. apply orb_false_iff in H as [H1 H2].
    apply negb_false_iff in H1. destruct (IH H2) as (A & B & C).
    unfold DefragSpec.nonnil, DefragSpec.nnil, flags, flag in *. cbn [filter map length repeat].
    rewrite H1. cbn [negb length]. rewrite A, B, C. repeat split.
  Qed.

  Lemma cscan_gap m : forall R K,
    (has_nonnil R = true -> Z.of_nat (K + gap R) < m) ->
    exists c r, cscan m K R = (nonnil R, c, r) /\
                repeat nilv c ++ r = repeat nilv (K + nnil R) /\
                marks m K R = flags R.
  Proof.
    induction R as [|x R IH]; intros K H.
    - exists K, []. cbn. rewrite app_nil_r, Nat.add_0_r. repeat split.
    - cbn [cscan marks].
      destruct (Z.leb_spec m (Z.of_nat K)) as [Hm|Hm].
      + (* the loop stops here: only nils may be left *)
        destruct (has_nonnil (x :: R)) eqn:Hn; [specialize (H eq_refl); lia|].
        destruct (all_nil_facts _ Hn) as (A & B & C).
        exists K, (x :: R). rewrite A, B, C. repeat split.
        rewrite (all_nil_repeat _ Hn) at 1. rewrite <- repeat_app. reflexivity.
      + cbn [DefragSpec.has_nonnil existsb DefragSpec.gap] in H.
        unfold DefragSpec.nonnil, DefragSpec.nnil, flags, flag. cbn [filter map].
        destruct (isnil x) eqn:Ex; cbn [negb orb] in *.
        * fold (has_nonnil R) in H.
          destruct (IH (S K)) as (c & r & E1 & E2 & E3).
          { intros Hn. rewrite Hn in H. specialize (H eq_refl). lia. }
          exists c, r. rewrite E1. repeat split.
          -- rewrite E2. cbn [length]. f_equal. unfold DefragSpec.nnil. lia.
          -- rewrite E3. reflexivity.
        * destruct (IH K) as (c & r & E1 & E2 & E3).
          { intros _. apply H. reflexivity. }
          exists c, r. rewrite E1. repeat split.
          -- exact E2.
          -- rewrite E3. reflexivity.
  Qed.

  (* a prefix without nil elements *)
  Lemma prefix_facts : forall P l, first_nil P = None ->
    nonnil (P ++ l) = P ++ nonnil l /\ nnil (P ++ l) = nnil l /\ gap (P ++ l) = gap l /\
    first_nil (P ++ l) = option_map (Nat.add (length P)) (first_nil l) /\
    last_nonnil (P ++ l) = match last_nonnil l with
                           | Some i => Some (length P + i)%nat
                           | None => last_nonnil P
                           end.
  Proof.
    induction P as [|x P IH]; intros l H.
    - cbn [app length]. repeat split; try reflexivity.
      + destruct (DefragSpec.first_nil V isnil l); reflexivity.
      + destruct (DefragSpec.last_nonnil V isnil l); reflexivity.
    - cbn [DefragSpec.first_nil] in H. destruct (isnil x) eqn:Ex; [discriminate|].
      destruct (DefragSpec.first_nil V isnil P) eqn:EP; [discriminate|].
      destruct (IH l eq_refl) as (A & B & C & D & E).
      unfold DefragSpec.nonnil, DefragSpec.nnil in *.
      cbn [app filter DefragSpec.gap DefragSpec.first_nil DefragSpec.last_nonnil length].
      rewrite Ex. cbn [negb]. rewrite A, B, C, D, E. repeat split.
      + destruct (DefragSpec.first_nil V isnil l); reflexivity.
      + destruct (DefragSpec.last_nonnil V isnil l); [reflexivity|].
        destruct (DefragSpec.last_nonnil V isnil P); reflexivity.
  Qed.

  Lemma last_nonnil_lt : forall l i, last_nonnil l = Some i -> (i < length l)%nat.
  Proof.
    induction l as [|x t IH]; intros i H; cbn [DefragSpec.last_nonnil length] in *; [discriminate|].
    destruct (DefragSpec.last_nonnil V isnil t) as [j|].
    - inversion H; subst. specialize (IH j eq_refl). lia.
    - destruct (isnil x); [discriminate|]. inversion H; lia.
  Qed.

  Lemma last_nonnil_has : forall l, has_nonnil l = match last_nonnil l with Some _ => true | None => false end.
  Proof.
    induction l as [|x t IH]; [reflexivity|].
    cbn [DefragSpec.has_nonnil existsb DefragSpec.last_nonnil]. fold (has_nonnil t). rewrite IH.
    destruct (DefragSpec.last_nonnil V isnil t); [apply orb_true_r|].
    destruct (isnil x); reflexivity.
  Qed.

  Lemma nil_cons_facts Q :
    nonnil (nilv :: Q) = nonnil Q /\ nnil (nilv :: Q) = S (nnil Q) /\
    gap (nilv :: Q) = (if has_nonnil Q then S (gap Q) else O) /\
    last_nonnil (nilv :: Q) = option_map S (last_nonnil Q).
  Proof.
    unfold DefragSpec.nonnil, DefragSpec.nnil.
    cbn [filter DefragSpec.gap DefragSpec.last_nonnil]. rewrite Hnil. cbn [negb length].
    repeat split; try (destruct (DefragSpec.last_nonnil V isnil Q); reflexivity).
  Qed.

  (* ---- the closed form of DESIGN §8/C19 ---- *)
  Theorem closed_result fwd m els s :
    first_nil els = Some s -> Z.of_nat s < m -> Z.of_nat (gap els) < m ->
    closed fwd m els =
    (firstn (Z.to_nat (if end_ok fwd els then zlen els else trunc els))
            (nonnil els ++ repeat nilv (nnil els)),
     Some (if end_ok fwd els then Some err_defrag else None)).
  Proof.
    intros Fn Hs Hg. unfold closed. rewrite Fn.
    destruct (Z.leb_spec m (Z.of_nat s)); [lia|].
    destruct (first_nil_split els s Fn) as (P & Q & E & HP & HN).
    assert (F1 : firstn s els = P) by (rewrite E, <- HP; apply firstn_app_len).
    assert (F2 : skipn (S s) els = Q).
    { rewrite E, <- HP. replace (P ++ nilv :: Q) with ((P ++ [nilv]) ++ Q) by (rewrite <- app_assoc; reflexivity).
      replace (S (length P)) with (length (P ++ [nilv])) by (rewrite app_length; cbn [length]; lia).
      apply skipn_app_len. }
    cbv zeta. rewrite F1, F2.
    destruct (prefix_facts P (nilv :: Q) HN) as (A & B & C & _ & L).
    destruct (nil_cons_facts Q) as (A' & B' & C' & L').
    rewrite <- E in A, B, C, L. rewrite A' in A. rewrite B' in B. rewrite C' in C. rewrite L' in L.
    destruct (cscan_gap m Q 1) as (c & r & E1 & E2 & E3).
    { intros Hn. rewrite C, Hn in Hg. lia. }
    assert (Hr1 : cres P m 1 Q = nonnil els ++ repeat nilv (nnil els)).
    { unfold cres. rewrite E1, E2, A, B. rewrite <- app_assoc. reflexivity. }
    assert (Hlen : length (nonnil els ++ repeat nilv (nnil els)) = length els).
    { rewrite <- Hr1, cres_length, E, app_length. cbn [length]. lia. }
    rewrite Hr1, E3.
    rewrite lastnz_zeros_app, lastnz_snoc0, lastnz_flags.
    (* imax *)
    assert (Hi : imax els = option_map (fun i => (s + S i)%nat) (last_nonnil Q)).
    { unfold DefragSpec.imax. rewrite Fn, L.
      destruct (DefragSpec.last_nonnil V isnil Q) as [i|]; cbn [option_map] in *.
      - rewrite HP. destruct (Nat.ltb_spec s (s + S i)); [reflexivity | lia].
      - destruct (DefragSpec.last_nonnil V isnil P) as [j|] eqn:EP; [|reflexivity].
        apply last_nonnil_lt in EP. destruct (Nat.ltb_spec s j); [lia | reflexivity]. }
    unfold DefragSpec.trunc. rewrite Hi.
    destruct (end_ok fwd els); cbn [negb andb].
    - f_equal. rewrite firstn_all2; [reflexivity|]. rewrite Hlen. unfold zlen. lia.
    - destruct (DefragSpec.last_nonnil V isnil Q) as [i|]; cbn [option_map].
      + replace (2 * Z.of_nat (s + i) - zlen els - 1) with (2 * Z.of_nat (s + S i) - zlen els - 3) by lia.
        destruct (Z.leb_spec 0 (2 * Z.of_nat (s + S i) - zlen els - 3)); [reflexivity|].
        f_equal. rewrite firstn_all2; [reflexivity|]. rewrite Hlen. unfold zlen. lia.
      + change (0 <=? -2) with false. cbv iota.
        f_equal. rewrite firstn_all2; [reflexivity|]. rewrite Hlen. unfold zlen. lia.
  Qed.

  (* ---- list-level theorems ---- *)
  Theorem defrag_result neg fwd m els s :
    zlen els < DBnd -> first_nil els = Some s -> Z.of_nat s < m -> Z.of_nat (gap els) < m ->
    defrag neg fwd m els =
    Ok (firstn (Z.to_nat (if fwd && last_set els then zlen els else trunc els))
               (nonnil els ++ repeat nilv (nnil els)),
        Some (if fwd && last_set els then Some err_defrag else None)).
  Proof.
    intros Hb Fn Hs Hg. rewrite defrag_general by assumption. f_equal.
    apply (closed_result fwd m els s Fn Hs Hg).
  Qed.

  Lemma first_nil_none_iff l : first_nil l = None <-> has_nil l = false.
  Proof.
    induction l as [|x t IH]; cbn [DefragSpec.first_nil DefragSpec.has_nil existsb]; [tauto|].
    fold (has_nil t). destruct (isnil x); cbn [orb]; [split; discriminate|].
    destruct (DefragSpec.first_nil V isnil t); cbn [option_map]; split; intros H; try discriminate.
    - apply IH in H; discriminate.
    - apply IH; reflexivity.
    - reflexivity.
  Qed.

  Lemma nonil_nonnil l : first_nil l = None -> nonnil l = l.
  Proof.
    intros H. pose proof (prefix_facts l [] H) as (A & _).
    change (nonnil []) with (@nil V) in A. rewrite !app_nil_r in A. exact A.
  Qed.

  (* a stack without nil elements is left untouched (the error field is not
     touched or is cleared) *)
  Theorem defrag_nonil_identity neg fwd m els :
    zlen els < DBnd -> has_nil els = false ->
    exists e, defrag neg fwd m els = Ok (els, e) /\ (e = None \/ e = Some None).
  Proof.
    intros Hb H. apply first_nil_none_iff in H. rewrite defrag_general by assumption.
    unfold closed. rewrite H.
    destruct (end_ok fwd els || (m <=? zlen els)); eexists; split; try reflexivity; auto.
  Qed.

  (* the guard of stack.defrag: a first nil at a position >= max: nothing happens *)
  Theorem defrag_late_noop neg fwd m els s :
    zlen els < DBnd -> first_nil els = Some s -> m <= Z.of_nat s ->
    defrag neg fwd m els = Ok (els, None).
  Proof.
    intros Hb Fn Hm. rewrite defrag_general by assumption. unfold closed. rewrite Fn.
    destruct (Z.leb_spec m (Z.of_nat s)); [reflexivity | lia].
  Qed.

  (* implode alone: with the accumulated gap below the limit the slots become
     the non-nil elements, in order, followed by the nils *)
  Theorem implode_compacts m els s spat :
    zlen els < DBnd -> first_nil els = Some s -> Z.of_nat s < m -> Z.of_nat (gap els) < m ->
    length spat = S (length els) ->
    exists tpat, implode (Z.of_nat s) m spat els = Ok (nonnil els ++ repeat nilv (nnil els), tpat).
  Proof.
    intros Hb Fn Hs Hg Hl.
    destruct (first_nil_split els s Fn) as (P & Q & E & HP & HN).
    rewrite <- HP. rewrite (implode_at_nil' m els P Q spat E Hb ltac:(lia) Hl).
    eexists. f_equal. f_equal.
    destruct (prefix_facts P (nilv :: Q) HN) as (A & B & C & _ & _).
    destruct (nil_cons_facts Q) as (A' & B' & C' & _).
    rewrite <- E in A, B, C. rewrite A' in A. rewrite B' in B. rewrite C' in C.
    destruct (cscan_gap m Q 1) as (c & r & E1 & E2 & E3).
    { intros Hn. rewrite C, Hn in Hg. lia. }
    unfold cres. rewrite E1, E2, A, B. rewrite <- app_assoc. reflexivity.
  Qed.

  (* forward indices on, last element not nil, a nil present within reach:
     Err is set and nothing is cut off *)
  Theorem defrag_fwdidx_error neg m els s :
    zlen els < DBnd -> first_nil els = Some s -> Z.of_nat s < m -> last_set els = true ->
    exists r, defrag neg true m els = Ok (r, Some (Some err_defrag)) /\ length r = length els.
  Proof.
    intros Hb Fn Hs Hl. rewrite defrag_general by assumption. unfold closed. rewrite Fn.
    destruct (Z.leb_spec m (Z.of_nat s)); [lia|]. cbv zeta.
    unfold end_ok. rewrite Hl. cbn [andb negb].
    eexists. split; [reflexivity|].
    destruct (first_nil_split els s Fn) as (P & Q & E & HP & HN).
    rewrite cres_length, firstn_length, skipn_length. rewrite E, app_length. cbn [length]. lia.
  Qed.

  Definition no_error (e : option (option N)) : bool :=
    match e with Some (Some _) => false | _ => true end.

  Lemma trunc_nonneg els : 0 <= trunc els.
  Proof.
    unfold DefragSpec.trunc. destruct (imax els) as [i|]; [|unfold zlen; lia].
    cbv zeta. destruct (Z.leb_spec 0 (2 * Z.of_nat i - zlen els - 3)); [assumption | unfold zlen; lia].
  Qed.

  Lemma nnil_pos els s : first_nil els = Some s -> (1 <= nnil els)%nat.
  Proof.
    intros Fn. destruct (first_nil_split els s Fn) as (P & Q & E & HP & HN).
    destruct (prefix_facts P (nilv :: Q) HN) as (_ & B & _).
    destruct (nil_cons_facts Q) as (_ & B' & _). rewrite <- E in B. lia.
  Qed.

  (* exactly which patterns Defrag handles as the property demands *)
  Theorem defrag_correct_iff neg fwd m els :
    zlen els < DBnd ->
    (forall s, first_nil els = Some s -> Z.of_nat s < m) -> Z.of_nat (gap els) < m ->
    exists r e, defrag neg fwd m els = Ok (r, e) /\
      ((r = nonnil els /\ no_error e = true) <->
       (has_nil els = false \/ (trunc els = zlen (nonnil els) /\ fwd && last_set els = false))).
  Proof.
    intros Hb Hs Hg.
    destruct (DefragSpec.first_nil V isnil els) as [s|] eqn:Fn.
    - rewrite (defrag_result neg fwd m els s Hb Fn (Hs s eq_refl) Hg).
      do 2 eexists. split; [reflexivity|].
      assert (Hn : has_nil els = true).
      { destruct (has_nil els) eqn:E; [reflexivity|]. apply first_nil_none_iff in E. congruence. }
      pose proof (nnil_pos els s Fn) as Hk. pose proof (trunc_nonneg els) as Ht.
      destruct (fwd && last_set els); cbn [no_error].
      + split; [intros [_ H]; discriminate | intros [H|[_ H]]; congruence].
      + split.
        * intros [H _]. right. split; [|reflexivity].
          apply (f_equal (@length V)) in H. rewrite firstn_length, app_length, repeat_length in H.
          unfold zlen. lia.
        * intros [H|[H _]]; [congruence|]. split; [|reflexivity].
          rewrite H. unfold zlen. rewrite Nat2Z.id. apply firstn_app_len.
    - apply first_nil_none_iff in Fn.
      destruct (defrag_nonil_identity neg fwd m els Hb Fn) as (e & -> & He).
      do 2 eexists. split; [reflexivity|].
      apply first_nil_none_iff in Fn. rewrite (nonil_nonnil els Fn).
      apply first_nil_none_iff in Fn.
      split; [intros _; left; exact Fn | intros _; split; [reflexivity | destruct He; subst e; reflexivity]].
  Qed.

  (* for EVERY list, limit and option: no panic, the fuel suffices, nothing
     is fabricated and nothing grows *)
  Lemma firstn_incl' {A} n (l : list A) : incl (firstn n l) l.
  Proof. rewrite <- (firstn_skipn n l) at 2. apply incl_appl, incl_refl. Qed.

  Theorem defrag_total neg fwd m els :
    zlen els < DBnd ->
    exists r e, defrag neg fwd m els = Ok (r, e) /\ incl r els /\ (length r <= length els)%nat.
  Proof.
    intros Hb. rewrite defrag_general by assumption.
    destruct (closed fwd m els) as [r e] eqn:Ec. exists r, e. split; [reflexivity|].
    unfold closed in Ec.
    destruct (DefragSpec.first_nil V isnil els) as [s|] eqn:Fn.
    - destruct (m <=? Z.of_nat s); [inversion Ec; subst; split; [apply incl_refl | lia]|].
      destruct (first_nil_split els s Fn) as (P & Q & E & HP & HN).
      assert (F1 : firstn s els = P) by (rewrite E, <- HP; apply firstn_app_len).
      assert (F2 : skipn (S s) els = Q).
      { rewrite E, <- HP. replace (P ++ nilv :: Q) with ((P ++ [nilv]) ++ Q) by (rewrite <- app_assoc; reflexivity).
        replace (S (length P)) with (length (P ++ [nilv])) by (rewrite app_length; cbn [length]; lia).
        apply skipn_app_len. }
      cbv zeta in Ec. rewrite F1, F2 in Ec.
      assert (Hi : incl (cres P m 1 Q) els).
      { unfold cres. pose proof (cscan_incl m Q 1) as Hc. destruct (cscan m 1 Q) as [[a c] r0].
        destruct Hc as [Ha Hr]. rewrite E.
        apply incl_app; [apply incl_appl, incl_refl|].
        apply incl_app; [apply incl_appr, incl_tl; exact Ha|].
        apply incl_app; [|apply incl_appr, incl_tl; exact Hr].
        intros x Hx. apply repeat_spec in Hx. subst x. apply in_or_app. right. left. reflexivity. }
      assert (Hl : length (cres P m 1 Q) = length els)
        by (rewrite cres_length, E, app_length; cbn [length]; lia).
      match type of Ec with (if ?b then _ else _) = _ => destruct b end; inversion Ec; subst.
      + split; [eapply incl_tran; [apply firstn_incl' | exact Hi] | rewrite firstn_length; lia].
      + split; [exact Hi | lia].
    - inversion Ec; subst. split; [apply incl_refl | lia].
  Qed.
End ListLevel.

(* ======================================================================
   Trees: Stack.Defrag
   ====================================================================== *)

Lemma is_nil_uniq v : is_nil v = true -> v = VNil.
Proof. destruct v; cbn; congruence. Qed.

Lemma read_only_eq c : read_only c = cpositive c c_ronly.
Proof.
  unfold read_only, cpositive, g_flag_positive, c_ronly.
  destruct (N.testbit (c_opt c) 7) eqn:T.
  - destruct (N.eqb_spec (N.land (c_opt c) 128) 0) as [E|E]; [|reflexivity].
    assert (H : N.testbit (N.land (c_opt c) 128) 7 = true) by (rewrite N.land_spec, T; reflexivity).
    rewrite E in H. discriminate.
  - replace (N.land (c_opt c) 128) with 0%N; [reflexivity|].
    symmetry. apply N.bits_inj. intros i. rewrite N.land_spec, N.bits_0.
    change 128%N with (2 ^ 7)%N. rewrite N.pow2_bits_eqb.
    destruct (N.eqb_spec 7 i); [subst i; rewrite T; reflexivity | apply andb_false_r].
Qed.

Lemma defrag_max_eq args : defrag_max args = scan_limit args.
Proof.
  unfold defrag_max, g_calculateDefragMax, scan_limit. cbv zeta.
  destruct args as [|x t]; [reflexivity|].
  replace (0 <? zlen (x :: t)) with true by (symmetry; apply Z.ltb_lt; unfold zlen; cbn [length]; lia).
  reflexivity.
Qed.

Lemma scan_limit_pos args : 0 < scan_limit args.
Proof.
  unfold scan_limit. destruct args as [|x t]; [lia|].
  destruct (Z.ltb_spec 0 x); lia.
Qed.

Lemma scan_limit_idem args : scan_limit [scan_limit args] = scan_limit args.
Proof.
  pose proof (scan_limit_pos args) as H. unfold scan_limit at 1.
  destruct (Z.ltb_spec 0 (scan_limit args)); [reflexivity | lia].
Qed.

Fixpoint smallb (v : value) : bool :=
  match v with
  | VStack _ _ els => (zlen els <? DBnd) && forallb smallb els
  | VCond _ _ _ _ ex => smallb ex
  | _ => true
  end.

Lemma vsize_pos v : (1 <= vsize v)%nat.
Proof. destruct v; cbn [vsize]; lia. Qed.

Lemma vsize_in a c els x : In x els -> (vsize x < vsize (VStack a c els))%nat.
Proof.
  cbn [vsize]. induction els as [|y t IH]; intros H; [destruct H|].
  cbn [fold_right]. destruct H as [->|H]; [lia|]. specialize (IH H). lia.
Qed.

Lemma map_res_ok {A B} (f : A -> res B) l :
  (forall x, In x l -> exists y, f x = Ok y) -> exists ys, map_res f l = Ok ys.
Proof.
  induction l as [|x t IH]; intros H; [exists []; reflexivity|].
  destruct (H x (or_introl eq_refl)) as (y & Hy).
  destruct IH as (ys & Hys); [intros z Hz; apply H; right; exact Hz|].
  exists (y :: ys). cbn [map_res]. rewrite Hy. cbn [bind]. rewrite Hys. reflexivity.
Qed.

Lemma map_res_ext {A B} (f : A -> res B) (g : A -> B) l :
  (forall x, In x l -> f x = Ok (g x)) -> map_res f l = Ok (map g l).
Proof.
  induction l as [|x t IH]; intros H; [reflexivity|].
  cbn [map_res map]. rewrite (H x (or_introl eq_refl)). cbn [bind].
  rewrite IH by (intros z Hz; apply H; right; exact Hz). reflexivity.
Qed.

Notation vdefrag := (defrag value VNil is_nil).

(* one child of the recursion loop of Stack.Defrag *)
Definition child (f : nat) (m : Z) (x : value) : res value :=
  match x with
  | VStack _ _ _ => Defrag_f f [m] x
  | VCond ca cc kw op ex =>
      match ex with
      | VStack _ _ _ => do ex' <- Defrag_f f [m] ex; Ok (VCond ca cc kw op ex')
      | _ => Ok x
      end
  | _ => Ok x
  end.

Lemma Defrag_f_stack f args a c els :
  Defrag_f (S f) args (VStack a c els) =
  if cpositive c c_ronly then Ok (VStack a c els)
  else
    do r <- vdefrag (cpositive c c_negidx) (cpositive c c_fwdidx) (defrag_max args) els;
    let '(els1, e) := r in
    let c1 := match e with Some x => set_c_err c x | None => c end in
    if existsb stack_like els1 then
      do els2 <- map_res (child f (defrag_max args)) els1; Ok (VStack a c1 els2)
    else Ok (VStack a c1 els1).
Proof. reflexivity. Qed.

(* Stack.Defrag never panics and never runs out of fuel *)
Lemma Defrag_f_total : forall f v args,
  (vsize v <= f)%nat -> smallb v = true -> exists v', Defrag_f f args v = Ok v'.
Proof.
  induction f as [|f IH]; intros v args Hs Hb; [pose proof (vsize_pos v); lia|].
  destruct v as [| g | a c els | a c kw op ex | a | a]; try (eexists; reflexivity).
  rewrite Defrag_f_stack.
  destruct (cpositive c c_ronly); [eexists; reflexivity|].
  cbn [smallb] in Hb. apply andb_true_iff in Hb as [Hb1 Hb2]. apply Z.ltb_lt in Hb1.
  destruct (defrag_total value VNil is_nil eq_refl is_nil_uniq
              (cpositive c c_negidx) (cpositive c c_fwdidx) (defrag_max args) els Hb1)
    as (r & e & -> & Hi & _).
  cbn [bind]. destruct (existsb stack_like r); [|eexists; reflexivity].
  destruct (map_res_ok (child f (defrag_max args)) r) as (ys & ->); [|eexists; reflexivity].
  intros x Hx. apply Hi in Hx.
  pose proof (vsize_in a c els x Hx) as Hv.
  assert (Hsx : smallb x = true) by (rewrite forallb_forall in Hb2; apply Hb2; exact Hx).
  destruct x as [| g | a' c' els' | a' c' kw' op' ex' | a' | a']; try (eexists; reflexivity).
  - apply IH; [lia | exact Hsx].
  - cbn [child]. destruct ex' as [| g | a2 c2 els2 | a2 c2 kw2 op2 ex2 | a2 | a2]; try (eexists; reflexivity).
    destruct (IH (VStack a2 c2 els2) [defrag_max args]) as (y & ->); [cbn [vsize] in *; lia | exact Hsx|].
    eexists; reflexivity.
Qed.

Theorem Defrag_total v args : smallb v = true -> exists v', Defrag args v = Ok v'.
Proof. intros H. apply Defrag_f_total; [lia | exact H]. Qed.

(* ---- a tree without nil elements is left untouched ---- *)
Lemma set_err_none c : c_err c = None -> set_c_err c None = c.
Proof. destruct c; cbn; intros ->; reflexivity. Qed.

Lemma map_res_id {A} (f : A -> res A) l : (forall x, In x l -> f x = Ok x) -> map_res f l = Ok l.
Proof. intros H. rewrite (map_res_ext f (fun x => x)) by exact H. rewrite map_id. reflexivity. Qed.

Lemma Defrag_f_nonil : forall f v args,
  (vsize v <= f)%nat -> smallb v = true -> errfree v = true -> nonil_tree v = true ->
  Defrag_f f args v = Ok v.
Proof.
  induction f as [|f IH]; intros v args Hs Hb He Hn; [pose proof (vsize_pos v); lia|].
  destruct v as [| g | a c els | a c kw op ex | a | a]; try reflexivity.
  rewrite Defrag_f_stack.
  destruct (cpositive c c_ronly); [reflexivity|].
  cbn [smallb errfree nonil_tree] in Hb, He, Hn.
  apply andb_true_iff in Hb as [Hb1 Hb2]. apply Z.ltb_lt in Hb1.
  apply andb_true_iff in He as [He1 He2]. apply andb_true_iff in Hn as [Hn1 Hn2].
  apply negb_true_iff in Hn1.
  destruct (defrag_nonil_identity value VNil is_nil eq_refl is_nil_uniq
              (cpositive c c_negidx) (cpositive c c_fwdidx) (defrag_max args) els Hb1 Hn1)
    as (e & -> & Hee).
  cbn [bind].
  assert (Hc : match e with Some x => set_c_err c x | None => c end = c).
  { destruct Hee; subst e; [reflexivity|]. apply set_err_none.
    unfold err_is_nil in He1. destruct (c_err c); [discriminate | reflexivity]. }
  rewrite Hc.
  destruct (existsb stack_like els); [|reflexivity].
  rewrite map_res_id; [reflexivity|].
  intros x Hx. pose proof (vsize_in a c els x Hx) as Hv.
  rewrite forallb_forall in Hb2, He2, Hn2.
  specialize (Hb2 x Hx). specialize (He2 x Hx). specialize (Hn2 x Hx).
  destruct x as [| g | a' c' els' | a' c' kw' op' ex' | a' | a']; try reflexivity.
  - apply IH; [lia | assumption..].
  - cbn [child]. destruct ex' as [| g | a2 c2 els2 | a2 c2 kw2 op2 ex2 | a2 | a2]; try reflexivity.
    rewrite (IH (VStack a2 c2 els2) [defrag_max args]); [reflexivity | cbn [vsize] in *; lia | assumption..].
Qed.

Theorem Defrag_nonil_identity v args :
  smallb v = true -> errfree v = true -> nonil_tree v = true -> Defrag args v = Ok v.
Proof. intros. apply Defrag_f_nonil; [lia | assumption..]. Qed.

(* ---- the trees on which Defrag does what C19 demands ---- *)
Notation vhas_nil := (has_nil value is_nil).
Notation vfirst_nil := (first_nil value is_nil).
Notation vgap := (gap value is_nil).
Notation vtrunc := (trunc value is_nil).
Notation vlast_set := (last_set value is_nil).

(* a Condition whose expression is a Stack *)
Definition cond_stack (v : value) : bool :=
  match v with
  | VCond _ _ _ _ (VStack _ _ _) => true
  | _ => false
  end.

(* the node's own list: no nil, or the closed form says nothing is lost *)
Definition node_good (m : Z) (fwd : bool) (els : list value) : bool :=
  negb (vhas_nil els) ||
  (match vfirst_nil els with Some s => Z.of_nat s <? m | None => true end
   && (Z.of_nat (vgap els) <? m)
   && (vtrunc els =? zlen (vnonnil els))
   && negb (fwd && vlast_set els)).

(* every node that Defrag is meant to reach is good, and no Stack hides
   behind a Condition in a node that holds no Stack directly *)
Fixpoint tree_good (m : Z) (v : value) : bool :=
  match v with
  | VStack _ c els =>
      read_only c ||
      (node_good m (cpositive c c_fwdidx) els
       && (existsb stack_like (vnonnil els) || negb (existsb cond_stack els))
       && forallb (tree_good m) els)
  | VCond _ _ _ _ ex => tree_good m ex
  | _ => true
  end.

Lemma gap_nonil els : vhas_nil els = false -> vgap els = 0%nat.
Proof.
  induction els as [|x t IH]; intros H; [reflexivity|].
  cbn [DefragSpec.has_nil existsb] in H. apply orb_false_iff in H as [H1 H2].
  cbn [DefragSpec.gap]. rewrite H1. apply IH. exact H2.
Qed.

Lemma spec_defrag_is_nil v : is_nil (spec_defrag v) = is_nil v.
Proof.
  destruct v as [| g | a c els | a c kw op ex | a | a]; try reflexivity.
  - cbn [spec_defrag]. destruct (read_only c); reflexivity.
  - cbn [spec_defrag]. destruct ex; reflexivity.
Qed.

Lemma nonnil_map_spec els : vnonnil (map spec_defrag els) = map spec_defrag (vnonnil els).
Proof.
  unfold vnonnil, nonnil. induction els as [|x t IH]; [reflexivity|].
  cbn [map filter]. rewrite spec_defrag_is_nil. destruct (is_nil x); cbn [negb map]; rewrite IH; reflexivity.
Qed.

Lemma nonnil_in els x : In x (vnonnil els) -> In x els.
Proof. unfold vnonnil, nonnil. intros H. apply filter_In in H. tauto. Qed.

Lemma Defrag_f_correct : forall f v args,
  (vsize v <= f)%nat -> is_cond v = false -> smallb v = true -> errfree v = true ->
  tree_good (scan_limit args) v = true ->
  Defrag_f f args v = Ok (spec_defrag v).
Proof.
  induction f as [|f IH]; intros v args Hs Hnc Hb He Hg; [pose proof (vsize_pos v); lia|].
  destruct v as [| g | a c els | a c kw op ex | a | a]; try reflexivity; [|discriminate].
  - rewrite Defrag_f_stack. cbn [spec_defrag]. rewrite read_only_eq.
    cbn [tree_good] in Hg. rewrite read_only_eq in Hg.
    destruct (cpositive c c_ronly); [reflexivity|]. cbn [orb] in Hg.
    apply andb_true_iff in Hg as [Hg Hg3]. apply andb_true_iff in Hg as [Hg1 Hg2].
    cbn [smallb errfree] in Hb, He.
    apply andb_true_iff in Hb as [Hb1 Hb2]. apply Z.ltb_lt in Hb1.
    apply andb_true_iff in He as [He1 He2].
    rewrite defrag_max_eq. set (m := scan_limit args) in *.
    assert (Hm : 0 < m) by apply scan_limit_pos.
    (* the node's own list *)
    assert (Hpre : (forall s, vfirst_nil els = Some s -> Z.of_nat s < m) /\ Z.of_nat (vgap els) < m /\
                   (vhas_nil els = false \/
                    (vtrunc els = zlen (vnonnil els) /\ cpositive c c_fwdidx && vlast_set els = false))).
    { unfold node_good in Hg1. apply orb_true_iff in Hg1 as [H|H].
      - apply negb_true_iff in H. repeat split.
        + intros s Fs. apply (first_nil_none_iff value is_nil) in H. congruence.
        + rewrite gap_nonil by exact H. lia.
        + left; exact H.
      - apply andb_true_iff in H as [H H4]. apply andb_true_iff in H as [H H3].
        apply andb_true_iff in H as [H1 H2]. repeat split.
        + intros s Fs. rewrite Fs in H1. apply Z.ltb_lt in H1. exact H1.
        + apply Z.ltb_lt in H2. exact H2.
        + right. split; [apply Z.eqb_eq; exact H3 | apply negb_true_iff; exact H4]. }
    destruct Hpre as (Hp1 & Hp2 & Hp3).
    destruct (defrag_correct_iff value VNil is_nil eq_refl is_nil_uniq
                (cpositive c c_negidx) (cpositive c c_fwdidx) m els Hb1 Hp1 Hp2)
      as (r & e & -> & Hiff).
    apply Hiff in Hp3. destruct Hp3 as [-> Hne].
    cbn [bind].
    assert (Hc : match e with Some x => set_c_err c x | None => c end = c).
    { destruct e as [[e|]|]; [discriminate | | reflexivity]. apply set_err_none.
      unfold err_is_nil in He1. destruct (c_err c); [discriminate | reflexivity]. }
    rewrite Hc. fold (vnonnil els). rewrite nonnil_map_spec.
    rewrite forallb_forall in Hb2, He2, Hg3.
    destruct (existsb stack_like (vnonnil els)) eqn:En.
    + rewrite (map_res_ext _ spec_defrag); [reflexivity|].
      intros x Hx. apply nonnil_in in Hx. pose proof (vsize_in a c els x Hx) as Hv.
      specialize (Hb2 x Hx). specialize (He2 x Hx). specialize (Hg3 x Hx).
      destruct x as [| g | a' c' els' | a' c' kw' op' ex' | a' | a']; try reflexivity.
      * cbn [child]. apply IH; [lia | reflexivity | assumption | assumption |]. unfold m. rewrite scan_limit_idem. exact Hg3.
      * cbn [child spec_defrag].
        destruct ex' as [| g | a2 c2 els2 | a2 c2 kw2 op2 ex2 | a2 | a2]; try reflexivity.
        rewrite (IH (VStack a2 c2 els2) [m]); [reflexivity | cbn [vsize] in *; lia | reflexivity | assumption | assumption |].
        unfold m. rewrite scan_limit_idem. exact Hg3.
    + (* not nesting: no element is changed by the specification either *)
      cbn [orb] in Hg2. apply negb_true_iff in Hg2.
      f_equal. f_equal. symmetry. rewrite <- (map_id (vnonnil els)) at 2. apply map_ext_in.
      intros x Hx.
      assert (Hs1 : stack_like x = false).
      { destruct (stack_like x) eqn:E; [|reflexivity].
        assert (existsb stack_like (vnonnil els) = true) by (apply existsb_exists; exists x; tauto). congruence. }
      assert (Hs2 : cond_stack x = false).
      { destruct (cond_stack x) eqn:E; [|reflexivity].
        assert (existsb cond_stack els = true) by (apply existsb_exists; exists x; split; [apply nonnil_in; exact Hx | exact E]).
        congruence. }
      destruct x as [| g | a' c' els' | a' c' kw' op' ex' | a' | a']; try reflexivity; [discriminate|].
      cbn [spec_defrag]. destruct ex'; try reflexivity. discriminate.
Qed.

(* Defrag yields the canonical compacted tree (the receiver of Defrag is a
   Stack, not a Condition) *)
Theorem Defrag_correct v args :
  is_cond v = false -> smallb v = true -> errfree v = true -> tree_good (scan_limit args) v = true ->
  Defrag args v = Ok (spec_defrag v).
Proof. intros. apply Defrag_f_correct; [lia | assumption..]. Qed.

(* ---- the canonical compacted tree satisfies the property as the check
   evaluates it ([meets], DefragSpec.v) ---- *)
Definition plain_g (g : gval) : bool :=
  match g with GStr _ | GInt _ _ | GBool _ => true | _ => false end.
Fixpoint plain (v : value) : bool :=
  match v with
  | VLeaf g => plain_g g
  | VStack _ _ els => forallb plain els
  | VCond _ _ _ _ ex => plain ex
  | _ => true
  end.

Lemma gval_eqb_refl g : plain_g g = true -> gval_eqb g g = true.
Proof.
  destruct g; cbn [plain_g gval_eqb]; try discriminate; intros _.
  - apply bytes_eqb_spec. reflexivity.
  - rewrite N.eqb_refl, Z.eqb_refl. reflexivity.
  - destruct b; reflexivity.
Qed.

Lemma obs_eqb_refl : forall v, plain v = true -> obs_eqb (obs_of v) (obs_of v) = true.
Proof.
  induction v using value_ind'; intros Hp; cbn [obs_of obs_eqb]; try reflexivity.
  - apply gval_eqb_refl. exact Hp.
  - rewrite eqb_reflx. cbn [andb]. cbn [plain] in Hp.
    induction els as [|x t IHt]; [reflexivity|].
    cbn [map]. inversion H as [|? ? Hx Ht]; subst. cbn [forallb] in Hp. apply andb_true_iff in Hp as [Hp1 Hp2].
    rewrite (Hx Hp1). cbn [andb]. apply IHt; assumption.
  - apply IHv. exact Hp.
Qed.

Lemma meets_spec_defrag m : forall v,
  errfree v = true -> plain v = true -> meets m v (obs_of (spec_defrag v)) = true.
Proof.
  induction v using value_ind'; intros He Hp; try reflexivity.
  - cbn [meets spec_defrag obs_of]. apply gval_eqb_refl. exact Hp.
  - cbn [spec_defrag]. destruct (read_only c) eqn:R.
    + cbn [meets obs_of]. rewrite R. apply (obs_eqb_refl (VStack a c els)). exact Hp.
    + cbn [meets obs_of]. rewrite R.
      destruct (Z.of_nat (vmax_run els) <? m); [|reflexivity].
      cbn [errfree plain] in He, Hp. apply andb_true_iff in He as [He1 He2]. rewrite He1. cbn [andb].
      induction els as [|x t IHt]; [reflexivity|].
      inversion H as [|? ? Hx Ht]; subst.
      cbn [forallb] in He2, Hp. apply andb_true_iff in He2 as [He2 He3]. apply andb_true_iff in Hp as [Hp1 Hp2].
      cbn [map]. unfold vnonnil, nonnil. cbn [filter]. rewrite spec_defrag_is_nil.
      destruct (is_nil x) eqn:Ex; cbn [negb map].
      * apply IHt; assumption.
      * rewrite (Hx He2 Hp1). cbn [andb]. apply IHt; assumption.
  - cbn [errfree plain] in He, Hp. cbn [spec_defrag].
    destruct v as [| g | a' c' els' | a' c' kw' op' ex' | a' | a'].
    + reflexivity.
    + cbn [meets obs_of obs_eqb]. apply gval_eqb_refl. exact Hp.
    + cbn [meets obs_of]. apply IHv; assumption.
    + cbn [meets]. apply (obs_eqb_refl (VCond a' c' kw' op' ex')). exact Hp.
    + reflexivity.
    + reflexivity.
Qed.

Theorem Defrag_meets v args :
  is_cond v = false -> smallb v = true -> errfree v = true -> plain v = true ->
  tree_good (scan_limit args) v = true ->
  exists v', Defrag args v = Ok v' /\ meets (scan_limit args) v (obs_of v') = true.
Proof.
  intros Hc Hb He Hp Hg. exists (spec_defrag v). split.
  - apply Defrag_correct; assumption.
  - apply meets_spec_defrag; assumption.
Qed.

(* ======================================================================
   Where the code violates C19: concrete witnesses (vm_compute)
   ====================================================================== *)
Definition mkS (opt : N) (els : list value) : value := VStack Native (cfgS 6 opt [] [] [] false 0) els.
Definition iv (z : Z) : value := VLeaf (GInt 0 z).
Definition mkC (ex : value) : value := VCond Native (cfgS 5 0 [] [] [] false 0) (B "k") (Some (OpBuiltin 1)) ex.

(* the hypotheses under which C19 speaks about a tree *)
Definition c19_input (v : value) : bool :=
  negb (is_cond v) && smallb v && errfree v && plain v.

(* D17, truncation: [a b c nil d] loses everything, [1 nil 2] keeps its nil,
   [1 nil 2 3 nil nil nil 4] loses 4 -- every run is shorter than the limit *)
Lemma defrag_spec_refuted :
  let w1 := mkS 0 [iv 1; iv 2; iv 3; VNil; iv 5] in
  let w2 := mkS 0 [iv 1; VNil; iv 2] in
  let w3 := mkS 0 [iv 1; VNil; iv 2; iv 3; VNil; VNil; VNil; iv 4] in
  (c19_input w1 = true /\ Defrag [] w1 = Ok (mkS 0 []) /\
   meets (scan_limit []) w1 (obs_of (mkS 0 [])) = false) /\
  (c19_input w2 = true /\ Defrag [] w2 = Ok (mkS 0 [iv 1; iv 2; VNil]) /\
   meets (scan_limit []) w2 (obs_of (mkS 0 [iv 1; iv 2; VNil])) = false) /\
  (c19_input w3 = true /\ Defrag [] w3 = Ok (mkS 0 [iv 1; iv 2; iv 3]) /\
   meets (scan_limit []) w3 (obs_of (mkS 0 [iv 1; iv 2; iv 3])) = false).
Proof. vm_compute. repeat split. Qed.

(* the full statement of C19 on the model is therefore false *)
Lemma c19_full_refuted :
  exists args v v', c19_input v = true /\ Defrag args v = Ok v' /\
                    meets (scan_limit args) v (obs_of v') = false.
Proof.
  exists [], (mkS 0 [iv 1; VNil; iv 2]), (mkS 0 [iv 1; iv 2; VNil]). vm_compute. repeat split.
Qed.

(* D17, accumulated gap: [nil a nil nil b] with limit 3 -- runs of 1 and 2 --
   is not compacted past a *)
Lemma implode_gap_refuted :
  let w := mkS 0 [VNil; iv 7; VNil; VNil; iv 8] in
  c19_input w = true /\ Z.of_nat (vmax_run [VNil; iv 7; VNil; VNil; iv 8]) < scan_limit [3] /\
  implode value VNil is_nil 0 3 [0; 1; 0; 0; 1; 0] [VNil; iv 7; VNil; VNil; iv 8]
    = Ok ([iv 7; VNil; VNil; VNil; iv 8], [1; 1; 0; 0; 0; 0]) /\
  Defrag [3] w = Ok (mkS 0 [iv 7; VNil; VNil; VNil; iv 8]) /\
  meets (scan_limit [3]) w (obs_of (mkS 0 [iv 7; VNil; VNil; VNil; iv 8])) = false.
Proof. vm_compute. repeat split. Qed.

(* the guard `max <= start`: first nil at position 6, limit 6: nothing is
   done; with limit 7 the same list is compacted correctly *)
Lemma late_first_nil_refuted :
  let els := [iv 1; iv 2; iv 3; iv 4; iv 5; iv 6; VNil; VNil; VNil; VNil; VNil; iv 12] in
  c19_input (mkS 0 els) = true /\ Z.of_nat (vmax_run els) < scan_limit [6] /\
  Defrag [6] (mkS 0 els) = Ok (mkS 0 els) /\
  meets (scan_limit [6]) (mkS 0 els) (obs_of (mkS 0 els)) = false /\
  Defrag [7] (mkS 0 els) = Ok (mkS 0 [iv 1; iv 2; iv 3; iv 4; iv 5; iv 6; iv 12]) /\
  meets (scan_limit [7]) (mkS 0 els) (obs_of (mkS 0 [iv 1; iv 2; iv 3; iv 4; iv 5; iv 6; iv 12])) = true.
Proof. vm_compute. repeat split. Qed.

(* IsNesting ignores Conditions: the same inner Stack is compacted when a
   sibling Stack exists and left alone when it does not *)
Lemma cond_only_nesting_refuted :
  let inner := mkS 0 [VNil; VNil; VNil; VNil; VNil; iv 9] in
  let w := mkS 0 [mkC inner] in
  let w' := mkS 0 [mkC inner; mkS 0 [iv 1]] in
  c19_input w = true /\ Defrag [] w = Ok w /\ meets (scan_limit []) w (obs_of w) = false /\
  c19_input w' = true /\ Defrag [] w' = Ok (mkS 0 [mkC (mkS 0 [iv 9]); mkS 0 [iv 1]]) /\
  meets (scan_limit []) w' (obs_of (mkS 0 [mkC (mkS 0 [iv 9]); mkS 0 [iv 1]])) = true.
Proof. vm_compute. repeat split. Qed.

(* forward indices: the list [nil x5, 9] is compacted correctly without the
   option and reports an error, uncut, with it *)
Lemma fwdidx_refuted :
  let els := [VNil; VNil; VNil; VNil; VNil; iv 9] in
  Defrag [] (mkS 0 els) = Ok (mkS 0 [iv 9]) /\
  meets (scan_limit []) (mkS 0 els) (obs_of (mkS 0 [iv 9])) = true /\
  c19_input (mkS 32 els) = true /\
  Defrag [] (mkS 32 els)
    = Ok (VStack Native (set_c_err (cfgS 6 32 [] [] [] false 0) (Some err_defrag))
                 [iv 9; VNil; VNil; VNil; VNil; VNil]) /\
  meets (scan_limit []) (mkS 32 els)
        (obs_of (VStack Native (set_c_err (cfgS 6 32 [] [] [] false 0) (Some err_defrag))
                        [iv 9; VNil; VNil; VNil; VNil; VNil])) = false.
Proof. vm_compute. repeat split. Qed.

(* non-vacuity of tree_good: three levels, a Condition in between, every node
   with five leading nils *)
Definition good_example : value :=
  mkS 0 [VNil; VNil; VNil; VNil; VNil;
         mkS 16 [VNil; VNil; VNil; VNil; VNil;
                 mkC (mkS 0 [VNil; VNil; VNil; VNil; VNil; iv 7]);
                 mkS 0 [iv 8; iv 9]]].

Lemma good_example_ok :
  c19_input good_example = true /\ tree_good (scan_limit []) good_example = true /\
  nonil_tree good_example = false /\
  Defrag [] good_example = Ok (mkS 0 [mkS 16 [mkC (mkS 0 [iv 7]); mkS 0 [iv 8; iv 9]]]).
Proof. vm_compute. repeat split. Qed.
