(* AliasSpec.v -- what C12 says, and nothing about how the code does it.

   A value whose Go type is a user-declared type derived from Stack or
   Condition (or a non-nil pointer to one) and that is not the zero value
   "converts" to a native instance.  [erase_alias] replaces every such value
   of a tree by the native value it converts to; the property is

        observable (t)  =  observable (erase_alias t)

   for every observable it lists (the parent's String, IsEqual against the
   native tree in both directions, Unmarshal, Traverse, IsNesting,
   Condition.Len, the no-nesting refusal of Push / SetExpression, Defrag,
   Transfer), where observables that hand values back are compared after
   erasing those values too; and ConvertStack / ConvertCondition return the
   native instance for exactly the values that convert and (zero, false) for
   everything else: nil, zero-valued aliases, nil pointers, unrelated types.

   Zero-valued aliases convert to nothing: they are foreign values as far as
   the property is concerned, and [erase_alias] leaves them alone
   ([erase_all] also rewrites their type tag; it agrees with [erase_alias] on
   every tree without zero-valued aliases).

   Imports only Base, Values, JVal.  Executable definitions only. *)
From Stackage Require Import Base Values JVal.
Open Scope Z_scope.

(* ---- erasure ---- *)
Fixpoint erase_alias (v : value) : value :=
  match v with
  | VStack _ c els => VStack Native c (map erase_alias els)
  | VCond _ c kw op ex => VCond Native c kw op (erase_alias ex)
  | _ => v
  end.

Fixpoint erase_all (v : value) : value :=
  match v with
  | VStack _ c els => VStack Native c (map erase_all els)
  | VCond _ c kw op ex => VCond Native c kw op (erase_all ex)
  | VZeroStack _ => VZeroStack Native
  | VZeroCond _ => VZeroCond Native
  | _ => v
  end.

(* the same on the universe with []any lists (what Unmarshal returns) *)
Fixpoint jerase (j : jval) : jval :=
  match j with
  | JList l => JList (map jerase l)
  | JStack _ c els => JStack Native c (map jerase els)
  | JCond _ c kw op ex => JCond Native c kw op (jerase ex)
  | _ => j
  end.

(* every node of the tree is typed natively *)
Definition is_native (a : akind) : bool := match a with Native => true | _ => false end.
Fixpoint native_tree (v : value) : bool :=
  match v with
  | VStack a _ els => is_native a && forallb native_tree els
  | VCond a _ _ _ ex => is_native a && native_tree ex
  | VZeroStack a | VZeroCond a => is_native a
  | _ => true
  end.

(* no zero-valued alias anywhere *)
Fixpoint no_zero_alias (v : value) : bool :=
  match v with
  | VStack _ _ els => forallb no_zero_alias els
  | VCond _ _ _ _ ex => no_zero_alias ex
  | VZeroStack a | VZeroCond a => is_native a
  | _ => true
  end.

(* ---- ConvertStack / ConvertCondition ---- *)
(* Some n: (n, true) with n the underlying native instance; None: (zero, false) *)
Definition spec_convert_stack (v : value) : option value :=
  match v with
  | VStack _ c els => Some (VStack Native c els)
  | _ => None
  end.
Definition spec_convert_cond (v : value) : option value :=
  match v with
  | VCond _ c kw op ex => Some (VCond Native c kw op ex)
  | _ => None
  end.

(* ---- the one shape on which the code (as it stands) deviates ----
   A Condition whose expression is a Condition held through an alias type
   that declares no String method of its own: condition.string looks for a
   Stack (converter) and then for a String method, never for a Condition
   alias, and prints "unsupported_primitive_type". *)
Definition alias_without_string (a : akind) : bool :=
  match a with AliasVal | AliasPtr => true | _ => false end.

Definition cond_holds_plain_alias_cond (ex : value) : bool :=
  match ex with
  | VCond a _ _ _ _ => alias_without_string a
  | _ => false
  end.

(* true: no Condition of the tree holds such an expression *)
Fixpoint cond_exprs_ok (v : value) : bool :=
  match v with
  | VStack _ _ els => forallb cond_exprs_ok els
  | VCond _ _ _ _ ex => negb (cond_holds_plain_alias_cond ex) && cond_exprs_ok ex
  | _ => true
  end.
