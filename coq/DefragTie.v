(* DefragTie.v -- the hand-written loops of Defrag.v are the loops of the
   source.  One iteration of stack.implode, one iteration of
   stack.verifyImplode and the guard of stack.defrag after its scan loop are
   regenerated from /repo (Generated.g_implode_iter, g_verify_iter,
   g_defrag_after; the translator insists on the loop headers "for",
   "i := 1; i < len(spat); i++" and on nothing but the listed declarations
   around the loops), and the model's iterations are proved to be those
   decision trees.  What each cut point goes on to do is pinned as text. *)
From Stackage Require Import Base Generated StackImpl Values Defrag.
Open Scope Z_scope.

Section Tie.
  Variable V : Type.
  Variable nilv : V.
  Variable isnil : V -> bool.

  (* one iteration of implode: the exit test (cut 0: break), a nil slot
     (cut 1: ct++; continue), otherwise the move (cut 2) *)
  Lemma implode_iteration (f : nat) (max : Z) (r : list V) (start ct : Z) (tpat : list Z) :
    in_i64 (start + ct) -> in_i64 (ct + 1) ->
    implode_loop V nilv isnil (S f) max r start ct tpat =
    match g_implode_iter (rulen V r) false ct start max with
    | TCut 0 _ _ => Ok (r, tpat)
    | _ =>
        do x <- raw_get V r (start + ct + 1);
        match g_implode_iter (rulen V r) (isnil x) ct start max with
        | TCut 1 [s; c] _ => implode_loop V nilv isnil f max r s c tpat
        | TCut 2 _ _ =>
            do r1 <- raw_set V r (start + 1) x;
            do tpat1 <- pat_set tpat (start + ct) 1;
            do r2 <- raw_set V r1 (start + ct + 1) nilv;
            implode_loop V nilv isnil f max r2 (start + 1) 0 tpat1
        | _ => Unmodelled
        end
    end.
  Proof.
    intros H1 H2. cbn [implode_loop]. unfold g_implode_iter. rewrite (wrap64_id _ H1).
    destruct (orb (Z.leb max ct) (Z.leb (rulen V r) (start + ct))); [reflexivity|].
    destruct (raw_get V r (start + ct + 1)) as [x| |]; cbn [bind]; try reflexivity.
    destruct (isnil x); [rewrite (wrap64_id _ H2); reflexivity|reflexivity].
  Qed.
End Tie.

(* one iteration of verifyImplode (no cut: the whole body is interpreted) *)
Lemma verify_iteration (i : nat) (is' : list nat) (spat tpat : list Z) (dlen last : Z) (fail : bool) :
  in_i64 (dlen + Z.of_nat i) -> in_i64 (dlen + Z.of_nat i - zlen tpat) ->
  verify_loop (i :: is') spat tpat dlen last fail =
  do s <- pat_get spat (Z.of_nat i);
  do t <- pat_get tpat (Z.of_nat i);
  match g_verify_iter (s =? t) (negb (t =? 0)) dlen (zlen tpat) (Z.of_nat i) last with
  | TRet [l] [fl] => verify_loop is' spat tpat (dlen + 1) l fl
  | _ => Unmodelled
  end.
Proof.
  intros H1 H2. cbn [verify_loop]. destruct (pat_get spat (Z.of_nat i)) as [s| |]; cbn [bind]; try reflexivity.
  destruct (pat_get tpat (Z.of_nat i)) as [t| |]; cbn [bind]; try reflexivity.
  unfold g_verify_iter. rewrite (wrap64_id _ H1), (wrap64_id _ H2).
  destruct (s =? t); destruct (negb (t =? 0)); reflexivity.
Qed.

(* the guard after the scan loop of stack.defrag *)
Lemma defrag_guard (start max : Z) :
  g_defrag_after start max =
  if negb ((start =? -1) || (max <=? start)) then TCut 0 [] [true] else TRet [] [true].
Proof. reflexivity. Qed.

(* what the code does from each cut point on *)
Lemma implode_cut_tails :
  g_implode_iter_tails =
  ["break"%string; "continue"%string;
   "(*r)[start+1] = (*r)[start+ct+1]; tpat[start+ct] = 1; (*r)[start+ct+1] = nil; start = start + 1; ct = 0"%string].
Proof. reflexivity. Qed.
