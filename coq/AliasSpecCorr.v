(* AliasSpecCorr.v -- specification-side evaluation of the cases recorded by
   the harness family `alias` (C12).  Independent of Generated.v and of the
   model (Alias.v): the oracle is AliasSpec.v alone.

   A case is one tree in several instantiations that differ only in how the
   nested Stacks / Conditions are typed in Go; the first instantiation is the
   all-native one.  The property holds on the case when
     - every instantiation erases to the first one (same tree, same
       Transfer destinations), nothing panicked,
     - every recorded observable of every instantiation equals that of the
       native instantiation (values read back are compared after erasing
       alias kinds: [jsim]),
     - ConvertStack / ConvertCondition returned, for every root element, the
       native instance [spec_convert_*] names, or (zero, false).
   check = 0: holds; 2: does not.  [akf] names the one known shape. *)
From Stackage Require Import Base Values JVal AliasSpec MarshalSpecCorr.
Open Scope Z_scope.

(* what was observed on one instantiation *)
Record aobs := MkO {
  o_panic : bool;
  o_strs : list bytes;                         (* String() of every Stack / Condition node, pre-order *)
  o_nest : list bool;                          (* IsNesting() of the same nodes *)
  o_lens : list Z;                             (* Len() of the same nodes *)
  o_eq : list bool;                            (* "== nil" of t.IsEqual(n), n.IsEqual(t), [t.IsEqual(m), m.IsEqual(t)], t.IsEqual(n typed as i_arg),
                                                  then n_k.IsEqual(x_k) for every native Stack / Condition element n_k and its counterpart x_k in t *)
  o_unm : list jval;                           (* t.Unmarshal() *)
  o_trav : list (jval * bool);                 (* t.Traverse(path...) per path *)
  o_push : jval;                               (* Basic().SetNoNesting(true).Push(elements of t...) *)
  o_setex : list (bool * bool);                (* per element x: Expression() != nil after SetExpression(x), no-nesting on / off *)
  o_defrag : jval;                             (* a fresh t after Defrag(args...) *)
  o_xfer : list (bool * jval);                 (* per destination d: t.Transfer(d), d afterwards *)
  o_conv : list (option jval * option jval)    (* per element x: ConvertStack(x), ConvertCondition(x) *)
}.

Record ainst := MkI { i_tree : value; i_dests : list value; i_arg : akind; i_obs : aobs }.

Record acase := MkA {
  a_paths : list (list Z);
  a_dargs : list Z;
  a_mut : value;
  a_insts : list ainst
}.

(* ---- comparisons ---- *)
Fixpoint all2 {A B} (f : A -> B -> bool) (x : list A) (y : list B) : bool :=
  match x, y with
  | [], [] => true
  | a :: x', b :: y' => f a b && all2 f x' y'
  | _, _ => false
  end.

Definition akind_eqb (a b : akind) : bool :=
  match a, b with
  | Native, Native | AliasVal, AliasVal | AliasPtr, AliasPtr
  | AliasValStr, AliasValStr | AliasPtrStr, AliasPtrStr => true
  | _, _ => false
  end.

(* the same value, alias kinds included; configurations by kind only (that is
   all the read accessors show) *)
Fixpoint jsame (a b : jval) : bool :=
  let all := fix all (x y : list jval) : bool :=
               match x, y with
               | [], [] => true
               | p :: x', q :: y' => jsame p q && all x' y'
               | _, _ => false
               end in
  match a, b with
  | JNil, JNil => true
  | JLeaf g, JLeaf g' => geqb g g'
  | JList l, JList l' => all l l'
  | JStack k c els, JStack k' c' els' => akind_eqb k k' && (c_typ c =? c_typ c')%N && all els els'
  | JCond k c kw op ex, JCond k' c' kw' op' ex' =>
      akind_eqb k k' && (c_typ c =? c_typ c')%N && bytes_eqb kw kw' && opt_oper_eqb op op' && jsame ex ex'
  | JZeroStack k, JZeroStack k' => akind_eqb k k'
  | JZeroCond k, JZeroCond k' => akind_eqb k k'
  | _, _ => false
  end.

Definition ojsame (a b : option jval) : bool :=
  match a, b with
  | Some x, Some y => jsame x y
  | None, None => true
  | _, _ => false
  end.
Definition ojsim (a b : option jval) : bool :=
  match a, b with
  | Some x, Some y => jsim x y
  | None, None => true
  | _, _ => false
  end.

(* configurations as the harness prints them (cfgS fields) *)
Definition enc_eqb (a b : list (list bytes)) : bool := all2 (all2 bytes_eqb) a b.
Definition cfg_eqb (c d : config) : bool :=
  (c_typ c =? c_typ d)%N && (c_cap c =? c_cap d) && (c_opt c =? c_opt d)%N &&
  bytes_eqb (c_sym c) (c_sym d) && bytes_eqb (c_ljc c) (c_ljc d) && enc_eqb (c_enc c) (c_enc d) &&
  Bool.eqb (c_ord c) (c_ord d) && Bool.eqb (c_mtx c) (c_mtx d) && bytes_eqb (c_id c) (c_id d).

(* full structural equality of trees (leaves by [geqb]) *)
Fixpoint tree_eqb (a b : value) : bool :=
  match a, b with
  | VNil, VNil => true
  | VLeaf g, VLeaf g' => geqb g g'
  | VStack k c els, VStack k' c' els' =>
      akind_eqb k k' && cfg_eqb c c' &&
      (fix all (x y : list value) : bool :=
         match x, y with
         | [], [] => true
         | p :: x', q :: y' => tree_eqb p q && all x' y'
         | _, _ => false
         end) els els'
  | VCond k c kw op ex, VCond k' c' kw' op' ex' =>
      akind_eqb k k' && cfg_eqb c c' && bytes_eqb kw kw' && opt_oper_eqb op op' && tree_eqb ex ex'
  | VZeroStack k, VZeroStack k' => akind_eqb k k'
  | VZeroCond k, VZeroCond k' => akind_eqb k k'
  | _, _ => false
  end.

Definition root_elems (t : value) : list value :=
  match t with VStack _ _ els => els | _ => [] end.

(* ---- the property on one case ---- *)

(* ConvertStack / ConvertCondition say what the specification says *)
Definition conv_ok (t : value) (o : aobs) : bool :=
  all2 (fun x r => ojsame (option_map inj (spec_convert_stack x)) (fst r) &&
                   ojsame (option_map inj (spec_convert_cond x)) (snd r))
       (root_elems t) (o_conv o).

(* the observables of an instantiation equal those of the native one *)
Definition obs_agree (o0 o : aobs) : bool :=
  all2 bytes_eqb (o_strs o0) (o_strs o) &&
  all2 Bool.eqb (o_nest o0) (o_nest o) &&
  all2 Z.eqb (o_lens o0) (o_lens o) &&
  all2 Bool.eqb (o_eq o0) (o_eq o) &&
  all2 jsim (o_unm o0) (o_unm o) &&
  all2 (fun a b => jsim (fst a) (fst b) && Bool.eqb (snd a) (snd b)) (o_trav o0) (o_trav o) &&
  jsim (o_push o0) (o_push o) &&
  all2 (fun a b => Bool.eqb (fst a) (fst b) && Bool.eqb (snd a) (snd b)) (o_setex o0) (o_setex o) &&
  jsim (o_defrag o0) (o_defrag o) &&
  all2 (fun a b => Bool.eqb (fst a) (fst b) && jsim (snd a) (snd b)) (o_xfer o0) (o_xfer o) &&
  all2 (fun a b => ojsim (fst a) (fst b) && ojsim (snd a) (snd b)) (o_conv o0) (o_conv o).

Definition inst_ok (i0 i : ainst) : bool :=
  tree_eqb (erase_alias (i_tree i)) (i_tree i0) &&
  all2 tree_eqb (map erase_alias (i_dests i)) (i_dests i0) &&
  negb (o_panic (i_obs i)) &&
  conv_ok (i_tree i) (i_obs i) &&
  obs_agree (i_obs i0) (i_obs i).

Definition spec_ok (c : acase) : bool :=
  match a_insts c with
  | [] => false
  | i0 :: rest =>
      inst_ok i0 i0 && forallb (inst_ok i0) rest
  end.

Definition acheck_spec (c : acase) : N := if spec_ok c then 0%N else 2%N.

(* the known shape (C12/cond-holds-alias-cond): some instantiation has a
   Condition whose expression is a Condition alias without String *)
Definition akf (c : acase) : N :=
  if existsb (fun i => negb (cond_exprs_ok (i_tree i))) (a_insts c) then 1%N else 0%N.

(* which conjunct fails, per instantiation:
   erases-to-native dests panic conv strs nest lens eq unm trav push setex defrag xfer conv-agree *)
Definition spec_diag_inst (i0 i : ainst) : list bool :=
  let o0 := i_obs i0 in let o := i_obs i in
  [ tree_eqb (erase_alias (i_tree i)) (i_tree i0);
    all2 tree_eqb (map erase_alias (i_dests i)) (i_dests i0);
    negb (o_panic o);
    conv_ok (i_tree i) o;
    all2 bytes_eqb (o_strs o0) (o_strs o);
    all2 Bool.eqb (o_nest o0) (o_nest o);
    all2 Z.eqb (o_lens o0) (o_lens o);
    all2 Bool.eqb (o_eq o0) (o_eq o);
    all2 jsim (o_unm o0) (o_unm o);
    all2 (fun a b => jsim (fst a) (fst b) && Bool.eqb (snd a) (snd b)) (o_trav o0) (o_trav o);
    jsim (o_push o0) (o_push o);
    all2 (fun a b => Bool.eqb (fst a) (fst b) && Bool.eqb (snd a) (snd b)) (o_setex o0) (o_setex o);
    jsim (o_defrag o0) (o_defrag o);
    all2 (fun a b => Bool.eqb (fst a) (fst b) && jsim (snd a) (snd b)) (o_xfer o0) (o_xfer o);
    all2 (fun a b => ojsim (fst a) (fst b) && ojsim (snd a) (snd b)) (o_conv o0) (o_conv o) ].
Definition spec_diag (c : acase) : list (list bool) :=
  match a_insts c with
  | [] => []
  | i0 :: rest => map (spec_diag_inst i0) (i0 :: rest)
  end.
