(* TransferImpl.v -- model of Stack.Transfer / stack.transfer over two raw
   slices (source and destination), on top of StackImpl.  The pre-check and
   the success expression come from Generated.g_transfer.  No proofs. *)
From Stackage Require Import Base Generated StackImpl.
Open Scope Z_scope.

Section TransferImpl.
  Variable V : Type.
  Variable nilv : V.
  Variable isnil : V -> bool.
  Variable isstack : V -> bool.
  Variable pol : N -> V -> option N.

  Notation raw := (raw V).

  (* the loop "for i := 0; i < r.ulen(); i++ { sl,_,_ := r.index(i); dest.push(sl) }" *)
  Fixpoint xfer_loop (fuel : nat) (i : Z) (src dst : raw) : res raw :=
    match fuel with
    | O => Ok dst
    | S f =>
        do (s, _, _) <- index V nilv isnil src i;
        do (dst', _) <- push V isstack pol dst [slot_val V nilv s];
        xfer_loop f (i + 1) src dst'
    end.

  (* stack.transfer *)
  Definition transfer (src dst : raw) : res (raw * bool) :=
    do cd <- config V dst;
    let u := ulen V src in
    do dst' <- xfer_loop (Z.to_nat u) 0 src dst;
    match g_transfer u (k_cap cd) (zlen dst) (ulen V dst) (zlen dst') (ulen V dst') with
    | TRet [] [looped; ok] => if looped then Ok (dst', ok) else Ok (dst, ok)
    | _ => Unmodelled
    end.

  (* Stack.Transfer(dest any): [None] = dest does not convert to an
     initialised Stack (nil, zero value, foreign type) *)
  Definition Transfer (src : raw) (dest : option raw) : res (option raw * bool) :=
    if negb (is_init V src) then Ok (dest, false) else
    match dest with
    | None => Ok (None, false)
    | Some dst =>
        do cd <- config V dst;
        if positive cd c_ronly then Ok (dest, false)
        else do (dst', ok) <- transfer src dst; Ok (Some dst', ok)
    end.
End TransferImpl.
