(* ConcProofs.v -- linearizability of the interleaving model Conc.v with
   respect to the sequential list model (StackImpl.run), for any number of
   goroutines, any programs of the eight mutators and any schedule. *)
From Stackage Require Import Base Generated StackImpl StackSpec StackSpecLemmas StackRefine Conc.
From Coq Require Import ZifyBool.
Open Scope Z_scope.

Section ConcProofs.
  Variable V : Type.
  Variable nilv : V.
  Variable isnil : V -> bool.
  Variable isstack : V -> bool.
  Variable pol : N -> V -> option N.
  Hypothesis nil_isnil : isnil nilv = true.
  Hypothesis isnil_eq : forall v, isnil v = true -> v = nilv.

  Notation mk := (mk V).
  Notation step := (step V nilv isnil isstack pol).
  Notation run := (run V nilv isnil isstack pol).
  Notation body := (body V nilv isnil isstack pol).
  Notation pre_skip := (pre_skip V isnil).
  Notation zero_out := (zero_out V nilv).
  Notation cstep := (cstep V nilv isnil isstack pol).
  Notation crun := (crun V nilv isnil isstack pol).
  Notation to_op := (to_op V).
  Notation mop := (mop V).
  Notation thr := (thr V).
  Notation gst := (gst V).
  Local Notation pop_spec := (pop_spec V nilv isnil nil_isnil).
  Local Notation IsEmpty_mk := (IsEmpty_mk V nilv isnil nil_isnil).
  Local Notation step_refines := (step_refines V nilv isnil isstack pol nil_isnil isnil_eq).
  Local Notation growth_nonneg := (growth_nonneg V nilv isnil nil_isnil).
  Local Notation grow_nonneg := (grow_nonneg V nilv isnil nil_isnil).

  (* the unlocked tests passed: not read-only, argument not nil *)
  Definition pre_ok (c : scfg) (o : mop) : Prop :=
    has (k_opt c) f_ronly = false /\
    match o with MInsert v _ | MReplace v _ => isnil v = false | _ => True end.

  Lemma pre_skip_true c els o :
    zlen els < Bnd -> pre_skip (mk c els) o = Ok true -> step (mk c els) (to_op o) = Ok (mk c els, zero_out o).
  Proof.
    intros Hb. unfold Conc.pre_skip. cbn [config StackRefine.mk bind]. fold (mk c els).
    destruct o; cbn [Conc.to_op StackImpl.step config StackRefine.mk bind Conc.zero_out]; fold (mk c els);
      intros H; injection H as H1; rewrite ?H1; try reflexivity.
  Qed.

  Lemma pre_skip_false c els o :
    pre_skip (mk c els) o = Ok false -> pre_ok c o.
  Proof.
    unfold Conc.pre_skip, pre_ok. cbn [config StackRefine.mk bind]. fold (mk c els).
    change (positive c c_ronly) with (has (k_opt c) f_ronly).
    destruct o; intros H; injection H as H1; try (split; [assumption|exact I]).
    - apply orb_false_iff in H1 as [_ H1]. split; [exact H1|exact I].
    - apply orb_false_iff in H1 as [H0 H1]. split; assumption.
    - apply orb_false_iff in H1 as [H0 H1]. split; assumption.
    - apply orb_false_iff in H1 as [_ H1]. split; [exact H1|exact I].
  Qed.

  (* once the unlocked tests have passed, the critical section does what the
     whole sequential call does on the state it finds *)
  Lemma body_eq_step c els o :
    zlen els < Bnd -> pre_ok c o -> body (mk c els) o = step (mk c els) (to_op o).
  Proof.
    intros Hb [Hro Hn]. assert (R : positive c c_ronly = false) by exact Hro.
    destruct o; cbn [Conc.body Conc.to_op StackImpl.step config StackRefine.mk bind]; fold (mk c els);
      rewrite ?R, ?Hn, ?orb_false_r; cbn [orb]; try reflexivity.
    - (* Pop: the emptiness re-check under the lock *)
      rewrite IsEmpty_mk by assumption. rewrite pop_spec by assumption.
      destruct (zlen els =? 0); reflexivity.
    - (* Reverse on an empty stack is the identity *)
      rewrite IsEmpty_mk by assumption. destruct (Z.eqb_spec (zlen els) 0) as [E|E]; [|reflexivity].
      assert (els = []) by (destruct els; [reflexivity|rewrite zlen_cons in E; pose proof (zlen_nonneg els); lia]).
      subst els. reflexivity.
  Qed.

  (* mutators never touch the option word *)
  Lemma mutator_keeps_opts m c els o :
    cap_ok c (zlen els) -> zlen els <= m -> m + grow V (to_op o) < Bnd -> op_i64 V (to_op o) ->
    exists c' els' x, step (mk c els) (to_op o) = Ok (mk c' els', x) /\ cap_ok c' (zlen els') /\
                      zlen els' <= m + grow V (to_op o) /\ k_opt c' = k_opt c /\ abs_out V x <> None.
  Proof.
    intros Hc Hm Hb Hi.
    destruct (step_refines m c els (to_op o) Hc Hm Hb Hi) as (c' & els' & x & sx & E & Hc' & Hm' & S & A).
    exists c', els', x. repeat split; auto; [|congruence].
    assert (a_opts (s_cfg (fst (sstep V nilv isnil isstack pol (abs V c els) (to_sop V (to_op o))))) = a_opts (abs_cfg c)).
    { clear. destruct o; cbn [Conc.to_op to_sop StackSpec.sstep StackRefine.abs s_cfg s_elems];
        repeat match goal with
               | |- context [if ?b then _ else _] => destruct b
               | |- context [match ?x with _ => _ end] => destruct x
               end; reflexivity. }
    rewrite S in H. exact H.
  Qed.

  Lemma run_app r l1 : forall l2 r1 o1,
    run r l1 = Ok (r1, o1) ->
    run r (l1 ++ l2) = (do (r2, o2) <- run r1 l2; Ok (r2, o1 ++ o2)).
  Proof.
    revert r. induction l1 as [|o t IH]; intros r l2 r1 o1 H; cbn [StackImpl.run app] in *.
    - inversion H; subst. destruct (run r1 l2) as [[? ?]| |]; reflexivity.
    - destruct (step r o) as [[r' x]| |]; cbn [bind] in *; try discriminate.
      destruct (run r' t) as [[r'' xs]| |] eqn:E; cbn [bind] in *; try discriminate.
      inversion H; subst. rewrite (IH r' l2 r1 xs E).
      destruct (run r1 l2) as [[? ?]| |]; reflexivity.
  Qed.

  (* ---- bookkeeping ---- *)
  Definition thr_growth (t : thr) : Z := growth V (map to_op (t_todo V t)).
  Definition tgrow (l : list thr) : Z := fold_right (fun t a => thr_growth t + a) 0 l.

  Lemma tgrow_nonneg l : 0 <= tgrow l.
  Proof. induction l as [|t l IH]; [cbn; lia|]. change (tgrow (t :: l)) with (thr_growth t + tgrow l). pose proof (growth_nonneg (map to_op (t_todo V t))). unfold thr_growth. lia. Qed.

  Lemma tgrow_set_nth l : forall i t t',
    nth_error l i = Some t -> tgrow (set_nth i t' l) = tgrow l - thr_growth t + thr_growth t'.
  Proof.
    induction l as [|h l IH]; intros [|i] t t' H; cbn [nth_error] in H; try discriminate.
    - inversion H; subst. cbn [set_nth]. change (tgrow (t' :: l)) with (thr_growth t' + tgrow l).
      change (tgrow (t :: l)) with (thr_growth t + tgrow l). lia.
    - cbn [set_nth]. change (tgrow (h :: set_nth i t' l)) with (thr_growth h + tgrow (set_nth i t' l)).
      change (tgrow (h :: l)) with (thr_growth h + tgrow l). rewrite (IH i t t' H). lia.
  Qed.

  Definition ops_i64 (l : list thr) : Prop := Forall (fun t => Forall (fun o => op_i64 V (to_op o)) (t_todo V t)) l.

  Lemma nth_error_set_nth_eq {A} (l : list A) i x : forall y, nth_error l i = Some y -> nth_error (set_nth i x l) i = Some x.
  Proof. revert i; induction l as [|h l IH]; intros [|i] y H; cbn in *; try discriminate; eauto. Qed.
  Lemma nth_error_set_nth_neq {A} (l : list A) i j x : i <> j -> nth_error (set_nth i x l) j = nth_error l j.
  Proof. revert i j; induction l as [|h l IH]; intros [|i] [|j] H; cbn; try reflexivity; try congruence. apply IH. congruence. Qed.

  Lemma Forall_set_nth {A} (P : A -> Prop) l i x : Forall P l -> P x -> Forall P (set_nth i x l).
  Proof.
    revert i; induction l as [|h l IH]; intros i H Hx; [destruct i; constructor|].
    inversion H; subst. destruct i; cbn [set_nth]; constructor; auto.
  Qed.

  (* the global invariant: c0 = initial configuration, r0 = initial slice, M = length bound *)
  Definition ginv (r0 : raw V) (c0 : scfg) (M : Z) (g : gst) : Prop :=
    exists c els,
      g_raw V g = mk c els /\ cap_ok c (zlen els) /\ k_opt c = k_opt c0 /\
      zlen els + tgrow (g_thr V g) <= M /\
      ops_i64 (g_thr V g) /\
      (* waiting goroutines have passed the unlocked tests *)
      Forall (fun t => t_want V t = true -> exists o rest, t_todo V t = o :: rest /\ pre_ok c0 o) (g_thr V g) /\
      (* the completed calls, in the order they took effect, are a sequential run *)
      run r0 (map (fun e => to_op (snd (fst e))) (rev (g_log V g))) = Ok (g_raw V g, map snd (rev (g_log V g))) /\
      Forall (fun e => abs_out V (snd e) <> None) (g_log V g).

  Lemma ginv_step r0 c0 M g tid :
    M < Bnd -> ginv r0 c0 M g ->
    match cstep g tid with
    | CNext g' => ginv r0 c0 M g'
    | CIdle => True
    | CPanic => False
    end.
  Proof.
    intros HM (c & els & Hr & Hc & Ho & Hg & Hi & Hw & Hrun & Hout).
    pose proof (zlen_nonneg els) as Hnn. pose proof (tgrow_nonneg (g_thr V g)) as Htn.
    unfold Conc.cstep.
    destruct (nth_error (g_thr V g) tid) as [t|] eqn:Et; [|exact I].
    destruct (t_todo V t) as [|o rest] eqn:Etodo; [exact I|].
    assert (Hin : In t (g_thr V g)) by (eapply nth_error_In; eauto).
    assert (Hio : op_i64 V (to_op o) /\ Forall (fun o => op_i64 V (to_op o)) rest).
    { unfold ops_i64 in Hi. rewrite Forall_forall in Hi. specialize (Hi t Hin). rewrite Etodo in Hi. inversion Hi; auto. }
    destruct Hio as [Hio Hirest].
    assert (Hgo : thr_growth t = grow V (to_op o) + growth V (map to_op rest)).
    { unfold thr_growth. rewrite Etodo. reflexivity. }
    pose proof (growth_nonneg (map to_op rest)) as Hgr. pose proof (grow_nonneg (to_op o)) as Hgo0.
    (* how much of the bound this goroutine's pending call may use *)
    assert (Hbound : zlen els + grow V (to_op o) <= M).
    { pose proof (tgrow_set_nth (g_thr V g) tid t {| t_todo := []; t_want := false; t_done := [] |} Et) as X.
      pose proof (tgrow_nonneg (set_nth tid {| t_todo := []; t_want := false; t_done := [] |} (g_thr V g))) as Y.
      unfold thr_growth at 2 in X. cbn [t_todo map growth] in X. lia. }
    (* finishing a call with state (c', els') and output x, given the sequential step *)
    assert (Hfin : forall c' els' x,
               step (mk c els) (to_op o) = Ok (mk c' els', x) -> cap_ok c' (zlen els') ->
               zlen els' <= zlen els + grow V (to_op o) -> k_opt c' = k_opt c -> abs_out V x <> None ->
               ginv r0 c0 M (finish V g (mk c' els') tid t o rest x)).
    { intros c' els' x Hs Hc' Hl' Ho' Hx. exists c', els'. unfold finish. cbn [g_raw g_thr g_log].
      split; [reflexivity|]. split; [exact Hc'|]. split; [congruence|].
      split.
      { unfold upd_thr. rewrite (tgrow_set_nth _ _ _ _ Et). unfold thr_growth at 2. cbn [t_todo]. rewrite Hgo. lia. }
      split.
      { unfold ops_i64, upd_thr. apply Forall_set_nth; [exact Hi|]. cbn [t_todo]. exact Hirest. }
      split.
      { unfold upd_thr. apply Forall_set_nth; [exact Hw|]. cbn [t_want]. discriminate. }
      split.
      { cbn [rev]. rewrite !map_app. cbn [map fst snd].
        rewrite (run_app r0 _ [to_op o] _ _ Hrun). cbn [StackImpl.run]. rewrite Hr, Hs. reflexivity. }
      constructor; [exact Hx|exact Hout]. }
    destruct (t_want V t) eqn:Ew.
    - (* critical section *)
      rewrite Forall_forall in Hw. destruct (Hw t Hin Ew) as (o' & rest' & E' & Hpre). rewrite Etodo in E'. inversion E'; subst o' rest'.
      assert (Hpre' : pre_ok c o) by (unfold pre_ok in *; rewrite Ho; exact Hpre).
      rewrite Hr. rewrite (body_eq_step c els o ltac:(lia) Hpre').
      destruct (mutator_keeps_opts (zlen els) c els o Hc ltac:(lia) ltac:(lia) Hio) as (c' & els' & x & E & Hc' & Hl' & Ho' & Hx).
      rewrite E. apply (Hfin c' els' x E Hc' Hl' Ho' Hx).
    - (* the unlocked part of the wrapper *)
      rewrite Hr. destruct (pre_skip (mk c els) o) as [[|]| |] eqn:Ep.
      + pose proof (pre_skip_true c els o ltac:(lia) Ep) as Es.
        rewrite <- Hr. rewrite <- Hr in Es.
        assert (Hz : abs_out V (zero_out o) <> None) by (destruct o; discriminate).
        rewrite Hr. rewrite Hr in Es. apply (Hfin c els (zero_out o) Es Hc ltac:(lia) eq_refl Hz).
      + pose proof (pre_skip_false c els o Ep) as Hpre.
        exists c, els. cbn [g_raw g_thr g_log].
        split; [try reflexivity; try exact Hr|]. split; [exact Hc|]. split; [exact Ho|].
        split.
        { unfold upd_thr. rewrite (tgrow_set_nth _ _ _ _ Et). unfold thr_growth. cbn [t_todo]. rewrite ?Etodo. lia. }
        split.
        { unfold ops_i64, upd_thr. apply Forall_set_nth; [exact Hi|]. cbn [t_todo]. rewrite ?Etodo. constructor; assumption. }
        split.
        { unfold upd_thr. apply Forall_set_nth; [exact Hw|]. cbn [t_want t_todo]. intros _.
          exists o, rest. split; [rewrite ?Etodo; reflexivity|]. unfold pre_ok in *. rewrite <- Ho. exact Hpre. }
        split; [rewrite <- ?Hr; exact Hrun|exact Hout].
      + unfold Conc.pre_skip in Ep. cbn [config StackRefine.mk bind] in Ep. destruct o; discriminate.
      + unfold Conc.pre_skip in Ep. cbn [config StackRefine.mk bind] in Ep. destruct o; discriminate.
  Qed.

  Theorem crun_inv r0 c0 M sched : forall g,
    M < Bnd -> ginv r0 c0 M g -> exists g', crun g sched = Some g' /\ ginv r0 c0 M g'.
  Proof.
    induction sched as [|tid rest IH]; intros g HM Hg; cbn [Conc.crun].
    - exists g. auto.
    - pose proof (ginv_step r0 c0 M g tid HM Hg) as H.
      destruct (cstep g tid) as [g'| |]; [apply IH; assumption|apply IH; assumption|contradiction].
  Qed.

  Lemma ginit_inv c0 els0 progs M :
    cap_ok c0 (zlen els0) ->
    zlen els0 + tgrow (g_thr V (ginit V (mk c0 els0) progs)) <= M ->
    Forall (fun p => Forall (fun o => op_i64 V (to_op o)) p) progs ->
    ginv (mk c0 els0) c0 M (ginit V (mk c0 els0) progs).
  Proof.
    intros Hc Hm Hi. exists c0, els0. unfold ginit. cbn [g_raw g_thr g_log rev map].
    repeat split; auto.
    - unfold ops_i64. rewrite Forall_map. cbn [t_todo]. exact Hi.
    - rewrite Forall_map. apply Forall_forall. intros p _. cbn [t_want]. discriminate.
  Qed.

  (* every schedule from every initial state: no panic, the shared slice
     stays well-formed and within capacity, and the completed calls, in the
     order they took effect, form a sequential execution of the list model
     returning exactly the values the goroutines received and ending in
     exactly the shared content; the configuration record is never an output *)
  Theorem conc_linearizable c0 els0 progs sched M :
    cap_ok c0 (zlen els0) -> M < Bnd ->
    zlen els0 + tgrow (g_thr V (ginit V (mk c0 els0) progs)) <= M ->
    Forall (fun p => Forall (fun o => op_i64 V (to_op o)) p) progs ->
    exists g c els,
      crun (ginit V (mk c0 els0) progs) sched = Some g /\
      g_raw V g = mk c els /\ cap_ok c (zlen els) /\ k_opt c = k_opt c0 /\
      run (mk c0 els0) (map (fun e => to_op (snd (fst e))) (rev (g_log V g))) = Ok (g_raw V g, map snd (rev (g_log V g))) /\
      Forall (fun e => abs_out V (snd e) <> None) (g_log V g).
  Proof.
    intros Hc HM Hm Hi.
    destruct (crun_inv (mk c0 els0) c0 M sched _ HM (ginit_inv c0 els0 progs M Hc Hm Hi)) as (g & R & (c & els & Hr & Hc' & Ho & _ & _ & _ & Hrun & Hout)).
    exists g, c, els. auto 10.
  Qed.

  (* some goroutine can always move: a goroutine with work left is never blocked *)
  Theorem conc_no_deadlock r0 c0 M g tid t :
    M < Bnd -> ginv r0 c0 M g -> nth_error (g_thr V g) tid = Some t -> t_todo V t <> [] ->
    exists g', cstep g tid = CNext g'.
  Proof.
    intros HM Hg Et Hn. pose proof (ginv_step r0 c0 M g tid HM Hg) as H.
    unfold Conc.cstep in *. rewrite Et in *. destruct (t_todo V t) as [|o rest]; [contradiction|].
    destruct (t_want V t).
    - destruct (body (g_raw V g) o) as [[r' x]| |]; [eauto|contradiction|contradiction].
    - destruct (pre_skip (g_raw V g) o) as [[|]| |]; [eauto|eauto|contradiction|contradiction].
  Qed.

  (* ---- the order in which calls took effect respects every goroutine's own order ---- *)
  Definition proj (tid : nat) (log : list (nat * mop * out V)) : list (nat * mop * out V) :=
    filter (fun e => (fst (fst e) =? tid)%nat) log.

  Definition oinv (progs : list (list mop)) (g : gst) : Prop :=
    forall tid t, nth_error (g_thr V g) tid = Some t ->
      exists p0, nth_error progs tid = Some p0 /\
        map (fun e => snd (fst e)) (proj tid (rev (g_log V g))) ++ t_todo V t = p0 /\
        map snd (proj tid (rev (g_log V g))) = rev (t_done V t).

  Lemma proj_snoc tid log e :
    proj tid (log ++ [e]) = proj tid log ++ (if (fst (fst e) =? tid)%nat then [e] else []).
  Proof. unfold proj. rewrite filter_app. cbn [filter]. destruct (fst (fst e) =? tid)%nat; reflexivity. Qed.

  Lemma oinv_step progs g tid g' :
    oinv progs g -> cstep g tid = CNext g' -> oinv progs g'.
  Proof.
    intros H. unfold Conc.cstep.
    destruct (nth_error (g_thr V g) tid) as [t|] eqn:Et; [|discriminate].
    destruct (t_todo V t) as [|o rest] eqn:Etodo; [discriminate|].
    assert (Hfin : forall r' x, oinv progs (finish V g r' tid t o rest x)).
    { intros r' x tid' t' Ht'. unfold finish in *. cbn [g_thr g_log] in *. cbn [rev]. rewrite proj_snoc. cbn [fst snd].
      destruct (Nat.eqb_spec tid tid') as [->|Hne].
      - unfold upd_thr in Ht'. rewrite (nth_error_set_nth_eq _ _ _ _ Et) in Ht'. inversion Ht'; subst t'. cbn [t_todo t_done].
        destruct (H tid' t Et) as (p0 & Hp & Ho & Hd). exists p0. split; [exact Hp|].
        rewrite !map_app. cbn [map fst snd rev]. rewrite <- app_assoc. cbn [app].
        rewrite Etodo in Ho. split; [exact Ho|]. rewrite Hd. reflexivity.
      - unfold upd_thr in Ht'. rewrite nth_error_set_nth_neq in Ht' by assumption.
        rewrite app_nil_r. apply (H tid' t' Ht'). }
    destruct (t_want V t).
    - destruct (body (g_raw V g) o) as [[r' x]| |]; intros E; inversion E; subst. apply Hfin.
    - destruct (pre_skip (g_raw V g) o) as [[|]| |]; intros E; inversion E; subst; [apply Hfin|].
      intros tid' t' Ht'. cbn [g_thr g_log] in *.
      destruct (Nat.eqb_spec tid tid') as [->|Hne].
      + unfold upd_thr in Ht'. rewrite (nth_error_set_nth_eq _ _ _ _ Et) in Ht'. inversion Ht'; subst t'. cbn [t_todo t_done].
        destruct (H tid' t Et) as (p0 & Hp & Ho & Hd). exists p0. rewrite Etodo in Ho. auto.
      + unfold upd_thr in Ht'. rewrite nth_error_set_nth_neq in Ht' by assumption. apply (H tid' t' Ht').
  Qed.

  Lemma oinv_init r progs : oinv progs (ginit V r progs).
  Proof.
    intros tid t Ht. unfold ginit in Ht. cbn [g_thr g_log] in *.
    rewrite nth_error_map in Ht. destruct (nth_error progs tid) as [p|] eqn:Ep; [|discriminate].
    inversion Ht; subst. exists p. cbn. auto.
  Qed.

  Theorem conc_program_order progs sched : forall g g',
    oinv progs g -> crun g sched = Some g' -> oinv progs g'.
  Proof.
    induction sched as [|tid rest IH]; intros g g' H R; cbn [Conc.crun] in R.
    - inversion R; subst. exact H.
    - destruct (cstep g tid) as [g1| |] eqn:E; [|eapply IH; eauto|discriminate].
      eapply IH; [|exact R]. eapply oinv_step; eauto.
  Qed.

End ConcProofs.
