(* EqualSpecCorr.v -- specification-side evaluation of recorded IsEqual
   cases: an executable decision of [equiv] (proved equivalent to the
   relation in EqualProofs.v), the case record, the verdict function and the
   known-finding classifier.  Independent of Generated.v and of the model.
   Executable definitions only. *)
From Stackage Require Import Base Values EqualBase EqualSpec.
Open Scope Z_scope.

Fixpoint all2b {A B} (f : A -> B -> bool) (a : list A) (b : list B) : bool :=
  match a, b with
  | [], [] => true
  | x :: a', y :: b' => f x y && all2b f a' b'
  | _, _ => false
  end.

(* ---- deciding gequiv / equiv (fuel = size of the left argument) ---- *)
Definition op_sameb (a b : option oper) : bool :=
  match a, b with
  | None, None => true
  | Some x, Some y => bytes_eqb (op_text x) (op_text y) && bytes_eqb (op_ctx x) (op_ctx y)
  | _, _ => false
  end.

Definition same_kindb (c c' : config) : bool :=
  (c_typ c =? c_typ c')%N && Bool.eqb (fold_on c) (fold_on c').

Definition gequivb_body (rec : gval -> gval -> bool) (x y : gval) : bool :=
  match gunder x, gunder y with
  | Some p, Some q =>
      if is_prim p then prim_eqb p q
      else
        match p, q with
        | GFunc t _, GFunc u _ => is_func x && is_func y && (t =? u)%N
        | GChan t i, GChan u j => is_chan x && is_chan y && (t =? u)%N && (i =? j)%N
        | GMap t kx, GMap u ky =>
            (t =? u)%N && (length kx =? length ky)%nat &&
            forallb (fun kv => match glookup (fst kv) ky with Some v' => rec (snd kv) v' | None => false end) kx
        | GStruct _ fs, GStruct _ gs =>
            all2b (fun f f' => (negb (fexp f) && negb (fexp f')) ||
                               (bytes_eqb (fname f) (fname f') && fexp f && fexp f' && rec (fval f) (fval f'))) fs gs
        | _, _ =>
            match seq_parts p, seq_parts q with
            | Some (cx, lx), Some (cy, ly) => (cx =? cy) && all2b rec lx ly
            | _, _ => false
            end
        end
  | _, _ => false
  end.

Fixpoint gequivb (n : nat) (x y : gval) : bool :=
  match n with
  | O => false
  | S n' => gequivb_body (gequivb n') x y
  end.

Definition equivb_body (rec : value -> value -> bool) (x y : value) : bool :=
  match x, y with
  | VNil, VNil => true
  | VLeaf a, VLeaf b => gequivb (gsize a) a b
  | VStack _ c els, VStack _ c' els' => same_kindb c c' && (c_cap c =? c_cap c') && all2b rec els els'
  | VCond _ _ kw op ex, VCond _ _ kw' op' ex' => bytes_eqb kw kw' && op_sameb op op' && rec ex ex'
  | _, _ => false
  end.

Fixpoint equivb_fuel (n : nat) (x y : value) : bool :=
  match n with
  | O => false
  | S n' => equivb_body (equivb_fuel n') x y
  end.

Definition equivb (x y : value) : bool := equivb_fuel (vsz x) x y.

(* ---- recorded cases ---- *)
(* outcome of one call: 0 = nil error, 1 = an error, 2 = panic *)
Record ecase := MkEq { e_a : value; e_b : value; e_ab : N; e_ba : N }.

Definition expected (x y : value) : N := if equivb x y then 0%N else 1%N.

(* what C05 demands of a.IsEqual(b) and b.IsEqual(a): never a panic; on
   the statement's domain (receiver and argument supported trees) nil exactly
   when the two are equivalent *)
Definition call_ok (x y : value) (o : N) : bool :=
  negb (o =? 2)%N &&
  (if is_receiver x && vsupp x && vsupp y then (o =? expected x y)%N else true).

Definition spec_ok (c : ecase) : bool :=
  call_ok (e_a c) (e_b c) (e_ab c) &&
  (if is_receiver (e_b c) then call_ok (e_b c) (e_a c) (e_ba c) else true).

Definition check (c : ecase) : N := if spec_ok c then 0%N else 2%N.

(* known-finding classifier: which of the residual deviations a case
   touches (0 = none).  1 = R1 nil pointer as slice/array element, 2 = R3 a
   struct whose only field is unexported compared with a Stack/Condition,
   3 = R4 Condition.IsEqual with a non-Condition argument *)
Definition kf (c : ecase) : N :=
  let a := e_a c in let b := e_b c in
  if negb (no_nil_elem a && no_nil_elem b) then 1%N
  else if negb (no_lone_private a && no_lone_private b) then 2%N
  else match a, b with
       | VCond _ _ _ _ _, VCond _ _ _ _ _ => 0%N
       | VCond _ _ _ _ _, _ | _, VCond _ _ _ _ _ => 3%N
       | _, _ => 0%N
       end.

(* shard evaluation: indices and codes of the cases with a non-zero code *)
Fixpoint nonzero_from {A} (f : A -> N) (i : N) (l : list A) : list (N * N) :=
  match l with
  | [] => []
  | x :: t => let v := f x in
              if (v =? 0)%N then nonzero_from f (i + 1)%N t else (i, v) :: nonzero_from f (i + 1)%N t
  end.
Definition verdicts {A} (f : A -> N) (l : list A) : list (N * N) := nonzero_from f 0%N l.
