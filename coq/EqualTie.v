(* EqualTie.v -- the key loop of the model's map comparison (Equal.map_loop)
   is the loop of mapsEqual in misc.go, iteration by iteration.
   Generated.g_mapsEqual_body is regenerated from /repo: the function must
   consist of the allow-listed preamble, the single loop
   "for _, key := range xrv.MapKeys()" and a final return; in one iteration a
   key the other map lacks ends the comparison with an error (cut 0), a
   differing value ends it at once with that error (cut 1: "return"), and only
   an equal value lets the loop go on (TRet).  The verdict therefore never
   depends on what later keys say - whatever order the runtime walks them in. *)
From Stackage Require Import Base Generated StackImpl Values EqualBase Equal.
From Coq Require Import String.
Open Scope Z_scope.

Definition ok_true (r : res bool) : bool := match r with Ok true => true | _ => false end.
Definition is_some {A} (o : option A) : bool := match o with Some _ => true | None => false end.

Section Tie.
  Variable rec : value -> value -> res bool.

  Lemma map_loop_iteration (k v : gval) (t ky : list (gval * gval)) :
    map_loop rec ((k, v) :: t) ky =
    match glookup k ky with
    | None =>
        match g_mapsEqual_body false false with
        | TCut 0 _ _ => Ok false                      (* "Map key mismatch" *)
        | _ => Unmodelled
        end
    | Some v' =>
        let r := rec (VLeaf v) (VLeaf v') in
        match g_mapsEqual_body true (negb (ok_true r)) with
        | TCut 1 _ _ => r                             (* return with the error (or the panic) of this entry *)
        | TRet _ _ => map_loop rec t ky               (* equal: next key *)
        | _ => Unmodelled
        end
    end.
  Proof.
    cbn [map_loop]. destruct (glookup k ky) as [v'|]; [|reflexivity].
    cbv zeta. unfold andthen.
    destruct (rec (VLeaf v) (VLeaf v')) as [[|]| |]; reflexivity.
  Qed.

  (* a differing entry decides, wherever it stands among the keys *)
  Lemma map_loop_first_difference (pre : list (gval * gval)) k v v' t ky :
    (forall p q, In (p, q) pre -> exists q', glookup p ky = Some q' /\ rec (VLeaf q) (VLeaf q') = Ok true) ->
    glookup k ky = Some v' -> rec (VLeaf v) (VLeaf v') = Ok false ->
    map_loop rec (pre ++ (k, v) :: t) ky = Ok false.
  Proof.
    intros Hpre Hk Hd. induction pre as [|[p q] pre IH]; cbn [app].
    - cbn [map_loop]. rewrite Hk. unfold andthen. rewrite Hd. reflexivity.
    - cbn [map_loop]. destruct (Hpre p q (or_introl eq_refl)) as (q' & Hl & Hr).
      rewrite Hl. unfold andthen. rewrite Hr. apply IH. intros a b Hin. apply Hpre. right. exact Hin.
  Qed.

  Lemma maps_cut_tails :
    g_mapsEqual_body_tails = ["err = errorf(""Map key mismatch""); return"%string; "return"%string].
  Proof. reflexivity. Qed.
End Tie.
