(* AliasProofs4.v -- C12, part 4: consequences.  Trees with aliases inherit
   the rendering grammar of C02; erase_all (which also retypes zero-valued
   aliases) coincides with erase_alias where no zero-valued alias occurs, and
   the unguarded erase_all statement is false (IsNesting). *)
From Stackage Require Import Base Generated StackImpl Values JVal AliasSpec Alias AliasProofs.
From Stackage Require Render RenderSpec RenderProofs.
Open Scope Z_scope.

(* a tree with aliases renders by the grammar of C02 applied to its erasure *)
Theorem alias_tree_renders_by_grammar t :
  cond_exprs_ok t = true ->
  native_tree (erase_alias t) = true ->
  RenderSpec.dom (erase_alias t) = true -> RenderSpec.has_kf (erase_alias t) = false ->
  a_string t = Ok (RenderSpec.render (erase_alias t)).
Proof.
  intros Hc Hn Hd Hk.
  rewrite <- (erase_alias_hom_string_partial t Hc), (a_string_native _ Hn).
  now apply RenderProofs.model_eq_spec_guarded.
Qed.

(* erase_all = erase_alias on trees without zero-valued aliases, so each
   homomorphism theorem holds for erase_all on those trees *)
Theorem erase_all_hom_partial t :
  no_zero_alias t = true ->
  erase_all t = erase_alias t /\
  a_IsNesting (erase_all t) = a_IsNesting t /\
  a_Len (erase_all t) = a_Len t /\
  (cond_exprs_ok t = true -> a_string (erase_all t) = a_string t).
Proof.
  intros H. rewrite (erase_all_alias t H).
  repeat split.
  - apply erase_alias_hom_isnesting.
  - apply erase_alias_hom_len.
  - apply erase_alias_hom_string_partial.
Qed.

(* without the guard the erase_all statement is false: stack.isNesting's type
   switch counts a zero native Stack{} and not a zero alias *)
Theorem erase_all_isnesting_refuted :
  exists t, a_IsNesting (erase_all t) <> a_IsNesting t /\
            a_IsNesting t = Ok false /\ a_IsNesting (erase_all t) = Ok true.
Proof.
  exists (VStack Native (cfg0 1) [VZeroStack AliasVal]). split; [|split]; vm_compute; try reflexivity. discriminate.
Qed.
