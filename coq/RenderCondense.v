(* RenderCondense.v -- byte-level lemmas about blanks: the model's
   condenseWHSP (TrimSpace, then the loop with its [last] flag) equals the
   specification's condense (squeeze runs, then strip the ends); what a
   condensed string looks like; idempotence; blank-insensitive equivalence
   of strings (used for the padding arithmetic of assembleStringStack). *)
From Stackage Require Import Base Generated StackImpl Values Render RenderSpec.
Open Scope N_scope.

(* ---- byte classes: the two formulations agree ---- *)
Lemma blank_is_blank b : blank b = is_blank b.
Proof. destruct b; reflexivity. Qed.
Lemma wspace_is_space b : wspace b = is_space b.
Proof. destruct b; reflexivity. Qed.
Lemma blank_wspace b : blank b = true -> wspace b = true.
Proof. destruct b; simpl; congruence. Qed.
Lemma blank_cases b : blank b = true -> b = x20 \/ b = x09.
Proof. destruct b; simpl; intro H; try discriminate; auto. Qed.
Lemma notempty_nonempty s : notempty s = nonempty s.
Proof. destruct s; reflexivity. Qed.

Notation sq := condense_loop.

(* ---- the loop, with blank instead of is_blank ---- *)
Lemma sq_cons l a t :
  sq l (a :: t) = if blank a then (if l then sq true t else x20 :: sq true t) else a :: sq false t.
Proof. cbn [condense_loop]. rewrite blank_is_blank. reflexivity. Qed.

Lemma sq_nil l : sq l [] = [].
Proof. reflexivity. Qed.

(* squeeze (look-ahead) is the loop started with last = false *)
Lemma squeeze_sq s : squeeze s = sq false s.
Proof.
  induction s as [|a t IH]; [reflexivity|].
  rewrite sq_cons. cbn [squeeze]. destruct (blank a) eqn:Ha.
  - destruct t as [|b t']; [reflexivity|].
    rewrite sq_cons. rewrite IH, sq_cons. destruct (blank b); reflexivity.
  - rewrite IH. reflexivity.
Qed.

(* ---- trimming ---- *)
Lemma trim_left_strip_l s : trim_left s = strip_l s.
Proof.
  induction s as [|a t IH]; [reflexivity|].
  cbn [trim_left strip_l]. rewrite wspace_is_space, IH. reflexivity.
Qed.

Lemma strip_r_cons a t :
  strip_r (a :: t) = match strip_r t with [] => if wspace a then [] else [a] | _ => a :: strip_r t end.
Proof. reflexivity. Qed.

Lemma strip_r_snoc s a : strip_r (s ++ [a]) = if wspace a then strip_r s else s ++ [a].
Proof.
  induction s as [|b t IH].
  - cbn. destruct (wspace a); reflexivity.
  - rewrite <- app_comm_cons, !strip_r_cons, IH.
    destruct (wspace a).
    + reflexivity.
    + destruct (t ++ [a]) eqn:E; [destruct t; discriminate|]. reflexivity.
Qed.

Lemma strip_r_rev s : strip_r s = rev (strip_l (rev s)).
Proof.
  induction s as [|a t IH] using rev_ind; [reflexivity|].
  rewrite strip_r_snoc, rev_app_distr. cbn [rev app strip_l].
  destruct (wspace a).
  - exact IH.
  - cbn [rev]. rewrite rev_involutive. reflexivity.
Qed.

Lemma trimS_strip s : trimS s = strip s.
Proof.
  unfold trimS, strip. rewrite !trim_left_strip_l, strip_r_rev. reflexivity.
Qed.

(* a non-empty result of strip_r ends in (so: contains) a non-white byte *)
Lemma strip_r_has_nonws s : strip_r s <> [] -> exists a, In a (strip_r s) /\ wspace a = false.
Proof.
  induction s as [|a t IH]; [intros H; elim H; reflexivity|].
  rewrite strip_r_cons. destruct (strip_r t) eqn:E.
  - destruct (wspace a) eqn:Ha; [intros H; elim H; reflexivity|].
    intros _. exists a. split; [left; reflexivity|assumption].
  - intros _. destruct IH as (x & Hx & Hw); [discriminate|].
    exists x. split; [right; exact Hx|exact Hw].
Qed.

Lemma sq_keeps_nonblank l s a : In a s -> blank a = false -> In a (sq l s).
Proof.
  revert l. induction s as [|b t IH]; intros l Hin Hb; [destruct Hin|].
  rewrite sq_cons. destruct Hin as [->|Hin].
  - rewrite Hb. left. reflexivity.
  - destruct (blank b).
    + destruct l; [|right]; apply IH; assumption.
    + right. apply IH; assumption.
Qed.

Lemma sq_strip_r_nonempty l s : strip_r s <> [] -> sq l (strip_r s) <> [].
Proof.
  intros H. destruct (strip_r_has_nonws s H) as (a & Hin & Hw).
  assert (Hb : blank a = false).
  { destruct (blank a) eqn:E; [apply blank_wspace in E; congruence|reflexivity]. }
  pose proof (sq_keeps_nonblank l _ a Hin Hb) as H1.
  intro E. rewrite E in H1. destruct H1.
Qed.

(* the loop commutes with stripping on the right ... *)
Lemma sq_strip_r l s : strip_r (sq l s) = sq l (strip_r s).
Proof.
  revert l. induction s as [|a t IH]; intros l; [reflexivity|].
  rewrite sq_cons, strip_r_cons.
  pose proof (sq_strip_r_nonempty true t) as Hne1.
  pose proof (sq_strip_r_nonempty false t) as Hne2.
  destruct (blank a) eqn:Ha.
  - rewrite (blank_wspace a Ha).
    destruct (strip_r t) as [|b r] eqn:E.
    + destruct l.
      * rewrite IH. reflexivity.
      * rewrite strip_r_cons, IH. reflexivity.
    + rewrite (sq_cons l a), Ha.
      specialize (Hne1 ltac:(discriminate)).
      destruct l.
      * apply IH.
      * rewrite strip_r_cons, IH. destruct (sq true (b :: r)); [elim Hne1; reflexivity|reflexivity].
  - rewrite strip_r_cons, IH.
    destruct (strip_r t) as [|b r] eqn:E.
    + cbn [condense_loop]. destruct (wspace a); [reflexivity|].
      rewrite sq_cons, Ha. reflexivity.
    + rewrite (sq_cons l a), Ha.
      specialize (Hne2 ltac:(discriminate)).
      destruct (sq false (b :: r)); [elim Hne2; reflexivity|reflexivity].
Qed.

(* ... and on the left *)
Lemma sq_strip_l l s : strip_l (sq l s) = sq false (strip_l s).
Proof.
  revert l. induction s as [|a t IH]; intros l; [reflexivity|].
  rewrite sq_cons. cbn [strip_l].
  destruct (blank a) eqn:Ha.
  - rewrite (blank_wspace a Ha). destruct l.
    + apply IH.
    + cbn [strip_l]. apply IH.
  - cbn [strip_l]. destruct (wspace a) eqn:Hw.
    + apply IH.
    + rewrite sq_cons, Ha. reflexivity.
Qed.

(* the model's condenseWHSP is the specification's condense *)
Theorem condense_eq s : condenseWHSP s = condense s.
Proof.
  unfold condenseWHSP, condense. rewrite trimS_strip. unfold strip.
  rewrite <- sq_strip_r, <- (sq_strip_l false), squeeze_sq. reflexivity.
Qed.

(* ---- what the result looks like ---- *)
Lemma no_double_blank_cons a t :
  no_double_blank (a :: t) <->
  (match t with [] => True | b :: _ => ~ (blank a = true /\ blank b = true) end) /\ no_double_blank t.
Proof. reflexivity. Qed.

Lemma sq_head_true s : match sq true s with a :: _ => blank a = false | [] => True end.
Proof.
  induction s as [|a t IH]; [exact I|].
  rewrite sq_cons. destruct (blank a) eqn:Ha; [exact IH|exact Ha].
Qed.

Lemma sq_no_double l s : no_double_blank (sq l s).
Proof.
  revert l. induction s as [|a t IH]; intros l; [exact I|].
  rewrite sq_cons. destruct (blank a) eqn:Ha.
  - destruct l; [apply IH|].
    apply no_double_blank_cons. split; [|apply IH].
    pose proof (sq_head_true t) as H. destruct (sq true t); [exact I|].
    intros [_ Hb]. congruence.
  - apply no_double_blank_cons. split; [|apply IH].
    destruct (sq false t); [exact I|]. intros [Hb _]. congruence.
Qed.

Lemma sq_no_tab l s : ~ In x09 (sq l s).
Proof.
  revert l. induction s as [|a t IH]; intros l; [intros []|].
  rewrite sq_cons. destruct (blank a) eqn:Ha.
  - destruct l; [apply IH|]. intros [H|H]; [discriminate|exact (IH _ H)].
  - intros [H|H]; [subst a; discriminate|exact (IH _ H)].
Qed.

Lemma strip_l_suffix s : exists p, s = p ++ strip_l s.
Proof.
  induction s as [|a t [p IH]]; [exists []; reflexivity|].
  cbn [strip_l]. destruct (wspace a).
  - exists (a :: p). cbn. rewrite <- IH. reflexivity.
  - exists []. reflexivity.
Qed.

Lemma strip_r_prefix s : exists q, s = strip_r s ++ q.
Proof.
  induction s as [|a t [q IH]]; [exists []; reflexivity|].
  rewrite strip_r_cons. destruct (strip_r t) eqn:E.
  - destruct (wspace a).
    + exists (a :: t). reflexivity.
    + exists q. cbn. rewrite IH at 1. reflexivity.
  - exists q. cbn. rewrite IH at 1. reflexivity.
Qed.

Lemma no_double_app_r p s : no_double_blank (p ++ s) -> no_double_blank s.
Proof.
  induction p as [|a p IH]; [auto|].
  cbn [app]. intros H. apply no_double_blank_cons in H. apply IH, H.
Qed.

Lemma no_double_app_l s q : no_double_blank (s ++ q) -> no_double_blank s.
Proof.
  induction s as [|a s IH]; [intros _; exact I|].
  cbn [app]. intros H. apply no_double_blank_cons in H. destruct H as [H1 H2].
  apply no_double_blank_cons. split; [|apply IH, H2].
  destruct s; [exact I|exact H1].
Qed.

Lemma strip_l_head s : match strip_l s with a :: _ => wspace a = false | [] => True end.
Proof.
  induction s as [|a t IH]; [exact I|].
  cbn [strip_l]. destruct (wspace a) eqn:Ha; [exact IH|exact Ha].
Qed.

Lemma strip_r_last s d : strip_r s <> [] -> wspace (last (strip_r s) d) = false.
Proof.
  induction s as [|a t IH]; [intros H; elim H; reflexivity|].
  rewrite strip_r_cons. destruct (strip_r t) eqn:E.
  - destruct (wspace a) eqn:Ha; [intros H; elim H; reflexivity|]. intros _. exact Ha.
  - intros _. rewrite <- E in *.
    assert (Hn : strip_r t <> []) by (rewrite E; discriminate).
    specialize (IH Hn). destruct (strip_r t) eqn:E2; [elim Hn; reflexivity|]. exact IH.
Qed.

Lemma strip_r_head s : match s with a :: _ => wspace a = false | [] => True end ->
  match strip_r s with a :: _ => wspace a = false | [] => True end.
Proof.
  destruct s as [|a t]; [auto|]. intros Ha. rewrite strip_r_cons.
  destruct (strip_r t); [rewrite Ha|]; exact Ha.
Qed.

Lemma strip_no_ws_at_ends s : no_ws_at_ends (strip s).
Proof.
  unfold strip. pose proof (strip_r_head _ (strip_l_head s)) as Hh.
  unfold no_ws_at_ends. destruct (strip_r (strip_l s)) eqn:E; [exact I|].
  split; [exact Hh|]. rewrite <- E. apply strip_r_last. rewrite E. discriminate.
Qed.

Theorem condense_condensed s : condensed (condense s).
Proof.
  unfold condensed, condense. repeat split.
  - rewrite squeeze_sq. unfold strip.
    destruct (strip_l_suffix (sq false s)) as [p Hp].
    destruct (strip_r_prefix (strip_l (sq false s))) as [q Hq].
    pose proof (sq_no_double false s) as H. rewrite Hp in H. apply no_double_app_r in H.
    rewrite Hq in H. apply no_double_app_l in H. exact H.
  - apply strip_no_ws_at_ends.
  - rewrite squeeze_sq. unfold strip. intro Hin.
    destruct (strip_l_suffix (sq false s)) as [p Hp].
    destruct (strip_r_prefix (strip_l (sq false s))) as [q Hq].
    apply (sq_no_tab false s). rewrite Hp. apply in_or_app. right.
    rewrite Hq. apply in_or_app. left. exact Hin.
Qed.

(* a condensed string is left alone *)
Lemma squeeze_id s : no_double_blank s -> ~ In x09 s -> squeeze s = s.
Proof.
  induction s as [|a t IH]; [reflexivity|].
  intros Hd Ht. apply no_double_blank_cons in Hd. destruct Hd as [H1 H2].
  assert (IH' : squeeze t = t) by (apply IH; [exact H2|intro; apply Ht; right; assumption]).
  cbn [squeeze]. destruct (blank a) eqn:Ha.
  - destruct (blank_cases a Ha) as [->| ->]; [|elim Ht; left; reflexivity].
    destruct t as [|b t']; [reflexivity|].
    destruct (blank b) eqn:Hb; [elim H1; auto|]. rewrite IH'. reflexivity.
  - rewrite IH'. reflexivity.
Qed.

Lemma strip_r_id s d : s <> [] -> wspace (last s d) = false -> strip_r s = s.
Proof.
  induction s as [|a t IH]; [intros H; elim H; reflexivity|].
  intros _ Hl. rewrite strip_r_cons. destruct t as [|b t'].
  - cbn in *. rewrite Hl. reflexivity.
  - rewrite IH; [reflexivity|discriminate|exact Hl].
Qed.

Lemma strip_id s : no_ws_at_ends s -> strip s = s.
Proof.
  destruct s as [|a t]; [reflexivity|].
  intros [Ha Hl]. unfold strip. cbn [strip_l]. rewrite Ha.
  apply (strip_r_id _ a); [discriminate|exact Hl].
Qed.

Theorem condense_id s : condensed s -> condense s = s.
Proof.
  intros (Hd & He & Ht). unfold condense. rewrite squeeze_id by assumption. apply strip_id, He.
Qed.

Theorem condense_idem s : condense (condense s) = condense s.
Proof. apply condense_id, condense_condensed. Qed.

Theorem condenseWHSP_idem s : condenseWHSP (condenseWHSP s) = condenseWHSP s.
Proof. rewrite !condense_eq. apply condense_idem. Qed.

(* a non-empty condensed string holds a non-white byte *)
Lemma condensed_nonempty_has_nonws s : condensed s -> s <> [] -> exists a, In a s /\ wspace a = false.
Proof.
  intros (_ & He & _) Hn. destruct s as [|a t]; [elim Hn; reflexivity|].
  exists a. split; [left; reflexivity|apply He].
Qed.

(* ---- the non-white bytes survive, in order ---- *)
Definition nonws (b : byte) : bool := negb (wspace b).

Lemma filter_nonws_sq l s : filter nonws (sq l s) = filter nonws s.
Proof.
  revert l. induction s as [|a t IH]; intros l; [reflexivity|].
  rewrite sq_cons. destruct (blank a) eqn:Ha.
  - cbn [filter]. unfold nonws at 2. rewrite (blank_wspace a Ha). cbn [negb].
    destruct l; [apply IH|]. cbn [filter]. unfold nonws at 1. cbn. apply IH.
  - cbn [filter]. rewrite IH. reflexivity.
Qed.

Lemma filter_nonws_strip_l s : filter nonws (strip_l s) = filter nonws s.
Proof.
  induction s as [|a t IH]; [reflexivity|].
  cbn [strip_l]. destruct (wspace a) eqn:Ha.
  - cbn [filter]. unfold nonws at 2. rewrite Ha. exact IH.
  - reflexivity.
Qed.

Lemma filter_nonws_strip_r s : filter nonws (strip_r s) = filter nonws s.
Proof.
  induction s as [|a t IH]; [reflexivity|].
  rewrite strip_r_cons. destruct (strip_r t) eqn:E.
  - cbn [filter] in *. rewrite <- IH. destruct (wspace a) eqn:Ha.
    + unfold nonws. rewrite Ha. reflexivity.
    + cbn [filter]. unfold nonws. rewrite Ha. reflexivity.
  - cbn [filter] in *. rewrite IH. reflexivity.
Qed.

Theorem filter_nonws_condense s : filter nonws (condense s) = filter nonws s.
Proof.
  unfold condense, strip. rewrite filter_nonws_strip_r, filter_nonws_strip_l, squeeze_sq.
  apply filter_nonws_sq.
Qed.

(* ---- blank-insensitive equivalence ----
   a and b drive the loop identically from either state *)
Fixpoint endsb (l : bool) (s : bytes) : bool :=
  match s with
  | [] => l
  | a :: t => endsb (blank a) t
  end.

Definition bsim (a b : bytes) : Prop := forall l, sq l a = sq l b /\ endsb l a = endsb l b.

Lemma sq_app l a b : sq l (a ++ b) = sq l a ++ sq (endsb l a) b.
Proof.
  revert l. induction a as [|x a IH]; intros l; [reflexivity|].
  cbn [app endsb]. rewrite !sq_cons. destruct (blank x); [destruct l|]; rewrite IH; reflexivity.
Qed.

Lemma endsb_app l a b : endsb l (a ++ b) = endsb (endsb l a) b.
Proof. revert l. induction a as [|x a IH]; intros l; [reflexivity|]. cbn [app endsb]. apply IH. Qed.

Lemma bsim_refl a : bsim a a.
Proof. intro l. split; reflexivity. Qed.

Lemma bsim_sym a b : bsim a b -> bsim b a.
Proof. intros H l. destruct (H l). split; congruence. Qed.

Lemma bsim_trans a b c : bsim a b -> bsim b c -> bsim a c.
Proof. intros H1 H2 l. destruct (H1 l), (H2 l). split; congruence. Qed.

Lemma bsim_app a a' b b' : bsim a a' -> bsim b b' -> bsim (a ++ b) (a' ++ b').
Proof.
  intros Ha Hb l. rewrite !sq_app, !endsb_app.
  destruct (Ha l) as [E1 E2]. rewrite E1, E2.
  destruct (Hb (endsb l a')) as [E3 E4]. rewrite E3, E4. split; reflexivity.
Qed.

Lemma bsim_condense a b : bsim a b -> condense a = condense b.
Proof. intros H. unfold condense. rewrite !squeeze_sq. destruct (H false) as [E _]. rewrite E. reflexivity. Qed.

(* any two non-empty runs of blanks *)
Definition all_blank (s : bytes) : bool := forallb blank s.

Lemma sq_all_blank l s : all_blank s = true -> s <> [] ->
  sq l s = (if l then [] else [x20]) /\ endsb l s = true.
Proof.
  revert l. induction s as [|a t IH]; intros l Hb Hn; [elim Hn; reflexivity|].
  cbn [all_blank forallb] in Hb. apply andb_true_iff in Hb. destruct Hb as [Ha Ht].
  rewrite sq_cons, Ha. cbn [endsb]. rewrite Ha.
  destruct t as [|b t'].
  - destruct l; split; reflexivity.
  - destruct (IH true Ht ltac:(discriminate)) as [E1 E2]. rewrite E1, E2.
    destruct l; split; reflexivity.
Qed.

Lemma bsim_blanks a b : all_blank a = true -> a <> [] -> all_blank b = true -> b <> [] -> bsim a b.
Proof.
  intros Ha Hna Hb Hnb l.
  destruct (sq_all_blank l a Ha Hna) as [E1 E2]. destruct (sq_all_blank l b Hb Hnb) as [E3 E4].
  split; congruence.
Qed.

(* a blank next to a blank changes nothing *)
Lemma bsim_blank_before_blank b r : blank b = true -> bsim (x20 :: b :: r) (b :: r).
Proof.
  intros Hb l. rewrite (sq_cons l x20). cbn [blank endsb]. rewrite !sq_cons, Hb.
  destruct l; split; reflexivity.
Qed.

Lemma endsb_ends_blank l s : ends_blank s = true -> endsb l s = true.
Proof.
  unfold ends_blank. induction s as [|a t IH] using rev_ind; [discriminate|].
  rewrite rev_app_distr. cbn [rev app]. intros Ha. rewrite endsb_app. cbn [endsb]. exact Ha.
Qed.

Lemma bsim_blank_after_blank s : ends_blank s = true -> bsim (s ++ [x20]) s.
Proof.
  intros Hs l. rewrite sq_app, endsb_app. rewrite (endsb_ends_blank l s Hs).
  cbn. rewrite app_nil_r. split; reflexivity.
Qed.
