(* RenderSpecCorr.v -- specification-side evaluation of recorded rendering
   cases (family render).  Independent of Generated.v and Render.v, so the
   grammar stays usable as the oracle when the model no longer compiles.
   Executable definitions only. *)
From Stackage Require Import Base Values RenderSpec.
Open Scope N_scope.

(* a case: the tree, String() of every Stack/Condition node (root first),
   fmt.Sprintf("%s", root), and whether anything panicked *)
Record rcase := MkR {
  r_tree : value;
  r_outs : list bytes;
  r_fmt : bytes;
  r_panic : bool }.

Fixpoint nonzero_from {A} (f : A -> N) (i : N) (l : list A) : list (N * N) :=
  match l with
  | [] => []
  | x :: t => let v := f x in
              if (v =? 0)%N then nonzero_from f (i + 1)%N t else (i, v) :: nonzero_from f (i + 1)%N t
  end.
Definition verdicts {A} (f : A -> N) (l : list A) : list (N * N) := nonzero_from f 0%N l.

Definition spec_ok (c : rcase) : bool :=
  negb (r_panic c) &&
  list_eqb bytes_eqb (map render (nodes (r_tree c))) (r_outs c) &&
  bytes_eqb (render (r_tree c)) (r_fmt c).

(* 0 = the observed strings are the canonical rendering (or the tree is
   outside the property's domain: the property does not speak); 2 = not *)
Definition check (c : rcase) : N :=
  if dom (r_tree c) then (if spec_ok c then 0 else 2) else 0.

(* findings that stay in the code: code of the shape some node of the tree
   has (RenderSpec.node_kf), 0 = none *)
Definition kf (c : rcase) : N := kf_code (r_tree c).
