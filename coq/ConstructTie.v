(* ConstructTie.v -- the capacity a constructor records is the capacity the
   source records: new_stack (StackImpl) against Generated.g_newStack_cap,
   which is regenerated from newStack in stack.go (the assignments to cfg.cap
   on every path; cut 0 = "return instance"). *)
From Stackage Require Import Base Generated StackImpl.
From Coq Require Import String.
Open Scope Z_scope.

Section Tie.
  Variable V : Type.

  (* And() / And(k): clen = number of capacity arguments, c0 = the first one *)
  Lemma new_stack_cap_is_source (t : N) (fifo : bool) (c : option Z) :
    (forall k, c = Some k -> in_i64 (k + 1)) ->
    exists cfg, new_stack V t fifo c = [SCfg cfg] /\
      g_newStack_cap (match c with Some _ => 1 | None => 0 end)
                     (match c with Some k => k | None => 0 end) fifo = TCut 0 [k_cap cfg] [].
  Proof.
    intros Hk. unfold new_stack, g_newStack_cap. eexists. split; [reflexivity|].
    cbn [k_cap]. destruct c as [k|]; cbn [Z.ltb Z.compare].
    - destruct (0 <? k) eqn:E; [|reflexivity].
      rewrite (wrap64_id (k + 1)) by (apply Hk; reflexivity). reflexivity.
    - reflexivity.
  Qed.

  (* whatever the size of the limit, it is recorded: no threshold *)
  Lemma new_stack_cap_positive (t : N) (fifo : bool) (k : Z) :
    0 < k -> in_i64 (k + 1) ->
    exists cfg, new_stack V t fifo (Some k) = [SCfg cfg] /\ k_cap cfg = k + 1 /\
      g_newStack_cap 1 k fifo = TCut 0 [k + 1] [].
  Proof.
    intros Hp Hi. unfold new_stack, g_newStack_cap. eexists. split; [reflexivity|].
    cbn [k_cap Z.ltb Z.compare]. assert (E : (0 <? k) = true) by (apply Z.ltb_lt; exact Hp).
    rewrite E, (wrap64_id (k + 1)) by exact Hi. split; reflexivity.
  Qed.

  Lemma new_stack_cut_tails : g_newStack_cap_tails = ["return instance"%string].
  Proof. reflexivity. Qed.
End Tie.
