(* TraverseProofs.v -- C07: the model of Stack.Traverse (Traverse.v) returns,
   for EVERY tree and EVERY path of Go ints, exactly what stepwise Index
   descent (TraverseSpec.v) returns -- up to the conversion of an
   alias-typed Condition to the native type, which the code performs on the
   value it hands back.  Plus the facts about the specification alone
   (stepwise = the relation [reaches], which names the positions visited;
   [reaches] is functional; the positions are tree addresses). *)
From Stackage Require Import Base Generated StackImpl Values StackSpec TraverseSpec Traverse.
Open Scope Z_scope.

(* what conditionTypeAliasConverter does to the value that is handed back *)
Definition natc (v : value) : value :=
  match v with
  | VCond _ c kw op ex => VCond Native c kw op ex
  | _ => v
  end.

(* every stack of the tree rooted in the stack (c, els) is shorter than 2^61 *)
Definition wok (els : list value) : bool :=
  (zlen els <? wbound) && forallb (forall_nodes width_ok) els.

(* ------------------------------------------------------------------ *)
(* the index arithmetic of stack.index (regenerated) is [resolve]       *)

Lemma flag_negidx o : g_flag_positive o c_negidx = has o f_negidx.
Proof. reflexivity. Qed.
Lemma flag_fwdidx o : g_flag_positive o c_fwdidx = has o f_fwdidx.
Proof. reflexivity. Qed.

Lemma zlen_nonneg {A} (l : list A) : 0 <= zlen l.
Proof. unfold zlen. lia. Qed.

Lemma wrap_small z : - 9223372036854775808 <= z < 9223372036854775808 -> wrap64 z = z.
Proof. intros H. apply wrap64_id. unfold in_i64, two63. lia. Qed.

Lemma g_ulen_slice {A} (l : list A) : zlen l < wbound -> g_ulen (zlen l + 1) = zlen l.
Proof.
  intros H. pose proof (zlen_nonneg l) as H0. unfold wbound in H. unfold g_ulen.
  cbv beta iota zeta.
  destruct (Z.eqb_spec (zlen l + 1) 0) as [E|E]; [lia|].
  destruct (Z.eqb_spec (zlen l + 1) 1) as [E1|E1]; cbn [orb]; [lia|].
  rewrite wrap_small by lia. lia.
Qed.

Lemma resolve_range neg fwd n i p : resolve neg fwd n i = Some p -> 0 <= p < n.
Proof.
  unfold resolve.
  destruct (Z.leb_spec n 0) as [H0|H0]; [discriminate|].
  destruct (Z.ltb_spec i 0) as [Hi|Hi].
  - destruct neg; cbn [andb]; [|discriminate].
    destruct (Z.leb_spec (- n) i) as [Hn|Hn]; [|discriminate].
    intros E. injection E as E. lia.
  - destruct (Z.leb_spec n i) as [Hn|Hn].
    + destruct fwd; [|discriminate]. intros E. injection E as E. lia.
    + intros E. injection E as E. lia.
Qed.

Lemma g_index_resolve L neg fwd i :
  0 <= L < wbound -> in_i64 i ->
  match resolve neg fwd L i with
  | Some p => g_index L neg fwd i = TCut 0 [p + 1; 0] [true]
  | None => exists i', g_index L neg fwd i = TRet [i'; 0] [false]
  end.
Proof.
  intros HL Hi. unfold in_i64, two63 in Hi. unfold wbound in HL.
  unfold resolve, g_index, g_factorNegIndex. cbv beta iota zeta.
  destruct (Z.leb_spec L 0) as [H0|H0].
  - assert (E : L = 0) by lia. subst L.
    replace (0 <? 0) with false by reflexivity. eexists. reflexivity.
  - replace (0 <? L) with true by (symmetry; apply Z.ltb_lt; lia).
    destruct (Z.ltb_spec i 0) as [Hn|Hn].
    + rewrite (wrap_small (- L)) by lia.
      destruct neg; cbn [andb]; [|eexists; reflexivity].
      destruct (Z.leb_spec (- L) i) as [Hl|Hl]; [|eexists; reflexivity].
      rewrite (wrap_small (L * 2)) by lia.
      rewrite (wrap_small (i + L * 2)) by lia.
      rewrite (wrap_small (L - 1)) by lia.
      replace (L - 1 <? i + L * 2) with true by (symmetry; apply Z.ltb_lt; lia).
      rewrite (wrap_small (i + L * 2 - L)) by lia.
      rewrite (wrap_small (i + L * 2 - L + 1)) by lia.
      replace (i + L * 2 - L + 1) with (L + i + 1) by lia. reflexivity.
    + rewrite (wrap_small (L - 1)) by lia.
      destruct (Z.leb_spec L i) as [Hl|Hl].
      * replace (L - 1 <? i) with true by (symmetry; apply Z.ltb_lt; lia).
        destruct fwd; [|eexists; reflexivity].
        replace (L - 1 + 1) with L by lia. reflexivity.
      * replace (L - 1 <? i) with false by (symmetry; apply Z.ltb_ge; lia).
        rewrite (wrap_small (i + 1)) by lia. reflexivity.
Qed.

Lemma slot_elem els p :
  0 <= p < zlen els -> slot els (p + 1) = Ok (nth (Z.to_nat p) els VNil).
Proof.
  intros Hp. unfold slot.
  replace (p + 1 <? 0) with false by (symmetry; apply Z.ltb_ge; lia).
  replace (p + 1 =? 0) with false by (symmetry; apply Z.eqb_neq; lia).
  replace (p + 1 - 1) with p by lia.
  rewrite (nth_error_nth' els VNil); [reflexivity|].
  unfold zlen in Hp. lia.
Qed.

(* stack.index = Stack.Index of the specification *)
Lemma index_sindex c els i :
  zlen els < wbound -> in_i64 i -> index c els i = Ok (sindex c els i).
Proof.
  intros Hw Hi. unfold index, sindex, position.
  rewrite flag_negidx, flag_fwdidx, g_ulen_slice by exact Hw.
  pose proof (zlen_nonneg els) as H0.
  pose proof (g_index_resolve (zlen els) (has (c_opt c) f_negidx) (has (c_opt c) f_fwdidx) i
                (conj H0 Hw) Hi) as G.
  destruct (resolve (has (c_opt c) f_negidx) (has (c_opt c) f_fwdidx) (zlen els) i) as [p|] eqn:R.
  - rewrite G. apply resolve_range in R. rewrite slot_elem by exact R. reflexivity.
  - destruct G as [i' G]. rewrite G. reflexivity.
Qed.

(* ------------------------------------------------------------------ *)
(* facts about the specification alone                                  *)

Section SpecFacts.
  Variable vpol : N -> config -> list value -> bool.

  Lemma sindex_found c els i v :
    sindex c els i = (v, true) <->
    exists p, position c els i = Some p /\ nth_error els (Z.to_nat p) = Some v /\ is_nil v = false.
  Proof.
    unfold sindex. split.
    - destruct (position c els i) as [p|]; [|discriminate].
      intros E. injection E as Ev En. exists p. split; [reflexivity|].
      rewrite Ev in En. apply negb_true_iff in En. split; [|exact En].
      destruct (lt_dec (Z.to_nat p) (length els)) as [Hl|Hl].
      + rewrite (nth_error_nth' els VNil Hl). rewrite Ev. reflexivity.
      + rewrite nth_overflow in Ev by lia. subst v. discriminate.
    - intros (p & Hp & Hn & Hv). rewrite Hp.
      rewrite (nth_error_nth els (Z.to_nat p) VNil Hn). rewrite Hv. reflexivity.
  Qed.

  Lemma sindex_false_nil c els i v : sindex c els i = (v, false) -> is_nil v = true.
  Proof.
    unfold sindex. destruct (position c els i) as [p|].
    - intros E. injection E as Ev En. apply negb_false_iff in En. rewrite <- Ev. exact En.
    - intros E. injection E as Ev. subst v. reflexivity.
  Qed.

  (* failure always comes with the nil value *)
  Lemma stepwise_fail_nil : forall path c els,
    snd (stepwise vpol c els path) = false -> fst (stepwise vpol c els path) = VNil.
  Proof.
    induction path as [|i tail IH]; intros c els; cbn [stepwise].
    - destruct (usable vpol c els); reflexivity.
    - destruct (usable vpol c els); [|reflexivity].
      destruct (sindex c els i) as [v ok]. destruct ok; [|reflexivity].
      destruct tail as [|j rest]; [discriminate|].
      destruct (descend v) as [[c' els']|]; [apply IH|reflexivity].
  Qed.

  Lemma stepwise_nil c els : stepwise vpol c els [] = (VNil, false).
  Proof. cbn [stepwise]. destruct (usable vpol c els); reflexivity. Qed.

  Lemma stepwise_unusable c els path : usable vpol c els = false -> stepwise vpol c els path = (VNil, false).
  Proof. intros H. destruct path; cbn [stepwise]; rewrite H; reflexivity. Qed.

  (* success = the relation that names the positions *)
  Lemma stepwise_reaches : forall path c els v,
    stepwise vpol c els path = (v, true) -> exists ps, reaches vpol c els path ps v.
  Proof.
    induction path as [|i tail IH]; intros c els v; cbn [stepwise].
    - destruct (usable vpol c els); discriminate.
    - destruct (usable vpol c els) eqn:U; [|discriminate].
      destruct (sindex c els i) as [x ok] eqn:S. destruct ok; [|discriminate].
      apply sindex_found in S. destruct S as (p & Hp & Hn & Hx).
      destruct tail as [|j rest].
      + intros E. injection E as E. subst x. exists [p]. apply reach_last; assumption.
      + destruct (descend x) as [[c' els']|] eqn:D; [|discriminate].
        intros E. apply IH in E. destruct E as [ps R].
        exists (p :: ps). eapply reach_step; eassumption.
  Qed.

  Lemma reaches_stepwise c els path ps v :
    reaches vpol c els path ps v -> stepwise vpol c els path = (v, true).
  Proof.
    induction 1 as [c els i p v U Hp Hn Hv | c els i p v c' els' j rest ps w U Hp Hn Hv D R IH].
    - cbn [stepwise]. rewrite U.
      assert (S : sindex c els i = (v, true)) by (apply sindex_found; exists p; auto).
      rewrite S. reflexivity.
    - cbn [stepwise]. rewrite U.
      assert (S : sindex c els i = (v, true)) by (apply sindex_found; exists p; auto).
      rewrite S. rewrite D. exact IH.
  Qed.

  Lemma reaches_functional c els path ps v :
    reaches vpol c els path ps v -> forall ps' v', reaches vpol c els path ps' v' -> ps' = ps /\ v' = v.
  Proof.
    induction 1 as [c els i p v U Hp Hn Hv | c els i p v c' els' j rest ps w U Hp Hn Hv D R IH];
      intros ps' v' R';
      inversion R' as [c0 els0 i0 p0 v0 U0 Hp0 Hn0 Hv0
                      | c0 els0 i0 p0 v0 c0' els0' j0 rest0 ps0 w0 U0 Hp0 Hn0 Hv0 D0 R0]; subst.
    - rewrite Hp in Hp0. injection Hp0 as Hp0. subst p0.
      rewrite Hn in Hn0. injection Hn0 as Hn0. subst v'.
      split; reflexivity.
    - rewrite Hp in Hp0. injection Hp0 as Hp0. subst p0.
      rewrite Hn in Hn0. injection Hn0 as Hn0. subst v0.
      rewrite D in D0. injection D0 as D1 D2. subst c0' els0'.
      apply IH in R0. destruct R0 as [E1 E2]. subst ps0 v'.
      split; reflexivity.
  Qed.

  Lemma reaches_nonnil c els path ps v : reaches vpol c els path ps v -> is_nil v = false.
  Proof. induction 1; assumption. Qed.

  Lemma reaches_lengths c els path ps v :
    reaches vpol c els path ps v -> length ps = length path /\ path <> [].
  Proof.
    induction 1 as [c els i p v U Hp Hn Hv | c els i p v c' els' j rest ps w U Hp Hn Hv D R IH].
    - split; [reflexivity|discriminate].
    - destruct IH as [IH _]. split; [cbn [length]; rewrite IH; reflexivity|discriminate].
  Qed.

  (* positions are addresses in the tree: the value reached is the node at
     exactly that address (elements by position; a Condition is looked
     through to its Stack expression) *)
  Lemma at_pos_descend x y ps :
    descend x = descend y -> ps <> [] -> at_pos x ps = at_pos y ps.
  Proof.
    intros E Hps. destruct ps as [|p ps']; [congruence|].
    cbn [at_pos]. unfold child. rewrite E. reflexivity.
  Qed.

  Lemma position_range c els i p : position c els i = Some p -> 0 <= p < zlen els.
  Proof. apply resolve_range. Qed.

  Lemma reaches_at_pos c els path ps v :
    reaches vpol c els path ps v -> forall a, at_pos (VStack a c els) ps = Some v.
  Proof.
    induction 1 as [c els i p v U Hp Hn Hv | c els i p v c' els' j rest ps w U Hp Hn Hv D R IH]; intros a.
    - cbn [at_pos]. unfold child. cbn [descend].
      apply position_range in Hp.
      replace (p <? 0) with false by (symmetry; apply Z.ltb_ge; lia).
      rewrite Hn. reflexivity.
    - cbn [at_pos]. unfold child at 1. cbn [descend].
      apply position_range in Hp.
      replace (p <? 0) with false by (symmetry; apply Z.ltb_ge; lia).
      rewrite Hn.
      rewrite (at_pos_descend v (VStack Native c' els') ps).
      + apply IH.
      + rewrite D. reflexivity.
      + apply reaches_lengths in R. destruct R as [R _]. destruct ps; [discriminate|discriminate].
  Qed.

  (* every value stepwise can return is nil or a node of the tree *)
  Lemma forallb_nth P (els : list value) n :
    forallb P els = true -> P VNil = true -> P (nth n els VNil) = true.
  Proof.
    intros H H0. destruct (lt_dec n (length els)) as [Hl|Hl].
    - rewrite forallb_forall in H. apply H. apply nth_In. exact Hl.
    - rewrite nth_overflow by lia. exact H0.
  Qed.

  Lemma descend_nodes P x c' els' :
    forall_nodes P x = true -> descend x = Some (c', els') -> forallb (forall_nodes P) els' = true.
  Proof.
    destruct x as [| g | a c els | a c kw op ex | a | a]; cbn [descend as_stack]; try discriminate.
    - intros H E. injection E as E1 E2. subst. cbn [forall_nodes] in H.
      apply andb_true_iff in H. apply H.
    - destruct ex as [| g | a' c2 els2 | a' c2 kw2 op2 ex2 | a' | a']; cbn [as_stack]; try discriminate.
      intros H E. injection E as E1 E2. subst. cbn [forall_nodes] in H.
      apply andb_true_iff in H. destruct H as [_ H]. apply andb_true_iff in H. apply H.
  Qed.

  Lemma sindex_nodes P c els i :
    forallb (forall_nodes P) els = true -> P VNil = true ->
    forall_nodes P (fst (sindex c els i)) = true.
  Proof.
    intros H H0. unfold sindex. destruct (position c els i) as [p|]; cbn [fst].
    - apply (forallb_nth (forall_nodes P)); [exact H|]. cbn [forall_nodes]. rewrite H0. reflexivity.
    - cbn [forall_nodes]. rewrite H0. reflexivity.
  Qed.

  Lemma stepwise_nodes P : P VNil = true -> forall path c els,
    forallb (forall_nodes P) els = true ->
    forall_nodes P (fst (stepwise vpol c els path)) = true.
  Proof.
    intros H0. assert (HN : forall_nodes P VNil = true) by (cbn [forall_nodes]; rewrite H0; reflexivity).
    induction path as [|i tail IH]; intros c els H; cbn [stepwise].
    - destruct (usable vpol c els); exact HN.
    - destruct (usable vpol c els); [|exact HN].
      pose proof (sindex_nodes P c els i H H0) as S.
      destruct (sindex c els i) as [v ok]. cbn [fst] in S. destruct ok; [|exact HN].
      destruct tail as [|j rest]; [exact S|].
      destruct (descend v) as [[c' els']|] eqn:D; [|exact HN].
      apply IH. eapply descend_nodes; eassumption.
  Qed.
End SpecFacts.

(* the documented meaning of an index (README: plain, negative, forward) *)
Lemma position_plain c els i : 0 <= i < zlen els -> position c els i = Some i.
Proof.
  intros H. unfold position, resolve.
  replace (zlen els <=? 0) with false by (symmetry; apply Z.leb_gt; lia).
  replace (i <? 0) with false by (symmetry; apply Z.ltb_ge; lia).
  replace (zlen els <=? i) with false by (symmetry; apply Z.leb_gt; lia).
  reflexivity.
Qed.

Lemma position_negative c els i p : i < 0 ->
  (position c els i = Some p <-> has (c_opt c) f_negidx = true /\ - zlen els <= i /\ p = zlen els + i).
Proof.
  intros Hi. unfold position, resolve. pose proof (zlen_nonneg els) as H0.
  destruct (Z.leb_spec (zlen els) 0) as [Hz|Hz].
  - split; [discriminate|]. intros (_ & H1 & _). lia.
  - replace (i <? 0) with true by (symmetry; apply Z.ltb_lt; lia).
    destruct (has (c_opt c) f_negidx); cbn [andb].
    + destruct (Z.leb_spec (- zlen els) i) as [Hl|Hl].
      * split; [intros E; injection E as E; subst; auto | intros (_ & _ & E); subst; reflexivity].
      * split; [discriminate | intros (_ & H1 & _); lia].
    + split; [discriminate | intros (H1 & _); discriminate].
Qed.

Lemma position_forward c els i p : zlen els <= i ->
  (position c els i = Some p <-> has (c_opt c) f_fwdidx = true /\ 0 < zlen els /\ p = zlen els - 1).
Proof.
  intros Hi. unfold position, resolve. pose proof (zlen_nonneg els) as H0.
  destruct (Z.leb_spec (zlen els) 0) as [Hz|Hz].
  - split; [discriminate|]. intros (_ & H1 & _). lia.
  - replace (i <? 0) with false by (symmetry; apply Z.ltb_ge; lia).
    replace (zlen els <=? i) with true by (symmetry; apply Z.leb_le; lia).
    destruct (has (c_opt c) f_fwdidx).
    + split; [intros E; injection E as E; subst; auto | intros (_ & _ & E); subst; reflexivity].
    + split; [discriminate | intros (H1 & _); discriminate].
Qed.

(* ------------------------------------------------------------------ *)
(* the model against the specification                                  *)

Section Refine.
  Variable vpol : N -> config -> list value -> bool.

  Lemma valid_usable c els : valid vpol c els = usable vpol c els.
  Proof. unfold valid, usable. destruct (c_vpf c) as [p|]; [destruct (vpol p c els)|]; reflexivity. Qed.

  (* one iteration of the loop of stack.traverse, as it is now *)
  Lemma traverse_cons c els i tail :
    traverse vpol c els (i :: tail) =
    if valid vpol c els then
      match index c els i with
      | Ok (instance, true) =>
          traverseAssertionHandler (fun c' els' => traverse vpol c' els' tail) instance (zlen (i :: tail))
      | Ok (_, false) => Ok zero3
      | Panic => Panic
      | Unmodelled => Unmodelled
      end
    else Ok zero3.
  Proof.
    unfold traverse. cbn [traverse_gen]. destruct (valid vpol c els); [|reflexivity].
    destruct (index c els i) as [[instance found]| |]; cbn [bind]; [|reflexivity|reflexivity].
    destruct found; [|reflexivity].
    destruct (traverseAssertionHandler (fun c' els' => traverse_gen vpol false c' els' tail) instance (zlen (i :: tail)))
      as [[[s ok] done]| |]; cbn [bind andb]; reflexivity.
  Qed.

  Lemma traverse_nil c els : traverse vpol c els [] = Ok zero3.
  Proof. unfold traverse. cbn [traverse_gen]. destruct (valid vpol c els); reflexivity. Qed.

  Definition expected (x : value) (tail : list Z) : value * bool :=
    match tail with
    | [] => (x, true)
    | _ :: _ => match descend x with
                | Some (c', els') => stepwise vpol c' els' tail
                | None => (VNil, false)
                end
    end.

  Definition pack (r : value * bool) : out3 := let '(w, ok) := r in (natc w, ok, ok).

  Lemma zlen_cons {A} (x : A) l : zlen (x :: l) = zlen l + 1.
  Proof. unfold zlen. cbn [length]. lia. Qed.

  (* traverseAssertionHandler, given that the recursive call does what the
     specification says on every stack one can descend into from x *)
  Lemma handler_expected rec x i tail :
    (forall c' els', descend x = Some (c', els') -> tail <> [] ->
                     rec c' els' = Ok (pack (stepwise vpol c' els' tail))) ->
    traverseAssertionHandler rec x (zlen (i :: tail)) = Ok (pack (expected x tail)).
  Proof.
    intros Hrec. rewrite zlen_cons. pose proof (zlen_nonneg tail) as H0.
    unfold traverseAssertionHandler, traverseStackInCondition, traverseStack, expected.
    destruct tail as [|j rest].
    - replace (zlen (@nil Z) + 1 <=? 1) with true by reflexivity.
      destruct x as [| g | a c els | a c kw op ex | a | a]; reflexivity.
    - replace (zlen (j :: rest) + 1 <=? 1) with false
        by (symmetry; apply Z.leb_gt; rewrite zlen_cons; pose proof (zlen_nonneg rest); lia).
      assert (Hne : j :: rest <> []) by discriminate.
      destruct x as [| g | a c els | a c kw op ex | a | a]; cbn [conv_stack conv_cond descend as_stack bind]; try reflexivity.
      + (* a Stack *)
        rewrite (Hrec c els eq_refl Hne).
        pose proof (stepwise_fail_nil vpol (j :: rest) c els) as F.
        destruct (stepwise vpol c els (j :: rest)) as [w ok]. cbn [pack bind].
        destruct ok; [reflexivity|]. cbn [fst snd] in F. rewrite (F eq_refl). reflexivity.
      + (* a Condition *)
        destruct ex as [| g | a' c2 els2 | a' c2 kw2 op2 ex2 | a' | a']; cbn [conv_stack as_stack bind]; try reflexivity.
        rewrite (Hrec c2 els2 eq_refl Hne).
        pose proof (stepwise_fail_nil vpol (j :: rest) c2 els2) as F.
        destruct (stepwise vpol c2 els2 (j :: rest)) as [w ok]. cbn [pack bind].
        destruct ok; [reflexivity|]. cbn [fst snd] in F. rewrite (F eq_refl). reflexivity.
  Qed.

  Lemma wok_descend els n c' els' :
    wok els = true -> descend (nth n els VNil) = Some (c', els') -> wok els' = true.
  Proof.
    unfold wok. intros H D. apply andb_true_iff in H. destruct H as [_ H].
    assert (N : forall_nodes width_ok (nth n els VNil) = true)
      by (apply (forallb_nth (forall_nodes width_ok)); [exact H|reflexivity]).
    pose proof (descend_nodes width_ok _ _ _ N D) as F. rewrite F.
    destruct (nth n els VNil) as [| g | a c els0 | a c kw op ex | a | a]; cbn [descend as_stack] in D; try discriminate.
    - injection D as D1 D2. subst. cbn [forall_nodes width_ok] in N.
      apply andb_true_iff in N. destruct N as [N _]. rewrite N. reflexivity.
    - destruct ex as [| g | a' c2 els2 | a' c2 kw2 op2 ex2 | a' | a']; cbn [as_stack] in D; try discriminate.
      injection D as D1 D2. subst. cbn [forall_nodes width_ok] in N.
      apply andb_true_iff in N. destruct N as [_ N]. apply andb_true_iff in N. destruct N as [N _].
      rewrite N. reflexivity.
  Qed.

  (* the main lemma: induction over the path, for all stacks at once *)
  Lemma traverse_stepwise : forall path c els,
    Forall in_i64 path -> wok els = true ->
    traverse vpol c els path = Ok (pack (stepwise vpol c els path)).
  Proof.
    induction path as [|i tail IH]; intros c els Hp Hw.
    - rewrite traverse_nil, stepwise_nil. reflexivity.
    - rewrite traverse_cons, valid_usable. cbn [stepwise].
      destruct (usable vpol c els); [|reflexivity].
      inversion Hp as [|? ? Hi Ht]; subst.
      assert (Hlen : zlen els < wbound).
      { unfold wok in Hw. apply andb_true_iff in Hw. destruct Hw as [Hw _]. apply Z.ltb_lt. exact Hw. }
      rewrite (index_sindex c els i Hlen Hi).
      destruct (sindex c els i) as [v ok] eqn:S. destruct ok; [|reflexivity].
      rewrite (handler_expected _ v i tail).
      + unfold expected. destruct tail as [|j rest]; reflexivity.
      + intros c' els' D _. apply IH; [exact Ht|].
        unfold sindex in S. destruct (position c els i) as [p|]; [|discriminate].
        injection S as S _. subst v. eapply wok_descend; eassumption.
  Qed.

  Definition pack2 (r : value * bool) : value * bool := let '(w, ok) := r in (natc w, ok).

  Lemma natc_native w : forall_nodes cond_native w = true -> natc w = w.
  Proof.
    destruct w as [| g | a c els | a c kw op ex | a | a]; try reflexivity.
    cbn [forall_nodes cond_native]. destruct a; try discriminate. reflexivity.
  Qed.

  (* ---- the property theorems (restated in Props/C07.v) ---- *)

  Theorem Traverse_eq_stepwise_conv a c els path :
    Forall in_i64 path -> forall_nodes width_ok (VStack a c els) = true ->
    Traverse vpol (VStack a c els) path = Ok (pack2 (spec_traverse vpol (VStack a c els) path)).
  Proof.
    intros Hp Hw. unfold Traverse, Traverse_gen, spec_traverse.
    change (traverse_gen vpol false) with (traverse vpol).
    rewrite traverse_stepwise; [|exact Hp|exact Hw].
    destruct (stepwise vpol c els path) as [w ok]. reflexivity.
  Qed.

  Theorem Traverse_eq_stepwise a c els path :
    Forall in_i64 path -> forall_nodes width_ok (VStack a c els) = true ->
    forall_nodes cond_native (VStack a c els) = true ->
    Traverse vpol (VStack a c els) path = Ok (spec_traverse vpol (VStack a c els) path).
  Proof.
    intros Hp Hw Hn. rewrite Traverse_eq_stepwise_conv by assumption.
    unfold spec_traverse.
    assert (N : forall_nodes cond_native (fst (stepwise vpol c els path)) = true).
    { apply stepwise_nodes; [reflexivity|]. cbn [forall_nodes] in Hn. apply andb_true_iff in Hn. apply Hn. }
    destruct (stepwise vpol c els path) as [w ok]. cbn [pack2 fst] in *. rewrite natc_native by exact N. reflexivity.
  Qed.

  Theorem Traverse_nil_path r : (exists a c els, r = VStack a c els) \/ (exists a, r = VZeroStack a) ->
    Traverse vpol r [] = Ok (VNil, false).
  Proof.
    intros [(a & c & els & E)|(a & E)]; subst; unfold Traverse, Traverse_gen; [|reflexivity].
    change (traverse_gen vpol false) with (traverse vpol). rewrite traverse_nil. reflexivity.
  Qed.

  Theorem Traverse_invalid_receiver a c els path :
    usable vpol c els = false -> Traverse vpol (VStack a c els) path = Ok (VNil, false).
  Proof.
    intros U. unfold Traverse, Traverse_gen. change (traverse_gen vpol false) with (traverse vpol).
    destruct path as [|i tail].
    - rewrite traverse_nil. reflexivity.
    - rewrite traverse_cons, valid_usable, U. reflexivity.
  Qed.

  Theorem Traverse_ok_iff a c els path v ok :
    Forall in_i64 path -> forall_nodes width_ok (VStack a c els) = true ->
    Traverse vpol (VStack a c els) path = Ok (v, ok) ->
    (ok = true <-> exists ps w, reaches vpol c els path ps w) /\
    (ok = false -> v = VNil).
  Proof.
    intros Hp Hw T. rewrite Traverse_eq_stepwise_conv in T by assumption.
    unfold spec_traverse in T. injection T as T.
    pose proof (stepwise_fail_nil vpol path c els) as F.
    destruct (stepwise vpol c els path) as [w k] eqn:S. cbn [pack2 fst snd] in *. injection T as Tv Tk. subst ok.
    split.
    - split.
      + intros E. subst k. apply stepwise_reaches in S. destruct S as [ps R]. exists ps, w. exact R.
      + intros (ps & w' & R). apply reaches_stepwise in R. rewrite S in R. congruence.
    - intros E. subst k. rewrite (F eq_refl) in Tv. subst v. reflexivity.
  Qed.

  Theorem Traverse_no_sibling a c els path v :
    Forall in_i64 path -> forall_nodes width_ok (VStack a c els) = true ->
    Traverse vpol (VStack a c els) path = Ok (v, true) ->
    exists ps w, reaches vpol c els path ps w /\
                 length ps = length path /\
                 at_pos (VStack a c els) ps = Some w /\
                 is_nil w = false /\ v = natc w /\
                 (forall ps' w', reaches vpol c els path ps' w' -> ps' = ps /\ w' = w).
  Proof.
    intros Hp Hw T. rewrite Traverse_eq_stepwise_conv in T by assumption.
    unfold spec_traverse in T. injection T as T.
    destruct (stepwise vpol c els path) as [w k] eqn:S. cbn [pack2] in T. injection T as Tv Tk. subst k.
    apply stepwise_reaches in S. destruct S as [ps R]. exists ps, w.
    split; [exact R|]. split; [apply (reaches_lengths vpol _ _ _ _ _ R)|].
    split; [apply (reaches_at_pos vpol _ _ _ _ _ R)|].
    split; [apply (reaches_nonnil vpol _ _ _ _ _ R)|].
    split; [symmetry; exact Tv|]. intros ps' w' R'. eapply reaches_functional; eassumption.
  Qed.
End Refine.

(* ------------------------------------------------------------------ *)
(* witnesses                                                            *)

Definition no_vpol (p : N) (c : config) (els : list value) : bool := false.
Definition leaf (s : string) : value := VLeaf (GStr (B s)).

Lemma Traverse_zero_receiver vpol a path : Traverse vpol (VZeroStack a) path = Ok (VNil, false).
Proof. reflexivity. Qed.

(* an alias-typed Condition is handed back converted: Traverse(0) is not the
   value Index(0) returns *)
Definition alias_cond_tree : value :=
  VStack Native (cfg0 1) [VCond AliasVal (cfg0 5) (B "k") (Some (OpBuiltin 1)) (leaf "v")].

Lemma alias_condition_exactness_refuted :
  exists t path,
    Forall in_i64 path /\ forall_nodes width_ok t = true /\
    Traverse no_vpol t path <> Ok (spec_traverse no_vpol t path) /\
    Traverse no_vpol t path = Ok (natc (fst (spec_traverse no_vpol t path)), true).
Proof.
  exists alias_cond_tree, [0]. split; [repeat constructor; unfold in_i64, two63; lia|].
  split; [vm_compute; reflexivity|].
  split; [vm_compute; intro H; discriminate H | vm_compute; reflexivity].
Qed.

(* D07, for the record: the loop as it was before the repair (cont = true)
   answers Traverse(0,1) on ["leaf", ["x","y"]] with ("y", true) -- a value
   reached through a different sibling -- where stepwise descent fails *)
Definition d07_tree : value :=
  VStack Native (cfg0 1) [leaf "leaf"; VStack Native (cfg0 1) [leaf "x"; leaf "y"]].

Lemma unrepaired_loop_sibling_refuted :
  exists t path,
    Forall in_i64 path /\ forall_nodes width_ok t = true /\ forall_nodes cond_native t = true /\
    Traverse_gen no_vpol true t path = Ok (leaf "y", true) /\
    spec_traverse no_vpol t path = (VNil, false) /\
    Traverse no_vpol t path = Ok (VNil, false).
Proof.
  exists d07_tree, [0; 1]. split; [repeat constructor; unfold in_i64, two63; lia|].
  repeat split; vm_compute; reflexivity.
Qed.
