(* Alias.v -- model of the reflective converters of go-stackage and of every
   observable C12 names, with the conversion written out at each call site
   where the Go code has it.

     misc.go   derefPtr, getStringer
     stack.go  stackTypeAliasConverter / ConvertStack, defaultAssertionHandler
               (string), isNesting, canPushNester / push, Transfer,
               (IsEqual, unmarshalDefault, traverse*, Defrag: the models of
               Equal.v, Marshal.v, Traverse.v, Defrag.v, which already take
               every alias kind, are used as they are)
     cond.go   conditionTypeAliasConverter / ConvertCondition,
               condition.string, Len, isNesting,
               defaultAssertionExpressionHandler / SetExpression

   The converters are modelled the way they are written (after the repairs
   D05 / D27): the nil interface is refused; a native instance takes the fast
   path, which reports "converted" only for a non-zero instance; everything
   else goes through derefPtr (any pointer depth; a nil pointer leaves an
   invalid reflect.Value) and reflect's ConvertibleTo, and is converted only
   when the value reached is valid, of a type derived from the target and
   not zero.

   Type tags of typed nil pointers (GNilPtr _ ty) known to the model:
   100 Stack, 101 Condition, 110 / 111 Stack aliases (without / with their
   own String), 112 / 113 Condition aliases; every other tag is foreign.

   Outcomes: [Unmodelled] for user policies (C14) and for receivers that are
   not Stacks / Conditions.  No proofs in this file. *)
From Stackage Require Import Base Generated StackImpl Values JVal AliasSpec.
From Stackage Require Render Equal Marshal Traverse Defrag TransferImpl.
Open Scope Z_scope.

Definition is_some {A} (o : option A) : bool := match o with Some _ => true | None => false end.

Definition rmap {A B} (f : A -> B) (r : res A) : res B :=
  match r with Ok x => Ok (f x) | Panic => Panic | Unmodelled => Unmodelled end.

(* ---- reflect: types and derefPtr ---- *)
Definition ty_stack_family (ty : N) : bool := ((ty =? 100) || (ty =? 110) || (ty =? 111))%N.
Definition ty_cond_family (ty : N) : bool := ((ty =? 101) || (ty =? 112) || (ty =? 113))%N.

(* the reflect.Value derefPtr ends at *)
Inductive rv :=
| RvInvalid                                                       (* a nil pointer was followed *)
| RvStack (z : option (config * list value))                      (* struct{ *stack }; None = zero *)
| RvCond (z : option (config * bytes * option oper * value))      (* struct{ *condition } *)
| RvOther.

Fixpoint leaf_reach (g : gval) : bool * bool * rv :=
  match g with
  | GPtr x => leaf_reach x
  | GNilPtr _ ty => (ty_stack_family ty, ty_cond_family ty, RvInvalid)
  | _ => (false, false, RvOther)
  end.

(* derefPtr(typOf(u), valOf(u)) for a non-nil interface u:
   (a.ConvertibleTo(Stack), a.ConvertibleTo(Condition), v) *)
Definition deref_ptr (u : value) : bool * bool * rv :=
  match u with
  | VNil => (false, false, RvInvalid)
  | VLeaf g => leaf_reach g
  | VStack _ c els => (true, false, RvStack (Some (c, els)))
  | VZeroStack _ => (true, false, RvStack None)
  | VCond _ c kw op ex => (false, true, RvCond (Some (c, kw, op, ex)))
  | VZeroCond _ => (false, true, RvCond None)
  end.

(* ---- stackTypeAliasConverter ---- *)
Definition conv_stack (u : value) : option (config * list value) :=
  match u with
  | VNil => None                                   (* u != nil *)
  | VStack Native c els => Some (c, els)           (* st, isStack := u.(Stack); !st.IsZero() *)
  | VZeroStack Native => None                      (* u.(Stack); st.IsZero() *)
  | _ =>
      let '(to_stack, _, v) := deref_ptr u in
      match v with
      | RvInvalid => None                          (* !v.IsValid() *)
      | RvStack z => if to_stack then z else None  (* v.Convert(b).Interface().(Stack); !assert.IsZero() *)
      | _ => None                                  (* !a.ConvertibleTo(b) *)
      end
  end.

(* ---- conditionTypeAliasConverter ---- *)
Definition conv_cond (u : value) : option (config * bytes * option oper * value) :=
  match u with
  | VNil => None
  | VCond Native c kw op ex => Some (c, kw, op, ex)
  | VZeroCond Native => None
  | _ =>
      let '(_, to_cond, v) := deref_ptr u in
      match v with
      | RvInvalid => None
      | RvCond z => if to_cond then z else None
      | _ => None
      end
  end.

(* ConvertStack / ConvertCondition: Some n = (n, true), None = (zero, false) *)
Definition ConvertStack (u : value) : option value :=
  match conv_stack u with Some (c, els) => Some (VStack Native c els) | None => None end.
Definition ConvertCondition (u : value) : option value :=
  match conv_cond u with Some (c, kw, op, ex) => Some (VCond Native c kw op ex) | None => None end.

(* ---- getStringer ----
   [xs] is what x.String() returns when x is a Stack / Condition typed value:
   Stack.String on a native value, and the alias' own method, which the
   harness declares as "convert and call String".  A zero struct value is
   "zero" to reflect (no stringer); a pointer to one is not. *)
Definition akind_has_string (a : akind) : bool :=
  match a with Native | AliasValStr | AliasPtrStr => true | AliasVal | AliasPtr => false end.
Definition akind_is_ptr (a : akind) : bool :=
  match a with AliasPtr | AliasPtrStr => true | _ => false end.

Definition get_stringer (x : value) (xs : res bytes) : option (res bytes) :=
  match x with
  | VNil => None
  | VLeaf g => match Render.stringer_text g with Some t => Some (Ok t) | None => None end
  | VStack a _ _ | VCond a _ _ _ _ => if akind_has_string a then Some xs else None
  | VZeroStack a | VZeroCond a =>
      if akind_is_ptr a && akind_has_string a then Some (Ok []) else None
  end.

(* ---- stack.go defaultAssertionHandler ---- *)
Definition a_dah (c : config) (x : value) (xs : res bytes) : res bytes :=
  match conv_stack x with
  | Some (ic, _) =>                                        (* Xs.IsInit() *)
      let '(ik, icode) := Render.typ ic in
      if ((icode =? c_not)%N && negb (Render.nonempty (c_sym ic)))%bool
      then do s <- xs; Ok (if Render.nonempty s then ik ++ [x20] ++ s else s)
      else xs
  | None =>
      match conv_cond x with
      | Some _ => xs                                       (* Xc.IsInit(): Xc.String() *)
      | None =>
          match get_stringer x xs with
          | Some m => do t <- m; Ok (Render.padValue (negb (Render.positive c c_nspad)) (Render.encapv c t))
          | None =>
              match x with
              | VLeaf g =>
                  match prim_text g with
                  | Some t => Ok (Render.padValue (negb (Render.positive c c_nspad)) (Render.encapv c t))
                  | None => Ok Render.s_unknown
                  end
              | _ => Ok Render.s_unknown
              end
          end
      end
  end.

Fixpoint a_collect (c : config) (l : list (value * res bytes)) : res (list bytes) :=
  match l with
  | [] => Ok []
  | (x, xs) :: t =>
      do v <- a_dah c x xs;
      do r <- a_collect c t;
      Ok (if Render.nonempty v then v :: r else r)
  end.

(* stack.string *)
Definition a_stack_string (c : config) (l : list (value * res bytes)) : res bytes :=
  match c_vpf c with
  | Some _ => Unmodelled
  | None =>
      let '(ot, oc) := Render.typ c in
      if ((oc =? 0) || (oc =? c_basic))%N then Ok []
      else match c_rpf c with
           | Some _ => Unmodelled
           | None =>
               do str <- a_collect c l;
               let doPad := (negb (Render.positive c c_nspad) && negb (Render.nonempty (c_sym c)))%bool in
               Ok (Render.assembleStringStack c str (Render.padValue doPad ot) oc)
           end
  end.

(* Condition.String / condition.string (D23 repaired: the Stack converter is
   asked before the stringer).  As the code stands a Condition converter is
   never asked, so a Condition held through an alias type without a String
   method of its own is printed as "unsupported_primitive_type" (defect found
   by this module; candidate repair in notes/agents/C12-candidate-fix.diff).
   [fixc] = false: the code as it is; true: with the candidate repair (ask
   conditionTypeAliasConverter after the Stack converter).  [current_fix]
   says which code the correspondence check compares against. *)
Definition current_fix : bool := true.

Definition a_cond_string_gen (fixc : bool) (c : config) (kw : bytes) (op : option oper) (ex : value) (exs : res bytes) : res bytes :=
  do ok <- Render.cond_valid c kw op ex;
  if negb ok then Ok []
  else match c_rpf c with
       | Some _ => Unmodelled
       | None =>
           do raw <- match conv_stack ex with
                     | Some _ => exs                              (* stk.String() *)
                     | None =>
                         match (if fixc then conv_cond ex else None) with
                         | Some _ => exs                          (* repair: cnd.String() *)
                         | None =>
                             match get_stringer ex exs with
                             | Some m => m                        (* meth() *)
                             | None =>                            (* primitiveStringer *)
                                 match ex with
                                 | VLeaf g => match prim_text g with Some t => Ok t | None => Ok Render.s_unsupported end
                                 | _ => Ok Render.s_unsupported
                                 end
                             end
                         end
                     end;
           let val := Render.encapValue (c_enc c) raw in
           let pad := if Render.positive c c_nspad then [] else [x20] in
           let s := kw ++ pad ++ match op with Some o => Render.op_text o | None => [] end ++ pad ++ val in
           Ok (if Render.positive c c_parens then B "(" ++ pad ++ s ++ pad ++ B ")" else s)
       end.

(* String() of the native instance a node converts to (and of an alias that
   declares its own String method); "" for everything else *)
Fixpoint a_string_gen (fixc : bool) (v : value) : res bytes :=
  match v with
  | VStack _ c els => a_stack_string c (map (fun x => (x, a_string_gen fixc x)) els)
  | VCond _ c kw op ex => a_cond_string_gen fixc c kw op ex (a_string_gen fixc ex)
  | _ => Ok []
  end.

Definition a_string : value -> res bytes := a_string_gen current_fix.

(* ---- IsNesting ---- *)
(* one iteration of stack.isNesting: `case Stack` matches the native type
   (zero or not); everything else goes through the converter *)
Definition nesting_elem (x : value) : bool :=
  match x with
  | VStack Native _ _ | VZeroStack Native => true
  | _ => is_some (conv_stack x)
  end.

(* Stack.IsNesting / Condition.IsNesting of a node *)
Definition a_IsNesting (v : value) : res bool :=
  match v with
  | VStack _ _ els => Ok (existsb nesting_elem els)
  | VCond _ _ _ _ ex => Ok (is_some (conv_stack ex))
  | VZeroStack _ | VZeroCond _ => Ok false
  | _ => Unmodelled
  end.

(* ---- Len ---- *)
(* Stack.Len / Condition.Len of a node *)
Definition a_Len (v : value) : res Z :=
  match v with
  | VStack _ _ els => Ok (zlen els)
  | VCond _ _ _ _ ex =>
      if is_nil ex then Ok 0
      else match conv_stack ex with
           | Some (_, els) => Ok (zlen els)                 (* stk.Len() *)
           | None => Ok 1
           end
  | VZeroStack _ | VZeroCond _ => Ok 0
  | _ => Unmodelled
  end.

(* ---- Push under no-nesting (stack.push -> genericAppend -> canPushNester) ---- *)
Definition a_isstack (x : value) : bool := is_some (conv_stack x).
Definition no_pol (p : N) (x : value) : option N := None.

Definition scfg_of (c : config) : scfg :=
  {| k_typ := c_typ c; k_cap := c_cap c; k_opt := c_opt c; k_ord := c_ord c; k_err := c_err c; k_ppf := c_ppf c |}.
Definition raw_of (c : config) (els : list value) : raw value := SCfg (scfg_of c) :: map SVal els.
Definition vals_of (r : raw value) : list value := map (slot_val value VNil) (tl r).

Definition a_Push (r : value) (xs : list value) : res value :=
  match r with
  | VStack a c els =>
      if g_flag_positive (c_opt c) c_ronly then Ok r
      else match c_ppf c with
           | Some _ => Unmodelled
           | None =>
               do o <- push value a_isstack no_pol (raw_of c els) xs;
               Ok (VStack a c (vals_of (fst o)))
           end
  | VZeroStack _ => Ok r
  | _ => Unmodelled
  end.

(* ---- SetExpression (assertConditionExpressionValue,
        defaultAssertionExpressionHandler) ---- *)
Definition a_SetExpression (r : value) (x : value) : res value :=
  match r with
  | VCond a c kw op ex =>
      if g_flag_positive (c_opt c) c_ronly then Ok r
      else
        let X := match x with
                 | VLeaf (GStr s) => if 0 <? zlen s then x else VNil
                 | _ => match conv_stack x with
                        | Some _ => if g_flag_positive (c_opt c) c_nnest then VNil else x
                        | None => x
                        end
                 end in
        if (negb (is_nil X) && negb (is_some (c_err c)))%bool then Ok (VCond a c kw op X) else Ok r
  | VZeroCond _ => Ok r
  | _ => Unmodelled
  end.

(* ---- Transfer ---- *)
(* src.Transfer(dest): the destination after the call (Go mutates it in
   place through the shared pointer, whatever its type) and the result *)
Definition a_Transfer (src dest : value) : res (value * bool) :=
  match src with
  | VStack _ cs es =>
      match conv_stack dest with
      | None => Ok (dest, false)
      | Some (cd, ed) =>
          match c_ppf cd with
          | Some _ => Unmodelled
          | None =>
              do o <- TransferImpl.Transfer value VNil is_nil a_isstack no_pol (raw_of cs es) (Some (raw_of cd ed));
              match o with
              | (Some d', ok) =>
                  Ok (match dest with
                      | VStack a _ _ => VStack a cd (vals_of d')
                      | _ => dest
                      end, ok)
              | (None, ok) => Ok (dest, ok)
              end
          end
      end
  | VZeroStack _ => Ok (dest, false)
  | _ => Unmodelled
  end.

(* ---- the observables modelled elsewhere ---- *)
Definition a_IsEqual (x y : value) : res bool := Equal.is_equal Equal.current_fixes x y.

Definition a_Unmarshal (t : value) : res (list jval) :=
  match t with
  | VStack _ c _ => match c_umf c with Some _ => Unmodelled | None => Marshal.unm (inj t) end
  | VZeroStack _ => Ok []
  | _ => Unmodelled
  end.

Definition a_Traverse (vpol : N -> config -> list value -> bool) (t : value) (path : list Z) : res (value * bool) :=
  Traverse.Traverse vpol t path.

Definition a_Defrag (args : list Z) (t : value) : res value := Defrag.Defrag args t.
