(* OptionsCorr.v -- model-side evaluation of a recorded case of family
   `options`: run the model call by call and compare its getters and raw
   fields with what the implementation showed.  Executable definitions only. *)
From Stackage Require Import Base Generated StackImpl OptionsTypes LogLevels Options.
Open Scope Z_scope.

Fixpoint mcheck (rk : rkind) (c : ocfg) (content : list Z) (steps : list (ocall * option oobs)) : bool :=
  match steps with
  | [] => true
  | (call, ob) :: t =>
      match ostep rk c call, ob with
      | Ok c', Some o => oobs_eqb (observe rk c' content) o && mcheck rk c' content t
      | Panic, None => match t with [] => true | _ => false end
      | _, _ => false
      end
  end.

Definition model_ok (c : ocase) : bool :=
  mcheck (oc_rk c) (onew (oc_kind c)) (oc_content c) (oc_steps c).

(* 0 = the implementation behaved as the model says, 1 = it did not *)
Definition check (c : ocase) : N := if model_ok c then 0%N else 1%N.
