(* DefragCorr.v -- model-side evaluation of recorded Defrag cases (family
   defrag): the model of Defrag.v is run on the recorded input and what it
   leaves is compared, through the same projection the harness observes
   (Len / Index of every position / Err == nil of every node), with what the
   implementation showed.  Executable definitions only. *)
From Stackage Require Import Base Values Generated StackImpl Defrag DefragSpec DefragSpecCorr.
Open Scope Z_scope.

Definition model_ok (c : dcase) : bool :=
  match Defrag (d_args c) (d_in c) with
  | Ok v' => negb (d_panic c) && obs_eqb (obs_of v') (d_obs c)
  | Panic => d_panic c
  | Unmodelled => false
  end.

(* 0 = the implementation did what the model does, 1 = it did not *)
Definition dcheck_model (c : dcase) : N := if model_ok c then 0%N else 1%N.
