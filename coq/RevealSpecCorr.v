(* RevealSpecCorr.v -- the recorded case of family `reveal` and its
   evaluation against the SPECIFICATION (RevealSpec.v).  Independent of
   Generated.v and of the model, so the specification stays usable as the
   oracle when the model no longer compiles.  Executable definitions only.

   One case = the tree handed to Stack.Reveal (as built by the harness from
   its description), whether the call returned before the watchdog fired, the
   tree read back afterwards through Len/Index/Keyword/Operator/Expression
   (kind, option word, ID from the configuration record), and the mutex
   acquire/release events (node named by the ID the harness gave it). *)
From Stackage Require Import Base Values RevealSpec.
Open Scope Z_scope.

(* configuration of a node of this family: kind, option word, ID, mutex *)
Definition cfgR (typ opt : N) (id : bytes) (mtx : bool) : config :=
  {| c_typ := typ; c_cap := 0; c_opt := opt; c_sym := []; c_ljc := []; c_enc := [];
     c_ord := false; c_mtx := mtx; c_err := None; c_id := id; c_cat := [];
     c_ppf := None; c_vpf := None; c_rpf := None; c_eqf := None;
     c_umf := None; c_maf := None; c_evl := None; c_lss := None;
     c_lvl := 0; c_log := 0; c_aux := None |}.

(* the same for a Condition whose configuration holds an error (SetErr) *)
Definition cfgRE (typ opt : N) (id : bytes) : config := set_c_err (cfgR typ opt id false) (Some 1%N).

Record rcase := MkCase {
  r_in : value;                     (* the receiver before the call *)
  r_dead : bool;                    (* the call did not return (watchdog) *)
  r_out : value;                    (* the receiver after the call (VNil when r_dead) *)
  r_locks : list (bool * bytes)     (* (true,id) = acquired, (false,id) = released *)
}.

(* ---- decidable comparison of what is observed ---- *)
Definition N_opt_eqb (a b : option N) : bool :=
  match a, b with Some x, Some y => (x =? y)%N | None, None => true | _, _ => false end.
Definition oper_eqb (a b : oper) : bool :=
  match a, b with
  | OpBuiltin x, OpBuiltin y => (x =? y)%N
  | OpUser t c, OpUser t' c' => bytes_eqb t t' && bytes_eqb c c'
  | _, _ => false
  end.
Definition oper_opt_eqb (a b : option oper) : bool :=
  match a, b with Some x, Some y => oper_eqb x y | None, None => true | _, _ => false end.
Definition akind_eqb (a b : akind) : bool :=
  match a, b with
  | Native, Native | AliasVal, AliasVal | AliasPtr, AliasPtr
  | AliasValStr, AliasValStr | AliasPtrStr, AliasPtrStr => true
  | _, _ => false
  end.
(* the leaf kinds this family generates; anything else compares unequal *)
Definition leaf_eqb (a b : gval) : bool :=
  match a, b with
  | GStr x, GStr y => bytes_eqb x y
  | GInt t x, GInt t' y => (t =? t')%N && (x =? y)
  | GBool x, GBool y => Bool.eqb x y
  | GFloat t x _, GFloat t' y _ => (t =? t')%N && bytes_eqb x y
  | _, _ => false
  end.
(* the observed part of a configuration: kind, option word, ID *)
Definition cfg_obs_eqb (a b : config) : bool :=
  (c_typ a =? c_typ b)%N && (c_opt a =? c_opt b)%N && bytes_eqb (c_id a) (c_id b).

(* observed equality of trees; [ak] = also compare how nested nodes are typed *)
Fixpoint tree_eqb (ak : bool) (x y : value) : bool :=
  match x, y with
  | VNil, VNil => true
  | VLeaf g, VLeaf g' => leaf_eqb g g'
  | VStack a c els, VStack a' c' els' =>
      (negb ak || akind_eqb a a') && cfg_obs_eqb c c' &&
      (fix go (l l' : list value) : bool :=
         match l, l' with
         | [], [] => true
         | u :: t, u' :: t' => tree_eqb ak u u' && go t t'
         | _, _ => false
         end) els els'
  | VCond a c kw op ex, VCond a' c' kw' op' ex' =>
      (negb ak || akind_eqb a a') && cfg_obs_eqb c c' && bytes_eqb kw kw' && oper_opt_eqb op op' && tree_eqb ak ex ex'
  | VZeroStack a, VZeroStack a' => negb ak || akind_eqb a a'
  | VZeroCond a, VZeroCond a' => negb ak || akind_eqb a a'
  | _, _ => false
  end.

Definition ltok_eqb (a b : ltok) : bool :=
  match a, b with
  | TVal x, TVal y => tree_eqb false x y
  | TCond k o, TCond k' o' => bytes_eqb k k' && oper_opt_eqb o o'
  | _, _ => false
  end.

Definition lock_ev_eqb (a b : bool * bytes) : bool :=
  Bool.eqb (fst a) (fst b) && bytes_eqb (snd a) (snd b).

(* ---- the specification as an oracle on one recorded case ----
   bit 0: leaf sequence changed        bit 1: depth grew
   bit 2: paren/NOT stacks changed     bit 3: fully-unwrapped forms differ
   bit 4: deadlock                     bit 5: lock events not a valid acquire/release history
   Any set bit => verdict 2 (specification violated). *)
Definition spec_bits (c : rcase) : N :=
  if r_dead c then 16%N else
  ((if list_eqb ltok_eqb (dfs_leaves (r_in c)) (dfs_leaves (r_out c)) then 0 else 1) +
   (if (depth (r_out c) <=? depth (r_in c))%nat then 0 else 2) +
   (if list_eqb cfg_obs_eqb (pn_stacks (r_in c)) (pn_stacks (r_out c)) then 0 else 4) +
   (if tree_eqb false (unwrap_all (r_in c)) (unwrap_all (r_out c)) then 0 else 8) +
   (match run_locks bytes_eqb (r_locks c) [] with Some [] => 0 | _ => 32 end))%N.

Definition check (c : rcase) : N := if (spec_bits c =? 0)%N then 0%N else 2%N.

(* shard driver (same shape as StackSpecCorr.verdicts) *)
Fixpoint nonzero_from {A} (f : A -> N) (i : N) (l : list A) : list (N * N) :=
  match l with
  | [] => []
  | x :: t => let v := f x in
              if (v =? 0)%N then nonzero_from f (i + 1)%N t else (i, v) :: nonzero_from f (i + 1)%N t
  end.
Definition verdicts {A} (f : A -> N) (l : list A) : list (N * N) := nonzero_from f 0%N l.
