(* AliasCorr.v -- model-side evaluation of the cases of the family `alias`:
   every recorded observable of every instantiation against Alias.v (and the
   models of Equal.v, Marshal.v, Traverse.v, Defrag.v it uses).  Values read
   back from Go are compared with the model's values alias kinds included
   ([jsame]): the model also says how a result is typed.  check = 0 / 1.
   Executable definitions only. *)
From Stackage Require Import Base Generated StackImpl Values JVal AliasSpec MarshalSpecCorr AliasSpecCorr Alias.
From Stackage Require Render.
Open Scope Z_scope.

Definition no_vpol (p : N) (c : config) (els : list value) : bool := false.

Definition rok {A B} (f : A -> B -> bool) (r : res A) (b : B) : bool :=
  match r with Ok a => f a b | _ => false end.
(* IsEqual only: the model of Equal.v makes no claim ([Unmodelled]) about
   foreign leaves whose reflect kind it does not know (stringers, foreign
   structs); such a verdict is not compared *)
Definition rok_eq (r : res bool) (b : bool) : bool :=
  match r with Ok a => Bool.eqb a b | Unmodelled => true | Panic => false end.

(* the receivers the harness uses for the refusal observations *)
Definition nonest_basic : value := VStack Native (cfgS 6 256 [] [] [] false 0) [].
Definition fresh_cond (nonest : bool) : value :=
  VCond Native (cfgS 5 (if nonest then 256 else 0) [] [] [] false 0) [] None VNil.

Definition expr_set (r : res value) : res bool :=
  match r with
  | Ok (VCond _ _ _ _ ex) => Ok (negb (is_nil ex))
  | Ok _ => Unmodelled
  | Panic => Panic
  | Unmodelled => Unmodelled
  end.

(* the IsEqual calls of the harness *)
Definition retype (a : akind) (v : value) : value :=
  match v with
  | VStack _ c els => VStack a c els
  | VCond _ c kw op ex => VCond a c kw op ex
  | _ => v
  end.
Definition is_node (v : value) : bool := is_stack v || is_cond v.
Fixpoint elem_eqs (ns xs : list value) : list (res bool) :=
  match ns, xs with
  | n :: ns', x :: xs' => if is_node n then a_IsEqual n x :: elem_eqs ns' xs' else elem_eqs ns' xs'
  | _, _ => []
  end.
Definition eq_calls (c : acase) (t0 : value) (i : ainst) : list (res bool) :=
  let t := i_tree i in
  [a_IsEqual t t0; a_IsEqual t0 t] ++
  match a_mut c with VNil => [] | m => [a_IsEqual t m; a_IsEqual m t] end ++
  [a_IsEqual t (retype (i_arg i) t0)] ++
  elem_eqs (root_elems t0) (root_elems t).

Definition model_inst_ok (c : acase) (t0 : value) (i : ainst) : bool :=
  let t := i_tree i in
  let o := i_obs i in
  let nodes := Render.subnodes t in
  negb (o_panic o) &&
  all2 (fun n s => rok bytes_eqb (a_string n) s) nodes (o_strs o) &&
  all2 (fun n b => rok Bool.eqb (a_IsNesting n) b) nodes (o_nest o) &&
  all2 (fun n z => rok Z.eqb (a_Len n) z) nodes (o_lens o) &&
  all2 rok_eq
       (eq_calls c t0 i) (o_eq o) &&
  rok (all2 jsame) (a_Unmarshal t) (o_unm o) &&
  all2 (fun p ob => rok (fun r ob => jsame (inj (fst r)) (fst ob) && Bool.eqb (snd r) (snd ob))
                        (a_Traverse no_vpol t p) ob) (a_paths c) (o_trav o) &&
  rok (fun r ob => jsame (inj r) ob) (a_Push nonest_basic (root_elems t)) (o_push o) &&
  all2 (fun x ob => rok Bool.eqb (expr_set (a_SetExpression (fresh_cond true) x)) (fst ob) &&
                    rok Bool.eqb (expr_set (a_SetExpression (fresh_cond false) x)) (snd ob))
       (root_elems t) (o_setex o) &&
  rok (fun r ob => jsame (inj r) ob) (a_Defrag (a_dargs c) t) (o_defrag o) &&
  all2 (fun d ob => rok (fun r ob => Bool.eqb (snd r) (fst ob) && jsame (inj (fst r)) (snd ob))
                        (a_Transfer t d) ob) (i_dests i) (o_xfer o) &&
  all2 (fun x ob => ojsame (option_map inj (ConvertStack x)) (fst ob) &&
                    ojsame (option_map inj (ConvertCondition x)) (snd ob))
       (root_elems t) (o_conv o).

Definition model_ok (c : acase) : bool :=
  match a_insts c with
  | [] => false
  | i0 :: _ => forallb (model_inst_ok c (i_tree i0)) (a_insts c)
  end.

Definition acheck_model (c : acase) : N := if model_ok c then 0%N else 1%N.

(* which conjunct fails, per instantiation (for reading a mismatch):
   panic strs nest lens eq unm trav push setex defrag xfer conv *)
Definition model_diag_inst (c : acase) (t0 : value) (i : ainst) : list bool :=
  let t := i_tree i in
  let o := i_obs i in
  let nodes := Render.subnodes t in
  [ negb (o_panic o);
    all2 (fun n s => rok bytes_eqb (a_string n) s) nodes (o_strs o);
    all2 (fun n b => rok Bool.eqb (a_IsNesting n) b) nodes (o_nest o);
    all2 (fun n z => rok Z.eqb (a_Len n) z) nodes (o_lens o);
    all2 rok_eq
       (eq_calls c t0 i) (o_eq o);
    rok (all2 jsame) (a_Unmarshal t) (o_unm o);
    all2 (fun p ob => rok (fun r ob => jsame (inj (fst r)) (fst ob) && Bool.eqb (snd r) (snd ob))
                        (a_Traverse no_vpol t p) ob) (a_paths c) (o_trav o);
    rok (fun r ob => jsame (inj r) ob) (a_Push nonest_basic (root_elems t)) (o_push o);
    all2 (fun x ob => rok Bool.eqb (expr_set (a_SetExpression (fresh_cond true) x)) (fst ob) &&
                    rok Bool.eqb (expr_set (a_SetExpression (fresh_cond false) x)) (snd ob))
       (root_elems t) (o_setex o);
    rok (fun r ob => jsame (inj r) ob) (a_Defrag (a_dargs c) t) (o_defrag o);
    all2 (fun d ob => rok (fun r ob => Bool.eqb (snd r) (fst ob) && jsame (inj (fst r)) (snd ob))
                        (a_Transfer t d) ob) (i_dests i) (o_xfer o);
    all2 (fun x ob => ojsame (option_map inj (ConvertStack x)) (fst ob) &&
                    ojsame (option_map inj (ConvertCondition x)) (snd ob))
       (root_elems t) (o_conv o) ].
Definition model_diag (c : acase) : list (list bool) :=
  match a_insts c with
  | [] => []
  | i0 :: _ => map (model_diag_inst c (i_tree i0)) (a_insts c)
  end.
