(* AliasProofs3.v -- C12, part 3: homomorphism theorems for Transfer (over
   StackImpl / TransferImpl) and Defrag (over Defrag.v).  The list-level
   models are parametric in the element type; the theorems below are their
   naturality under the renaming erase_alias, lifted to trees. *)
From Stackage Require Import Base Generated StackImpl Values JVal AliasSpec Alias AliasProofs.
From Stackage Require Defrag TransferImpl.
Open Scope Z_scope.

Local Notation e := erase_alias.
Local Notation sm := (smap erase_alias).
Local Notation sm1 := (smap1 erase_alias).

(* ================= Transfer ================= *)
Lemma znth_smap (r : raw value) i : znth (sm r) i = option_map sm1 (znth r i).
Proof.
  unfold znth, smap. destruct (i <? 0); [reflexivity|]. rewrite nth_error_map. reflexivity.
Qed.

Lemma index_smap r i :
  index value VNil is_nil (sm r) i =
  rmap (fun o => (sm1 (fst (fst o)), snd (fst o), snd o)) (index value VNil is_nil r i).
Proof.
  unfold index. rewrite (smap_config e), (smap_ulen e).
  destruct (StackImpl.config value r) as [c| |]; cbn [bind rmap]; try reflexivity.
  destruct (g_index _ _ _ i) as [zs bs|k zs bs].
  - destruct zs as [|z0 [|idx [|? ?]]]; try reflexivity. destruct bs as [|b [|? ?]]; reflexivity.
  - destruct k; [|reflexivity]. destruct zs as [|i' [|z [|? ?]]]; try reflexivity.
    destruct bs as [|b [|? ?]]; try reflexivity.
    rewrite znth_smap. destruct (znth r i') as [s|]; cbn [option_map rmap fst snd]; [|reflexivity].
    now rewrite (slot_notnil_smap e erase_is_nil).
Qed.

Lemma xfer_loop_smap fuel i src dst :
  TransferImpl.xfer_loop value VNil is_nil a_isstack no_pol fuel i (sm src) (sm dst) =
  rmap sm (TransferImpl.xfer_loop value VNil is_nil a_isstack no_pol fuel i src dst).
Proof.
  revert i dst. induction fuel as [|f IH]; intros i dst; cbn [TransferImpl.xfer_loop]; [reflexivity|].
  rewrite index_smap.
  destruct (index value VNil is_nil src i) as [[[s idx] ok]| |]; cbn [rmap bind fst snd]; try reflexivity.
  rewrite (slot_val_smap e erase_nil).
  change [e (slot_val value VNil s)] with (map e [slot_val value VNil s]).
  rewrite (push_smap e a_isstack no_pol a_isstack_erase (fun _ _ => eq_refl)).
  destruct (push value a_isstack no_pol dst [slot_val value VNil s]) as [[d' lg]| |]; cbn [rmap bind fst snd]; try reflexivity.
  apply IH.
Qed.

Lemma transfer_smap src dst :
  TransferImpl.transfer value VNil is_nil a_isstack no_pol (sm src) (sm dst) =
  rmap (fun o => (sm (fst o), snd o)) (TransferImpl.transfer value VNil is_nil a_isstack no_pol src dst).
Proof.
  unfold TransferImpl.transfer. rewrite (smap_config e), !(smap_ulen e), (smap_zlen e).
  destruct (StackImpl.config value dst) as [cd| |]; cbn [bind rmap]; try reflexivity.
  rewrite xfer_loop_smap.
  destruct (TransferImpl.xfer_loop value VNil is_nil a_isstack no_pol (Z.to_nat (ulen value src)) 0 src dst)
    as [d'| |]; cbn [rmap bind]; try reflexivity.
  rewrite (smap_ulen e), (smap_zlen e).
  destruct (g_transfer _ _ _ _ _ _) as [zs bs|k zs bs]; [|reflexivity].
  destruct zs; [|reflexivity]. destruct bs as [|looped [|ok [|? ?]]]; try reflexivity.
  destruct looped; reflexivity.
Qed.

Lemma Transfer_smap src dst :
  TransferImpl.Transfer value VNil is_nil a_isstack no_pol (sm src) (Some (sm dst)) =
  rmap (fun o => (option_map sm (fst o), snd o))
       (TransferImpl.Transfer value VNil is_nil a_isstack no_pol src (Some dst)).
Proof.
  unfold TransferImpl.Transfer. rewrite (smap_is_init e), (smap_config e).
  destruct (is_init value src); cbn [negb]; [|reflexivity].
  destruct (StackImpl.config value dst) as [cd| |]; cbn [bind rmap]; try reflexivity.
  destruct (StackImpl.positive cd c_ronly); [reflexivity|].
  rewrite transfer_smap.
  destruct (TransferImpl.transfer value VNil is_nil a_isstack no_pol src dst) as [[d' ok]| |]; reflexivity.
Qed.

(* erase_alias_hom_Transfer: source and destination may both be (or hold)
   aliases; the destination afterwards and the reported result agree *)
Theorem erase_alias_hom_transfer src dest :
  a_Transfer (e src) (e dest) = rmap (fun o => (e (fst o), snd o)) (a_Transfer src dest).
Proof.
  destruct src as [|g|a cs es|a c kw op ex|a|a]; try reflexivity.
  cbn [erase_alias a_Transfer]. rewrite conv_stack_erase, conv_stack_char.
  destruct dest as [|g'|a' cd ed|a' c' kw' op' ex'|a'|a']; try reflexivity.
  cbn [erase_alias]. destruct (c_ppf cd); [reflexivity|].
  rewrite !(raw_of_map e), Transfer_smap.
  destruct (TransferImpl.Transfer value VNil is_nil a_isstack no_pol (raw_of cs es) (Some (raw_of cd ed)))
    as [[[d'|] ok]| |]; cbn [rmap bind option_map fst snd erase_alias]; try reflexivity.
  now rewrite (vals_of_smap e erase_nil).
Qed.

(* a destination that converts to nothing: false, nothing changes *)
Theorem transfer_refuses_unconvertible a cs es dest :
  ConvertStack dest = None -> a_Transfer (VStack a cs es) dest = Ok (dest, false).
Proof.
  unfold ConvertStack. intros H. cbn [a_Transfer]. destruct (conv_stack dest) as [[? ?]|]; [discriminate|reflexivity].
Qed.

(* ================= Defrag ================= *)
Section DefragNat.
  Variable f : value -> value.
  Hypothesis f_nil : f VNil = VNil.
  Hypothesis f_isnil : forall x, is_nil (f x) = is_nil x.

  Lemma set_nth_map {A B} (g : A -> B) n v (l : list A) : set_nth n (g v) (map g l) = map g (set_nth n v l).
  Proof. revert n. induction l as [|h t IH]; intros [|n]; cbn [set_nth map]; try reflexivity. now rewrite IH. Qed.

  Lemma rlen_map els : Defrag.rlen value (map f els) = Defrag.rlen value els.
  Proof. unfold Defrag.rlen. now rewrite zlen_map. Qed.
  Lemma rulen_map els : Defrag.rulen value (map f els) = Defrag.rulen value els.
  Proof. unfold Defrag.rulen. now rewrite rlen_map. Qed.

  Lemma raw_get_map els k : Defrag.raw_get value (map f els) k = rmap f (Defrag.raw_get value els k).
  Proof.
    unfold Defrag.raw_get. destruct (k <? 0); [reflexivity|]. destruct (k =? 0); [reflexivity|].
    rewrite nth_error_map. destruct (nth_error els (Z.to_nat (k - 1))); reflexivity.
  Qed.

  Lemma raw_set_map els k v :
    Defrag.raw_set value (map f els) k (f v) = rmap (map f) (Defrag.raw_set value els k v).
  Proof.
    unfold Defrag.raw_set. destruct (k <? 0); [reflexivity|]. destruct (k =? 0); [reflexivity|].
    rewrite map_length. destruct (Z.to_nat (k - 1) <? length els)%nat; [|reflexivity].
    cbn [rmap]. now rewrite set_nth_map.
  Qed.

  Lemma index_ok_map els neg fwd i :
    Defrag.index_ok value is_nil (map f els) neg fwd i = Defrag.index_ok value is_nil els neg fwd i.
  Proof.
    unfold Defrag.index_ok. rewrite rulen_map.
    destruct (g_index _ neg fwd i) as [zs bs|k zs bs]; [reflexivity|].
    destruct k; [|reflexivity]. destruct zs as [|i' [|z [|? ?]]]; try reflexivity.
    destruct bs as [|b [|? ?]]; try reflexivity.
    destruct (i' =? 0); [reflexivity|]. rewrite raw_get_map.
    destruct (Defrag.raw_get value els i'); cbn [rmap bind]; try reflexivity. now rewrite f_isnil.
  Qed.

  Lemma scan_map els neg fwd is start spat :
    Defrag.scan value is_nil (map f els) neg fwd is start spat = Defrag.scan value is_nil els neg fwd is start spat.
  Proof.
    revert start spat. induction is as [|i t IH]; intros start spat; cbn [Defrag.scan]; [reflexivity|].
    rewrite index_ok_map. destruct (Defrag.index_ok value is_nil els neg fwd (Z.of_nat i)) as [ok| |]; cbn [bind]; try reflexivity.
    destruct ok; [|apply IH]. destruct (Defrag.pat_set spat (Z.of_nat i) 1); cbn [bind]; try reflexivity. apply IH.
  Qed.

  Lemma implode_loop_map fuel max r start ct tpat :
    Defrag.implode_loop value VNil is_nil fuel max (map f r) start ct tpat =
    rmap (fun o => (map f (fst o), snd o)) (Defrag.implode_loop value VNil is_nil fuel max r start ct tpat).
  Proof.
    revert r start ct tpat. induction fuel as [|n IH]; intros r start ct tpat; cbn [Defrag.implode_loop]; [reflexivity|].
    rewrite rulen_map. destruct ((max <=? ct) || (Defrag.rulen value r <=? start + ct))%bool; [reflexivity|].
    rewrite raw_get_map. destruct (Defrag.raw_get value r (start + ct + 1)) as [x| |]; cbn [rmap bind]; try reflexivity.
    rewrite f_isnil. destruct (is_nil x); [apply IH|].
    rewrite raw_set_map. destruct (Defrag.raw_set value r (start + 1) x) as [r1| |]; cbn [rmap bind]; try reflexivity.
    destruct (Defrag.pat_set tpat (start + ct) 1) as [tp1| |]; cbn [bind]; try reflexivity.
    rewrite <- f_nil at 1. rewrite raw_set_map.
    destruct (Defrag.raw_set value r1 (start + ct + 1) VNil) as [r2| |]; cbn [rmap bind]; try reflexivity.
    apply IH.
  Qed.

  Lemma implode_map start max spat els :
    Defrag.implode value VNil is_nil start max spat (map f els) =
    rmap (fun o => (map f (fst o), snd o)) (Defrag.implode value VNil is_nil start max spat els).
  Proof.
    unfold Defrag.implode, Defrag.implode_fuel. rewrite map_length.
    destruct (Defrag.pat_set (repeat 0 (length spat)) 0 1); cbn [bind rmap]; try reflexivity.
    apply implode_loop_map.
  Qed.

  Lemma defrag_map neg fwd max els :
    Defrag.defrag value VNil is_nil neg fwd max (map f els) =
    rmap (fun o => (map f (fst o), snd o)) (Defrag.defrag value VNil is_nil neg fwd max els).
  Proof.
    unfold Defrag.defrag. rewrite map_length, scan_map.
    destruct (Defrag.scan value is_nil els neg fwd (seq 0 (S (length els))) (-1) (repeat 0 (S (length els))))
      as [[start spat]| |]; cbn [bind rmap]; try reflexivity.
    destruct (negb ((start =? -1) || (max <=? start))); [|reflexivity].
    rewrite implode_map.
    destruct (Defrag.implode value VNil is_nil start max spat els) as [[r1 tpat]| |]; cbn [bind rmap fst snd]; try reflexivity.
    destruct (Defrag.verify_implode spat tpat) as [[last err]| |]; cbn [bind]; try reflexivity.
    destruct (negb err && (0 <=? last))%bool; [|reflexivity].
    rewrite rlen_map. destruct (last + 1 <=? Defrag.rlen value r1); [|reflexivity].
    cbn [rmap fst snd]. now rewrite firstn_map.
  Qed.
End DefragNat.

Lemma stack_like_e x : Defrag.stack_like (e x) = Defrag.stack_like x.
Proof. destruct x; reflexivity. Qed.

Lemma existsb_stack_like_e l : existsb Defrag.stack_like (map e l) = existsb Defrag.stack_like l.
Proof. induction l as [|x t IH]; cbn [map existsb]; [reflexivity|]. now rewrite stack_like_e, IH. Qed.

Lemma map_res_e (F : value -> res value) l :
  (forall x, F (e x) = rmap e (F x)) ->
  Defrag.map_res F (map e l) = rmap (map e) (Defrag.map_res F l).
Proof.
  intros HF. induction l as [|x t IH]; cbn [map Defrag.map_res]; [reflexivity|].
  rewrite HF. destruct (F x); cbn [rmap bind]; try reflexivity.
  rewrite IH. destruct (Defrag.map_res F t); reflexivity.
Qed.

Lemma Defrag_f_e fuel args v :
  Defrag.Defrag_f fuel args (e v) = rmap e (Defrag.Defrag_f fuel args v).
Proof.
  revert args v. induction fuel as [|n IH]; intros args v; cbn [Defrag.Defrag_f]; [reflexivity|].
  destruct v as [|g|a c els|a c kw op ex|a|a]; try reflexivity.
  cbn [erase_alias]. destruct (Defrag.cpositive c c_ronly); [reflexivity|].
  rewrite (defrag_map e erase_nil erase_is_nil).
  destruct (Defrag.defrag value VNil is_nil (Defrag.cpositive c c_negidx) (Defrag.cpositive c c_fwdidx)
              (Defrag.defrag_max args) els) as [[els1 er]| |]; cbn [rmap bind fst snd]; try reflexivity.
  rewrite existsb_stack_like_e. destruct (existsb Defrag.stack_like els1); [|reflexivity].
  rewrite map_res_e.
  - destruct (Defrag.map_res _ els1); reflexivity.
  - intros x. destruct x as [|g'|a' c' els'|a' c' kw' op' ex'|a'|a']; try reflexivity.
    + change (e (VStack a' c' els')) with (VStack Native c' (map e els')).
      change (VStack Native c' (map e els')) with (e (VStack a' c' els')). apply IH.
    + cbn [erase_alias]. destruct ex' as [|g''|a'' c'' els''|a'' c'' kw'' op'' ex''|a''|a'']; try reflexivity.
      change (e (VStack a'' c'' els'')) with (VStack Native c'' (map e els'')).
      change (VStack Native c'' (map e els'')) with (e (VStack a'' c'' els'')).
      rewrite IH. destruct (Defrag.Defrag_f n [Defrag.defrag_max args] (VStack a'' c'' els'')); reflexivity.
Qed.

Lemma vsize_e v : vsize (e v) = vsize v.
Proof.
  induction v as [|g|a c els IH|a c kw op ex IH|a|a] using value_ind'; cbn [erase_alias vsize]; try reflexivity.
  - f_equal. induction IH as [|x t Hx Ht IHt]; cbn [map fold_right]; [reflexivity|]. now rewrite Hx, IHt.
  - now rewrite IH.
Qed.

(* erase_alias_hom_Defrag *)
Theorem erase_alias_hom_defrag args t :
  a_Defrag args (e t) = rmap e (a_Defrag args t).
Proof. unfold a_Defrag, Defrag.Defrag. rewrite vsize_e. apply Defrag_f_e. Qed.
