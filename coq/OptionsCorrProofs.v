(* OptionsCorrProofs.v -- the two evaluators of family `options` agree with
   the theory: a recorded case that the MODEL-side check accepts is accepted
   by the SPECIFICATION-side check (so a specification failure on supported
   calls always shows up as a model mismatch too, and a clean correspondence
   run means the implementation satisfied the specification on every
   recorded case). *)
From Stackage Require Import Base Generated StackImpl OptionsTypes OptionsSpec LogLevels Options OptionsProofs.
From Stackage Require OptionsSpecCorr OptionsCorr.
From Coq Require Import Lia.
Import OptionsSpecCorr.
Open Scope Z_scope.

(* ---- the documented word ---- *)
Lemma word_of_bit f o : N.testbit (word_of f) (bit_of o) = f o.
Proof.
  unfold word_of, all_opts. cbn [fold_right].
  destruct (f OParen) eqn:E1, (f OFold) eqn:E2, (f ONoPad) eqn:E3, (f OLeadOnce) eqn:E4,
           (f ONegIdx) eqn:E5, (f OFwdIdx) eqn:E6, (f ONoNest) eqn:E7, (f OReadOnly) eqn:E8;
    destruct o; rewrite ?E1, ?E2, ?E3, ?E4, ?E5, ?E6, ?E7, ?E8; reflexivity.
Qed.

Lemma word_of_lt f : (word_of f < 2 ^ 9)%N.
Proof.
  unfold word_of, all_opts. cbn [fold_right].
  destruct (f OParen), (f OFold), (f ONoPad), (f OLeadOnce), (f ONegIdx), (f OFwdIdx), (f ONoNest), (f OReadOnly);
    reflexivity.
Qed.

Lemma word_of_bit6 f : N.testbit (word_of f) 6 = false.
Proof.
  unfold word_of, all_opts. cbn [fold_right].
  destruct (f OParen), (f OFold), (f ONoPad), (f OLeadOnce), (f ONegIdx), (f OFwdIdx), (f ONoNest), (f OReadOnly);
    reflexivity.
Qed.

Lemma public_or_not k : (exists o, bit_of o = k) \/ (forall o, bit_of o <> k).
Proof.
  destruct (N.eq_dec k 0) as [->|]; [left; exists OParen; reflexivity|].
  destruct (N.eq_dec k 1) as [->|]; [left; exists OFold; reflexivity|].
  destruct (N.eq_dec k 2) as [->|]; [left; exists ONoPad; reflexivity|].
  destruct (N.eq_dec k 3) as [->|]; [left; exists OLeadOnce; reflexivity|].
  destruct (N.eq_dec k 4) as [->|]; [left; exists ONegIdx; reflexivity|].
  destruct (N.eq_dec k 5) as [->|]; [left; exists OFwdIdx; reflexivity|].
  destruct (N.eq_dec k 7) as [->|]; [left; exists OReadOnly; reflexivity|].
  destruct (N.eq_dec k 8) as [->|]; [left; exists ONoNest; reflexivity|].
  right. intros o E. destruct o; simpl in E; congruence.
Qed.

Lemma word_of_other f k : (forall o, bit_of o <> k) -> N.testbit (word_of f) k = false.
Proof.
  intro Hk. destruct (N.lt_ge_cases k 9) as [Hlt|Hge].
  - assert (k = 6%N) as ->.
    { pose proof (Hk OParen); pose proof (Hk OFold); pose proof (Hk ONoPad); pose proof (Hk OLeadOnce);
      pose proof (Hk ONegIdx); pose proof (Hk OFwdIdx); pose proof (Hk OReadOnly); pose proof (Hk ONoNest).
      simpl in *. lia. }
    apply word_of_bit6.
  - apply (proj1 (lt_pow2_bits (word_of f) 9) (word_of_lt f)). assumption.
Qed.

(* ---- reflexivity / soundness of the comparison functions ---- *)
Lemma bytes_eqb_refl x : bytes_eqb x x = true.
Proof. apply bytes_eqb_spec. reflexivity. Qed.

Lemma enc_eqb_spec a b : list_eqb (list_eqb bytes_eqb) a b = true <-> a = b.
Proof. apply list_eqb_spec. intros x y. apply list_eqb_spec. apply bytes_eqb_spec. Qed.

Lemma zlist_eqb_spec a b : list_eqb Z.eqb a b = true <-> a = b.
Proof. apply list_eqb_spec. intros x y. apply Z.eqb_eq. Qed.

Lemma optN_eqb_spec a b : opt_eqb N.eqb a b = true <-> a = b.
Proof.
  destruct a as [x|], b as [y|]; simpl; split; intro H; try discriminate; try reflexivity.
  - apply N.eqb_eq in H. subst. reflexivity.
  - inversion H. apply N.eqb_refl.
Qed.

Lemma oobs_eqb_eq a b : oobs_eqb a b = true -> a = b.
Proof.
  destruct a, b. unfold oobs_eqb. cbv beta iota delta [OptionsTypes.ob_opt OptionsTypes.ob_lvl OptionsTypes.ob_sym OptionsTypes.ob_ljc OptionsTypes.ob_enc OptionsTypes.ob_id OptionsTypes.ob_cat OptionsTypes.ob_ord OptionsTypes.ob_aux OptionsTypes.ob_isparen OptionsTypes.ob_ispadded OptionsTypes.ob_isro OptionsTypes.ob_cannest OptionsTypes.ob_isencap OptionsTypes.ob_isfifo OptionsTypes.ob_gid OptionsTypes.ob_gcat OptionsTypes.ob_gdelim OptionsTypes.ob_glog OptionsTypes.ob_gaux OptionsTypes.ob_idxneg OptionsTypes.ob_idxfwd OptionsTypes.ob_content]. intro H.
  repeat match goal with H : (_ && _) = true |- _ => apply andb_true_iff in H; destruct H end.
  repeat match goal with
         | H : (_ =? _)%N = true |- _ => apply N.eqb_eq in H
         | H : bytes_eqb _ _ = true |- _ => apply bytes_eqb_spec in H
         | H : list_eqb (list_eqb bytes_eqb) _ _ = true |- _ => apply enc_eqb_spec in H
         | H : list_eqb Z.eqb _ _ = true |- _ => apply zlist_eqb_spec in H
         | H : opt_eqb N.eqb _ _ = true |- _ => apply optN_eqb_spec in H
         | H : Bool.eqb _ _ = true |- _ => apply Bool.eqb_prop in H
         end.
  subst. reflexivity.
Qed.

(* ---- Index(-1) / Index(Len()+1) on n non-nil elements ---- *)
Lemma W z : - 2 ^ 62 <= z <= 2 ^ 62 -> wrap64 z = z.
Proof. intro H. apply wrap64_id. unfold in_i64, two63. lia. Qed.

Lemma index_ok_neg c n : 0 <= n < 2 ^ 61 -> index_ok c n (-1) = cfg_positive c c_negidx && negb (n =? 0).
Proof.
  intro Hn. unfold index_ok, g_index. cbv zeta.
  destruct (Z.eqb_spec n 0) as [->|Hne].
  - simpl. rewrite andb_false_r. reflexivity.
  - replace (0 <? n) with true by (symmetry; apply Z.ltb_lt; lia).
    replace (-1 <? 0) with true by reflexivity.
    rewrite (W (- n)) by lia.
    replace (- n <=? -1) with true by (symmetry; apply Z.leb_le; lia).
    destruct (cfg_positive c c_negidx); simpl andb; cbv iota; [|reflexivity].
    unfold g_factorNegIndex. cbv zeta.
    rewrite (W (n * 2)) by lia. rewrite (W (-1 + n * 2)) by lia. rewrite (W (n - 1)) by lia.
    replace (n - 1 <? -1 + n * 2) with true by (symmetry; apply Z.ltb_lt; lia).
    rewrite (W (-1 + n * 2 - n)) by lia. rewrite (W (-1 + n * 2 - n + 1)) by lia.
    apply andb_true_iff. split; apply Z.leb_le; lia.
Qed.

Lemma index_ok_fwd c n : 0 <= n < 2 ^ 61 -> index_ok c n (n + 1) = cfg_positive c c_fwdidx && negb (n =? 0).
Proof.
  intro Hn. unfold index_ok, g_index. cbv zeta.
  destruct (Z.eqb_spec n 0) as [->|Hne].
  - simpl. rewrite andb_false_r. reflexivity.
  - replace (0 <? n) with true by (symmetry; apply Z.ltb_lt; lia).
    replace (n + 1 <? 0) with false by (symmetry; apply Z.ltb_ge; lia).
    rewrite (W (n - 1)) by lia.
    replace (n - 1 <? n + 1) with true by (symmetry; apply Z.ltb_lt; lia).
    destruct (cfg_positive c c_fwdidx); simpl andb; cbv iota; [|reflexivity].
    apply andb_true_iff. split; apply Z.leb_le; lia.
Qed.

(* ---- what the constructors establish beyond R ---- *)
Definition Zinv (rk : rkind) (c : ocfg) : Prop :=
  (forall k, (forall o, bit_of o <> k) -> N.testbit (o_opt c) k = false) /\
  (rk = RCond -> o_ord c = false /\ o_ljc c = []).

Lemma Zinv_new rk kind : Zinv rk (onew kind).
Proof. split; [intros k _; apply N.bits_0 | intros _; split; reflexivity]. Qed.

Lemma set_state_frame c f t : exists w, set_state c f t = oset_opt c w.
Proof.
  unfold set_state, cfg_setOpt, cfg_unsetOpt, cfg_toggleOpt.
  destruct (negb (cfg_positive c c_ronly) || (f =? c_ronly)%N); [|exists (o_opt c); symmetry; apply oset_opt_id].
  destruct t as [[|]|]; destruct (cfg_valid c); eauto; exists (o_opt c); symmetry; apply oset_opt_id.
Qed.

Lemma ostep_cond_frame c call c' : ostep RCond c call = Ok c' -> o_ord c' = o_ord c /\ o_ljc c' = o_ljc c.
Proof.
  unfold ostep. destruct call as [o t|b|x|x|x|xs|xs|a|xs|xs]; simpl supported.
  - destruct (cond_opt o); simpl; [|discriminate]. intro E. inversion E.
    destruct (set_state_frame c (flag_of o) t) as (w & ->). split; reflexivity.
  - discriminate.
  - destruct (negb (reserved_id x)); simpl; [|discriminate].
    destruct (cfg_positive c c_ronly); intro E; inversion E; split; reflexivity.
  - simpl. destruct (cfg_positive c c_ronly); intro E; inversion E; split; reflexivity.
  - discriminate.
  - discriminate.
  - simpl. destruct (cfg_positive c c_ronly); [intro E; inversion E; split; reflexivity|].
    rewrite set_encap_m_spec. intro E; inversion E; split; reflexivity.
  - simpl. destruct (cfg_positive c c_ronly); intro E; inversion E; [split; reflexivity|].
    destruct a; split; reflexivity.
  - destruct (forallb larg_wf xs); simpl; [|discriminate].
    destruct (cfg_positive c c_ronly); intro E; inversion E; split; reflexivity.
  - destruct (forallb larg_wf xs); simpl; [|discriminate].
    destruct (cfg_positive c c_ronly); intro E; inversion E; split; reflexivity.
Qed.

Lemma Zinv_step rk c call c' : cfg_valid c = true -> Zinv rk c -> ostep rk c call = Ok c' -> Zinv rk c'.
Proof.
  intros Hv [Hz Hc] E. split.
  - intros k Hk. rewrite (ostep_other_bits rk c call c' k Hv E Hk). apply Hz. assumption.
  - intros ->. destruct (ostep_cond_frame c call c' E) as [-> ->]. apply Hc. reflexivity.
Qed.

(* ---- the model's observation shows exactly the specification state ---- *)
Lemma observe_sobs_ok rk c s ct :
  R rk c s -> Zinv rk c -> zlen ct < 2 ^ 61 -> sobs_ok s ct (observe rk c ct) = true.
Proof.
  intros HR [Hz Hc] Hlen.
  pose proof (R_valid _ _ _ HR) as Hv.
  assert (Hn : 0 <= zlen ct < 2 ^ 61) by (unfold zlen in *; lia).
  unfold sobs_ok, observe. cbv zeta. cbv beta iota delta [OptionsTypes.ob_opt OptionsTypes.ob_lvl OptionsTypes.ob_sym OptionsTypes.ob_ljc OptionsTypes.ob_enc OptionsTypes.ob_id OptionsTypes.ob_cat OptionsTypes.ob_ord OptionsTypes.ob_aux OptionsTypes.ob_isparen OptionsTypes.ob_ispadded OptionsTypes.ob_isro OptionsTypes.ob_cannest OptionsTypes.ob_isencap OptionsTypes.ob_isfifo OptionsTypes.ob_gid OptionsTypes.ob_gcat OptionsTypes.ob_gdelim OptionsTypes.ob_glog OptionsTypes.ob_gaux OptionsTypes.ob_idxneg OptionsTypes.ob_idxfwd OptionsTypes.ob_content].
  rewrite <- (R_sym _ _ _ HR), <- (R_delim _ _ _ HR), <- (R_enc _ _ _ HR), <- (R_id _ _ _ HR),
    <- (R_cat _ _ _ HR), <- (R_fifo _ _ _ HR), <- (R_aux _ _ _ HR), (R_rk _ _ _ HR).
  rewrite <- !(R_opt _ _ _ HR).
  change (flag_of OParen) with c_parens. change (flag_of ONoPad) with c_nspad.
  change (flag_of OReadOnly) with c_ronly. change (flag_of ONoNest) with c_nnest.
  change (flag_of ONegIdx) with c_negidx. change (flag_of OFwdIdx) with c_fwdidx.
  rewrite index_ok_neg, index_ok_fwd by assumption.
  assert (Hword : (o_opt c =? word_of (s_opt s))%N = true).
  { apply N.eqb_eq. apply N.bits_inj. intro k. destruct (public_or_not k) as [(o & <-)|Hk].
    - rewrite word_of_bit, <- (R_opt _ _ _ HR), cfg_positive_bit by assumption. reflexivity.
    - rewrite word_of_other by assumption. apply Hz. assumption. }
  assert (Hlvl : lvl_matches (o_lvl c) (s_lvl s) = true).
  { destruct (R_lvl _ _ _ HR) as [Hlt Hm]. unfold lvl_matches. apply andb_true_iff. split.
    - apply N.ltb_lt. assumption.
    - apply forallb_forall. intros i Hi. rewrite Hm, lv_of_N_low by (apply levels_in; assumption).
      apply Bool.eqb_reflx. }
  assert (Hlog : bytes_eqb (ll_string (o_lvl c)) (levels_text (s_lvl s)) = true)
    by (apply bytes_eqb_spec, ll_string_rel, (R_lvl _ _ _ HR)).
  assert (Henc : Bool.eqb (0 <? zlen (o_enc c)) match o_enc c with [] => false | _ :: _ => true end = true).
  { destruct (o_enc c); [reflexivity|]. unfold zlen. simpl length.
    replace (0 <? Z.of_nat (S (length l0))) with true by (symmetry; apply Z.ltb_lt; lia). reflexivity. }
  rewrite Hword, Hlvl, Hlog, Henc, !bytes_eqb_refl, !Bool.eqb_reflx.
  rewrite (proj2 (enc_eqb_spec _ _) eq_refl), (proj2 (zlist_eqb_spec _ _) eq_refl), !(proj2 (optN_eqb_spec _ _) eq_refl).
  destruct rk; simpl.
  - rewrite !bytes_eqb_refl, !Bool.eqb_reflx. reflexivity.
  - destruct (Hc eq_refl) as [-> ->]. reflexivity.
Qed.

(* ---- model-side acceptance implies specification-side acceptance ---- *)
Lemma mcheck_scheck rk ct : zlen ct < 2 ^ 61 -> forall steps c s,
  R rk c s -> Zinv rk c ->
  forallb (fun st => supported rk (fst st)) steps = true ->
  OptionsCorr.mcheck rk c ct steps = true -> scheck true s ct steps = true.
Proof.
  intro Hlen. induction steps as [|[call ob] t IH]; intros c s HR HZ Hsup Hm; [reflexivity|].
  simpl in Hsup. apply andb_true_iff in Hsup as [Hcall Ht].
  destruct (refine_step rk c s call HR Hcall) as (c' & E & HR').
  cbn [OptionsCorr.mcheck] in Hm. rewrite E in Hm. destruct ob as [o|]; [|discriminate].
  apply andb_true_iff in Hm as [Ho Hm]. apply oobs_eqb_eq in Ho. subst o.
  assert (HZ' : Zinv rk c') by (eapply Zinv_step; [exact (R_valid _ _ _ HR) | exact HZ | exact E]).
  cbn [scheck]. rewrite (R_rk _ _ _ HR), Hcall. cbn [andb].
  rewrite (observe_sobs_ok rk c' _ ct HR' HZ' Hlen). cbn [andb].
  eapply IH; eassumption.
Qed.

Theorem model_check_implies_spec_check (c : ocase) :
  oc_kind c <> 0%N -> zlen (oc_content c) < 2 ^ 61 ->
  forallb (fun st => supported (oc_rk c) (fst st)) (oc_steps c) = true ->
  OptionsCorr.check c = 0%N -> OptionsSpecCorr.check c = 0%N.
Proof.
  intros Hk Hlen Hsup Hm. unfold OptionsCorr.check, OptionsCorr.model_ok in Hm.
  destruct (OptionsCorr.mcheck _ _ _ _) eqn:E; [|discriminate].
  unfold check, spec_ok.
  rewrite (mcheck_scheck (oc_rk c) (oc_content c) Hlen (oc_steps c) (onew (oc_kind c)) (sinit (oc_rk c) (oc_kind c))
             (R_init _ _ Hk) (Zinv_new _ _) Hsup E).
  reflexivity.
Qed.
