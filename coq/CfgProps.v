(* CfgProps.v -- facts about the regenerated configuration helpers
   (nodeConfig.valid / nodeConfig.positive and the cfgFlag bit operations)
   that several properties rest on: reading an option of an initialised
   instance depends on the option word and on nothing else. *)
From Stackage Require Import Base Generated.
Open Scope N_scope.

Lemma cfg_valid_iff typ : g_cfg_valid typ = negb (typ =? 0).
Proof. unfold g_cfg_valid. cbn. destruct (typ =? 0); reflexivity. Qed.

(* for every configuration that carries a kind, an option reads as its bit *)
Lemma cfg_positive_is_bit typ opt f : typ <> 0 -> g_cfg_positive typ opt f = g_flag_positive opt f.
Proof.
  intros H. unfold g_cfg_positive. rewrite cfg_valid_iff.
  destruct (N.eqb_spec typ 0); [contradiction|]. reflexivity.
Qed.

(* all five kinds and the condition kind are "valid" configurations *)
Lemma kinds_valid : forallb g_cfg_valid [c_and; c_or; c_not; c_list; c_cond; c_basic] = true.
Proof. vm_compute. reflexivity. Qed.
