(* Render.v -- byte-level model of Stack.String / Condition.String.

   Mirrors, function by function and in the order the Go code does things:
     misc.go   padValue, foldValue, encapValue, condenseWHSP (strings.TrimSpace
               followed by the byte loop with its [last] flag), primitiveStringer
     cfg.go    nodeConfig.kind, nodeConfig.positive
     stack.go  typ, paren, encapv, canString, string, defaultAssertionHandler,
               assembleStringStack (D19 stays in the code and is modelled as
               written: a LIST without delimiter and with no-padding on joins
               its element texts with nothing)
     cond.go   Condition.Valid, Condition.String, condition.string

   Strings are lists of bytes.  strings.TrimSpace is modelled as trimming the
   six ASCII white space bytes 09 0a 0b 0c 0d 20 (the multi-byte Unicode
   spaces U+0085, U+00A0, U+1680, U+2000.. that TrimSpace also removes when
   they stand at the very end of a rendering are NOT modelled; the harness
   never puts them there).  strings.ToUpper/ToLower are only ever applied to
   the ASCII kind words.

   Outcomes: the rendering code has no reachable panic once Valid() guards the
   operator (D12 repaired); [Unmodelled] is returned for what this model
   deliberately leaves to other modules: type aliases (C12) and user
   presentation / validity policies (C14).  Constants, the kind/operator name
   tables and the flag test come from Generated.v.  No proofs in this file. *)
From Stackage Require Import Base Generated StackImpl Values.
Open Scope N_scope.

(* ---- bytes ---- *)
Definition beq (a b : byte) : bool := Byte.eqb a b.
Definition nonempty (b : bytes) : bool := match b with [] => false | _ => true end.

(* the two bytes condenseWHSP collapses, and the six TrimSpace removes *)
Definition is_blank (b : byte) : bool := beq b x20 || beq b x09.
Definition is_space (b : byte) : bool :=
  beq b x20 || beq b x09 || beq b x0a || beq b x0b || beq b x0c || beq b x0d.

(* strings.Join *)
Fixpoint join (sep : bytes) (l : list bytes) : bytes :=
  match l with
  | [] => []
  | x :: t => match t with [] => x | _ => x ++ sep ++ join sep t end
  end.

(* ---- misc.go ---- *)

(* padValue(do, value) *)
Definition padValue (dopad : bool) (value : bytes) : bytes :=
  let pad := if dopad then [x20] else [] in
  match value with
  | [] => []
  | _ => pad ++ value ++ pad
  end.

(* ASCII case mapping (only the kind words are ever folded) *)
Definition is_upper (b : byte) : bool := (65 <=? Byte.to_N b) && (Byte.to_N b <=? 90).
Definition is_lower (b : byte) : bool := (97 <=? Byte.to_N b) && (Byte.to_N b <=? 122).
Definition lc1 (b : byte) : byte := if is_upper b then byte_of_N_tot (Byte.to_N b + 32) else b.
Definition uc1 (b : byte) : byte := if is_lower b then byte_of_N_tot (Byte.to_N b - 32) else b.

(* foldValue(do, value): upper-case, unless the first byte is upper case *)
Definition foldValue (dofold : bool) (value : bytes) : bytes :=
  match value with
  | [] => value
  | c :: _ => if dofold then (if is_upper c then map lc1 value else map uc1 value) else value
  end.

(* encapValue(enc, v): the loop runs from the LAST pair to the first *)
Definition encap_one (sl : list bytes) (v : bytes) : bytes :=
  match sl with
  | [a] => a ++ v ++ a
  | [a; b] => a ++ v ++ b
  | _ => v
  end.
Definition encapValue (enc : list (list bytes)) (v : bytes) : bytes :=
  match enc with
  | [] => v
  | _ => fold_left (fun acc sl => encap_one sl acc) (rev enc) v
  end.

(* strings.TrimSpace on the six ASCII white space bytes *)
Fixpoint trim_left (b : bytes) : bytes :=
  match b with
  | [] => []
  | c :: t => if is_space c then trim_left t else b
  end.
Definition trimS (b : bytes) : bytes := rev (trim_left (rev (trim_left b))).

(* the loop of condenseWHSP: [last] = previous byte was WHSP or HTAB *)
Fixpoint condense_loop (last : bool) (b : bytes) : bytes :=
  match b with
  | [] => []
  | c :: t =>
      if is_blank c
      then (if last then condense_loop true t else x20 :: condense_loop true t)
      else c :: condense_loop false t
  end.
Definition condenseWHSP (b : bytes) : bytes := condense_loop false (trimS b).

(* ---- cfg.go ---- *)
Fixpoint assoc (k : N) (l : list (N * bytes)) : option bytes :=
  match l with
  | [] => None
  | (k', v) :: t => if k =? k' then Some v else assoc k t
  end.

(* nodeConfig.valid / positive *)
Definition cfg_valid (c : config) : bool := negb (c_typ c =? 0).
Definition positive (c : config) (f : N) : bool :=
  if cfg_valid c then g_flag_positive (c_opt c) f else false.

(* stackType.String *)
Definition type_string (t : N) : bytes :=
  match assoc t t_kind_names with Some s => s | None => s_badStack end.

(* nodeConfig.kind *)
Definition kind (c : config) : bytes :=
  let t := c_typ c in
  if (t =? c_and) || (t =? c_or) || (t =? c_not) || (t =? c_list) || (t =? c_cond) || (t =? c_basic)
  then foldValue (positive c c_cfold) (type_string t)
  else B "null".

(* ---- stack.go helpers ---- *)

(* stack.typ: (kind or symbol, type code) *)
Definition typ (c : config) : bytes * N :=
  (if nonempty (c_sym c) then c_sym c else kind c, c_typ c).

(* stack.paren *)
Definition paren (c : config) (v : bytes) : bytes :=
  let pad := if positive c c_nspad then [] else [x20] in
  if positive c c_parens && negb (c_typ c =? c_basic)
  then B "(" ++ pad ++ v ++ pad ++ B ")"
  else v.

(* stack.encapv *)
Definition encapv (c : config) (v : bytes) : bytes :=
  if negb (c_typ c =? c_basic) then encapValue (c_enc c) v else [].

(* ---- primitives and stringers (misc.go primitiveStringer, getStringer) ---- *)
Definition op_text (o : oper) : bytes :=
  match o with
  | OpBuiltin n => match assoc n t_op_names with Some s => s | None => s_badOp end
  | OpUser t _ => t
  end.

(* getStringer: the leaf kinds of the universe that carry a String method
   (the zero ComparisonOperator is a zero value: no stringer) *)
Definition stringer_text (g : gval) : option bytes :=
  match g with
  | GStringer _ t => Some t
  | GOper (OpBuiltin n) => if n =? 0 then None else Some (op_text (OpBuiltin n))
  | GOper (OpUser t ctx) => if nonempty t || nonempty ctx then Some t else None
  | _ => None
  end.

Definition s_unknown : bytes := B "UNKNOWN".
Definition s_unsupported : bytes := B "unsupported_primitive_type".

(* ---- stack.go assembleStringStack ---- *)
Definition assembleStringStack (c : config) (str : list bytes) (ot : bytes) (oc : N) : bytes :=
  let nsp := positive c c_nspad in
  let pad := padValue (negb nsp) [] in
  let body :=
    if positive c c_lonce
    then (if negb (oc =? c_list) && (match str with [] => false | _ => true end) then ot else []) ++ concat str
    else if oc =? c_list
         then let joinChar := if nonempty (c_ljc c) then c_ljc c
                              else if negb nsp then [x20] else [] in
              join joinChar str
         else if nonempty (c_sym c)
              then let char := if negb nsp then [x20] else [] in
                   let sympad := padValue (negb nsp) char in
                   join (sympad ++ ot ++ sympad) str
              else let sympad := padValue true [x20] in
                   join (sympad ++ ot ++ sympad) str in
  let fpad := pad ++ body ++ pad in
  condenseWHSP (paren c fpad).

(* ---- stack.go defaultAssertionHandler ----
   [xs] is what x.String() returns when x is a Stack or Condition. *)
Definition defaultAssertionHandler (c : config) (x : value) (xs : res bytes) : res bytes :=
  match x with
  | VStack Native ic _ =>
      let '(ik, icode) := typ ic in
      if (icode =? c_not) && negb (nonempty (c_sym ic))
      then do s <- xs; Ok (if nonempty s then ik ++ [x20] ++ s else s)
      else xs
  | VCond Native _ _ _ _ => xs
  | VLeaf g =>
      match stringer_text g with
      | Some t => Ok (padValue (negb (positive c c_nspad)) (encapv c t))
      | None =>
          match prim_text g with
          | Some t => Ok (padValue (negb (positive c c_nspad)) (encapv c t))
          | None => Ok s_unknown
          end
      end
  | VNil | VZeroStack Native | VZeroCond Native => Ok s_unknown
  | _ => Unmodelled            (* aliases: C12 *)
  end.

(* the loop of stack.string: keep the non-empty element texts *)
Fixpoint collect (c : config) (l : list (value * res bytes)) : res (list bytes) :=
  match l with
  | [] => Ok []
  | (x, xs) :: t =>
      do v <- defaultAssertionHandler c x xs;
      do r <- collect c t;
      Ok (if nonempty v then v :: r else r)
  end.

(* Stack.String on an initialised native Stack = stack.string:
   canString (valid, typ), presentation policy, loop, assemble *)
Definition stack_string (c : config) (l : list (value * res bytes)) : res bytes :=
  match c_vpf c with
  | Some _ => Unmodelled
  | None =>
      let '(ot, oc) := typ c in
      if (oc =? 0) || (oc =? c_basic) then Ok []
      else match c_rpf c with
           | Some _ => Unmodelled
           | None =>
               do str <- collect c l;
               let doPad := negb (positive c c_nspad) && negb (nonempty (c_sym c)) in
               Ok (assembleStringStack c str (padValue doPad ot) oc)
           end
  end.

(* ---- cond.go ---- *)

(* Condition.Valid() == nil *)
Definition cond_valid (c : config) (kw : bytes) (op : option oper) (ex : value) : res bool :=
  if negb (c_typ c =? c_cond) then Ok false
  else match c_vpf c with
       | Some _ => Unmodelled
       | None =>
           if negb (nonempty kw) then Ok false
           else match op with
                | None => Ok false
                | Some o =>
                    let bogus := match o with OpBuiltin n => negb ((1 <=? n) && (n <=? 6)) | OpUser _ _ => false end in
                    if bogus then Ok false else Ok (negb (is_nil ex))
                end
       end.

(* Condition.String; [exs] is ex.String() when ex is a Stack or Condition *)
Definition cond_string (c : config) (kw : bytes) (op : option oper) (ex : value) (exs : res bytes) : res bytes :=
  do ok <- cond_valid c kw op ex;
  if negb ok then Ok []
  else match c_rpf c with
       | Some _ => Unmodelled
       | None =>
           do raw <- match ex with
                     | VStack Native _ _ => exs                    (* stackTypeAliasConverter ok: stk.String() *)
                     | VCond Native _ _ _ _ => exs                 (* getStringer: Condition.String *)
                     | VLeaf g =>
                         match stringer_text g with
                         | Some t => Ok t
                         | None => match prim_text g with Some t => Ok t | None => Ok s_unsupported end
                         end
                     | VNil | VZeroStack Native | VZeroCond Native => Ok s_unsupported
                     | _ => Unmodelled
                     end;
           let val := encapValue (c_enc c) raw in
           let pad := if positive c c_nspad then [] else [x20] in
           let s := kw ++ pad ++ match op with Some o => op_text o | None => [] end ++ pad ++ val in
           Ok (if positive c c_parens then B "(" ++ pad ++ s ++ pad ++ B ")" else s)
       end.

(* ---- the String() method of a node of the tree ---- *)
Fixpoint node_string (v : value) : res bytes :=
  match v with
  | VStack Native c els => stack_string c (map (fun x => (x, node_string x)) els)
  | VCond Native c kw op ex => cond_string c kw op ex (node_string ex)
  | VZeroStack Native | VZeroCond Native => Ok []      (* IsInit false / Valid() <> nil *)
  | VNil | VLeaf _ => Ok []                            (* not a Stack or Condition: never consulted *)
  | _ => Unmodelled
  end.

(* every Stack / Condition node of a tree, the root first (the order in which
   the harness records String()) *)
Fixpoint subnodes (v : value) : list value :=
  match v with
  | VStack _ _ els => v :: flat_map subnodes els
  | VCond _ _ _ _ ex => v :: subnodes ex
  | _ => []
  end.
