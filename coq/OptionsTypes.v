(* OptionsTypes.v -- vocabulary shared by the model (Options.v, LogLevels.v)
   and the specification (OptionsSpec.v) of the option / settings module
   (property C18): the names of the public option switches, the shapes of the
   arguments the public setters accept, the calls, and the record of what the
   harness observes after every call.  No behaviour is defined here apart
   from two pieces of text vocabulary: the UTF-8 text of a rune (Go's
   string(rune) conversion) and ASCII case mapping.  Imports Base only. *)
From Stackage Require Import Base.
Open Scope Z_scope.

(* the eight public tri-state switches *)
Inductive optname :=
| OParen | OFold | ONoPad | OLeadOnce | ONegIdx | OFwdIdx | ONoNest | OReadOnly.

Definition optname_eqb (a b : optname) : bool :=
  match a, b with
  | OParen, OParen | OFold, OFold | ONoPad, ONoPad | OLeadOnce, OLeadOnce
  | ONegIdx, ONegIdx | OFwdIdx, OFwdIdx | ONoNest, ONoNest | OReadOnly, OReadOnly => true
  | _, _ => false
  end.

Definition all_opts : list optname :=
  [OParen; OFold; ONoPad; OLeadOnce; ONegIdx; OFwdIdx; ONoNest; OReadOnly].

(* receiver: a Stack (any of the five kinds) or a Condition *)
Inductive rkind := RStack | RCond.

(* an `any` argument of SetDelimiter / SetSymbol *)
Inductive targ :=
| TStr (s : bytes)        (* string *)
| TRune (r : Z)           (* rune (int32) *)
| TNil                    (* untyped nil *)
| TOther.                 (* any other Go type *)

(* an `any` argument of SetEncap *)
Inductive earg :=
| EStr (s : bytes)        (* string *)
| ESlice (l : list bytes) (* []string *)
| EOther.

(* an `any` argument of SetLogLevel / UnsetLogLevel *)
Inductive larg :=
| LName (s : bytes)       (* string: level name *)
| LConst (n : N)          (* a LogLevel value (uint16) *)
| LInt (z : Z)            (* a raw Go int *)
| LOther.                 (* any other Go type *)

(* the variadic argument of SetAuxiliary; maps are identities: 0 is a map
   allocated by the package, k >= 1 the k-th map of the caller *)
Inductive aarg := ANone | ANil | AMap (id : N).

Inductive ocall :=
| CSetOpt (o : optname) (t : option bool)   (* SetParen/SetFold/...: Some true = set, Some false = clear, None = toggle *)
| CSetFIFO (b : bool)
| CSetID (s : bytes)
| CSetCat (s : bytes)
| CSetDelim (x : targ)
| CSetSymbol (xs : list targ)
| CSetEncap (xs : list earg)
| CSetAux (a : aarg)
| CSetLog (xs : list larg)
| CUnsetLog (xs : list larg).

(* what is recorded after every call *)
Record oobs := MkObs {
  (* through the VerifDump hook *)
  ob_opt : N; ob_lvl : N; ob_sym : bytes; ob_ljc : bytes; ob_enc : list (list bytes);
  ob_id : bytes; ob_cat : bytes; ob_ord : bool; ob_aux : option N;
  (* public getters *)
  ob_isparen : bool; ob_ispadded : bool; ob_isro : bool; ob_cannest : bool;
  ob_isencap : bool; ob_isfifo : bool;
  ob_gid : bytes; ob_gcat : bytes; ob_gdelim : bytes; ob_glog : bytes; ob_gaux : option N;
  (* Index(-1) / Index(Len()+1) report ok (options without a getter) *)
  ob_idxneg : bool; ob_idxfwd : bool;
  (* the content: element codes of a Stack; [expression; operator; keyword] codes of a Condition *)
  ob_content : list Z
}.

(* short form used by the harness when every setting other than the option
   word still has its constructor default *)
Definition ObsD (opt : N) (isparen ispadded isro cannest idxneg idxfwd : bool) (content : list Z) : oobs :=
  {| ob_opt := opt; ob_lvl := 0; ob_sym := []; ob_ljc := []; ob_enc := []; ob_id := []; ob_cat := [];
     ob_ord := false; ob_aux := None;
     ob_isparen := isparen; ob_ispadded := ispadded; ob_isro := isro; ob_cannest := cannest;
     ob_isencap := false; ob_isfifo := false;
     ob_gid := []; ob_gcat := []; ob_gdelim := []; ob_glog := B "NONE"; ob_gaux := None;
     ob_idxneg := idxneg; ob_idxfwd := idxfwd; ob_content := content |}.

(* ---- text vocabulary ---- *)

Definition zbyte (z : Z) : byte := byte_of_N_tot (Z.to_N z).

(* Go's string(rune): UTF-8, U+FFFD for surrogates and out-of-range values *)
Definition utf8_of_rune (r : Z) : bytes :=
  if (r <? 0) || (1114111 <? r) || ((55296 <=? r) && (r <=? 57343)) then [xef; xbf; xbd]
  else if r <? 128 then [zbyte r]
  else if r <? 2048 then [zbyte (192 + r / 64); zbyte (128 + r mod 64)]
  else if r <? 65536 then [zbyte (224 + r / 4096); zbyte (128 + (r / 64) mod 64); zbyte (128 + r mod 64)]
  else [zbyte (240 + r / 262144); zbyte (128 + (r / 4096) mod 64); zbyte (128 + (r / 64) mod 64); zbyte (128 + r mod 64)].

Definition ascii_upper (b : byte) : byte :=
  let n := Byte.to_N b in
  if (97 <=? n)%N && (n <=? 122)%N then byte_of_N_tot (n - 32)%N else b.
Definition ascii_lower (b : byte) : byte :=
  let n := Byte.to_N b in
  if (65 <=? n)%N && (n <=? 90)%N then byte_of_N_tot (n + 32)%N else b.

(* the two identifiers SetID replaces by a random / address string *)
Definition reserved_id (s : bytes) : bool :=
  let l := map ascii_lower s in bytes_eqb l (B "_random") || bytes_eqb l (B "_addr").

(* which calls exist on which receiver (the method set of the public API),
   and which the modules model: SetID with a reserved word is excluded
   (randomness, addresses) *)
Definition cond_opt (o : optname) : bool :=
  match o with OParen | ONoPad | ONoNest | OReadOnly => true | _ => false end.

(* a LogLevel value is a uint16 *)
Definition larg_wf (a : larg) : bool :=
  match a with LConst n => (n <? 65536)%N | _ => true end.

Definition supported (rk : rkind) (c : ocall) : bool :=
  match c with
  | CSetID s => negb (reserved_id s)
  | CSetOpt o _ => match rk with RStack => true | RCond => cond_opt o end
  | CSetFIFO _ | CSetDelim _ | CSetSymbol _ => match rk with RStack => true | RCond => false end
  | CSetLog xs | CUnsetLog xs => forallb larg_wf xs
  | _ => true
  end.

Fixpoint join_bytes (sep : bytes) (l : list bytes) : bytes :=
  match l with
  | [] => []
  | [x] => x
  | x :: t => x ++ sep ++ join_bytes sep t
  end.

(* ---- recorded cases (shared by the model-side and the specification-side
   evaluation) ---- *)

(* one case: receiver, kind (1 AND, 2 OR, 3 NOT, 4 LIST, 5 CONDITION,
   6 BASIC), the content put in before the first call, then the calls, each
   with what was observed after it (None: the call panicked; nothing after
   it is recorded) *)
Record ocase := MkOC {
  oc_rk : rkind; oc_kind : N; oc_content : list Z;
  oc_steps : list (ocall * option oobs) }.

Definition opt_eqb {A} (e : A -> A -> bool) (a b : option A) : bool :=
  match a, b with
  | None, None => true
  | Some x, Some y => e x y
  | _, _ => false
  end.

Definition oobs_eqb (a b : oobs) : bool :=
  (ob_opt a =? ob_opt b)%N && (ob_lvl a =? ob_lvl b)%N && bytes_eqb (ob_sym a) (ob_sym b) &&
  bytes_eqb (ob_ljc a) (ob_ljc b) && list_eqb (list_eqb bytes_eqb) (ob_enc a) (ob_enc b) &&
  bytes_eqb (ob_id a) (ob_id b) && bytes_eqb (ob_cat a) (ob_cat b) && Bool.eqb (ob_ord a) (ob_ord b) &&
  opt_eqb N.eqb (ob_aux a) (ob_aux b) &&
  Bool.eqb (ob_isparen a) (ob_isparen b) && Bool.eqb (ob_ispadded a) (ob_ispadded b) &&
  Bool.eqb (ob_isro a) (ob_isro b) && Bool.eqb (ob_cannest a) (ob_cannest b) &&
  Bool.eqb (ob_isencap a) (ob_isencap b) && Bool.eqb (ob_isfifo a) (ob_isfifo b) &&
  bytes_eqb (ob_gid a) (ob_gid b) && bytes_eqb (ob_gcat a) (ob_gcat b) &&
  bytes_eqb (ob_gdelim a) (ob_gdelim b) && bytes_eqb (ob_glog a) (ob_glog b) &&
  opt_eqb N.eqb (ob_gaux a) (ob_gaux b) &&
  Bool.eqb (ob_idxneg a) (ob_idxneg b) && Bool.eqb (ob_idxfwd a) (ob_idxfwd b) &&
  list_eqb Z.eqb (ob_content a) (ob_content b).

(* indices (from 0) and codes of the cases whose verdict is not 0 *)
Fixpoint nonzero_from {A} (f : A -> N) (i : N) (l : list A) : list (N * N) :=
  match l with
  | [] => []
  | x :: t => let v := f x in
              if (v =? 0)%N then nonzero_from f (i + 1)%N t else (i, v) :: nonzero_from f (i + 1)%N t
  end.
Definition verdicts {A} (f : A -> N) (l : list A) : list (N * N) := nonzero_from f 0%N l.
