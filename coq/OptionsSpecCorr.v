(* OptionsSpecCorr.v -- specification-side evaluation of a recorded case of
   family `options`.  Independent of Generated.v and of the model, so the
   specification stays usable as the oracle when either is broken.
   Executable definitions only. *)
From Stackage Require Import Base OptionsTypes OptionsSpec.
Open Scope Z_scope.

Definition word_of (f : optname -> bool) : N :=
  fold_right (fun o acc => if f o then (docbit o + acc)%N else acc) 0%N all_opts.

(* level i is worth 2^i in the raw word *)
Definition lvl_matches (w : N) (m : lset) : bool :=
  (w <? 65536)%N && forallb (fun i => Bool.eqb (N.testbit w (N.of_nat i)) (m i)) levels.

Definition is_stack (rk : rkind) : bool := match rk with RStack => true | RCond => false end.

(* does the observation show exactly the specification state (and the
   untouched content)? *)
Definition sobs_ok (s : sstate) (content : list Z) (ob : oobs) : bool :=
  let nonempty := negb (zlen content =? 0) in
  (ob_opt ob =? word_of (s_opt s))%N &&
  lvl_matches (ob_lvl ob) (s_lvl s) &&
  bytes_eqb (ob_sym ob) (s_sym s) && bytes_eqb (ob_ljc ob) (s_delim s) &&
  list_eqb (list_eqb bytes_eqb) (ob_enc ob) (s_enc s) &&
  bytes_eqb (ob_id ob) (s_id s) && bytes_eqb (ob_cat ob) (s_cat s) &&
  Bool.eqb (ob_ord ob) (s_fifo s) && opt_eqb N.eqb (ob_aux ob) (s_aux s) &&
  Bool.eqb (ob_isparen ob) (s_opt s OParen) &&
  Bool.eqb (ob_ispadded ob) (negb (s_opt s ONoPad)) &&
  Bool.eqb (ob_isro ob) (s_opt s OReadOnly) &&
  Bool.eqb (ob_cannest ob) (negb (s_opt s ONoNest)) &&
  Bool.eqb (ob_isencap ob) (match s_enc s with [] => false | _ => true end) &&
  Bool.eqb (ob_isfifo ob) (s_fifo s) &&
  bytes_eqb (ob_gid ob) (s_id s) && bytes_eqb (ob_gcat ob) (s_cat s) &&
  bytes_eqb (ob_gdelim ob) (s_delim s) &&
  bytes_eqb (ob_glog ob) (levels_text (s_lvl s)) &&
  opt_eqb N.eqb (ob_gaux ob) (s_aux s) &&
  Bool.eqb (ob_idxneg ob) (is_stack (s_rk s) && s_opt s ONegIdx && nonempty) &&
  Bool.eqb (ob_idxfwd ob) (is_stack (s_rk s) && s_opt s OFwdIdx && nonempty) &&
  list_eqb Z.eqb (ob_content ob) content.

Fixpoint scheck (unk : bool) (s : sstate) (content : list Z) (steps : list (ocall * option oobs)) : bool :=
  match steps with
  | [] => true
  | (call, Some ob) :: t =>
      supported (s_rk s) call &&
      let s' := sstep unk s call in
      sobs_ok s' content ob && scheck unk s' content t
  | (_, None) :: _ => false          (* no setter may panic *)
  end.

Definition spec_ok (c : ocase) : bool :=
  let s0 := sinit (oc_rk c) (oc_kind c) in
  scheck true s0 (oc_content c) (oc_steps c) || scheck false s0 (oc_content c) (oc_steps c).

(* 0 = the recorded behaviour satisfies the specification, 2 = it does not *)
Definition check (c : ocase) : N := if spec_ok c then 0%N else 2%N.
