(* MarshalEqual.v -- the IsEqual clause of C04 against the IsEqual model of
   C05 (Equal.v), not against an abstract comparison: the tree Marshal builds
   from Unmarshal(S) is equivalent (EqualSpec.equiv) to S, hence the IsEqual
   model returns nil in both directions. *)
From Stackage Require Import Base Generated StackImpl Values JVal Marshal MarshalSpec MarshalProofs EqualBase EqualSpec Equal EqualProofs.

(* the partial inverse of JVal.inj (a []any value has no counterpart) *)
Fixpoint unj (j : jval) : option value :=
  match j with
  | JNil => Some VNil
  | JLeaf g => Some (VLeaf g)
  | JList _ => None
  | JStack a c els =>
      option_map (VStack a c)
        ((fix go (l : list jval) : option (list value) :=
            match l with
            | [] => Some []
            | x :: t => match unj x, go t with Some v, Some vs => Some (v :: vs) | _, _ => None end
            end) els)
  | JCond a c kw op ex => option_map (VCond a c kw op) (unj ex)
  | JZeroStack a => Some (VZeroStack a)
  | JZeroCond a => Some (VZeroCond a)
  end.

Fixpoint unj_list (l : list jval) : option (list value) :=
  match l with
  | [] => Some []
  | x :: t => match unj x, unj_list t with Some v, Some vs => Some (v :: vs) | _, _ => None end
  end.

Lemma unj_stack a c els : unj (JStack a c els) = option_map (VStack a c) (unj_list els).
Proof. reflexivity. Qed.

Lemma unj_inj : forall v, unj (inj v) = Some v.
Proof.
  induction v as [| g | a c els IH | a c kw op ex IH | a | a] using value_ind'; try reflexivity.
  - cbn [inj]. rewrite unj_stack.
    assert (E : unj_list (map inj els) = Some els).
    { induction IH as [|x t Hx Ht IHt]; [reflexivity|]. cbn [map unj_list]. rewrite Hx, IHt. reflexivity. }
    rewrite E. reflexivity.
  - cbn [inj unj]. rewrite IH. reflexivity.
Qed.

Lemma unj_list_map_inj l vs : unj_list l = Some vs -> l = map inj vs.
Proof.
  revert vs.
  assert (H : forall j v, unj j = Some v -> j = inj v).
  { induction j as [|g|l0 Hl|a c els Hels|a c kw op ex Hex|a|a] using jval_ind'; intros v E; cbn [unj] in E;
      try (inversion E; reflexivity); try discriminate.
    - change (option_map (VStack a c) (unj_list els) = Some v) in E.
      destruct (unj_list els) as [vs|] eqn:El; [|discriminate]. inversion E; subst v. cbn [inj]. f_equal.
      clear E. revert vs El. induction Hels as [|x t Hx Ht IH]; intros vs El; cbn [unj_list] in El.
      + inversion El. reflexivity.
      + destruct (unj x) as [vx|] eqn:Ex; [|discriminate]. destruct (unj_list t) as [vt|] eqn:Et; [|discriminate].
        inversion El; subst vs. cbn [map]. rewrite (Hx vx eq_refl), (IH vt eq_refl). reflexivity.
    - destruct (unj ex) as [ve|] eqn:Ee; [|discriminate]. inversion E; subst v. cbn [inj]. rewrite (Hex ve eq_refl). reflexivity. }
  induction l as [|x t IH]; intros vs E; cbn [unj_list] in E.
  - inversion E. reflexivity.
  - destruct (unj x) as [vx|] eqn:Ex; [|discriminate]. destruct (unj_list t) as [vt|] eqn:Et; [|discriminate].
    inversion E; subst vs. cbn [map]. rewrite (H x vx Ex), (IH vt eq_refl). reflexivity.
Qed.

(* ---- domain facts ---- *)
Lemma refl_domain_elem a c els x : refl_domain (VStack a c els) = true -> In x els -> refl_domain x = true.
Proof.
  unfold refl_domain, vsupp. intros H Hin. apply andb_true_iff in H as [H1 H2].
  rewrite (vall_elem _ _ _ _ _ _ H1 Hin), (vall_elem _ _ _ _ _ _ H2 Hin). reflexivity.
Qed.

Lemma refl_domain_expr a c kw op ex : refl_domain (VCond a c kw op ex) = true -> refl_domain ex = true.
Proof.
  unfold refl_domain, vsupp. intros H. apply andb_true_iff in H as [H1 H2].
  rewrite (vall_expr _ _ _ _ _ _ _ H1), (vall_expr _ _ _ _ _ _ _ H2). reflexivity.
Qed.

Lemma refl_domain_vsupp v : refl_domain v = true -> vsupp v = true.
Proof. unfold refl_domain. intros H. apply andb_true_iff in H as [H _]. exact H. Qed.

Lemma vsupp_mk_stack a t els :
  stack_typ_ok t = true -> (forall x, In x els -> vsupp x = true) -> vsupp (VStack a (cfg0 t) els) = true.
Proof.
  intros Ht H. unfold vsupp. cbn [vall vsupp_local cfg0 c_typ]. unfold no_policy. cbn [c_eqf cfg0].
  rewrite Ht. cbn [andb]. apply forallb_forall. exact H.
Qed.

Lemma vsupp_mk_cond a c kw op ex : c_eqf c = None -> vsupp ex = true -> vsupp (VCond a c kw op ex) = true.
Proof.
  intros Hc H. unfold vsupp. cbn [vall vsupp_local]. unfold no_policy. rewrite Hc. exact H.
Qed.

(* ---- the rebuilt tree is equivalent to the original ---- *)
Lemma rebuild_equiv : forall v,
  node_ok (inj v) = true -> plain (inj v) = true -> refl_domain v = true ->
  exists v', unj (rebuild (inj v)) = Some v' /\ equiv v v' /\ vsupp v' = true.
Proof.
  induction v as [| g | a c els IH | a c kw op ex IH | a | a] using value_ind'; intros Hok Hp Hd.
  - exists VNil. split; [reflexivity|split; [constructor|reflexivity]].
  - exists (VLeaf g). split; [reflexivity|]. split; [apply equiv_refl; exact Hd|apply refl_domain_vsupp; exact Hd].
  - (* stack *)
    cbn [inj node_ok plain] in Hok, Hp.
    apply andb_true_iff in Hok as [_ Hokl]. apply andb_true_iff in Hp as [Hcp Hpl].
    unfold cfg_plain in Hcp. apply andb_true_iff in Hcp as [Hcap Hfold]. apply Z.eqb_eq in Hcap. apply negb_true_iff in Hfold.
    destruct (vsupp_stack _ _ _ (refl_domain_vsupp _ Hd)) as [Htyp _].
    assert (L : exists els', unj_list (map rebuild (map inj els)) = Some els' /\ Forall2 equiv els els' /\
                             (forall x, In x els' -> vsupp x = true)).
    { assert (Hin : forall x, In x els -> refl_domain x = true) by (intros x Hx; exact (refl_domain_elem _ _ _ _ Hd Hx)).
      clear Hd Htyp. induction IH as [|x t Hx Ht IHt].
      - exists []. split; [reflexivity|split; [constructor|intros x []]].
      - cbn [map forallb] in Hokl, Hpl. apply andb_true_iff in Hokl as [O1 O2]. apply andb_true_iff in Hpl as [P1 P2].
        destruct (Hx O1 P1 (Hin x (or_introl eq_refl))) as (x' & U & E & S).
        destruct (IHt O2 P2 (fun y Hy => Hin y (or_intror Hy))) as (t' & Ut & Et & St).
        exists (x' :: t'). cbn [map unj_list]. rewrite U, Ut. split; [reflexivity|split; [constructor; assumption|]].
        intros y [<-|Hy]; auto. }
    destruct L as (els' & U & E & S).
    exists (VStack Native (cfg0 (c_typ c)) els'). cbn [inj rebuild]. rewrite unj_stack, U. split; [reflexivity|]. split.
    + constructor; [split; [reflexivity|unfold fold_on; cbn [cfg0 c_opt]; rewrite Hfold; reflexivity]|cbn [cfg0 c_cap]; exact Hcap|exact E].
    + apply vsupp_mk_stack; assumption.
  - (* condition *)
    cbn [inj node_ok plain] in Hok, Hp.
    apply andb_true_iff in Hok as [Hok Hx]. apply andb_true_iff in Hok as [_ Ho].
    pose proof (refl_domain_expr _ _ _ _ _ Hd) as Hde.
    cbn [inj rebuild].
    destruct (cond_new_eqf kw op _ Ho (rebuild_expr_storable (inj ex) (node_ok_cond_expr (inj ex) Hx))) as (c' & -> & Eq').
    assert (X : exists ex', unj (match inj ex with JStack _ _ _ => rebuild (inj ex) | _ => inj ex end) = Some ex' /\
                            equiv ex ex' /\ vsupp ex' = true).
    { destruct ex as [| g | a0 c0 els0 | a0 c0 kw0 op0 ex0 | a0 | a0];
        try (eexists; split; [apply (unj_inj _)|]; split; [apply equiv_refl; exact Hde|apply refl_domain_vsupp; exact Hde]).
      apply IH; [exact Hx|exact Hp|exact Hde]. }
    destruct X as (ex' & U & E & S).
    exists (VCond Native c' kw op ex'). cbn [unj]. rewrite U. split; [reflexivity|]. split.
    + constructor; [apply op_same_refl|exact E].
    + apply vsupp_mk_cond; assumption.
  - pose proof (refl_domain_vsupp _ Hd) as S. discriminate S.
  - pose proof (refl_domain_vsupp _ Hd) as S. discriminate S.
Qed.

(* ---- C04's IsEqual clause against the IsEqual model of C05 ----
   For every Stack tree in the common domain (node_ok: kinds, operators and
   expressions Marshal accepts; plain: no capacity, no case folding; the
   reflexive domain of IsEqual: supported leaves, no NaN, no equality policy),
   Unmarshal succeeds, Marshal of the result succeeds on an uninitialised
   receiver, and the IsEqual model returns nil between the original and the
   reconstruction in both directions. *)
Theorem marshal_roundtrip_is_equal (pol : N -> jval -> option N) (c : config) (els : list value) :
  node_ok (inj (VStack Native c els)) = true -> plain (inj (VStack Native c els)) = true ->
  refl_domain (VStack Native c els) = true ->
  exists u c' els',
    Unmarshal (RInit c (map inj els)) = Ok u /\
    Marshal pol RZero u = Ok (RInit c' (map inj els'), false) /\
    is_equal repaired (VStack Native c els) (VStack Native c' els') = Ok true /\
    is_equal repaired (VStack Native c' els') (VStack Native c els) = Ok true.
Proof.
  intros Hok Hp Hd.
  destruct (marshal_unmarshal_value pol c els Hok) as (u & _ & _ & Eu & _).
  pose proof (marshal_rebuild pol c (map inj els) u Hok Eu) as M.
  destruct (rebuild_equiv (VStack Native c els) Hok Hp Hd) as (v' & U & E & S).
  cbn [inj rebuild] in U. rewrite unj_stack in U.
  destruct (unj_list (map rebuild (map inj els))) as [els'|] eqn:El; [|discriminate]. inversion U; subst v'. clear U.
  exists u, (cfg0 (c_typ c)), els'. split; [exact Eu|]. split; [rewrite M, (unj_list_map_inj _ _ El); reflexivity|].
  pose proof (refl_domain_vsupp _ Hd) as Sv.
  split.
  - apply (proj1 (is_equal_correct (VStack Native c els) (VStack Native (cfg0 (c_typ c)) els') eq_refl Sv S)). exact E.
  - apply (proj1 (is_equal_correct (VStack Native (cfg0 (c_typ c)) els') (VStack Native c els) eq_refl S Sv)). apply equiv_sym; assumption.
Qed.
