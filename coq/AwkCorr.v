(* AwkCorr.v -- the awkward-value family of C08 observes only "did any call
   panic" and "is the receiver still initialised and usable"; the
   specification is that the first is false and the second true. *)
From Stackage Require Import Base.
Record acase := MkA { a_panic : bool; a_usable : bool }.
Definition acheck (c : acase) : N := if negb (a_panic c) && a_usable c then 0%N else 2%N.
Fixpoint nonzero_from {A} (f : A -> N) (i : N) (l : list A) : list (N * N) :=
  match l with
  | [] => []
  | x :: t => let v := f x in
              if (v =? 0)%N then nonzero_from f (i + 1)%N t else (i, v) :: nonzero_from f (i + 1)%N t
  end.
Definition verdicts {A} (f : A -> N) (l : list A) : list (N * N) := nonzero_from f 0%N l.
