(* RenderProofs.v -- the byte-level model of Stack.String (Render.v) against
   the canonical grammar (RenderSpec.v): equality on every tree of the
   property's domain that holds no node of the one shape that stays in the
   code (D19), a witness for it, and the corollaries (condensed output,
   idempotence, nothing dangling, non-white bytes preserved). *)
From Stackage Require Import Base Generated StackImpl Values Render RenderSpec RenderCondense.
Open Scope N_scope.

(* ------------------------------------------------------------------------ *)
(* option bits: the translated flag test against the bit the harness sets   *)

Lemma flag_testbit o k : g_flag_positive o (2 ^ k) = N.testbit o k.
Proof.
  unfold g_flag_positive. destruct (N.testbit o k) eqn:E.
  - apply negb_true_iff, N.eqb_neq. intro H.
    assert (Hb : N.testbit (N.land o (2 ^ k)) k = true)
      by (rewrite N.land_spec, E, N.pow2_bits_true; reflexivity).
    rewrite H, N.bits_0 in Hb. discriminate.
  - apply negb_false_iff, N.eqb_eq. apply N.bits_inj_0. intro n.
    rewrite N.land_spec. destruct (N.eq_dec k n) as [<-|Hn].
    + rewrite E. reflexivity.
    + rewrite N.pow2_bits_false by exact Hn. apply andb_false_r.
Qed.

Lemma positive_bit c k : c_typ c <> 0 -> positive c (2 ^ k) = N.testbit (c_opt c) k.
Proof.
  intros H. unfold positive, cfg_valid. apply N.eqb_neq in H. rewrite H. cbn [negb].
  apply flag_testbit.
Qed.

Lemma positive_parens c : c_typ c <> 0 -> positive c c_parens = o_paren c.
Proof. intros H. change c_parens with (2 ^ 0). apply positive_bit, H. Qed.
Lemma positive_cfold c : c_typ c <> 0 -> positive c c_cfold = o_fold c.
Proof. intros H. change c_cfold with (2 ^ 1). apply positive_bit, H. Qed.
Lemma positive_nspad c : c_typ c <> 0 -> positive c c_nspad = o_nopad c.
Proof. intros H. change c_nspad with (2 ^ 2). apply positive_bit, H. Qed.
Lemma positive_lonce c : c_typ c <> 0 -> positive c c_lonce = o_lead c.
Proof. intros H. change c_lonce with (2 ^ 3). apply positive_bit, H. Qed.

Lemma renders_cases t : renders t = true -> t = 1 \/ t = 2 \/ t = 3 \/ t = 4.
Proof.
  unfold renders. intros H. repeat (apply orb_true_iff in H; destruct H as [H|H]);
    apply N.eqb_eq in H; auto.
Qed.

Lemma renders_nonzero t : renders t = true -> t <> 0.
Proof. intros H. destruct (renders_cases t H) as [->|[->|[->| ->]]]; discriminate. Qed.

(* ------------------------------------------------------------------------ *)
(* small pieces                                                             *)

Lemma join_sjoin s l : join s l = sjoin s l.
Proof. induction l as [|x t IH]; [reflexivity|]. cbn [join sjoin]. rewrite IH. reflexivity. Qed.

Lemma sjoin_cons2 s x y t : sjoin s (x :: y :: t) = x ++ s ++ sjoin s (y :: t).
Proof. reflexivity. Qed.

Lemma encap_one_wrap p v : encap_one p v = wrap p v.
Proof. destruct p as [|a [|b [|c p]]]; reflexivity. Qed.

(* the loop of encapValue runs from the last pair to the first: the list is
   applied outermost-first *)
Lemma encapValue_encap enc v : encapValue enc v = encap enc v.
Proof.
  unfold encapValue, encap.
  transitivity (fold_left (fun acc sl => encap_one sl acc) (rev enc) v).
  { destruct enc; reflexivity. }
  rewrite <- (rev_involutive enc) at 2. rewrite fold_left_rev_right.
  generalize (rev enc) v. intros l. induction l as [|p l IH]; intros w; [reflexivity|].
  cbn [fold_left]. rewrite encap_one_wrap. apply IH.
Qed.

Lemma kind_word c : renders (c_typ c) = true -> kind c = word c.
Proof.
  intros H. pose proof (positive_cfold c (renders_nonzero _ H)) as Hf.
  unfold kind, word. rewrite Hf.
  destruct (renders_cases _ H) as [E|[E|[E|E]]]; rewrite E; destruct (o_fold c); reflexivity.
Qed.

Lemma word_nonempty c : renders (c_typ c) = true -> word c <> [].
Proof.
  intros H. unfold word.
  destruct (renders_cases _ H) as [E|[E|[E|E]]]; rewrite E; destruct (o_fold c); discriminate.
Qed.

Lemma op_text_optext o : op_ok (Some o) = true -> op_text o = optext o.
Proof.
  destruct o as [n|t ctx]; [|reflexivity]. cbn [op_ok]. intros H.
  apply andb_true_iff in H. destruct H as [H1 H2].
  apply N.leb_le in H1. apply N.leb_le in H2.
  assert (Hn : n = 1 \/ n = 2 \/ n = 3 \/ n = 4 \/ n = 5 \/ n = 6) by lia.
  destruct Hn as [->|[->|[->|[->|[->| ->]]]]]; reflexivity.
Qed.

Lemma padValue_sp c v : c_typ c <> 0 -> v <> [] ->
  padValue (negb (positive c c_nspad)) v = sp c ++ v ++ sp c.
Proof.
  intros Hc Hv. rewrite (positive_nspad c Hc). unfold padValue, sp.
  destruct v; [elim Hv; reflexivity|]. destruct (o_nopad c); reflexivity.
Qed.

Lemma paren_parens c v : renders (c_typ c) = true -> paren c v = parens c v.
Proof.
  intros H. pose proof (renders_nonzero _ H) as Hz.
  unfold paren, parens. rewrite (positive_parens c Hz), (positive_nspad c Hz).
  assert (Hb : (c_typ c =? c_basic) = false)
    by (destruct (renders_cases _ H) as [E|[E|[E|E]]]; rewrite E; reflexivity).
  rewrite Hb. cbn [negb]. rewrite andb_true_r. unfold sp.
  destruct (o_paren c); [destruct (o_nopad c)|]; reflexivity.
Qed.

(* ------------------------------------------------------------------------ *)
(* the padding arithmetic of assembleStringStack                            *)

Lemma bsim_join s s' ts : bsim s s' -> bsim (join s ts) (sjoin s' ts).
Proof.
  intros Hs. induction ts as [|x t IH]; [apply bsim_refl|].
  destruct t as [|y t]; [apply bsim_refl|].
  change (join s (x :: y :: t)) with (x ++ s ++ join s (y :: t)).
  rewrite sjoin_cons2. apply bsim_app; [apply bsim_refl|]. apply bsim_app; assumption.
Qed.

Lemma sjoin_head s b y t : exists r, sjoin s ((b :: y) :: t) = b :: r.
Proof. destruct t; cbn [sjoin]; eexists; [reflexivity|]. rewrite <- app_comm_cons. reflexivity. Qed.

(* joining with nothing is joining with one blank when every seam already
   has a blank on one side *)
Lemma bsim_join_loose ts :
  Forall (fun t => t <> []) ts -> tight ts = false -> bsim (join [] ts) (sjoin [x20] ts).
Proof.
  induction ts as [|x t IH]; intros Hne Ht; [apply bsim_refl|].
  destruct t as [|y t]; [apply bsim_refl|].
  change (join [] (x :: y :: t)) with (x ++ [] ++ join [] (y :: t)).
  rewrite sjoin_cons2. cbn [tight] in Ht. apply orb_false_iff in Ht. destruct Ht as [Hxy Ht].
  apply negb_false_iff in Hxy. inversion Hne as [|? ? Hx Hne']; subst.
  specialize (IH Hne' Ht).
  change (x ++ [] ++ join [] (y :: t)) with (x ++ join [] (y :: t)).
  apply orb_true_iff in Hxy. destruct Hxy as [Hx'|Hy].
  - (* x ends in a blank *)
    rewrite app_assoc.
    apply bsim_app; [apply bsim_sym, bsim_blank_after_blank, Hx'|exact IH].
  - (* y starts with a blank *)
    apply bsim_app; [apply bsim_refl|].
    eapply bsim_trans; [exact IH|].
    destruct y as [|b y']; [discriminate|]. cbn [starts_blank] in Hy.
    destruct (sjoin_head [x20] b y' t) as [r Hr].
    pose proof (bsim_blank_before_blank b r Hy) as Hbb. rewrite <- Hr in Hbb.
    apply bsim_sym. exact Hbb.
Qed.

Lemma bsim_3_1 : bsim [x20; x20; x20] [x20].
Proof. apply bsim_blanks; try reflexivity; discriminate. Qed.

Lemma bsim_3sp_1 c : bsim ([x20; x20; x20] ++ sp c) [x20].
Proof. unfold sp. destruct (o_nopad c); apply bsim_blanks; try reflexivity; discriminate. Qed.
Lemma bsim_sp3_1 c : bsim (sp c ++ [x20; x20; x20]) [x20].
Proof. unfold sp. destruct (o_nopad c); apply bsim_blanks; try reflexivity; discriminate. Qed.

(* model body ~ grammar body *)
Lemma body_bsim c ts :
  renders (c_typ c) = true ->
  Forall (fun t => t <> []) ts ->
  d19_node c ts = false ->
  let nsp := positive c c_nspad in
  let ot := padValue (negb nsp && negb (nonempty (c_sym c))) (fst (typ c)) in
  let oc := c_typ c in
  bsim (if positive c c_lonce
        then (if negb (oc =? c_list) && (match ts with [] => false | _ => true end) then ot else []) ++ concat ts
        else if oc =? c_list
             then join (if nonempty (c_ljc c) then c_ljc c else if negb nsp then [x20] else []) ts
             else if nonempty (c_sym c)
                  then join (padValue (negb nsp) (if negb nsp then [x20] else []) ++ ot ++
                             padValue (negb nsp) (if negb nsp then [x20] else [])) ts
                  else join (padValue true [x20] ++ ot ++ padValue true [x20]) ts)
       (body c ts).
Proof.
  intros Hr Hne Hd nsp ot oc.
  pose proof (renders_nonzero _ Hr) as Hz.
  pose proof (kind_word c Hr) as Hk. pose proof (word_nonempty c Hr) as Hw.
  assert (Hot : ot = if has_sym c then c_sym c else sp c ++ word c ++ sp c).
  { unfold ot, nsp, typ, has_sym. cbn [fst]. rewrite <- notempty_nonempty.
    destruct (c_sym c) as [|s0 sy] eqn:Es; cbn [notempty negb].
    - rewrite andb_true_r, Hk. apply padValue_sp; assumption.
    - rewrite andb_false_r. unfold padValue. cbn [app]. rewrite app_nil_r. reflexivity. }
  unfold body. rewrite (positive_lonce c Hz).
  change (oc =? c_list) with (is_list c).
  destruct (o_lead c) eqn:Elead.
  - (* lead-once *)
    destruct ts as [|t0 ts'].
    + rewrite andb_false_r. apply bsim_refl.
    + rewrite andb_true_r. unfold lead. rewrite Hot. destruct (is_list c); cbn [negb]; apply bsim_refl.
  - destruct (is_list c) eqn:Elist.
    + (* LIST *)
      rewrite <- notempty_nonempty. destruct (notempty (c_ljc c)) eqn:Ej.
      * unfold sep. rewrite Elist, Ej. rewrite join_sjoin. apply bsim_refl.
      * unfold sep. rewrite Elist, Ej.
        unfold d19_node in Hd. rewrite Elist, Ej, Elead in Hd. cbn [negb andb] in Hd.
        unfold nsp. rewrite (positive_nspad c Hz).
        destruct (o_nopad c); cbn [negb andb] in *.
        -- apply bsim_join_loose; assumption.
        -- rewrite join_sjoin. apply bsim_refl.
    + rewrite <- notempty_nonempty. fold (has_sym c). unfold sep. rewrite Elist.
      rewrite Hot. destruct (has_sym c) eqn:Esym.
      * (* symbol *)
        unfold nsp. rewrite (positive_nspad c Hz). unfold sp.
        destruct (o_nopad c); cbn [negb padValue].
        -- rewrite join_sjoin. cbn [app]. rewrite app_nil_r. apply bsim_refl.
        -- apply bsim_join. apply bsim_app; [apply bsim_3_1|].
           apply bsim_app; [apply bsim_refl|apply bsim_3_1].
      * (* word *)
        apply bsim_join. change (padValue true [x20]) with [x20; x20; x20].
        replace ([x20; x20; x20] ++ (sp c ++ word c ++ sp c) ++ [x20; x20; x20])
          with (([x20; x20; x20] ++ sp c) ++ word c ++ (sp c ++ [x20; x20; x20]))
          by (rewrite <- !app_assoc; reflexivity).
        apply bsim_app; [apply bsim_3sp_1|].
        apply bsim_app; [apply bsim_refl|apply bsim_sp3_1].
Qed.

Lemma parens_bsim c a b : bsim a b -> bsim (parens c a) (parens c b).
Proof.
  intros H. unfold parens. destruct (o_paren c); [|exact H].
  apply bsim_app; [apply bsim_refl|]. apply bsim_app; [apply bsim_refl|].
  apply bsim_app; [exact H|apply bsim_refl].
Qed.

Theorem assemble_eq c ts :
  renders (c_typ c) = true ->
  Forall (fun t => t <> []) ts ->
  d19_node c ts = false ->
  assembleStringStack c ts
    (padValue (negb (positive c c_nspad) && negb (nonempty (c_sym c))) (fst (typ c))) (c_typ c)
  = assemble c ts.
Proof.
  intros Hr Hne Hd. unfold assembleStringStack, assemble.
  rewrite condense_eq. rewrite (paren_parens c _ Hr).
  change (padValue (negb (positive c c_nspad)) []) with (@nil byte).
  cbn [app]. rewrite app_nil_r.
  apply bsim_condense, parens_bsim.
  exact (body_bsim c ts Hr Hne Hd).
Qed.

(* ------------------------------------------------------------------------ *)
(* elements                                                                 *)

Lemma prim_no_stringer g t : prim_text g = Some t -> stringer_text g = None.
Proof. destruct g; cbn; intros H; try discriminate; reflexivity. Qed.

Lemma dah_ok c x :
  renders (c_typ c) = true -> dom x = true ->
  defaultAssertionHandler c x (Ok (render x)) = Ok (elem_text c x (render x)).
Proof.
  intros Hr Hd. pose proof (renders_nonzero _ Hr) as Hz.
  destruct x as [|g|a ic els|a ic kw op ex|a|a]; try discriminate Hd.
  - (* leaf *)
    cbn [dom] in Hd. cbn [defaultAssertionHandler elem_text].
    destruct (prim_text g) as [t|] eqn:Ep; [|discriminate].
    rewrite (prim_no_stringer g t Ep).
    unfold encapv.
    assert (Hb : (c_typ c =? c_basic) = false)
      by (destruct (renders_cases _ Hr) as [E|[E|[E|E]]]; rewrite E; reflexivity).
    rewrite Hb. cbn [negb]. rewrite encapValue_encap.
    destruct (encap (c_enc c) t) as [|e0 e] eqn:Ee; cbn [notempty].
    + reflexivity.
    + rewrite padValue_sp by (assumption || discriminate). reflexivity.
  - (* nested stack *)
    destruct a; try discriminate Hd.
    cbn [defaultAssertionHandler elem_text]. unfold typ, not_prefix, has_sym.
    rewrite <- !notempty_nonempty. change c_not with 3.
    destruct ((c_typ ic =? 3) && negb (notempty (c_sym ic))) eqn:En; [|reflexivity].
    cbn [bind andb].
    apply andb_true_iff in En. destruct En as [E3 Esym].
    apply negb_true_iff in Esym. rewrite Esym.
    assert (Hri : renders (c_typ ic) = true) by (apply N.eqb_eq in E3; rewrite E3; reflexivity).
    rewrite (kind_word ic Hri). reflexivity.
  - (* condition *)
    destruct a; try discriminate Hd. reflexivity.
Qed.

Lemma collect_ok c els :
  renders (c_typ c) = true ->
  Forall (fun x => dom x = true /\ node_string x = Ok (render x)) els ->
  collect c (map (fun x => (x, node_string x)) els) =
  Ok (texts_of c (map (fun x => (x, render x)) els)).
Proof.
  intros Hr H. induction H as [|x l [Hd Hx] Hl IH]; [reflexivity|].
  cbn [map collect]. rewrite Hx, (dah_ok c x Hr Hd). cbn [bind]. rewrite IH. cbn [bind].
  unfold texts_of. cbn [map filter fst snd].
  change (notempty (elem_text c x (render x))) with (nonempty (elem_text c x (render x))).
  destruct (nonempty (elem_text c x (render x))); reflexivity.
Qed.

Lemma texts_nonempty c l : Forall (fun t => t <> []) (texts_of c l).
Proof.
  unfold texts_of. apply Forall_forall. intros t Ht. apply filter_In in Ht.
  destruct Ht as [_ Ht]. destruct t; [discriminate|discriminate].
Qed.

(* ------------------------------------------------------------------------ *)
(* the main theorem                                                         *)

Lemma existsb_flat_map {A B} (p : B -> bool) (f : A -> list B) l :
  existsb p (flat_map f l) = false -> forall x, In x l -> existsb p (f x) = false.
Proof.
  induction l as [|a l IH]; intros H x Hin; [destruct Hin|].
  cbn [flat_map] in H. rewrite existsb_app in H. apply orb_false_iff in H. destruct H as [H1 H2].
  destruct Hin as [<-|Hin]; [exact H1|apply IH; assumption].
Qed.

Lemma plain_inv c : plain c = true -> c_vpf c = None /\ c_rpf c = None.
Proof. unfold plain. destruct (c_vpf c), (c_rpf c); intros H; try discriminate; auto. Qed.

Lemma stack_string_ok c els :
  plain c = true -> stack_kind (c_typ c) = true ->
  Forall (fun x => dom x = true /\ node_string x = Ok (render x)) els ->
  node_kf (VStack Native c els) = 0 ->
  stack_string c (map (fun x => (x, node_string x)) els) = Ok (render (VStack Native c els)).
Proof.
  intros Hp Hk Hels Hkf. destruct (plain_inv c Hp) as [Hv Hrp].
  unfold stack_string. rewrite Hv. unfold typ at 1. cbn [render].
  destruct (renders (c_typ c)) eqn:Hr.
  - assert (Hb : ((c_typ c =? 0) || (c_typ c =? c_basic)) = false)
      by (destruct (renders_cases _ Hr) as [E|[E|[E|E]]]; rewrite E; reflexivity).
    rewrite Hb, Hrp. rewrite (collect_ok c els Hr Hels). cbn [bind].
    cbn [node_kf] in Hkf. rewrite Hr in Hkf. cbn [andb] in Hkf.
    set (ts := texts_of c (map (fun x => (x, render x)) els)) in *.
    destruct (d19_node c ts) eqn:Hd; [discriminate|].
    f_equal. apply assemble_eq; try assumption. apply texts_nonempty.
  - unfold stack_kind in Hk. rewrite Hr in Hk. cbn [orb] in Hk. apply N.eqb_eq in Hk.
    rewrite Hk. reflexivity.
Qed.

Lemma cond_string_ok c kw op ex :
  plain c = true -> c_typ c = 5 ->
  (is_nil ex = true \/ (dom ex = true /\ node_string ex = Ok (render ex))) ->
  cond_string c kw op ex (node_string ex) = Ok (render (VCond Native c kw op ex)).
Proof.
  intros Hp Ht Hex. destruct (plain_inv c Hp) as [Hv Hrp].
  assert (Hz : c_typ c <> 0) by (rewrite Ht; discriminate).
  unfold cond_string, cond_valid. rewrite Ht, Hv. change (negb (5 =? c_cond)) with false. cbv iota.
  cbn [render]. unfold cvalid. rewrite <- notempty_nonempty.
  destruct (notempty kw) eqn:Ekw; cbn [negb andb bind]; [|reflexivity].
  destruct op as [o|]; [|reflexivity].
  assert (Hbog : (match o with OpBuiltin n => negb ((1 <=? n) && (n <=? 6)) | OpUser _ _ => false end)
                 = negb (op_ok (Some o))) by (destruct o; reflexivity).
  rewrite Hbog. destruct (op_ok (Some o)) eqn:Eop; cbn [negb andb bind]; [|reflexivity].
  destruct (is_nil ex) eqn:Enil; cbn [negb bind]; [reflexivity|].
  destruct Hex as [Hn|[Hd Hx]]; [congruence|].
  rewrite Hrp.
  assert (Hraw : match ex with
                 | VStack Native _ _ => node_string ex
                 | VCond Native _ _ _ _ => node_string ex
                 | VLeaf g => match stringer_text g with
                              | Some t => Ok t
                              | None => match prim_text g with Some t => Ok t | None => Ok s_unsupported end
                              end
                 | VNil | VZeroStack Native | VZeroCond Native => Ok s_unsupported
                 | _ => Unmodelled
                 end = Ok (value_text ex (render ex))).
  { destruct ex as [|g|a ic els|a ic kw' op' ex'|a|a]; try discriminate Hd.
    - cbn [dom] in Hd. destruct (prim_text g) as [t|] eqn:Ep; [|discriminate].
      rewrite (prim_no_stringer g t Ep). cbn [value_text]. rewrite Ep. reflexivity.
    - destruct a; try discriminate Hd. exact Hx.
    - destruct a; try discriminate Hd. exact Hx. }
  rewrite Hraw. cbn [bind]. f_equal.
  unfold cond_text. rewrite encapValue_encap, (positive_nspad c Hz), (positive_parens c Hz).
  rewrite (op_text_optext o Eop). unfold sp.
  destruct (o_nopad c), (o_paren c); reflexivity.
Qed.

Theorem model_eq_spec_guarded :
  forall v, dom v = true -> has_kf v = false -> node_string v = Ok (render v).
Proof.
  induction v as [|g|a c els IH|a c kw op ex IH|a|a] using value_ind'; intros Hd Hk;
    try discriminate Hd.
  - reflexivity.
  - (* stack *)
    destruct a; try discriminate Hd.
    cbn [dom] in Hd. apply andb_true_iff in Hd. destruct Hd as [Hd Hels].
    apply andb_true_iff in Hd. destruct Hd as [Hp Hkind].
    unfold has_kf in Hk. cbn [nodes existsb] in Hk. apply orb_false_iff in Hk.
    destruct Hk as [Hroot Hsub]. apply negb_false_iff, N.eqb_eq in Hroot.
    change (node_string (VStack Native c els)) with
      (stack_string c (map (fun x => (x, node_string x)) els)).
    apply stack_string_ok; try assumption.
    apply Forall_forall. intros x Hx. rewrite Forall_forall in IH.
    rewrite forallb_forall in Hels. split; [apply Hels, Hx|].
    apply IH; [exact Hx|apply Hels, Hx|].
    exact (existsb_flat_map _ nodes els Hsub x Hx).
  - (* condition *)
    destruct a; try discriminate Hd.
    cbn [dom] in Hd. apply andb_true_iff in Hd. destruct Hd as [Hd Hex].
    apply andb_true_iff in Hd. destruct Hd as [Hp Ht]. apply N.eqb_eq in Ht.
    unfold has_kf in Hk. cbn [nodes existsb] in Hk. apply orb_false_iff in Hk.
    destruct Hk as [_ Hsub].
    change (node_string (VCond Native c kw op ex)) with
      (cond_string c kw op ex (node_string ex)).
    apply cond_string_ok; try assumption.
    apply orb_true_iff in Hex. destruct Hex as [Hn|Hdx]; [left; exact Hn|].
    right. split; [exact Hdx|]. apply IH; assumption.
Qed.

(* ------------------------------------------------------------------------ *)
(* the shape that stays (D19): witness; the two repaired ones: now equal     *)

Definition leaf (s : string) : value := VLeaf (GStr (B s)).
Definition stk0 (kind opt : N) (els : list value) : value :=
  VStack Native (cfgS kind opt [] [] [] false 0%Z) els.

(* List().SetNoPadding(true).Push("a","b") *)
Definition w_list_nopad : value := stk0 4 4 [leaf "a"; leaf "b"].
(* List().Push(And().Push("a","b"), And().Push("c")) *)
Definition w_list_nested : value := stk0 4 0 [stk0 1 0 [leaf "a"; leaf "b"]; stk0 1 0 [leaf "c"]].
(* And().Push("a", Or().SetLeadOnce(true), "b") *)
Definition w_lead_empty : value := stk0 1 0 [leaf "a"; stk0 2 8 []; leaf "b"].

Lemma w_list_nopad_runs :
  dom w_list_nopad = true /\ kf_code w_list_nopad = 1 /\
  node_string w_list_nopad = Ok (B "ab") /\ render w_list_nopad = B "a b".
Proof. repeat split; vm_compute; reflexivity. Qed.

Lemma w_list_nested_runs :
  dom w_list_nested = true /\ kf_code w_list_nested = 0 /\
  node_string w_list_nested = Ok (B "a AND b c") /\ render w_list_nested = B "a AND b c".
Proof. repeat split; vm_compute; reflexivity. Qed.

Lemma w_lead_empty_runs :
  dom w_lead_empty = true /\ kf_code w_lead_empty = 0 /\
  node_string w_lead_empty = Ok (B "a AND b") /\ render w_lead_empty = B "a AND b".
Proof. repeat split; vm_compute; reflexivity. Qed.

Theorem model_eq_spec_refuted : exists v, dom v = true /\ node_string v <> Ok (render v).
Proof. exists w_list_nopad. split; [reflexivity|]. vm_compute. discriminate. Qed.

(* ------------------------------------------------------------------------ *)
(* corollaries on the model                                                 *)

Lemma condensed_nil : condensed [].
Proof. repeat split; auto. Qed.

(* whatever a Stack holds, its String() is condensed *)
Theorem stack_string_condensed :
  forall a c els s, node_string (VStack a c els) = Ok s -> condensed s.
Proof.
  intros a c els s H. destruct a; try discriminate H.
  change (node_string (VStack Native c els)) with
    (stack_string c (map (fun x => (x, node_string x)) els)) in H.
  unfold stack_string in H. destruct (c_vpf c); [discriminate|].
  destruct (typ c) as [ot oc].
  destruct ((oc =? 0) || (oc =? c_basic)).
  - inversion H. apply condensed_nil.
  - destruct (c_rpf c); [discriminate|].
    destruct (collect c _) as [str| |]; try discriminate H. cbn [bind] in H.
    inversion H. unfold assembleStringStack. rewrite condense_eq. apply condense_condensed.
Qed.

(* so a parent condensing it again changes nothing *)
Theorem stack_string_recondense :
  forall a c els s, node_string (VStack a c els) = Ok s -> condenseWHSP s = s.
Proof.
  intros a c els s H. rewrite condense_eq. apply condense_id.
  exact (stack_string_condensed a c els s H).
Qed.

(* an element whose text is empty might as well not be there *)
Lemma collect_app c l1 l2 :
  collect c (l1 ++ l2) =
  (do a <- collect c l1; do b <- collect c l2; Ok (a ++ b)).
Proof.
  induction l1 as [|[x xs] l1 IH].
  - cbn [app collect bind]. destruct (collect c l2); reflexivity.
  - cbn [app collect]. destruct (defaultAssertionHandler c x xs) as [v| |]; cbn [bind]; try reflexivity.
    rewrite IH. destruct (collect c l1) as [a| |]; cbn [bind]; try reflexivity.
    destruct (collect c l2) as [b| |]; cbn [bind]; try reflexivity.
    destruct (nonempty v); reflexivity.
Qed.

Theorem nothing_dangles :
  forall c l1 x l2,
    defaultAssertionHandler c x (node_string x) = Ok [] ->
    node_string (VStack Native c (l1 ++ x :: l2)) = node_string (VStack Native c (l1 ++ l2)).
Proof.
  intros c l1 x l2 Hx.
  change (node_string (VStack Native c (l1 ++ x :: l2))) with
    (stack_string c (map (fun x => (x, node_string x)) (l1 ++ x :: l2))).
  change (node_string (VStack Native c (l1 ++ l2))) with
    (stack_string c (map (fun x => (x, node_string x)) (l1 ++ l2))).
  unfold stack_string. rewrite !map_app. cbn [map]. rewrite !collect_app.
  cbn [collect]. rewrite Hx. cbn [bind nonempty].
  destruct (collect c (map _ l2)); reflexivity.
Qed.

(* the three kinds of element the property names contribute the empty text *)
Lemma basic_contributes_nothing c ic els :
  plain ic = true -> c_typ ic = 6 ->
  defaultAssertionHandler c (VStack Native ic els) (node_string (VStack Native ic els)) = Ok [].
Proof.
  intros Hp Ht. destruct (plain_inv ic Hp) as [Hv _].
  change (node_string (VStack Native ic els)) with
    (stack_string ic (map (fun x => (x, node_string x)) els)).
  unfold stack_string, defaultAssertionHandler, typ. rewrite Hv, Ht. reflexivity.
Qed.

Lemma empty_text_contributes_nothing c x :
  (exists ic els, x = VStack Native ic els) \/ (exists ic kw op ex, x = VCond Native ic kw op ex) ->
  node_string x = Ok [] ->
  defaultAssertionHandler c x (node_string x) = Ok [].
Proof.
  intros [(ic & els & ->)|(ic & kw & op & ex & ->)] H; rewrite H.
  - cbn [defaultAssertionHandler]. destruct (typ ic) as [ik icode].
    destruct ((icode =? c_not) && negb (nonempty (c_sym ic))); reflexivity.
  - reflexivity.
Qed.

Lemma invalid_cond_renders_nothing c kw op ex :
  plain c = true -> c_typ c = 5 -> cvalid kw op ex = false ->
  node_string (VCond Native c kw op ex) = Ok [].
Proof.
  intros Hp Ht Hv. destruct (plain_inv c Hp) as [Hvp _].
  change (node_string (VCond Native c kw op ex)) with (cond_string c kw op ex (node_string ex)).
  unfold cond_string, cond_valid. rewrite Ht, Hvp. change (negb (5 =? c_cond)) with false. cbv iota.
  unfold cvalid in Hv. rewrite <- notempty_nonempty.
  destruct (notempty kw); cbn [negb andb bind] in *; [|reflexivity].
  destruct op as [o|]; [|reflexivity].
  assert (Hbog : (match o with OpBuiltin n => negb ((1 <=? n) && (n <=? 6)) | OpUser _ _ => false end)
                 = negb (op_ok (Some o))) by (destruct o; reflexivity).
  rewrite Hbog. destruct (op_ok (Some o)); cbn [negb andb bind] in *; [|reflexivity].
  rewrite Hv. reflexivity.
Qed.

Lemma empty_stack_renders_nothing c :
  plain c = true -> stack_kind (c_typ c) = true -> o_paren c = false ->
  node_string (VStack Native c []) = Ok [].
Proof.
  intros Hp Hk Hpar.
  assert (Hkf : node_kf (VStack Native c []) = 0).
  { cbn [node_kf map]. destruct (renders (c_typ c)); [|reflexivity].
    unfold texts_of, d19_node. cbn [map filter tight]. rewrite !andb_false_r. reflexivity. }
  change (node_string (VStack Native c [])) with (stack_string c (map (fun x => (x, node_string x)) [])).
  rewrite (stack_string_ok c [] Hp Hk (Forall_nil _) Hkf). f_equal.
  cbn [render map]. destruct (renders (c_typ c)); [|reflexivity].
  unfold assemble, texts_of, parens, body. cbn [map filter sjoin]. rewrite Hpar.
  destruct (o_lead c); reflexivity.
Qed.

(* ------------------------------------------------------------------------ *)
(* non-white bytes are reproduced once, in order (on the grammar)           *)

Notation F := (filter nonws).

Lemma F_app a b : F (a ++ b) = F a ++ F b.
Proof. apply filter_app. Qed.

Lemma F_concat l : F (concat l) = concat (map F l).
Proof. induction l as [|x l IH]; [reflexivity|]. cbn [concat map]. rewrite F_app, IH. reflexivity. Qed.

Lemma F_sjoin s l : F (sjoin s l) = sjoin (F s) (map F l).
Proof.
  induction l as [|x l IH]; [reflexivity|]. destruct l as [|y l]; [reflexivity|].
  rewrite sjoin_cons2. cbn [map]. rewrite sjoin_cons2. rewrite !F_app, IH. reflexivity.
Qed.

Lemma F_body c ts ts' : map F ts = map F ts' -> length ts = length ts' -> F (body c ts) = F (body c ts').
Proof.
  intros H Hl. unfold body. destruct (o_lead c).
  - destruct ts, ts'; try discriminate Hl; [reflexivity|].
    rewrite !F_app, !F_concat, H. reflexivity.
  - rewrite !F_sjoin, H. reflexivity.
Qed.

Lemma F_parens c a b : F a = F b -> F (parens c a) = F (parens c b).
Proof. intros H. unfold parens. destruct (o_paren c); [|exact H]. rewrite !F_app, H. reflexivity. Qed.

Lemma F_encap enc a b : F a = F b -> F (encap enc a) = F (encap enc b).
Proof.
  intros H. induction enc as [|p enc IH]; [exact H|].
  cbn [encap fold_right]. fold (encap enc a). fold (encap enc b).
  destruct p as [|l [|r [|x p]]]; cbn [wrap]; rewrite ?F_app, ?IH; reflexivity.
Qed.

Lemma F_nonempty_of_condensed s : condensed s -> s <> [] -> F s <> [].
Proof.
  intros Hc Hn. destruct (condensed_nonempty_has_nonws s Hc Hn) as (a & Hin & Hw).
  intro E. assert (Hin' : In a (F s)) by (apply filter_In; split; [exact Hin|unfold nonws; rewrite Hw; reflexivity]).
  rewrite E in Hin'. destruct Hin'.
Qed.

Lemma render_stack_condensed a c els : condensed (render (VStack a c els)).
Proof.
  cbn [render]. destruct (renders (c_typ c)); [|apply condensed_nil].
  unfold assemble. apply condense_condensed.
Qed.

Lemma F_not_prefix ic r r' :
  F r = F r' -> (r <> [] -> r' <> []) -> r <> [] -> F (not_prefix ic r) = F (not_prefix ic r').
Proof.
  intros H Himp Hr. unfold not_prefix.
  destruct r as [|r0 rt]; [elim Hr; reflexivity|].
  destruct r' as [|r0' rt']; [elim (Himp Hr); reflexivity|].
  cbn [notempty]. destruct ((c_typ ic =? 3) && negb (has_sym ic) && true); [|exact H].
  rewrite !F_app, H. reflexivity.
Qed.

Lemma not_prefix_nil ic : not_prefix ic [] = [].
Proof. unfold not_prefix. cbn [notempty]. rewrite andb_false_r. reflexivity. Qed.

Lemma not_prefix_nonempty ic r : not_prefix ic r <> [] -> r <> [].
Proof. intros H E. subst r. apply H, not_prefix_nil. Qed.

(* element texts: the kept ones agree up to white space *)
Lemma F_elem_text c x :
  F (render x) = F (raw x) ->
  elem_text c x (render x) <> [] ->
  F (elem_text c x (render x)) = F (elem_text c x (raw x)).
Proof.
  intros IH Hne. destruct x as [|g|a ic els|a ic kw op ex|a|a]; try reflexivity.
  - cbn [elem_text] in *. apply F_not_prefix; [exact IH| |exact (not_prefix_nonempty _ _ Hne)].
    intros Hr E. apply (F_nonempty_of_condensed _ (render_stack_condensed a ic els) Hr).
    rewrite IH, E. reflexivity.
  - cbn [elem_text]. exact IH.
Qed.

Lemma raw_texts_map c (f g : value -> bytes) els :
  raw_texts_of c (map (fun x => (x, (f x, g x))) els) =
  map (fun x => elem_text c x (g x)) (filter (fun x => notempty (elem_text c x (f x))) els).
Proof.
  unfold raw_texts_of. induction els as [|x l IH]; [reflexivity|].
  cbn [map filter fst snd]. destruct (notempty (elem_text c x (f x))); cbn [map fst snd]; rewrite IH; reflexivity.
Qed.

Lemma texts_map c (f : value -> bytes) els :
  texts_of c (map (fun x => (x, f x)) els) =
  map (fun x => elem_text c x (f x)) (filter (fun x => notempty (elem_text c x (f x))) els).
Proof.
  unfold texts_of. induction els as [|x l IH]; [reflexivity|].
  cbn [map filter fst snd]. destruct (notempty (elem_text c x (f x))); cbn [map]; rewrite IH; reflexivity.
Qed.

Theorem nonblank_preserved : forall v, F (render v) = F (raw v).
Proof.
  induction v as [|g|a c els IH|a c kw op ex IH|a|a] using value_ind'; try reflexivity.
  - cbn [render raw]. destruct (renders (c_typ c)); [|reflexivity].
    unfold assemble, raw_assemble. rewrite filter_nonws_condense.
    apply F_parens. rewrite texts_map, raw_texts_map.
    apply F_body; [|rewrite !map_length; reflexivity].
    rewrite !map_map. apply map_ext_in. intros x Hx. apply filter_In in Hx. destruct Hx as [Hx Hne].
    rewrite Forall_forall in IH. apply F_elem_text; [apply IH, Hx|].
    destruct (elem_text c x (render x)); [discriminate|discriminate].
  - cbn [render raw]. destruct (cvalid kw op ex); [|reflexivity].
    unfold cond_text.
    assert (Hv : F (value_text ex (render ex)) = F (value_text ex (raw ex)))
      by (destruct ex; try reflexivity; exact IH).
    pose proof (F_encap (c_enc c) _ _ Hv) as He.
    destruct (o_paren c); rewrite !F_app, He; reflexivity.
Qed.

(* the same for the model, wherever it is the grammar *)
Corollary model_nonblank_preserved :
  forall v s, dom v = true -> has_kf v = false -> node_string v = Ok s -> F s = F (raw v).
Proof.
  intros v s Hd Hk Hs. rewrite (model_eq_spec_guarded v Hd Hk) in Hs. inversion Hs.
  apply nonblank_preserved.
Qed.

(* a leaf's text is part of the raw concatenation verbatim, hence any UTF-8
   text survives byte for byte: multi-byte sequences have no white byte *)
Lemma F_id_no_ws s : forallb nonws s = true -> F s = s.
Proof.
  induction s as [|a t IH]; [reflexivity|]. cbn [forallb filter]. intros H.
  apply andb_true_iff in H. destruct H as [Ha Ht]. rewrite Ha, IH by exact Ht. reflexivity.
Qed.

(* ------------------------------------------------------------------------ *)
(* the statements of "contributes nothing" for the three kinds of element   *)

Theorem basic_leaves_no_trace c l1 ic els l2 :
  plain ic = true -> c_typ ic = 6 ->
  node_string (VStack Native c (l1 ++ VStack Native ic els :: l2)) =
  node_string (VStack Native c (l1 ++ l2)).
Proof. intros Hp Ht. apply nothing_dangles, basic_contributes_nothing; assumption. Qed.

Theorem invalid_cond_leaves_no_trace c l1 ic kw op ex l2 :
  plain ic = true -> c_typ ic = 5 -> cvalid kw op ex = false ->
  node_string (VStack Native c (l1 ++ VCond Native ic kw op ex :: l2)) =
  node_string (VStack Native c (l1 ++ l2)).
Proof.
  intros Hp Ht Hv. apply nothing_dangles, empty_text_contributes_nothing.
  - right. eauto.
  - apply invalid_cond_renders_nothing; assumption.
Qed.

Theorem empty_stack_leaves_no_trace c l1 ic l2 :
  plain ic = true -> stack_kind (c_typ ic) = true -> o_paren ic = false ->
  node_string (VStack Native c (l1 ++ VStack Native ic [] :: l2)) =
  node_string (VStack Native c (l1 ++ l2)).
Proof.
  intros Hp Hk Hpar. apply nothing_dangles, empty_text_contributes_nothing.
  - left. eauto.
  - apply empty_stack_renders_nothing; assumption.
Qed.

(* a nested NOT stack with a word operator is prefixed by that word once, in
   the NOT stack's own case (D20 repaired), and only when it renders
   something (D21 repaired) *)
Theorem not_prefix_own_case c ic els s :
  c_typ ic = 3 -> c_sym ic = [] ->
  defaultAssertionHandler c (VStack Native ic els) (Ok s) =
  Ok (if nonempty s then (if o_fold ic then B "not" else B "NOT") ++ [x20] ++ s else []).
Proof.
  intros Ht Hs. cbn [defaultAssertionHandler]. unfold typ. rewrite Hs, Ht. cbn [nonempty negb andb bind].
  change (3 =? c_not) with true. cbv iota.
  assert (Hr : renders (c_typ ic) = true) by (rewrite Ht; reflexivity).
  rewrite (kind_word ic Hr). unfold word. rewrite Ht. destruct s; [reflexivity|].
  destruct (o_fold ic); reflexivity.
Qed.
