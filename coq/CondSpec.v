(* CondSpec.v -- what property C06 says about a Condition, as functions of the
   HISTORY of calls (most recent call first).  Nothing here mentions a stored
   state, option bit words, the order of checks in the code or how the text
   is assembled: every observable is "the most recently accepted argument",
   found by looking back through the history.

   Must not import Generated.v or the model. *)
From Stackage Require Import Base Values CondOps.
Open Scope Z_scope.

Definition nonempty (b : bytes) : bool := match b with [] => false | _ => true end.

(* ---- which arguments are accepted ---- *)

(* a keyword is accepted when it is a string or has a String method *)
Definition kw_accepted (k : kwarg) : option bytes :=
  match k with KStr s => Some s | KStringer t => Some t | KOther => None end.

(* the six defined comparison operators *)
Definition builtin_text (n : N) : option bytes :=
  match n with
  | 1%N => Some (B "=")  | 2%N => Some (B "!=") | 3%N => Some (B "<")
  | 4%N => Some (B ">")  | 5%N => Some (B "<=") | 6%N => Some (B ">=")
  | _ => None
  end.

(* text and context of a user operator are its own; every built-in operator
   value has the context "comparison" and some non-empty text *)
Definition op_has_text_and_context (o : oper) : bool :=
  match o with
  | OpBuiltin _ => true
  | OpUser t c => nonempty t && nonempty c
  end.

(* an operator is rejected when it is nil or has empty text or context *)
Definition op_accepted (o : option oper) : option oper :=
  match o with
  | Some x => if op_has_text_and_context x then Some x else None
  | None => None
  end.

Definition is_empty_string (x : value) : bool :=
  match x with VLeaf (GStr []) => true | _ => false end.

(* an expression is rejected when it is nil, the empty string, a Stack while
   no-nesting is set, or anything at all while Err() is non-nil *)
Definition ex_accepted (nonest err : bool) (x : value) : bool :=
  negb (is_nil x) && negb (is_empty_string x) && negb (nonest && is_stack x) && negb err.

(* ---- validity and rendering of given components ---- *)

Definition op_defined (o : option oper) : bool :=
  match o with
  | Some (OpBuiltin n) => match builtin_text n with Some _ => true | None => false end
  | Some (OpUser _ _) => true
  | None => false
  end.

Definition components_valid (kw : bytes) (op : option oper) (ex : value) : bool :=
  nonempty kw && op_defined op && negb (is_nil ex).

Definition sp_op_text (o : oper) : bytes :=
  match o with
  | OpBuiltin n => match builtin_text n with Some t => t | None => [] end
  | OpUser t _ => t
  end.

(* one encapsulation pair around a text: a one-element pair is used on both
   sides; the list is outermost first *)
Definition wrap_pair (p : list bytes) (v : bytes) : bytes :=
  match p with
  | [a] => a ++ v ++ a
  | [a; b] => a ++ v ++ b
  | _ => v
  end.
Definition encapsulated (enc : list (list bytes)) (v : bytes) : bytes := fold_right wrap_pair v enc.

Fixpoint join (sep : bytes) (l : list bytes) : bytes :=
  match l with
  | [] => []
  | [x] => x
  | x :: t => x ++ sep ++ join sep t
  end.

(* keyword, operator text and encapsulated expression rendering separated by
   single blanks (none under no-padding), parenthesised iff requested *)
Definition rendering (nopad paren : bool) (enc : list (list bytes)) (kw : bytes) (o : oper) (ex_text : bytes) : bytes :=
  let sep := if nopad then [] else B " " in
  let core := [kw; sp_op_text o; encapsulated enc ex_text] in
  join sep (if paren then [B "("] ++ core ++ [B ")"] else core).

(* ---- looking back through a history (most recent call first) ---- *)

Definition tri (t : option bool) (before : bool) : bool :=
  match t with Some b => b | None => negb before end.

(* has the variable been given a Condition by Cond(...) or Init() *)
Fixpoint sp_inited (rh : list cop) : bool :=
  match rh with
  | [] => false
  | OCond _ _ _ :: _ | OInit :: _ => true
  | _ :: r => sp_inited r
  end.

Fixpoint sp_kw (rh : list cop) : bytes :=
  match rh with
  | [] => []
  | OInit :: _ => []
  | OCond k _ _ :: _ => match kw_accepted k with Some s => s | None => [] end
  | OSetKeyword k :: r =>
      match kw_accepted k with
      | Some s => if sp_inited r then s else sp_kw r
      | None => sp_kw r
      end
  | _ :: r => sp_kw r
  end.

Fixpoint sp_op (rh : list cop) : option oper :=
  match rh with
  | [] => None
  | OInit :: _ => None
  | OCond _ o _ :: _ => op_accepted o
  | OSetOperator o :: r =>
      match op_accepted o with
      | Some x => if sp_inited r then Some x else sp_op r
      | None => sp_op r
      end
  | _ :: r => sp_op r
  end.

(* the expression Cond(kw, op, ex) stores: a fresh Condition has no options
   set and no error *)
Definition cond_ex (x : value) : value := if ex_accepted false false x then x else VNil.

Definition cond_components_valid (k : kwarg) (o : option oper) (x : value) : bool :=
  components_valid (match kw_accepted k with Some s => s | None => [] end) (op_accepted o) (cond_ex x).

(* Err() is non-nil: set by SetErr, or by Cond(...) when what it built is not valid *)
Fixpoint sp_err (rh : list cop) : bool :=
  match rh with
  | [] => false
  | OInit :: _ => false
  | OCond k o x :: _ => negb (cond_components_valid k o x)
  | OSetErr e :: r => if sp_inited r then (match e with Some _ => true | None => false end) else false
  | _ :: r => sp_err r
  end.

Fixpoint sp_nonest (rh : list cop) : bool :=
  match rh with
  | [] => false
  | OInit :: _ | OCond _ _ _ :: _ => false
  | OSetNoNesting t :: r => if sp_inited r then tri t (sp_nonest r) else false
  | _ :: r => sp_nonest r
  end.

Fixpoint sp_nopad (rh : list cop) : bool :=
  match rh with
  | [] => false
  | OInit :: _ | OCond _ _ _ :: _ => false
  | OSetNoPadding t :: r => if sp_inited r then tri t (sp_nopad r) else false
  | _ :: r => sp_nopad r
  end.

Fixpoint sp_paren (rh : list cop) : bool :=
  match rh with
  | [] => false
  | OInit :: _ | OCond _ _ _ :: _ => false
  | OSetParen t :: r => if sp_inited r then tri t (sp_paren r) else false
  | _ :: r => sp_paren r
  end.

(* encapsulation: SetEncap() clears; otherwise each string / string list
   argument adds a pair unless one of its (first two) characters is already
   in use; an empty list and other types are ignored *)
Definition mem_bytes (s : bytes) (l : list bytes) : bool := existsb (bytes_eqb s) l.
Definition in_use (enc : list (list bytes)) (s : bytes) : bool := existsb (mem_bytes s) enc.
Definition enc_add (enc : list (list bytes)) (p : list bytes) : list (list bytes) :=
  match p with
  | [] => enc
  | _ => if existsb (in_use enc) (firstn 2 p) then enc else enc ++ [p]
  end.
Definition enc_arg (enc : list (list bytes)) (x : encarg) : list (list bytes) :=
  match x with EStr s => enc_add enc [s] | ESlice l => enc_add enc l | EOther => enc end.

Fixpoint sp_enc (rh : list cop) : list (list bytes) :=
  match rh with
  | [] => []
  | OInit :: _ | OCond _ _ _ :: _ => []
  | OSetEncap xs :: r =>
      if sp_inited r then (match xs with [] => [] | _ => fold_left enc_arg xs (sp_enc r) end) else []
  | _ :: r => sp_enc r
  end.

Fixpoint sp_ex (rh : list cop) : value :=
  match rh with
  | [] => VNil
  | OInit :: _ => VNil
  | OCond _ _ x :: _ => cond_ex x
  | OSetExpression x :: r =>
      if sp_inited r && ex_accepted (sp_nonest r) (sp_err r) x then x else sp_ex r
  | _ :: r => sp_ex r
  end.

(* ---- the observables after a history ---- *)

Definition sp_valid (rh : list cop) : bool :=
  sp_inited rh && components_valid (sp_kw rh) (sp_op rh) (sp_ex rh).

Section Rendered.
  (* the text of an expression value: the rendering module's business *)
  Variable ex_text : value -> bytes.

  Definition sp_string (rh : list cop) : bytes :=
    if sp_valid rh then
      match sp_op rh with
      | Some o => rendering (sp_nopad rh) (sp_paren rh) (sp_enc rh) (sp_kw rh) o (ex_text (sp_ex rh))
      | None => []
      end
    else [].
End Rendered.

(* C13, Condition part *)
Definition sp_cannest (rh : list cop) : bool := sp_inited rh && negb (sp_nonest rh).
Definition sp_isnesting (rh : list cop) : bool := is_stack (sp_ex rh).
Definition sp_len (rh : list cop) : Z :=
  match sp_ex rh with
  | VNil => 0
  | VStack _ _ els => zlen els
  | _ => 1
  end.
